// C09 harness: the real exchange.ClientExchange.Run against the real exchange.ServerExchange.Run
// over the in-memory transport (through the relaying proxy of harness/xkit, which can delay
// messages to vary the interleaving), with recorded random streams on both sides.
//
// Oracle (independent of the model): both sides succeed; same 256-byte key, same key id, same
// salt; key = big-endian(3^(a*b) mod p) for the a, b actually drawn; id = SHA1(key)[12:20];
// salt = new_nonce[0:8] xor server_nonce[0:8]; the key is not zero; ExpiresAt set iff temporary.
package main

import (
	"bytes"
	"context"
	"encoding/binary"
	"fmt"
	"math/big"
	"time"

	"github.com/gotd/td/bin"
	"github.com/gotd/td/crypto"
	"github.com/gotd/td/exchange"
	"github.com/gotd/td/mt"
	"github.com/gotd/td/testutil"
	"github.com/gotd/td/verifharness/hx"
	"github.com/gotd/td/verifharness/xkit"
)

type cfg struct {
	Seed    uint64 `json:"seed"`
	DC      int    `json:"dc"`
	Expires int    `json:"expires"` // 0 = permanent
	Jitter  bool   `json:"jitter"`
}

var primeMemo = map[string]bool{}

func isPrime(p *big.Int) bool {
	k := p.String()
	if v, ok := primeMemo[k]; ok {
		return v
	}
	v := p.ProbablyPrime(64)
	primeMemo[k] = v
	return v
}

func main() {
	c := hx.Start("C09", "Run.Check_C09", 4)
	key := exchange.PrivateKey{RSA: testutil.RSAPrivateKey()}
	one := func(cf cfg) {
		c.Obs.Evaluations++
		jr := hx.NewRand(cf.Seed + 7)
		h := xkit.Hooks{}
		if cf.Jitter {
			d := func(i int, p []byte) ([]byte, xkit.Action) {
				time.Sleep(time.Duration(jr.Intn(3000)) * time.Microsecond)
				return p, xkit.Forward
			}
			h.C2S, h.S2C = d, d
		}
		l := xkit.NewLink(h)
		defer l.Close()
		cr := &xkit.RecRand{R: hx.NewRand(cf.Seed)}
		sr := &xkit.RecRand{R: hx.NewRand(cf.Seed + 1)}
		ctx, cancel := context.WithTimeout(context.Background(), 60*time.Second)
		defer cancel()
		type sres struct {
			r   exchange.ServerExchangeResult
			err error
		}
		sch := make(chan sres, 1)
		go func() {
			r, err := exchange.NewExchanger(l.Server, cf.DC).WithRand(sr).WithTimeout(30 * time.Second).Server(key).Run(ctx)
			sch <- sres{r, err}
		}()
		ex := exchange.NewExchanger(l.Client, cf.DC).WithRand(cr).WithTimeout(30 * time.Second)
		if cf.Expires > 0 {
			ex = ex.WithTempMode(cf.Expires)
		}
		var cres exchange.ClientExchangeResult
		var cerr error
		pn, _ := hx.Recover(func() {
			cres, cerr = ex.Client([]exchange.PublicKey{key.Public()}).Run(ctx)
		})
		var s sres
		select {
		case s = <-sch:
		case <-time.After(20 * time.Second):
			s.err = fmt.Errorf("server did not finish")
		}
		c.Count(fmt.Sprintf("mode-temp=%v:jitter=%v:client-ok=%v:server-ok=%v", cf.Expires > 0, cf.Jitter, cerr == nil && !pn, s.err == nil))

		// ---- random values actually drawn ----
		n16, n32, b256 := cr.OfSize(16), cr.OfSize(32), cr.OfSize(256)
		s16, a256 := sr.OfSize(16), sr.OfSize(256)
		if len(n16) < 1 || len(n32) < 1 || len(b256) != 1 || len(s16) < 1 || len(a256) < 1 {
			c.Violate("random-stream-shape", fmt.Sprintf("unexpected shape of the recorded random streams (client 16:%d 32:%d 256:%d, server 16:%d 256:%d; client err %v, server err %v)",
				len(n16), len(n32), len(b256), len(s16), len(a256), cerr, s.err), -1, 0, cf)
			return
		}
		nonce, newNonce, serverNonce := n16[0], n32[0], s16[0]
		b := new(big.Int).SetBytes(b256[0])
		p, _ := exchange.TestServerRNG{}.DhPrime()
		three := big.NewInt(3)
		var gas []*big.Int
		for _, ab := range a256 {
			gas = append(gas, new(big.Int).Exp(three, new(big.Int).SetBytes(ab), p))
		}
		a := new(big.Int).SetBytes(a256[len(a256)-1])
		ga := gas[len(gas)-1]
		gb := new(big.Int).Exp(three, b, p)
		kc := new(big.Int).Exp(ga, b, p)
		ks := new(big.Int).Exp(gb, a, p)
		var keyC crypto.Key
		kc.FillBytes(keyC[:])
		var nn bin.Int256
		copy(nn[:], newNonce)
		h1 := crypto.NonceHash1(nn, keyC)
		kid := keyC.ID()
		// pq and its factors as the client sent them
		var pq, fp, fq *big.Int = big.NewInt(0), big.NewInt(0), big.NewInt(0)
		for _, e := range l.Events() {
			if e.Dir == "s2c" && e.I == 1 {
				if _, body, err := xkit.Body(e.Data); err == nil {
					var m mt.ResPQ
					if m.Decode(&bin.Buffer{Buf: body}) == nil {
						pq = new(big.Int).SetBytes(m.Pq)
						if !bytes.Equal(m.Nonce[:], nonce) || !bytes.Equal(m.ServerNonce[:], serverNonce) {
							c.Violate("random-stream-shape", "nonce / server_nonce on the wire are not the first 16-byte reads", -1, 0, cf)
							return
						}
					}
				}
			}
			if e.Dir == "c2s" && e.I == 2 {
				if _, body, err := xkit.Body(e.Data); err == nil {
					var m mt.ReqDHParamsRequest
					if m.Decode(&bin.Buffer{Buf: body}) == nil {
						fp, fq = new(big.Int).SetBytes(m.P), new(big.Int).SetBytes(m.Q)
					}
				}
			}
		}
		half := new(big.Int).Rsh(new(big.Int).Sub(p, big.NewInt(1)), 1)
		// ---- observations ----
		obs := func(ok bool, k crypto.AuthKey, salt int64, errc int) string {
			if !ok {
				return hx.Tuple(hx.Z(int64(errc)), "[]", "[]", "0")
			}
			return hx.Tuple("0", hx.Bytes(k.Value[:]), hx.Bytes(k.ID[:]), hx.Z(salt))
		}
		cc := xkit.ErrClass(cerr)
		if pn {
			cc = 99
		}
		var gaStr []string
		for _, g := range gas {
			gaStr = append(gaStr, xkit.BigBytes(g))
		}
		js := map[string]interface{}{"config": cf, "client_err": fmt.Sprint(cerr), "server_err": fmt.Sprint(s.err), "a_candidates": len(a256),
			"client_key_id": fmt.Sprintf("%x", cres.AuthKey.ID), "server_key_id": fmt.Sprintf("%x", s.r.Key.ID), "client_salt": cres.ServerSalt, "server_salt": s.r.ServerSalt}
		sh, ix := c.Case(hx.Tuple(
			hx.Tuple(hx.Z(int64(cf.DC)), hx.Z(int64(cf.DC)), hx.Z(int64(cf.Expires))),
			hx.Tuple(hx.Bytes(nonce), hx.Bytes(newNonce), hx.Bytes(serverNonce)),
			hx.Tuple(xkit.BigBytes(pq), xkit.BigBytes(fp), xkit.BigBytes(fq)),
			hx.Tuple(xkit.BigBytes(p), hx.B(isPrime(p)), hx.B(isPrime(half))),
			hx.List(gaStr),
			hx.Tuple(xkit.BigBytes(gb), xkit.BigBytes(kc), xkit.BigBytes(ks)),
			hx.Tuple(hx.Bytes(h1[:]), hx.Bytes(kid[:])),
			obs(cerr == nil && !pn, cres.AuthKey, cres.ServerSalt, cc),
			obs(s.err == nil, s.r.Key, s.r.ServerSalt, 1)), js)
		c.Nontrivial(fmt.Sprintf("%x", newNonce))
		c.Sample(js)
		// ---- oracle ----
		bad := func(sig, desc string) {
			c.Violate(sig, fmt.Sprintf("dc=%d expires=%d seed=%d: %s", cf.DC, cf.Expires, cf.Seed, desc), sh, ix, cf)
		}
		if pn {
			bad("client-panic", "ClientExchange.Run panicked")
			return
		}
		if cerr != nil || s.err != nil {
			// the only legitimate failure of an honest run: g_b outside the safety range (probability ~2^-63)
			bad("honest-exchange-failed", fmt.Sprintf("client error %v, server error %v", cerr, s.err))
			return
		}
		want := make([]byte, 256)
		new(big.Int).Exp(three, new(big.Int).Mul(a, b), p).FillBytes(want)
		switch {
		case cres.AuthKey.Value != s.r.Key.Value:
			bad("keys-differ", "client and server auth keys differ")
		case !bytes.Equal(cres.AuthKey.Value[:], want):
			bad("key-not-g-ab", "the agreed key is not big-endian(g^(ab) mod p)")
		case cres.AuthKey.ID != s.r.Key.ID || !bytes.Equal(cres.AuthKey.ID[:], xkit.KeyID(want)):
			bad("key-id-wrong", "key ids differ or are not SHA1(key)[12:20]")
		case cres.ServerSalt != s.r.ServerSalt:
			bad("salts-differ", "client and server salts differ")
		case cres.AuthKey.Value == (crypto.Key{}):
			bad("zero-key", "client returned the zero key")
		default:
			var x [8]byte
			for i := range x {
				x[i] = newNonce[i] ^ serverNonce[i]
			}
			if cres.ServerSalt != int64(binary.LittleEndian.Uint64(x[:])) {
				bad("salt-not-xor", "salt is not new_nonce[0:8] xor server_nonce[0:8]")
			}
			if (cf.Expires > 0) != (cres.ExpiresAt != 0) {
				bad("expires-mode", "ExpiresAt does not reflect the exchange mode")
			}
			if cres.SessionID == 0 {
				c.Count("session-id-zero")
			}
		}
	}
	var rp cfg
	if c.LoadReplay(&rp) {
		one(rp)
		fmt.Printf("replay: %+v -> violations=%d\n", rp, len(c.Obs.Violations))
		c.Finish()
		return
	}
	dcs := []int{2, 1, 5, 0, -1, 10002, 2147483647, -2147483648}
	n := c.N(10, 300)
	for i := 0; i < n; i++ {
		cf := cfg{Seed: c.Rng.U64(), DC: dcs[i%len(dcs)], Jitter: i%3 == 2}
		if i%2 == 1 {
			cf.Expires = []int{60, 3600, 86400, 1}[c.Rng.Intn(4)]
		}
		if i >= len(dcs) {
			cf.DC = int(int32(c.Rng.U64()))
		}
		one(cf)
	}
	c.Obs.Rule = "honest exchanges with fresh random streams on both sides (splitmix64 from the run seed), alternating permanent / temporary mode (expires 1..86400), dc over {2,1,5,0,-1,10002,MaxInt32,MinInt32} then random int32, a third of the runs with 0..3 ms random delays in the relay; non-trivial = distinct new_nonce"
	c.Finish()
}
