// C17 harness: codec.Read of every transport codec on arbitrary byte streams (all short
// length-prefix classes x short tails, mutated valid streams, random bytes), served in
// random chunks, under recover(), with the heap bytes allocated by the call measured.
package main

import (
	"bytes"
	"encoding/binary"
	"fmt"

	"github.com/gotd/td/bin"
	"github.com/gotd/td/verifharness/hx"
	"github.com/gotd/td/verifharness/tx"
)

type tcase struct {
	Codec  int   `json:"codec"`
	Seq    int64 `json:"seq"`
	Stream []int `json:"stream"`
}

func toInts(b []byte) []int {
	r := make([]int, len(b))
	for i, v := range b {
		r[i] = int(v)
	}
	return r
}
func toBytes(v []int) []byte {
	r := make([]byte, len(v))
	for i, x := range v {
		r[i] = byte(x)
	}
	return r
}

// the statement's bound: the frame limit (16 MiB) for a single frame; the slack covers the
// allocator's rounding to pages, error values and the harness reader.
const allocLimit = 1<<24 + 64<<10

func le32(v uint32) []byte {
	var b [4]byte
	binary.LittleEndian.PutUint32(b[:], v)
	return b[:]
}

func main() {
	c := hx.Start("C17", "Run.Check_C17", 350)
	verbose := false
	one := func(kind string, cid int, seq int64, stream []byte) {
		c.Obs.Evaluations++
		rd := &tx.ChunkReader{Data: stream, Rng: c.Rng.Fork()}
		res := tx.ReadOnce(tx.NewCodec(cid, seq), rd)
		c.Count(fmt.Sprintf("%s:%s:%s", kind, tx.CodecNames[cid], tx.KindNames[res.Kind]))
		tc := tcase{cid, seq, toInts(stream)}
		js := map[string]interface{}{"case": tc, "observed": res}
		coq := hx.Tuple(hx.Z(int64(cid)), hx.Z(seq), tx.HB(stream),
			hx.Tuple(hx.Z(int64(res.Kind)), hx.Z(res.Arg), tx.HB(res.Payload), hx.Z(int64(res.Consumed)), hx.ZU(res.Alloc)))
		sh, ix := c.Case(coq, js)
		if verbose {
			fmt.Printf("replay: codec=%s seq=%d stream=%v -> %s arg=%d payload=%d bytes consumed=%d alloc=%d %s\n",
				tx.CodecNames[cid], seq, stream, tx.KindNames[res.Kind], res.Arg, len(res.Payload), res.Consumed, res.Alloc, res.PanicVal)
		}
		if res.Kind != tx.KEof || len(stream) > 0 {
			c.Nontrivial(fmt.Sprintf("%d/%d/%x", cid, seq, stream))
		}
		c.Sample(js)
		if res.Kind == tx.KPanic {
			c.Violate("panic-"+tx.CodecNames[cid], fmt.Sprintf("%s codec Read panicked (%s) on stream %v (seq %d)", tx.CodecNames[cid], res.PanicVal, stream, seq), sh, ix, tc)
		}
		if res.Kind == tx.KOther {
			c.Violate("unclassified-error-"+tx.CodecNames[cid], fmt.Sprintf("%s codec Read returned an error outside the modelled classes on %v", tx.CodecNames[cid], stream), sh, ix, tc)
		}
		if res.Alloc > allocLimit {
			c.Violate("alloc-over-limit-"+tx.CodecNames[cid], fmt.Sprintf("%s codec Read allocated %d bytes (> 16 MiB frame limit) on stream %v", tx.CodecNames[cid], res.Alloc, stream), sh, ix, tc)
		}
	}
	var rp tcase
	if c.LoadReplay(&rp) {
		verbose = true
		one("replay", rp.Codec, rp.Seq, toBytes(rp.Stream))
		c.Finish()
		return
	}

	// ---- corpus: the inputs that crashed / over-allocated before the fix commits ----
	for n := uint32(1); n <= 3; n++ {
		one("corpus", tx.Full, 0, append(le32(n), make([]byte, 16)...))
	}
	for n := uint32(8); n <= 11; n++ {
		one("corpus", tx.Full, 0, append(le32(n), make([]byte, 16)...))
		one("corpus", tx.Full, 7, append(append(le32(n), le32(7)...), make([]byte, 12)...))
	}
	one("corpus", tx.Abridged, 0, []byte{0x7f, 0xff, 0xff, 0xff, 1, 2, 3})
	one("corpus", tx.Abridged, 0, []byte{0xff, 0x01, 0x00, 0x40, 1, 2, 3, 4})

	// ---- every short length-prefix class x short tails ----
	var lens []uint32
	for n := uint32(0); n <= 40; n++ {
		lens = append(lens, n)
	}
	lens = append(lens, 1<<24-4, 1<<24-1, 1<<24, 1<<24+1, 1<<24+4, 1<<24+12, 1<<31-1, 1<<31, 1<<31+8, 1<<32-4, 1<<32-1, 0xeeeeeeee, 0xdddddddd, 0xefefefef)
	tails := []int{0, 1, 3, 4, 5, 7, 8, 9, 11, 12, 13, 16, 20, 36, 37, 44}
	for _, cid := range []int{tx.Intermediate, tx.Padded, tx.Full} {
		for _, n := range lens {
			for _, t := range tails {
				if c.Rng.Chance(1, 2) && n > 16 && !c.Thorough() {
					continue
				}
				tail := make([]byte, t)
				seq := int64(0)
				switch c.Rng.Intn(3) {
				case 1:
					tail = c.Rng.Bytes(t)
				case 2: // well-formed seqno in the first word
					seq = int64(c.Rng.Intn(5))
					if t >= 4 {
						copy(tail, le32(uint32(seq)))
					}
				}
				one("prefix", cid, seq, append(le32(n), tail...))
			}
		}
	}
	firsts := []byte{0, 1, 2, 3, 9, 126, 127, 128, 200, 255}
	words := []uint32{0, 1, 2, 10, 126, 127, 128, 1<<22 - 1, 1 << 22, 1<<22 + 1, 1 << 23, 1<<24 - 1}
	for _, f := range firsts {
		if f < 127 {
			for _, t := range tails {
				one("prefix", tx.Abridged, 0, append([]byte{f}, c.Rng.Bytes(t)...))
			}
			continue
		}
		for _, w := range words {
			for _, t := range []int{0, 1, 2, 3, 4, 7, 8, 40} {
				one("prefix", tx.Abridged, 0, append(append([]byte{f}, le32(w)[:3]...), c.Rng.Bytes(t)...))
			}
		}
	}

	// ---- mutated valid streams ----
	sizes := []int{4, 8, 12, 16, 24, 64, 500, 504, 508, 512, 516}
	nm := c.N(2000, 12000)
	for i := 0; i < nm; i++ {
		cid := c.Rng.Intn(4)
		seq := int64(0)
		if cid == tx.Full {
			switch c.Rng.Intn(4) {
			case 0:
				seq = int64(c.Rng.Intn(6))
			case 1:
				seq = 1<<31 - 2 + int64(c.Rng.Intn(4))
			case 2:
				seq = 1<<32 - 2 + int64(c.Rng.Intn(4))
			}
		}
		var stream bytes.Buffer
		frames := 1 + c.Rng.Intn(2)
		w := tx.NewCodec(cid, seq)
		for f := 0; f < frames; f++ {
			sz := sizes[c.Rng.Intn(len(sizes))]
			if c.Rng.Chance(7, 8) {
				sz = 4 * c.Rng.Range(1, 24)
			}
			if cid == tx.Full && c.Rng.Chance(1, 4) {
				sz = c.Rng.Range(1, 90)
			}
			p := c.Rng.Bytes(sz)
			if c.Rng.Chance(1, 4) {
				copy(p[sz-1:], []byte{byte(c.Rng.Intn(4))})
			}
			if err := w.Write(&stream, &bin.Buffer{Buf: p}); err != nil {
				c.Violate("valid-write-failed", fmt.Sprintf("%s codec refused a %d-byte payload: %v", tx.CodecNames[cid], sz, err), -1, 0, nil)
			}
		}
		s := stream.Bytes()
		kind := "mutant:none"
		switch m := c.Rng.Intn(8); {
		case m == 0:
		case m == 1 && len(s) > 0:
			kind = "mutant:truncate"
			s = s[:c.Rng.Intn(len(s))]
		case m <= 3 && len(s) > 0:
			kind = "mutant:flip-header"
			k := c.Rng.Intn(min(len(s), 12))
			s[k] ^= 1 << uint(c.Rng.Intn(8))
		case m == 4 && len(s) > 0:
			kind = "mutant:flip-any"
			k := c.Rng.Intn(len(s))
			s[k] ^= 1 << uint(c.Rng.Intn(8))
		case m == 5 && len(s) >= 4:
			kind = "mutant:length"
			copy(s, le32(lens[c.Rng.Intn(len(lens))]))
		case m == 6 && len(s) > 0:
			kind = "mutant:drop-byte"
			k := c.Rng.Intn(len(s))
			s = append(append([]byte{}, s[:k]...), s[k+1:]...)
		default:
			kind = "mutant:insert-byte"
			k := c.Rng.Intn(len(s) + 1)
			s = append(append(append([]byte{}, s[:k]...), byte(c.Rng.U64())), s[k:]...)
		}
		if cid == tx.Full && c.Rng.Chance(1, 10) {
			seq++ // reader expects another frame number
		}
		one(kind, cid, seq, s)
	}

	// ---- random bytes ----
	for i := 0; i < c.N(400, 3000); i++ {
		one("random", c.Rng.Intn(4), int64(c.Rng.Intn(3)), c.Rng.Bytes(c.Rng.Range(0, 48)))
	}

	c.Obs.Rule = "one Codec.Read per case on a fresh buffer, stream served in random chunks: corpus (pre-fix crashers), every 4-byte length prefix 0..40 and the limit/sign boundaries x 16 tail lengths for intermediate/padded/full, abridged first bytes x 3-byte lengths around 2^22 words, 1-2 valid frames under 7 mutation kinds, random bytes; non-trivial = distinct (codec, seq, stream) that is not the empty stream"
	c.Finish()
}
