// C38 harness: fileid.EncodeFileID / DecodeFileID and the RLE layer.
//
// Streams: corpus (300/256/255/254 zero-byte references, DESIGN witness), generated
// canonical file ids (every Type, every photo-size-source kind, DC boundaries, zero runs
// 0..600 in file references, zero ids/hashes), rleEncode/rleDecode directly through the
// verif export, arbitrary strings (random base64url, mutated valid ids, bodies with legacy
// sub-versions, raw bytes). Oracle: Decode(Encode(id)) equals id, rleDecode(rleEncode(s))
// equals s, nothing panics.
package main

import (
	"bytes"
	"encoding/base64"
	"errors"
	"fmt"
	"io"
	"strings"

	"github.com/gotd/td/bin"
	"github.com/gotd/td/constant"
	"github.com/gotd/td/fileid"
	"github.com/gotd/td/verifharness/hx"
)

var c *hx.Ctx

type caseJS struct {
	Mode  int            `json:"mode"` // 0 decode string, 1 encode+roundtrip, 2 rle encode+roundtrip, 3 rle decode
	Input string         `json:"input,omitempty"`
	ID    *fileid.FileID `json:"id,omitempty"`
	Raw   []byte         `json:"raw,omitempty"`
	Canon bool           `json:"canon,omitempty"`
	Why   string         `json:"why,omitempty"`
}

func fields(f fileid.FileID) []int64 {
	p := f.PhotoSizeSource
	return []int64{int64(f.Type), int64(f.DC), f.ID, f.AccessHash, int64(len(f.FileReference)), int64(len(f.URL)),
		int64(p.Type), p.VolumeID, int64(p.LocalID), p.Secret, int64(p.FileType), int64(p.ThumbnailType),
		int64(p.DialogID), p.DialogAccessHash, p.StickerSetID, p.StickerSetAccessHash, int64(p.StickerVersion)}
}

func refURL(f fileid.FileID) []byte {
	return append(append([]byte{}, f.FileReference...), f.URL...)
}

func equalID(a, b fileid.FileID) bool {
	fa, fb := fields(a), fields(b)
	for i := range fa {
		if fa[i] != fb[i] {
			return false
		}
	}
	return bytes.Equal(a.FileReference, b.FileReference) && a.URL == b.URL && a.PhotoSizeSource.PhotoSize == b.PhotoSizeSource.PhotoSize
}

func errCode(err error) int {
	var il *bin.InvalidLengthError
	msg := ""
	if err != nil {
		msg = err.Error()
	}
	switch {
	case err == nil:
		return 0
	case msg == "input is empty":
		return 1
	case strings.HasPrefix(msg, "base64:"):
		return 2
	case msg == "RLE-decoded data is too small":
		return 3
	case strings.HasSuffix(msg, "is unsupported now"):
		return 4
	case strings.HasPrefix(msg, "unknown file_id version"):
		return 5
	case errors.Is(err, io.ErrUnexpectedEOF):
		return 6
	case errors.As(err, &il):
		return 7
	case strings.Contains(msg, "unknown photo size source type"):
		return 10
	case strings.HasPrefix(msg, "unknown type"):
		return 8
	}
	return 12
}

func runDecode(s string) (status int, f fileid.FileID) {
	var err error
	p, _ := hx.Recover(func() { f, err = fileid.DecodeFileID(s) })
	if p {
		return 9, fileid.FileID{}
	}
	return errCode(err), f
}

func short(s string) string {
	if len(s) > 60 {
		return fmt.Sprintf("%q..(%d chars)", s[:60], len(s))
	}
	return fmt.Sprintf("%q", s)
}

func decodeCase(why, s string, emit bool) {
	c.Obs.Evaluations++
	js := caseJS{Mode: 0, Input: s, Why: why}
	status, f := runDecode(s)
	c.Count(fmt.Sprintf("decode:%s:status=%d", why, status))
	var fs []int64
	var bs []byte
	if status == 0 {
		fs, bs = fields(f), refURL(f)
	}
	sh, ix := -1, 0
	if emit {
		sh, ix = c.Case(hx.Tuple("0", hx.Bytes([]byte(s)), hx.Z(int64(status)), hx.ZList(fs), hx.Bytes(bs)), js)
	}
	if status != 1 && status != 2 {
		c.Nontrivial("d" + s)
	}
	if status == 9 {
		c.Violate("decode-panic", fmt.Sprintf("DecodeFileID(%s) panicked", short(s)), sh, ix, js)
	}
	if status == 12 {
		c.Violate("decode-unknown-error", fmt.Sprintf("DecodeFileID(%s) returned an unclassified error", short(s)), sh, ix, js)
	}
}

func describe(f fileid.FileID) string {
	return fmt.Sprintf("{Type:%d DC:%d ID:%d Hash:%d ref:%d bytes url:%q pss:%+v}", f.Type, f.DC, f.ID, f.AccessHash, len(f.FileReference), f.URL, f.PhotoSizeSource)
}

// encodeCase: EncodeFileID then (for canonical ids) DecodeFileID must give the id back.
func encodeCase(why string, f fileid.FileID, canon bool, emit bool) string {
	c.Obs.Evaluations++
	js := caseJS{Mode: 1, ID: &f, Canon: canon, Why: why}
	var s string
	var err error
	p, _ := hx.Recover(func() { s, err = fileid.EncodeFileID(f) })
	c.Count(fmt.Sprintf("encode:%s:type=%d", why, f.Type))
	if p || err != nil {
		c.Violate("encode-panic-or-error", fmt.Sprintf("EncodeFileID(%s) panicked=%v err=%v", describe(f), p, err), -1, 0, js)
		return ""
	}
	sh, ix := -1, 0
	if emit {
		sh, ix = c.Case(hx.Tuple("1", hx.Bytes([]byte(s)), "0", hx.ZList(fields(f)), hx.Bytes(refURL(f))), js)
	}
	c.Nontrivial("e" + s)
	c.Sample(map[string]interface{}{"id": describe(f), "encoded": s})
	if !canon {
		// ids carrying more than the format stores come back as their canonical projection
		if want, ok := canonical(f); ok {
			status, g := runDecode(s)
			if status != 0 || !equalID(want, g) {
				c.Violate("canonical-projection-mismatch", fmt.Sprintf("Decode(Encode(id)) != canonical(id): status=%d id=%s got=%s want=%s", status, describe(f), describe(g), describe(want)), sh, ix, js)
			}
		}
	}
	if canon {
		status, g := runDecode(s)
		if status != 0 || !equalID(f, g) {
			sig := "roundtrip-mismatch"
			h := f
			h.DC = g.DC
			if f.DC < 0 && status == 0 && equalID(h, g) {
				sig = "negative-dc-unsigned-readback"
			} else if zr := maxZeroRun(f.FileReference); zr >= 240 {
				sig = "rle-zero-run-wrap"
			}
			c.Violate(sig, fmt.Sprintf("Decode(Encode(id)) != id: status=%d id=%s got=%s", status, describe(f), describe(g)), sh, ix, js)
		}
	}
	return s
}

// canonical is the part of a FileID the format carries (independent restatement of the
// layout): 32-bit DC and LocalID, no PhotoSize, photo size source only for photo-like
// types and only the fields of its kind, nothing but reference and URL for web locations.
// ok=false when the id cannot be decoded at all (unknown type / source kind).
func canonical(f fileid.FileID) (fileid.FileID, bool) {
	if f.Type < 0 || f.Type >= 18 {
		return f, false
	}
	g := fileid.FileID{Type: f.Type, DC: int(int32(f.DC)), FileReference: f.FileReference, URL: f.URL}
	if f.URL != "" {
		return g, true
	}
	g.ID, g.AccessHash = f.ID, f.AccessHash
	switch f.Type {
	case fileid.Thumbnail, fileid.Photo, fileid.ProfilePhoto:
	default:
		return g, true
	}
	p := f.PhotoSizeSource
	q := fileid.PhotoSizeSource{Type: p.Type}
	loc := func() { q.VolumeID, q.LocalID = p.VolumeID, int(int32(p.LocalID)) }
	switch p.Type {
	case fileid.PhotoSizeSourceLegacy:
		q.Secret = p.Secret
	case fileid.PhotoSizeSourceThumbnail:
		q.FileType, q.ThumbnailType = fileid.Type(uint32(p.FileType)), p.ThumbnailType
	case fileid.PhotoSizeSourceDialogPhotoBig, fileid.PhotoSizeSourceDialogPhotoSmall:
		q.DialogID, q.DialogAccessHash = p.DialogID, p.DialogAccessHash
	case fileid.PhotoSizeSourceStickerSetThumbnail:
		q.StickerSetID, q.StickerSetAccessHash = p.StickerSetID, p.StickerSetAccessHash
	case fileid.PhotoSizeSourceFullLegacy:
		q.Secret = p.Secret
		loc()
	case fileid.PhotoSizeSourceDialogPhotoBigLegacy, fileid.PhotoSizeSourceDialogPhotoSmallLegacy:
		q.DialogID, q.DialogAccessHash = p.DialogID, p.DialogAccessHash
		loc()
	case fileid.PhotoSizeSourceStickerSetThumbnailLegacy:
		q.StickerSetID, q.StickerSetAccessHash = p.StickerSetID, p.StickerSetAccessHash
		loc()
	case fileid.PhotoSizeSourceStickerSetThumbnailVersion:
		q.StickerSetID, q.StickerSetAccessHash, q.StickerVersion = p.StickerSetID, p.StickerSetAccessHash, p.StickerVersion
	default:
		return f, false
	}
	g.PhotoSizeSource = q
	return g, true
}

func maxZeroRun(b []byte) int {
	best, cur := 0, 0
	for _, x := range b {
		if x == 0 {
			cur++
			if cur > best {
				best = cur
			}
		} else {
			cur = 0
		}
	}
	return best
}

func rleCase(why string, s []byte, emit bool) {
	c.Obs.Evaluations++
	js := caseJS{Mode: 2, Raw: s, Why: why}
	var enc, dec []byte
	p, _ := hx.Recover(func() { enc = fileid.VerifRLEEncode(s); dec = fileid.VerifRLEDecode(enc) })
	c.Count("rle:" + why)
	sh, ix := -1, 0
	if emit {
		sh, ix = c.Case(hx.Tuple("2", hx.Bytes(s), "0", "[]", hx.Bytes(enc)), js)
	}
	c.Nontrivial(fmt.Sprintf("r%x", s))
	if p {
		c.Violate("rle-panic", fmt.Sprintf("rleEncode/rleDecode panicked on %d bytes", len(s)), sh, ix, js)
		return
	}
	if !bytes.Equal(dec, s) {
		sig := "rle-roundtrip-mismatch"
		if maxZeroRun(s) >= 255 {
			sig = "rle-zero-run-wrap"
		}
		c.Violate(sig, fmt.Sprintf("rleDecode(rleEncode(s)) != s for %d bytes with a zero run of %d (got %d bytes back)", len(s), maxZeroRun(s), len(dec)), sh, ix, js)
	}
}

func rleDecodeCase(why string, s []byte, emit bool) {
	c.Obs.Evaluations++
	js := caseJS{Mode: 3, Raw: s, Why: why}
	var dec []byte
	p, _ := hx.Recover(func() { dec = fileid.VerifRLEDecode(s) })
	c.Count("rledec:" + why)
	sh, ix := -1, 0
	if emit {
		sh, ix = c.Case(hx.Tuple("3", hx.Bytes(s), "0", "[]", hx.Bytes(dec)), js)
	}
	if p {
		c.Violate("rle-panic", fmt.Sprintf("rleDecode panicked on %x", s), sh, ix, js)
	}
}

// zeroRunBytes: bytes containing a zero run of exactly n (when n>0), random elsewhere.
func zeroRunBytes(r *hx.Rand, n int) []byte {
	pre := r.Bytes(r.Intn(4))
	suf := r.Bytes(r.Intn(4))
	for i := range pre {
		pre[i] |= 1
	}
	for i := range suf {
		suf[i] |= 1
	}
	return append(append(pre, make([]byte, n)...), suf...)
}

func randI64(r *hx.Rand) int64 {
	switch r.Intn(6) {
	case 0:
		return 0
	case 1:
		return int64(r.Intn(1000)) - 500
	case 2:
		return []int64{1<<63 - 1, -1 << 63, -1, 1 << 32, 0xff00000000}[r.Intn(5)]
	}
	return int64(r.U64())
}

func randPSS(r *hx.Rand, kind int) fileid.PhotoSizeSource {
	p := fileid.PhotoSizeSource{Type: fileid.PhotoSizeSourceType(kind)}
	local := func() int { return int(int32(r.U64())) }
	switch fileid.PhotoSizeSourceType(kind) {
	case fileid.PhotoSizeSourceLegacy:
		p.Secret = randI64(r)
	case fileid.PhotoSizeSourceThumbnail:
		p.FileType = fileid.Type(r.Intn(18))
		if r.Chance(1, 5) {
			p.FileType = fileid.Type(uint32(r.U64()))
		}
		p.ThumbnailType = rune(int32(r.U64()))
		if r.Bool() {
			p.ThumbnailType = rune("smxyabcd"[r.Intn(8)])
		}
	case fileid.PhotoSizeSourceDialogPhotoBig, fileid.PhotoSizeSourceDialogPhotoSmall:
		p.DialogID = constant.TDLibPeerID(randI64(r))
		p.DialogAccessHash = randI64(r)
	case fileid.PhotoSizeSourceStickerSetThumbnail:
		p.StickerSetID, p.StickerSetAccessHash = randI64(r), randI64(r)
	case fileid.PhotoSizeSourceFullLegacy:
		p.VolumeID, p.Secret, p.LocalID = randI64(r), randI64(r), local()
	case fileid.PhotoSizeSourceDialogPhotoBigLegacy, fileid.PhotoSizeSourceDialogPhotoSmallLegacy:
		p.DialogID = constant.TDLibPeerID(randI64(r))
		p.DialogAccessHash, p.VolumeID, p.LocalID = randI64(r), randI64(r), local()
	case fileid.PhotoSizeSourceStickerSetThumbnailLegacy:
		p.StickerSetID, p.StickerSetAccessHash, p.VolumeID, p.LocalID = randI64(r), randI64(r), randI64(r), local()
	case fileid.PhotoSizeSourceStickerSetThumbnailVersion:
		p.StickerSetID, p.StickerSetAccessHash, p.StickerVersion = randI64(r), randI64(r), int32(r.U64())
	}
	return p
}

func randRef(r *hx.Rand) []byte {
	switch r.Intn(6) {
	case 0:
		return nil
	case 1:
		return zeroRunBytes(r, r.Range(0, 600))
	case 2:
		return zeroRunBytes(r, []int{253, 254, 255, 256, 257, 509, 510, 511, 512, 300}[r.Intn(10)])
	case 3: // several runs
		var b []byte
		for i := 0; i < r.Range(2, 4); i++ {
			b = append(b, zeroRunBytes(r, r.Range(0, 300))...)
		}
		return b
	}
	b := r.Bytes(r.Range(1, 40))
	if len(b) > 0 && r.Bool() {
		b[len(b)-1] = 0 // trailing zero: the run is flushed at the end
	}
	return b
}

func randCanonical(r *hx.Rand, typ, kind int) fileid.FileID {
	f := fileid.FileID{Type: fileid.Type(typ)}
	switch r.Intn(8) {
	case 0:
		f.DC = []int{0, -1, -5, -1 << 31, 1<<31 - 1, 255, 256, -2}[r.Intn(8)] // dc_id is a signed 32-bit field
	default:
		f.DC = r.Range(1, 5)
	}
	f.FileReference = randRef(r)
	if r.Chance(1, 6) {
		n := r.Range(1, 60)
		if r.Chance(1, 5) {
			n = r.Range(250, 260)
		}
		u := make([]byte, n)
		for i := range u {
			u[i] = "https://example.org/a_b-c?d=e&f%20\x00\x7f"[r.Intn(36)]
		}
		f.URL = string(u)
		return f
	}
	f.ID, f.AccessHash = randI64(r), randI64(r)
	switch f.Type {
	case fileid.Thumbnail, fileid.Photo, fileid.ProfilePhoto:
		f.PhotoSizeSource = randPSS(r, kind)
	}
	return f
}

// smp decides whether case i also goes to the Coq correspondence: every q-th in the quick
// tier, every t-th in the thorough tier (the Go oracle always sees every case).
func smp(i, q, t int) bool {
	if c.Thorough() {
		return i%t == 0
	}
	return i%q == 0
}

func b64(b []byte) string { return base64.RawURLEncoding.EncodeToString(b) }

// rleB64 builds a file-id string from a raw body through the exported rleEncode; a panic in
// it is an rle violation with the body as replay, not a harness crash.
func rleB64(why string, body []byte) (string, bool) {
	var s string
	if p, _ := hx.Recover(func() { s = b64(fileid.VerifRLEEncode(body)) }); p {
		c.Violate("rle-panic", fmt.Sprintf("rleEncode panicked on %x (%s)", body, why), -1, 0, caseJS{Mode: 2, Raw: body, Why: why})
		return "", false
	}
	return s, true
}

func main() {
	c = hx.Start("C38", "Run.Check_C38", 300)
	defer func() { // a panic that escaped a per-case wrapper becomes a violation, obs.json is still written
		if v := recover(); v != nil {
			c.Violate("panic-outside-case-wrapper", fmt.Sprintf("a call into the implementation panicked outside a case wrapper: %v", v), -1, 0, nil)
			c.Finish()
		}
	}()
	var rp caseJS
	if c.LoadReplay(&rp) {
		switch rp.Mode {
		case 0:
			st, f := runDecode(rp.Input)
			fmt.Printf("replay: DecodeFileID(%s) -> status=%d %s\n", short(rp.Input), st, describe(f))
			decodeCase("replay", rp.Input, true)
		case 1:
			s := encodeCase("replay", *rp.ID, rp.Canon, true)
			st, g := runDecode(s)
			fmt.Printf("replay: EncodeFileID(%s) = %s; decode status=%d %s\n", describe(*rp.ID), short(s), st, describe(g))
		case 2:
			if p, v := hx.Recover(func() {
				enc := fileid.VerifRLEEncode(rp.Raw)
				dec := fileid.VerifRLEDecode(enc)
				fmt.Printf("replay: rleEncode(%d bytes, zero run %d) = %x; rleDecode gives %d bytes, equal=%v\n", len(rp.Raw), maxZeroRun(rp.Raw), enc, len(dec), bytes.Equal(dec, rp.Raw))
			}); p {
				fmt.Printf("replay: rleEncode/rleDecode panicked: %v\n", v)
			}
			rleCase("replay", rp.Raw, true)
		case 3:
			rleDecodeCase("replay", rp.Raw, true)
		}
		c.Finish()
		return
	}
	r := c.Rng

	// corpus: the defect of the zero-run byte counter (DESIGN section 8) and its boundary
	for _, n := range []int{300, 256, 255, 254, 257, 511, 512, 600} {
		rleCase("corpus", make([]byte, n), true)
		encodeCase("corpus", fileid.FileID{Type: fileid.Document, DC: 2, ID: 5, AccessHash: 7, FileReference: make([]byte, n)}, true, true)
	}
	encodeCase("corpus", fileid.FileID{Type: fileid.Document, DC: 2, ID: 0, AccessHash: 0}, true, true)
	encodeCase("corpus", fileid.FileID{Type: fileid.Photo, DC: 4, ID: 1, AccessHash: -1, PhotoSizeSource: fileid.PhotoSizeSource{Type: fileid.PhotoSizeSourceThumbnail, FileType: fileid.Photo, ThumbnailType: 'x'}}, true, true)
	for _, s := range []string{ // ids from the package's own tests
		"CAACAgIAAxkBAAEHZnVjzsCRbtD0PnV2E1mT9kYnD5iPNQACaQIAArrAlQUw5zOp4KLsaS0E",
		"AgACAgIAAxkBAAEHZntjzsCviRJM3EbDYqBdH2ppZOVxgwACoMIxG-zqcUqEwHgm5dX1SAEAAwIAA3MAAy0E",
		"", "!", "A", "AA", "AAAA", "BA", "AgQ", "AwQ", "\n", "AA\nAA", "AA==",
	} {
		decodeCase("corpus", s, true)
	}

	// generated canonical ids: every Type x every photo-size-source kind first, then random
	n := c.N(900, 8000)
	for i := 0; i < n; i++ {
		typ, kind := i%18, (i/18)%10
		if i >= 180 {
			typ, kind = r.Intn(18), r.Intn(10)
			if r.Bool() {
				typ = r.Intn(3)
			}
		}
		f := randCanonical(r, typ, kind)
		// the Go oracle sees every case; the Coq correspondence a sample of moderate size
		coq := (i < 180 && i%2 == 0) || (i >= 180 && smp(i, 4, 10))
		if len(f.FileReference) > 320 && i%16 != 0 {
			coq = false
		}
		s := encodeCase("canonical", f, true, coq)
		if s == "" {
			continue
		}
		decodeCase("valid", s, coq)
		// mutated valid id
		if r.Chance(1, 2) {
			m := []byte(s)
			switch r.Intn(5) {
			case 0:
				m = m[:r.Intn(len(m))]
			case 1:
				m[r.Intn(len(m))] = "ABCDEFGHIJKLMNOPQRSTUVWXYZabcdefghijklmnopqrstuvwxyz0123456789-_"[r.Intn(64)]
			case 2:
				p := r.Intn(len(m) + 1)
				m = append(append(append([]byte{}, m[:p]...), "\n\r=+/ "[r.Intn(6)]), m[p:]...)
			case 3:
				m[len(m)-1-r.Intn(min(len(m), 3))] = "ABCDEFGHIJKLMNOPQRSTUVWXYZabcdefghijklmnopqrstuvwxyz0123456789-_"[r.Intn(64)]
			case 4:
				m = append(m, "ABCDEFGHIJKLMNOPQRSTUVWXYZabcdefghijklmnopqrstuvwxyz0123456789-_"[r.Intn(64)])
			}
			decodeCase("mutated", string(m), smp(i, 3, 12))
		}
	}
	// non-canonical ids: encode only (fields the format does not carry, negative DC)
	for i := 0; i < c.N(40, 800); i++ {
		f := randCanonical(r, r.Intn(18), r.Intn(10))
		switch r.Intn(4) {
		case 0:
			f.DC = []int{1 << 31, 1<<32 - 1, 1 << 40, -1<<31 - 1, 1<<32 + 3}[r.Intn(5)] // does not fit the 32-bit field
		case 1:
			f.PhotoSizeSource = randPSS(r, r.Intn(10))
			f.PhotoSizeSource.Secret, f.PhotoSizeSource.VolumeID = randI64(r), randI64(r)
			f.PhotoSizeSource.PhotoSize = "x"
			f.PhotoSizeSource.LocalID = int(r.U64() >> 20)
		case 2:
			f.PhotoSizeSource.Type = fileid.PhotoSizeSourceType(r.Range(10, 12))
		case 3:
			f.Type = fileid.Type(r.Range(18, 40))
		}
		if s := encodeCase("noncanonical", f, false, smp(i, 2, 8)); s != "" {
			decodeCase("noncanonical", s, smp(i, 2, 8))
		}
	}
	c.Note("the format carries 32-bit DC / LocalID, no PhotoSize, a photo size source only for photo-like types: ids with more than that are checked against their canonical projection (Go-side restatement of the layout); FileReference nil and empty are identified")

	// RLE directly
	for i := 0; i < c.N(400, 5000); i++ {
		var s []byte
		switch r.Intn(4) {
		case 0:
			s = zeroRunBytes(r, r.Range(0, 600))
		case 1:
			s = zeroRunBytes(r, []int{253, 254, 255, 256, 257, 509, 510, 511, 512, 765, 766}[r.Intn(11)])
		case 2:
			for j := 0; j < r.Range(1, 5); j++ {
				s = append(s, zeroRunBytes(r, r.Range(0, 280))...)
			}
		default:
			s = r.Bytes(r.Intn(50))
			for j := range s {
				if r.Chance(1, 3) {
					s[j] = 0
				}
			}
		}
		rleCase("random", s, smp(i, 3, 15) && len(s) <= 700)
	}
	for i := 0; i < c.N(100, 3000); i++ {
		s := r.Bytes(r.Intn(24))
		for j := range s {
			if r.Chance(1, 3) {
				s[j] = 0
			}
		}
		rleDecodeCase("arbitrary", s, smp(i, 2, 10))
	}

	// arbitrary strings
	for i := 0; i < c.N(250, 8000); i++ {
		switch r.Intn(4) {
		case 0: // random base64url text
			l := r.Intn(80)
			b := make([]byte, l)
			for j := range b {
				b[j] = "ABCDEFGHIJKLMNOPQRSTUVWXYZabcdefghijklmnopqrstuvwxyz0123456789-_"[r.Intn(64)]
			}
			decodeCase("random-b64", string(b), smp(i, 2, 10))
		case 1: // raw bytes
			decodeCase("raw-bytes", string(r.Bytes(r.Intn(40))), smp(i, 2, 10))
		case 2: // random binary body with a plausible version byte
			body := r.Bytes(r.Intn(60))
			body = append(body, []byte{4, 4, 4, 2, 3, 0, 5, 255}[r.Intn(8)])
			if s, ok := rleB64("random-body", body); ok {
				decodeCase("random-body", s, smp(i, 2, 10))
			}
		default: // structured body with legacy sub-versions
			var buf bin.Buffer
			built, _ := hx.Recover(func() {
				typ := uint32(r.Intn(3))
				if r.Chance(1, 4) {
					typ = uint32(r.Intn(20))
				}
				hasRef, web := r.Chance(1, 3), r.Chance(1, 8)
				t := typ
				if hasRef {
					t |= 1 << 25
				}
				if web {
					t |= 1 << 24
				}
				buf.PutUint32(t)
				buf.PutUint32(uint32(r.Range(1, 5)))
				if hasRef {
					buf.PutBytes(r.Bytes(r.Intn(12)))
				}
				if web {
					buf.PutString("http://x")
				} else {
					buf.PutLong(randI64(r))
					buf.PutLong(randI64(r))
				}
				if r.Chance(3, 4) {
					buf.PutInt(r.Range(-1, 11))
				}
				buf.Buf = append(buf.Buf, r.Bytes(4*r.Intn(10))...)
				if r.Chance(1, 5) {
					buf.Buf = append(buf.Buf, r.Bytes(r.Intn(4))...)
				}
				sub := []byte{0, 3, 4, 21, 22, 31, 32, 34, 35, 255, byte(r.U64())}[r.Intn(11)]
				buf.Buf = append(buf.Buf, sub, 4)
			})
			if built {
				c.Violate("panic-building-input", "bin.Buffer Put* panicked while building a legacy-body input", -1, 0, caseJS{Mode: 0, Why: "legacy-body"})
				continue
			}
			if s, ok := rleB64("legacy-body", buf.Buf); ok {
				decodeCase("legacy-body", s, smp(i, 1, 3))
			}
		}
	}
	c.Obs.Rule = "evaluation = one EncodeFileID(+DecodeFileID round trip), one DecodeFileID of a string, or one rleEncode/rleDecode call; non-trivial = distinct encode case, rle case, or decode case that gets past base64 (status other than empty/base64 error)"
	c.Finish()
}
