// C21 harness: every constructor of tg, mt and tg/e2e (TypesConstructorMap) is filled with
// random values by reflection, encoded and decoded by the generated code, and compared with
// the schema interpreter (coq/Model/TlSchema.v) on the schemas translated from _schema/*.tl.
//
// Oracle (property statement, implementation only):
//   - canonical value: Encode succeeds, Decode of the bytes succeeds, consumes everything,
//     yields an equal value and re-encodes to identical bytes;
//   - any bytes: Decode / DecodeBare / Decode<Class> returns a value or an error, never
//     panics; a decoded value re-encodes, and that encoding decodes again to the same bytes;
//   - a vector header announcing 2^31-1 elements allocates no more than the preallocation
//     limit allows;
//   - deep nesting inside a maximum-size decompressed payload does not kill the process
//     (executed in a subprocess).
package main

import (
	"bytes"
	"context"
	"encoding/hex"
	"errors"
	"flag"
	"fmt"
	"hash/crc32"
	"io"
	"math"
	"os"
	"os/exec"
	"reflect"
	"runtime"
	"sort"
	"strings"
	"sync/atomic"
	"time"

	"github.com/gotd/td/bin"
	"github.com/gotd/td/mt"
	"github.com/gotd/td/proto"
	"github.com/gotd/td/tdp"
	"github.com/gotd/td/tg"
	"github.com/gotd/td/tg/e2e"
	"github.com/gotd/td/verifharness/hx"
)

type registry struct {
	name    string
	sch     int
	ctors   map[uint32]func() bin.Object
	classes map[string][]uint32
	ids     []uint32
	byType  map[reflect.Type]uint32 // struct type -> id
	impl    map[reflect.Type][]uint32
	boxes   []reflect.Type // *XBox decoders discovered through the client
	vectors []reflect.Type // result-vector helper structs (XVector{Elems []X}) discovered through the client
}

var (
	binObjectType = reflect.TypeOf((*bin.Object)(nil)).Elem()
	fieldsType    = reflect.TypeOf(bin.Fields(0))
	int128Type    = reflect.TypeOf(bin.Int128{})
	int256Type    = reflect.TypeOf(bin.Int256{})
)

type typeIDer interface{ TypeID() uint32 }
type typeNamer interface{ TypeName() string }
type zeroer interface{ Zero() bool }

func newRegistry(name string, sch int, ctors map[uint32]func() bin.Object, classes map[string][]uint32) *registry {
	r := &registry{name: name, sch: sch, ctors: ctors, classes: classes, byType: map[reflect.Type]uint32{}, impl: map[reflect.Type][]uint32{}}
	for id, f := range ctors {
		r.ids = append(r.ids, id)
		r.byType[reflect.TypeOf(f()).Elem()] = id
	}
	sort.Slice(r.ids, func(i, j int) bool { return r.ids[i] < r.ids[j] })
	return r
}

func (r *registry) implementers(t reflect.Type) []uint32 {
	if t == binObjectType {
		return r.ids
	}
	if l, ok := r.impl[t]; ok {
		return l
	}
	var l []uint32
	for _, id := range r.ids {
		if reflect.TypeOf(r.ctors[id]()).Implements(t) {
			l = append(l, id)
		}
	}
	r.impl[t] = l
	return l
}

// nullable reports the names of the conditional fields of a generated struct: TypeInfo of the
// zero value marks exactly those as Null (Flags = 0).
var nullableCache = map[reflect.Type]map[string]bool{}

func nullable(t reflect.Type) map[string]bool {
	if m, ok := nullableCache[t]; ok {
		return m
	}
	m := map[string]bool{}
	if o, ok := reflect.New(t).Interface().(tdp.Object); ok {
		for _, f := range o.TypeInfo().Fields {
			if f.Null {
				m[f.Name] = true
			}
		}
	}
	nullableCache[t] = m
	return m
}

// ---------- random values ----------

type gen struct {
	r         *hx.Rand
	reg       *registry
	canonical bool
}

func (g *gen) weight(t reflect.Type) int {
	w := 0
	for i := 0; i < t.NumField(); i++ {
		switch t.Field(i).Type.Kind() {
		case reflect.Interface, reflect.Struct:
			if !nullable(t)[t.Field(i).Name] {
				w += 100
			}
		}
		w++
	}
	return w
}

func (g *gen) pick(t reflect.Type, depth int) bin.Object {
	ids := g.reg.implementers(t)
	if len(ids) == 0 {
		return nil
	}
	if depth >= 3 {
		best, bw := uint32(0), 1<<30
		for _, id := range ids {
			if w := g.weight(reflect.TypeOf(g.reg.ctors[id]()).Elem()); w < bw {
				best, bw = id, w
			}
		}
		return g.reg.ctors[best]()
	}
	return g.reg.ctors[ids[g.r.Intn(len(ids))]]()
}

func (g *gen) blob() []byte {
	switch g.r.Intn(12) {
	case 0:
		return g.r.Bytes(g.r.Range(252, 257))
	case 1:
		return g.r.Bytes(g.r.Range(257, 700))
	case 2, 3:
		return g.r.Bytes(0)
	default:
		return g.r.Bytes(g.r.Range(1, 12))
	}
}

func (g *gen) fillStruct(sv reflect.Value, depth int) {
	t := sv.Type()
	nl := nullable(t)
	den := 2 + 2*depth
	for i := 0; i < t.NumField(); i++ {
		f := sv.Field(i)
		if nl[t.Field(i).Name] && !g.r.Chance(1, den) {
			continue
		}
		g.fillValue(f, depth)
	}
}

func (g *gen) fillValue(f reflect.Value, depth int) {
	t := f.Type()
	switch {
	case t == fieldsType:
		if !g.canonical && g.r.Chance(1, 5) {
			f.SetUint(g.r.U64() & 0xffffffff)
		}
	case t == int128Type || t == int256Type:
		if g.r.Chance(1, 6) {
			return
		}
		for i := 0; i < f.Len(); i++ {
			f.Index(i).SetUint(g.r.U64() & 0xff)
		}
	case t.Kind() == reflect.Int:
		switch g.r.Intn(8) {
		case 0:
			f.SetInt(0)
		case 1:
			f.SetInt(math.MaxInt32)
		case 2:
			f.SetInt(math.MinInt32)
		case 3:
			if g.canonical {
				f.SetInt(int64(int32(g.r.U64())))
			} else {
				f.SetInt(int64(g.r.U64() >> 20)) // outside int32: PutInt truncates
			}
		default:
			f.SetInt(int64(int32(g.r.U64())) >> uint(g.r.Intn(28)))
		}
	case t.Kind() == reflect.Int64:
		switch g.r.Intn(6) {
		case 0:
			f.SetInt(0)
		case 1:
			f.SetInt(math.MinInt64)
		default:
			f.SetInt(int64(g.r.U64()) >> uint(g.r.Intn(60)))
		}
	case t.Kind() == reflect.Float64:
		bits := g.r.U64()
		if g.r.Chance(1, 3) {
			bits = math.Float64bits(float64(g.r.Intn(1000)) / 8)
		}
		if g.canonical && bits == 1<<63 {
			bits = 0
		}
		f.SetFloat(math.Float64frombits(bits))
	case t.Kind() == reflect.String:
		f.SetString(string(g.blob()))
	case t.Kind() == reflect.Bool:
		f.SetBool(g.r.Bool())
	case t.Kind() == reflect.Slice && t.Elem().Kind() == reflect.Uint8:
		b := g.blob()
		if len(b) == 0 && (g.canonical || g.r.Bool()) {
			return // nil
		}
		f.SetBytes(b)
	case t.Kind() == reflect.Slice:
		switch {
		case g.r.Chance(1, 4):
			return // nil
		case !g.canonical && g.r.Chance(1, 8):
			f.Set(reflect.MakeSlice(t, 0, 0))
			return
		}
		n := g.r.Range(1, 3)
		if depth >= 2 {
			n = 1
		}
		s := reflect.MakeSlice(t, n, n)
		for i := 0; i < n; i++ {
			g.fillValue(s.Index(i), depth+1)
		}
		f.Set(s)
	case t.Kind() == reflect.Interface:
		if depth > 30 || (!g.canonical && g.r.Chance(1, 25)) {
			return // nil: Encode reports an error (class) or dereferences nil (bin.Object)
		}
		o := g.pick(t, depth)
		if o == nil {
			return
		}
		g.fillStruct(reflect.ValueOf(o).Elem(), depth+1)
		f.Set(reflect.ValueOf(o))
	case t.Kind() == reflect.Struct:
		g.fillStruct(f, depth+1)
	default:
		panic("c21: unexpected field type " + t.String())
	}
}

// canonicalize turns a randomly filled value into one that the decoder can produce: flags
// computed (SetFlags, also on slice elements, which Encode only sets on copies), `true` flags
// equal to their bit, and a conditional interface whose bit is set by a sibling not nil.
func (g *gen) canonicalize(ptr reflect.Value, depth int) {
	sv := ptr.Elem()
	t := sv.Type()
	var child func(f reflect.Value)
	child = func(f reflect.Value) {
		switch f.Kind() {
		case reflect.Struct:
			if f.Type() != int128Type && f.Type() != int256Type {
				g.canonicalize(f.Addr(), depth+1)
			}
		case reflect.Interface:
			if !f.IsNil() {
				g.canonicalize(f.Elem(), depth+1)
			}
		case reflect.Slice:
			if f.Type().Elem().Kind() != reflect.Uint8 {
				for i := 0; i < f.Len(); i++ {
					child(f.Index(i))
				}
			}
		}
	}
	for i := 0; i < t.NumField(); i++ {
		child(sv.Field(i))
	}
	if m := ptr.MethodByName("SetFlags"); m.IsValid() {
		m.Call(nil)
	}
	nl := nullable(t)
	if len(nl) == 0 {
		return
	}
	null := map[string]bool{}
	for _, f := range ptr.Interface().(tdp.Object).TypeInfo().Fields {
		null[f.Name] = f.Null
	}
	for i := 0; i < t.NumField(); i++ {
		name := t.Field(i).Name
		f := sv.Field(i)
		if !nl[name] {
			continue
		}
		switch {
		case f.Kind() == reflect.Bool:
			f.SetBool(!null[name])
		case f.Kind() == reflect.Interface && !null[name] && f.IsNil():
			if o := g.pick(f.Type(), 99); o != nil {
				g.fillStruct(reflect.ValueOf(o).Elem(), depth+3)
				g.canonicalize(reflect.ValueOf(o), depth+1)
				f.Set(reflect.ValueOf(o))
			}
		}
	}
}

// ---------- projection Go value -> Coq value ----------

type proj struct {
	norm    bool // empty slices as nil (for equality of decoded values)
	generic bool // saw a non-nil bin.Object field
}

func (p *proj) obj(ptr reflect.Value) string {
	sv := ptr.Elem()
	t := sv.Type()
	id := ptr.Interface().(typeIDer).TypeID()
	null := map[string]bool{}
	if o, ok := ptr.Interface().(tdp.Object); ok {
		for _, f := range o.TypeInfo().Fields {
			if f.Null {
				null[f.Name] = true
			}
		}
	}
	fs := make([]string, t.NumField())
	for i := range fs {
		fs[i] = p.val(sv.Field(i), null[t.Field(i).Name])
	}
	return fmt.Sprintf("(VObj %d %s)", id, hx.List(fs))
}

func (p *proj) val(f reflect.Value, null bool) string {
	t := f.Type()
	switch {
	case t == fieldsType:
		return fmt.Sprintf("(VZ %d)", f.Uint())
	case t == int128Type || t == int256Type:
		b := make([]byte, f.Len())
		for i := range b {
			b[i] = byte(f.Index(i).Uint())
		}
		return "(VBy " + hx.Bytes(b) + ")"
	case t.Kind() == reflect.Int || t.Kind() == reflect.Int64:
		return "(VZ " + hx.Z(f.Int()) + ")"
	case t.Kind() == reflect.Float64:
		return fmt.Sprintf("(VZ %d)", math.Float64bits(f.Float()))
	case t.Kind() == reflect.String:
		return "(VBy " + hx.Bytes([]byte(f.String())) + ")"
	case t.Kind() == reflect.Bool:
		return "(VBool " + hx.B(f.Bool()) + ")"
	case t.Kind() == reflect.Slice && t.Elem().Kind() == reflect.Uint8:
		if f.IsNil() || (p.norm && f.Len() == 0) {
			return "VNil"
		}
		return "(VBy " + hx.Bytes(f.Bytes()) + ")"
	case t.Kind() == reflect.Slice:
		if f.IsNil() || (p.norm && f.Len() == 0) {
			return "VNil"
		}
		es := make([]string, f.Len())
		for i := range es {
			es[i] = p.val(f.Index(i), false)
		}
		return "(VVec " + hx.List(es) + ")"
	case t.Kind() == reflect.Interface:
		if f.IsNil() {
			return "VNil"
		}
		if t == binObjectType {
			p.generic = true
		}
		return p.obj(f.Elem())
	case t.Kind() == reflect.Struct:
		if null && f.Addr().Interface().(zeroer).Zero() {
			return "VNil"
		}
		return p.obj(f.Addr())
	}
	panic("c21: unexpected field type " + t.String())
}

func hasGenericField(t reflect.Type) bool {
	for i := 0; i < t.NumField(); i++ {
		if t.Field(i).Type == binObjectType {
			return true
		}
	}
	return false
}

// ---------- running the generated code ----------

const (
	kBoxed = 0
	kBare  = 1
	kClass = 2
)

func errClass(err error) int {
	var il *bin.InvalidLengthError
	var ui *bin.UnexpectedIDErr
	switch {
	case errors.Is(err, io.ErrUnexpectedEOF):
		return 1
	case errors.As(err, &il):
		return 2
	case errors.As(err, &ui):
		return 3
	case strings.Contains(err.Error(), "is nil"):
		return 4
	}
	return 9
}

type encOut struct {
	bytes    []byte
	err      error
	panicked bool
	pval     interface{}
}

func goEncode(o bin.Object, kind int) (r encOut) {
	var b bin.Buffer
	r.panicked, r.pval = hx.Recover(func() {
		if kind == kBare {
			r.err = o.(bin.BareEncoder).EncodeBare(&b)
		} else {
			r.err = o.Encode(&b)
		}
	})
	r.bytes = b.Buf
	return r
}

type decOut struct {
	obj      bin.Object
	err      error
	panicked bool
	pval     interface{}
	unread   int
}

// newTarget returns a fresh value of constructor id; when like != nil its bin.Object fields
// are pre-populated with fresh values of the dynamic types found in like (generic requests
// can only be decoded into a prepared target).
func newTarget(reg *registry, id uint32, like bin.Object) bin.Object {
	o := reg.ctors[id]()
	if like == nil {
		return o
	}
	sv, lv := reflect.ValueOf(o).Elem(), reflect.ValueOf(like).Elem()
	for i := 0; i < sv.NumField(); i++ {
		if sv.Field(i).Type() == binObjectType && !lv.Field(i).IsNil() {
			inner := lv.Field(i).Interface().(bin.Object)
			sv.Field(i).Set(reflect.ValueOf(newTarget(reg, inner.(typeIDer).TypeID(), inner)))
		}
	}
	return o
}

func goDecode(reg *registry, kind int, id uint32, box reflect.Type, like bin.Object, data []byte) (r decOut) {
	buf := &bin.Buffer{Buf: append([]byte(nil), data...)}
	if kind == kClass {
		bx := reflect.New(box)
		r.panicked, r.pval = hx.Recover(func() { r.err = bx.Interface().(bin.Decoder).Decode(buf) })
		if !r.panicked && r.err == nil {
			r.obj = bx.Elem().Field(0).Interface().(bin.Object)
		}
	} else {
		o := newTarget(reg, id, like)
		r.panicked, r.pval = hx.Recover(func() {
			if kind == kBare {
				r.err = o.(bin.BareDecoder).DecodeBare(buf)
			} else {
				r.err = o.Decode(buf)
			}
		})
		r.obj = o
	}
	r.unread = len(buf.Buf)
	return r
}

func typeName(o bin.Object) string {
	if n, ok := o.(typeNamer); ok {
		return n.TypeName()
	}
	return reflect.TypeOf(o).String()
}

// ---------- the harness ----------

type replay struct {
	Mode  string `json:"mode"` // "value" | "bytes" | "deep"
	Sch   int    `json:"sch"`
	Kind  int    `json:"kind"`
	ID    uint32 `json:"id"`
	Box   string `json:"box,omitempty"`
	Seed  uint64 `json:"seed,omitempty"`
	Canon bool   `json:"canonical,omitempty"`
	Hex   string `json:"hex,omitempty"`
	Depth int    `json:"depth,omitempty"`
	Tail  int    `json:"tail,omitempty"` // this many 0xff bytes follow Hex (large-input preallocation cases)
}

type H struct {
	c        *hx.Ctx
	regs     []*registry
	coqLeft  map[string]int // budget of Coq cases per stream
	encoded  [][]byte       // pool of valid encodings for the mutator: parallel to encMeta
	encMeta  []replay
	maxCase  int
	panicSig map[string]bool
}

func (h *H) coq(stream string) bool {
	if h.coqLeft[stream] > 0 {
		h.coqLeft[stream]--
		return true
	}
	return false
}

func eobs(r encOut) string {
	switch {
	case r.panicked:
		return "EPanic"
	case r.err != nil:
		return fmt.Sprintf("(EErr %d)", errClass(r.err))
	}
	return "(EBytes " + hx.Bytes(r.bytes) + ")"
}

// valueCase: one random value of constructor id.
func (h *H) valueCase(reg *registry, id uint32, seed uint64, canonical bool, wantCoq bool) {
	c := h.c
	c.Obs.Evaluations++
	g := &gen{r: hx.NewRand(seed), reg: reg, canonical: canonical}
	o := reg.ctors[id]()
	g.fillStruct(reflect.ValueOf(o).Elem(), 0)
	kind := kBoxed
	if g.r.Chance(1, 6) {
		kind = kBare
	}
	rp := replay{Mode: "value", Sch: reg.sch, Kind: kind, ID: id, Seed: seed, Canon: canonical}
	if canonical {
		g.canonicalize(reflect.ValueOf(o), 0)
	}
	pre := &proj{}
	preS := pre.obj(reflect.ValueOf(o))
	enc := goEncode(o, kind) // mutates o: SetFlags
	post := &proj{}
	postS := post.obj(reflect.ValueOf(o))
	name := typeName(o)
	c.Count(fmt.Sprintf("value:%s:%s", reg.name, map[bool]string{true: "canonical", false: "free"}[canonical]))
	shard, index := -1, 0
	emit := wantCoq && len(preS) < h.maxCase
	if emit {
		shard, index = c.Case(fmt.Sprintf("CEnc %d %d %d %s %s", reg.sch, kind, id, preS, eobs(enc)),
			map[string]interface{}{"replay": rp, "type": name, "stream": "enc-pre"})
		if enc.err == nil && !enc.panicked && postS != preS {
			c.Case(fmt.Sprintf("CEnc %d %d %d %s %s", reg.sch, kind, id, postS, eobs(enc)),
				map[string]interface{}{"replay": rp, "type": name, "stream": "enc-post"})
		}
	}
	if enc.panicked {
		// Encoding an invalid value (nil generic field) is outside the property; recorded only.
		c.Count("encode-panic:" + name)
		return
	}
	if enc.err != nil {
		c.Count(fmt.Sprintf("encode-error:class%d", errClass(enc.err)))
		if canonical {
			c.Violate("canonical-value-not-encodable:"+name, fmt.Sprintf("%s.%s: Encode of a canonical value failed: %v", reg.name, name, enc.err), shard, index, rp)
		}
		return
	}
	if len(enc.bytes)%4 != 0 {
		c.Violate("unaligned-encoding", fmt.Sprintf("%s.%s encodes to %d bytes", reg.name, name, len(enc.bytes)), shard, index, rp)
	}
	c.Nontrivial(fmt.Sprintf("%d:%d:%x", reg.sch, id, len(enc.bytes)))
	if len(h.encoded) < 6000 {
		h.encoded = append(h.encoded, enc.bytes)
		h.encMeta = append(h.encMeta, replay{Sch: reg.sch, Kind: kind, ID: id})
	}
	// Decode(Encode(v))
	var like bin.Object
	if post.generic || hasGenericField(reflect.TypeOf(o).Elem()) {
		like = o
	}
	dec := goDecode(reg, kind, id, nil, like, enc.bytes)
	if emit && like == nil {
		h.emitDec(reg, kind, id, nil, enc.bytes, dec, "dec-valid", rp)
	}
	switch {
	case dec.panicked:
		c.Violate(h.panicSig2(dec, o), fmt.Sprintf("%s.%s: Decode of its own encoding panicked: %v", reg.name, name, dec.pval), shard, index, rp)
		return
	case dec.err != nil:
		if canonical {
			c.Violate("roundtrip-fails:"+name, fmt.Sprintf("%s.%s: Decode(Encode(v)) = error %v (bytes %s)", reg.name, name, dec.err, hex.EncodeToString(enc.bytes)), shard, index, rp)
		}
		return
	}
	if !canonical {
		return
	}
	if dec.unread != 0 {
		c.Violate("roundtrip-fails:"+name, fmt.Sprintf("%s.%s: Decode(Encode(v)) left %d bytes unread", reg.name, name, dec.unread), shard, index, rp)
		return
	}
	a, b := (&proj{norm: true}).obj(reflect.ValueOf(o)), (&proj{norm: true}).obj(reflect.ValueOf(dec.obj))
	if a != b {
		c.Violate("roundtrip-fails:"+name, fmt.Sprintf("%s.%s: Decode(Encode(v)) != v: %s", reg.name, name, firstDiff(a, b)), shard, index, rp)
		return
	}
	re := goEncode(dec.obj, kind)
	if re.panicked || re.err != nil || !bytes.Equal(re.bytes, enc.bytes) {
		c.Violate("roundtrip-fails:"+name, fmt.Sprintf("%s.%s: re-encoding of the decoded value differs (err=%v panic=%v)", reg.name, name, re.err, re.panicked), shard, index, rp)
	}
}

func firstDiff(a, b string) string {
	i := 0
	for i < len(a) && i < len(b) && a[i] == b[i] {
		i++
	}
	lo := i - 50
	if lo < 0 {
		lo = 0
	}
	cut := func(s string) string {
		hi := i + 40
		if hi > len(s) {
			hi = len(s)
		}
		return s[lo:hi]
	}
	return fmt.Sprintf("at %d: input ...%s... decoded ...%s...", i, cut(a), cut(b))
}

func (h *H) panicSig2(d decOut, o bin.Object) string {
	msg := fmt.Sprint(d.pval)
	if strings.Contains(msg, "nil pointer") && o != nil {
		// which constructor: a generic (!X) field decoded through a nil interface
		return "decode-panic:nil-generic-field"
	}
	return "decode-panic:other"
}

func dobs(reg *registry, kind int, d decOut) (string, encOut) {
	switch {
	case d.panicked:
		return "DPanic", encOut{}
	case d.err != nil:
		return fmt.Sprintf("(DErr %d)", errClass(d.err)), encOut{}
	}
	// project BEFORE re-encoding: Encode runs SetFlags on the decoded object
	gv := "None"
	if pv := (&proj{}).obj(reflect.ValueOf(d.obj)); len(pv) < 20000 {
		gv = "(Some " + pv + ")"
	}
	re := goEncode(d.obj, kind)
	if re.panicked || re.err != nil {
		return "(DErr 99)", re
	}
	return fmt.Sprintf("(DOk %s %d %s)", hx.Bytes(re.bytes), d.unread, gv), re
}

func (h *H) emitDec(reg *registry, kind int, id uint32, box reflect.Type, data []byte, d decOut, stream string, rp replay) (int, int) {
	s, _ := dobs(reg, kind, d)
	return h.c.Case(fmt.Sprintf("CDec %d %d %d %s %s", reg.sch, kind, id, hx.Bytes(data), s),
		map[string]interface{}{"replay": rp, "stream": stream})
}

// bytesCase: arbitrary bytes against one decoder.
func (h *H) bytesCase(reg *registry, kind int, id uint32, box reflect.Type, data []byte, stream string, wantCoq bool, allocBound int64) {
	c := h.c
	c.Obs.Evaluations++
	rp := replay{Mode: "bytes", Sch: reg.sch, Kind: kind, ID: id, Hex: hex.EncodeToString(data)}
	if box != nil {
		rp.Box = box.Name()
	}
	var m0, m1 runtime.MemStats
	if allocBound > 0 {
		runtime.ReadMemStats(&m0)
	}
	d := goDecode(reg, kind, id, box, nil, data)
	if allocBound > 0 {
		runtime.ReadMemStats(&m1)
	}
	shard, index := -1, 0
	if wantCoq && len(data) < h.maxCase/4 {
		shard, index = h.emitDec(reg, kind, id, box, data, d, stream, rp)
	}
	var tname string
	if box != nil {
		tname = box.Name()
	} else {
		tname = typeName(reg.ctors[id]())
	}
	switch {
	case d.panicked:
		c.Count(stream + ":panic")
		sig := "decode-panic:other"
		if strings.Contains(fmt.Sprint(d.pval), "nil pointer") {
			sig = "decode-panic:nil-generic-field"
		}
		c.Violate(sig, fmt.Sprintf("%s.%s: Decode(%s) panicked: %v", reg.name, tname, rp.Hex, d.pval), shard, index, rp)
		return
	case d.err != nil:
		c.Count(fmt.Sprintf("%s:err%d", stream, errClass(d.err)))
	default:
		c.Count(stream + ":ok")
		c.Nontrivial(fmt.Sprintf("dec:%d:%d:%d", reg.sch, id, len(data)))
		re := goEncode(d.obj, kind)
		if re.panicked || re.err != nil {
			c.Violate("decoded-value-not-encodable", fmt.Sprintf("%s.%s: value decoded from %s does not encode (err=%v panic=%v)", reg.name, tname, rp.Hex, re.err, re.panicked), shard, index, rp)
			return
		}
		d2 := goDecode(reg, kind, id, box, nil, re.bytes)
		if d2.panicked || d2.err != nil || d2.unread != 0 {
			c.Violate("reencoding-not-decodable", fmt.Sprintf("%s.%s: re-encoding of the value decoded from %s does not decode (err=%v)", reg.name, tname, rp.Hex, d2.err), shard, index, rp)
			return
		}
		if re2 := goEncode(d2.obj, kind); !bytes.Equal(re2.bytes, re.bytes) {
			c.Violate("reencoding-unstable", fmt.Sprintf("%s.%s: decode/encode of %s is not idempotent", reg.name, tname, rp.Hex), shard, index, rp)
		}
	}
	if allocBound > 0 {
		if got := int64(m1.TotalAlloc - m0.TotalAlloc); got > allocBound {
			c.Violate("prealloc-exceeds-limit", fmt.Sprintf("%s.%s: decoding %d bytes allocated %d bytes (> %d)", reg.name, tname, len(data), got, allocBound), shard, index, rp)
		}
	}
}

func (h *H) mutate(r *hx.Rand, b []byte) ([]byte, string) {
	b = append([]byte(nil), b...)
	put32 := func(off int, v uint32) {
		if off+4 <= len(b) {
			b[off], b[off+1], b[off+2], b[off+3] = byte(v), byte(v>>8), byte(v>>16), byte(v>>24)
		}
	}
	word := func() int {
		if len(b) < 8 {
			return 0
		}
		return 4 * r.Intn(len(b)/4)
	}
	switch r.Intn(9) {
	case 0:
		return b[:r.Intn(len(b)+1)], "truncate"
	case 1:
		if len(b) > 0 {
			b[r.Intn(len(b))] ^= byte(1 << uint(r.Intn(8)))
		}
		return b, "bitflip"
	case 2:
		put32(word(), uint32(r.U64()))
		return b, "word-random"
	case 3:
		put32(word(), 0x7fffffff)
		return b, "word-maxint"
	case 4:
		put32(word(), 0xffffffff)
		return b, "word-minus1"
	case 5:
		put32(word(), bin.TypeVector)
		return b, "word-vector-id"
	case 6:
		other := h.encoded[r.Intn(len(h.encoded))]
		off := word()
		return append(b[:off:off], other...), "splice"
	case 7:
		if len(b) >= 8 {
			put32(4, uint32(r.U64())) // usually the flags word
		}
		return b, "flags-random"
	default:
		return append(b, r.Bytes(4*r.Range(1, 4))...), "append"
	}
}

// discoverBoxes calls every method of *tg.Client with a capturing invoker to learn the result
// decoders (XBox types wrap Decode<Class>).
type captureInvoker struct{ out []reflect.Type }

func (ci *captureInvoker) Invoke(ctx context.Context, input bin.Encoder, output bin.Decoder) error {
	ci.out = append(ci.out, reflect.TypeOf(output).Elem())
	return errors.New("captured")
}

var vectorTypes []reflect.Type

func discoverBoxes() []reflect.Type {
	ci := &captureInvoker{}
	cl := reflect.ValueOf(tg.NewClient(ci))
	ctxT := reflect.TypeOf((*context.Context)(nil)).Elem()
	for i := 0; i < cl.NumMethod(); i++ {
		m := cl.Method(i)
		mt := m.Type()
		if mt.NumIn() == 0 || mt.In(0) != ctxT {
			continue
		}
		args := []reflect.Value{reflect.ValueOf(context.Background())}
		for j := 1; j < mt.NumIn(); j++ {
			if mt.In(j).Kind() == reflect.Ptr {
				args = append(args, reflect.New(mt.In(j).Elem()))
			} else {
				args = append(args, reflect.Zero(mt.In(j)))
			}
		}
		hx.Recover(func() { m.Call(args) })
	}
	seen := map[reflect.Type]bool{}
	var res []reflect.Type
	for _, t := range ci.out {
		if !seen[t] && strings.HasSuffix(t.Name(), "Vector") && t.Kind() == reflect.Struct && t.NumField() == 1 && t.Field(0).Name == "Elems" && t.Field(0).Type.Kind() == reflect.Slice {
			seen[t] = true
			vectorTypes = append(vectorTypes, t)
		}
	}
	sort.Slice(vectorTypes, func(i, j int) bool { return vectorTypes[i].Name() < vectorTypes[j].Name() })
	for _, t := range ci.out {
		if !seen[t] && strings.HasSuffix(t.Name(), "Box") && t.Kind() == reflect.Struct && t.NumField() == 1 && t.Field(0).Type.Kind() == reflect.Interface {
			seen[t] = true
			res = append(res, t)
		}
	}
	sort.Slice(res, func(i, j int) bool { return res[i].Name() < res[j].Name() })
	return res
}


// dirtyCase: Decode into a receiver that already holds another value of the same constructor
// (what a caller that reuses a result object does), compared with Decode into a fresh value.
func (h *H) dirtyCase(reg *registry, id uint32, seed uint64, wantCoq bool) {
	c := h.c
	mkv := func(sd uint64) (bin.Object, bool) {
		g := &gen{r: hx.NewRand(sd), reg: reg, canonical: true}
		o := reg.ctors[id]()
		g.fillStruct(reflect.ValueOf(o).Elem(), 0)
		g.canonicalize(reflect.ValueOf(o), 0)
		p := &proj{}
		p.obj(reflect.ValueOf(o))
		return o, !p.generic && !hasGenericField(reflect.TypeOf(o).Elem())
	}
	a, okA := mkv(seed)
	b, okB := mkv(seed ^ 0x9e3779b97f4a7c15)
	if !okA || !okB {
		return
	}
	enc := goEncode(b, kBoxed)
	if enc.err != nil || enc.panicked {
		return
	}
	c.Obs.Evaluations++
	c.Count("dirty:" + reg.name)
	rp := replay{Mode: "dirty", Sch: reg.sch, Kind: kBoxed, ID: id, Seed: seed}
	h.watch(rp)
	defer h.unwatch()
	oldS := (&proj{}).obj(reflect.ValueOf(a))
	fresh := goDecode(reg, kBoxed, id, nil, nil, enc.bytes)
	buf := &bin.Buffer{Buf: append([]byte(nil), enc.bytes...)}
	d := decOut{obj: a}
	d.panicked, d.pval = hx.Recover(func() { d.err = a.Decode(buf) })
	d.unread = len(buf.Buf)
	name := typeName(a)
	shard, index := -1, 0
	obs, _ := dobs(reg, kBoxed, d) // projects the decoded receiver before re-encoding it
	stale := false
	if !d.panicked && d.err == nil && !fresh.panicked && fresh.err == nil {
		stale = (&proj{norm: true}).obj(reflect.ValueOf(a)) != (&proj{norm: true}).obj(reflect.ValueOf(fresh.obj))
	}
	// every case that shows stale state goes to the model comparison (decode_into must reproduce it)
	if (wantCoq || stale) && len(oldS) < h.maxCase && len(enc.bytes) < h.maxCase/4 {
		shard, index = c.Case(fmt.Sprintf("CInto %d %d %s %s %s", reg.sch, id, oldS, hx.Bytes(enc.bytes), obs),
			map[string]interface{}{"replay": rp, "type": name, "stream": "dirty"})
	}
	switch {
	case d.panicked:
		c.Violate("decode-panic:other", fmt.Sprintf("%s.%s: Decode into a reused receiver panicked: %v", reg.name, name, d.pval), shard, index, rp)
	case d.err != nil || fresh.err != nil || fresh.panicked:
		c.Violate("roundtrip-fails:"+name, fmt.Sprintf("%s.%s: Decode of a valid encoding failed (reused receiver: %v, fresh: %v)", reg.name, name, d.err, fresh.err), shard, index, rp)
	default:
		x, y := (&proj{norm: true}).obj(reflect.ValueOf(a)), (&proj{norm: true}).obj(reflect.ValueOf(fresh.obj))
		if x != y && shard < 0 {
			c.Count("dirty:stale-but-too-large-for-the-model-comparison")
		} else if x != y {
			c.Nontrivial(fmt.Sprintf("dirty:%d:%d", reg.sch, id))
			c.Violate("stale-state-on-reused-receiver", fmt.Sprintf("%s.%s: Decode into a receiver that held another value differs from Decode into a fresh value: %s", reg.name, name, firstDiff(y, x)), shard, index, rp)
		}
	}
}

// ---------- result-vector helper structs ----------

// vectorID recomputes the synthetic constructor id that harness/cmd/tlschema gives to the
// pseudo-constructor of a result-vector box, from the element type alone.
func vectorID(reg *registry, elem reflect.Type) (uint32, bool) {
	var key string
	switch {
	case elem.Kind() == reflect.Int:
		key = "vec:TyInt"
	case elem.Kind() == reflect.Int64:
		key = "vec:TyLong"
	case elem.Kind() == reflect.String:
		key = "vec:TyString"
	case elem.Kind() == reflect.Float64:
		key = "vec:TyDouble"
	case elem.Kind() == reflect.Bool:
		key = "vec:TyBool"
	case elem.Kind() == reflect.Slice && elem.Elem().Kind() == reflect.Uint8:
		key = "vec:TyBytes"
	case elem.Kind() == reflect.Struct:
		id, ok := reg.byType[elem]
		if !ok {
			return 0, false
		}
		key = fmt.Sprintf("vec:ctor:%d", id)
	case elem.Kind() == reflect.Interface:
		ids := reg.implementers(elem)
		if len(ids) == 0 {
			return 0, false
		}
		key = fmt.Sprintf("vec:class:%d", ids[0]) // reg.ids is sorted
	default:
		return 0, false
	}
	return crc32.ChecksumIEEE([]byte(key)), true
}

// vectorBox: one value of a result-vector struct (Encode has no constructor id), its decoding,
// and mutated encodings, against the pseudo-constructor of the schema term addressed bare.
func (h *H) vectorBox(reg *registry, t reflect.Type, wantCoq bool) {
	c := h.c
	sid, ok := vectorID(reg, t.Field(0).Type.Elem())
	if !ok {
		c.Note("vector box " + t.Name() + ": element type not understood")
		return
	}
	c.Obs.Evaluations++
	c.Count("vector-box:" + reg.name)
	g := &gen{r: c.Rng.Fork(), reg: reg, canonical: true}
	pv := reflect.New(t)
	n := g.r.Range(0, 3)
	if n > 0 {
		sl := reflect.MakeSlice(t.Field(0).Type, n, n)
		for i := 0; i < n; i++ {
			g.fillValue(sl.Index(i), 2)
			switch sl.Index(i).Kind() {
			case reflect.Struct:
				g.canonicalize(sl.Index(i).Addr(), 1)
			case reflect.Interface:
				if !sl.Index(i).IsNil() {
					g.canonicalize(sl.Index(i).Elem(), 1)
				}
			}
		}
		pv.Elem().Field(0).Set(sl)
	}
	o := pv.Interface().(bin.Object)
	project := func(v reflect.Value) string {
		return fmt.Sprintf("(VObj %d [%s])", sid, (&proj{}).val(v.Elem().Field(0), false))
	}
	rp := replay{Mode: "vector-box", Sch: reg.sch, Box: t.Name()}
	valS := project(pv)
	enc := goEncode(o, kBoxed)
	decode := func(data []byte) decOut {
		tgt := reflect.New(t)
		buf := &bin.Buffer{Buf: append([]byte(nil), data...)}
		d := decOut{obj: tgt.Interface().(bin.Object)}
		d.panicked, d.pval = hx.Recover(func() { d.err = d.obj.Decode(buf) })
		d.unread = len(buf.Buf)
		return d
	}
	dobsV := func(d decOut) string {
		switch {
		case d.panicked:
			return "DPanic"
		case d.err != nil:
			return fmt.Sprintf("(DErr %d)", errClass(d.err))
		}
		gv := project(reflect.ValueOf(d.obj))
		re := goEncode(d.obj, kBoxed)
		return fmt.Sprintf("(DOk %s %d (Some %s))", hx.Bytes(re.bytes), d.unread, gv)
	}
	shard, index := -1, 0
	if wantCoq {
		shard, index = c.Case(fmt.Sprintf("CEnc %d 1 %d %s %s", reg.sch, sid, valS, eobs(enc)), map[string]interface{}{"replay": rp, "type": t.Name(), "stream": "vector-box"})
	}
	if enc.panicked || enc.err != nil {
		c.Violate("canonical-value-not-encodable:"+t.Name(), fmt.Sprintf("%s.%s: Encode failed: %v %v", reg.name, t.Name(), enc.err, enc.pval), shard, index, rp)
		return
	}
	d := decode(enc.bytes)
	if wantCoq {
		c.Case(fmt.Sprintf("CDec %d 1 %d %s %s", reg.sch, sid, hx.Bytes(enc.bytes), dobsV(d)), map[string]interface{}{"replay": rp, "stream": "vector-box-dec"})
	}
	switch {
	case d.panicked:
		c.Violate("decode-panic:other", fmt.Sprintf("%s.%s: Decode of its own encoding panicked: %v", reg.name, t.Name(), d.pval), shard, index, rp)
	case d.err != nil || d.unread != 0 || project(reflect.ValueOf(d.obj)) != valS && n > 0:
		c.Violate("roundtrip-fails:"+t.Name(), fmt.Sprintf("%s.%s: Decode(Encode(v)) = %v, %d unread, value equal: %v", reg.name, t.Name(), d.err, d.unread, project(reflect.ValueOf(d.obj)) == valS), shard, index, rp)
	default:
		c.Nontrivial(fmt.Sprintf("vecbox:%s:%d", t.Name(), len(enc.bytes)))
	}
	// mutants: truncations and count boundaries of the header (vector id, count)
	for _, m := range [][]byte{enc.bytes[:len(enc.bytes)/2], enc.bytes[:4], append(append([]byte(nil), enc.bytes[:4]...), 0xff, 0xff, 0xff, 0xff),
		append(append([]byte(nil), enc.bytes[:4]...), 0xff, 0xff, 0xff, 0x7f), append([]byte{1, 2, 3, 4}, enc.bytes...)} {
		c.Obs.Evaluations++
		dm := decode(m)
		if wantCoq {
			c.Case(fmt.Sprintf("CDec %d 1 %d %s %s", reg.sch, sid, hx.Bytes(m), dobsV(dm)), map[string]interface{}{"replay": rp, "stream": "vector-box-mutant"})
		}
		if dm.panicked {
			c.Violate("decode-panic:other", fmt.Sprintf("%s.%s: Decode(%x) panicked: %v", reg.name, t.Name(), m, dm.pval), -1, 0, rp)
		}
	}
}

// ---------- string / bytes fields cut inside their framing ----------

// stringTails: for every top-level string and []byte field of a constructor, a value in which
// that field holds distinctive content of length n; the field is located in the encoding by
// its content. The input is then cut at every position from the last content byte to the end
// of the 4-byte padding (and, for short content, re-framed in the long 0xfe form first, which
// decoders must accept): an input that ends inside a field's padding is an error, not a panic.
func (h *H) stringTails(reg *registry, id uint32, r *hx.Rand, lens []int, coqChance int) {
	t := reflect.TypeOf(reg.ctors[id]()).Elem()
	nl := nullable(t)
	for i := 0; i < t.NumField(); i++ {
		ft := t.Field(i).Type
		isStr := ft.Kind() == reflect.String
		isBytes := ft.Kind() == reflect.Slice && ft.Elem().Kind() == reflect.Uint8
		if !isStr && !isBytes {
			continue
		}
		for _, n := range lens {
			g := &gen{r: r.Fork(), reg: reg, canonical: true}
			o := reg.ctors[id]()
			sv := reflect.ValueOf(o).Elem()
			for j := 0; j < t.NumField(); j++ {
				if !nl[t.Field(j).Name] && j != i {
					g.fillValue(sv.Field(j), 3)
				}
			}
			content := r.Bytes(n)
			for k := range content { // distinctive and never a valid header byte
				content[k] = 0xA0 | (content[k] & 0x1f)
			}
			if isStr {
				sv.Field(i).SetString(string(content))
			} else {
				sv.Field(i).SetBytes(content)
			}
			g.canonicalize(reflect.ValueOf(o), 0)
			e := goEncode(o, kBoxed)
			if e.err != nil || e.panicked {
				continue
			}
			at := bytes.Index(e.bytes, content)
			if at < 1 {
				continue
			}
			var frames [][]byte // encodings in which the field is framed short and/or long
			var ends []int      // offset just after the content in each
			switch {
			case n > 253 && at >= 4 && e.bytes[at-4] == 0xfe:
				frames, ends = append(frames, e.bytes), append(ends, at+n)
			case n <= 253 && int(e.bytes[at-1]) == n:
				frames, ends = append(frames, e.bytes), append(ends, at+n)
				// the same value with the long-form header: 0xfe, 24-bit length, content, padding
				long := append([]byte(nil), e.bytes[:at-1]...)
				long = append(long, 0xfe, byte(n), byte(n>>8), byte(n>>16))
				long = append(long, content...)
				for (len(long)-(at-1))%4 != 0 {
					long = append(long, 0)
				}
				padShort := (4 - (1+n)%4) % 4
				long = append(long, e.bytes[at+n+padShort:]...)
				frames, ends = append(frames, long), append(ends, at-1+4+n)
			default:
				continue
			}
			for fi, data := range frames {
				end := ends[fi]
				padded := end
				for padded%4 != 0 { // fields start 4-aligned in a boxed encoding
					padded++
				}
				for cut := end - 1; cut <= padded && cut <= len(data); cut++ {
					h.bytesCase(reg, kBoxed, id, nil, data[:cut], "string-tail", r.Chance(1, coqChance), 0)
				}
			}
		}
	}
}

// ---------- vector count sites ----------

// A site is a top-level vector field of a constructor together with a valid encoding in which
// that vector has two elements and the offset of its count word. The offset is found without
// knowledge of the schema: the same value is encoded with two and with one element; the first
// word in which the encodings differ is the count.
type site struct {
	reg   *registry
	id    uint32
	field string
	enc   []byte
	off   int
}

func (h *H) vectorSites(reg *registry, id uint32, r *hx.Rand) []site {
	var out []site
	t := reflect.TypeOf(reg.ctors[id]()).Elem()
	for i := 0; i < t.NumField(); i++ {
		ft := t.Field(i).Type
		if ft.Kind() != reflect.Slice || ft.Elem().Kind() == reflect.Uint8 {
			continue
		}
		g := &gen{r: r.Fork(), reg: reg, canonical: true}
		o := reg.ctors[id]()
		sv := reflect.ValueOf(o).Elem()
		// small canonical value: only what has to be there, then the vector under test
		nl := nullable(t)
		for j := 0; j < t.NumField(); j++ {
			if !nl[t.Field(j).Name] && j != i {
				g.fillValue(sv.Field(j), 3)
			}
		}
		two := reflect.MakeSlice(ft, 2, 2)
		g.fillValue(two.Index(0), 3)
		g.fillValue(two.Index(1), 3)
		sv.Field(i).Set(two)
		g.canonicalize(reflect.ValueOf(o), 0)
		e2 := goEncode(o, kBoxed)
		sv.Field(i).Set(sv.Field(i).Slice(0, 1))
		e1 := goEncode(o, kBoxed)
		if e2.err != nil || e1.err != nil || e2.panicked || e1.panicked {
			continue
		}
		off := -1
		for w := 0; w+4 <= len(e1.bytes) && w+4 <= len(e2.bytes); w += 4 {
			if !bytes.Equal(e1.bytes[w:w+4], e2.bytes[w:w+4]) {
				off = w
				break
			}
		}
		if off < 0 || !bytes.Equal(e2.bytes[off:off+4], []byte{2, 0, 0, 0}) || !bytes.Equal(e1.bytes[off:off+4], []byte{1, 0, 0, 0}) {
			continue
		}
		out = append(out, site{reg: reg, id: id, field: t.Field(i).Name, enc: e2.bytes, off: off})
	}
	return out
}

func put32(b []byte, off int, v uint32) {
	b[off], b[off+1], b[off+2], b[off+3] = byte(v), byte(v>>8), byte(v>>16), byte(v>>24)
}

// countBoundaries decodes the site's encoding with the count word replaced by boundary values
// (negative, around the preallocation limit, maximal).
func (h *H) countBoundaries(s site, vals []int32, coqChance int) {
	for _, v := range vals {
		data := append([]byte(nil), s.enc...)
		put32(data, s.off, uint32(v))
		h.bytesCase(s.reg, kBoxed, s.id, nil, data, "vec-count", h.c.Rng.Chance(1, coqChance), 1<<20+64*int64(len(data)))
	}
}

// largeInput: the site's prefix up to the count, a huge count, and a LARGE tail of 0xff bytes
// (no element starts with the id 0xffffffff, so boxed elements fail at once). Whatever the
// decoder allocates before it fails is preallocation; it must not grow with the input.
type largeBuf struct {
	buf  []byte
	head int
}

func newLargeBuf(tail int) *largeBuf {
	l := &largeBuf{buf: make([]byte, 1<<16+tail), head: 1 << 16}
	for i := l.head; i < len(l.buf); i++ {
		l.buf[i] = 0xff
	}
	return l
}

func (h *H) largeInput(s site, count int32, lb *largeBuf) {
	c := h.c
	if s.off+4 > lb.head {
		return
	}
	start := lb.head - (s.off + 4)
	copy(lb.buf[start:], s.enc[:s.off])
	put32(lb.buf, lb.head-4, uint32(count))
	data := lb.buf[start:]
	tail := len(lb.buf) - lb.head
	c.Obs.Evaluations++
	rp := replay{Mode: "bytes", Sch: s.reg.sch, Kind: kBoxed, ID: s.id, Hex: hex.EncodeToString(data[:s.off+4]), Tail: tail}
	h.watch(rp)
	o := s.reg.ctors[s.id]()
	buf := &bin.Buffer{Buf: data}
	var err error
	var m0, m1 runtime.MemStats
	runtime.ReadMemStats(&m0)
	panicked, pval := hx.Recover(func() { err = o.Decode(buf) })
	runtime.ReadMemStats(&m1)
	h.unwatch()
	name := typeName(o)
	switch {
	case panicked:
		c.Count("vec-large:panic")
		c.Violate("decode-panic:other", fmt.Sprintf("%s.%s: Decode(%s + %d x ff) panicked: %v", s.reg.name, name, rp.Hex, tail, pval), -1, 0, rp)
		return
	case err == nil || len(buf.Buf) < tail-1024:
		// elements without an id (or primitives) legitimately consumed the tail
		c.Count("vec-large:consumed")
		return
	}
	c.Count("vec-large:failed-early")
	c.Nontrivial(fmt.Sprintf("large:%d:%d:%s", s.reg.sch, s.id, s.field))
	got := int64(m1.TotalAlloc - m0.TotalAlloc)
	if bound := int64(1<<20 + 64*(s.off+4)); got > bound {
		c.Violate("prealloc-exceeds-limit", fmt.Sprintf("%s.%s field %s: a failing Decode of %d bytes (count %d, no valid element) allocated %d bytes (> %d): the preallocation grows with the input",
			s.reg.name, name, s.field, len(data), count, got, bound), -1, 0, rp)
	}
}

// ---------- watchdog: a case that does not return becomes a violation with a replay ----------

type watched struct {
	rp    replay
	since time.Time
}

var watching atomic.Pointer[watched]

func (h *H) watch(rp replay) { watching.Store(&watched{rp: rp, since: time.Now()}) }
func (h *H) unwatch()        { watching.Store(nil) }
func (h *H) watchdog(limit time.Duration) {
	go func() {
		for {
			time.Sleep(time.Second)
			if w := watching.Load(); w != nil && time.Since(w.since) > limit {
				h.c.Violate("decode-hangs", fmt.Sprintf("a single Encode/Decode did not return within %s", limit), -1, 0, w.rp)
				h.c.Finish()
				os.Exit(0)
			}
		}
	}()
}

// ---------- truncated deep nesting (subprocess): cost of the error path ----------

func truncChild(levels int) {
	data := deepPayload(levels)
	data = data[:4*levels] // no terminator: the innermost decode fails with unexpected EOF
	var m0, m1 runtime.MemStats
	runtime.GC()
	runtime.ReadMemStats(&m0)
	t0 := time.Now()
	_, err := tg.DecodeRichText(&bin.Buffer{Buf: data})
	d := time.Since(t0)
	runtime.ReadMemStats(&m1)
	n := 0
	if err != nil {
		n = len(err.Error())
	}
	fmt.Printf("trunc: levels=%d input=%d alloc=%d errlen=%d ms=%d\n", levels, len(data), m1.TotalAlloc-m0.TotalAlloc, n, d.Milliseconds())
	os.Exit(0)
}

func (h *H) trunc(levels int) (alloc int64, ok bool) {
	c := h.c
	c.Obs.Evaluations++
	exe, err := os.Executable()
	if err != nil {
		return 0, false
	}
	cmd := exec.Command(exe, "-trunc", fmt.Sprint(levels), "-out", c.Out)
	cmd.Env = append(os.Environ(), "GOMEMLIMIT=1GiB")
	var out bytes.Buffer
	cmd.Stdout, cmd.Stderr = &out, &out
	done := make(chan error, 1)
	_ = cmd.Start()
	go func() { done <- cmd.Wait() }()
	select {
	case err = <-done:
	case <-time.After(120 * time.Second):
		_ = cmd.Process.Kill()
		err = errors.New("timeout")
	}
	var lv, in, el, ms int
	if _, e := fmt.Sscanf(strings.TrimSpace(lastLine(out.String())), "trunc: levels=%d input=%d alloc=%d errlen=%d ms=%d", &lv, &in, &alloc, &el, &ms); e != nil || err != nil {
		c.Violate("deep-nesting-crash:other", fmt.Sprintf("subprocess decoding %d truncated nested textBold failed: %v: %.300s", levels, err, out.String()), -1, 0, replay{Mode: "trunc", Depth: levels})
		return 0, false
	}
	c.Count(fmt.Sprintf("trunc:levels=%d", levels))
	return alloc, true
}

// ---------- deep nesting (subprocess) ----------

const maxUncompressed = 10 * 1024 * 1024 // proto/gzip.go: maxUncompressedSize

func deepPayload(levels int) []byte {
	var b bin.Buffer
	for i := 0; i < levels; i++ {
		b.PutID(tg.TextBoldTypeID)
	}
	b.PutID(tg.TextEmptyTypeID)
	return b.Buf
}

// child: decode `levels` nested textBold that arrive gzip-packed (as they would inside an
// rpc_result), i.e. through proto.GZIP.Decode and its 10 MiB limit.
func deepChild(levels int) {
	payload := deepPayload(levels)
	var packed bin.Buffer
	if err := (proto.GZIP{Data: payload}).Encode(&packed); err != nil {
		fmt.Println("deep: gzip encode:", err)
		os.Exit(3)
	}
	var gz proto.GZIP
	if err := gz.Decode(&bin.Buffer{Buf: packed.Buf}); err != nil {
		fmt.Printf("deep: levels=%d packed=%d gzip-rejected: %v\n", levels, len(packed.Buf), err)
		os.Exit(0)
	}
	fmt.Printf("deep: levels=%d packed=%d unpacked=%d\n", levels, len(packed.Buf), len(gz.Data))
	v, err := tg.DecodeRichText(&bin.Buffer{Buf: gz.Data})
	fmt.Printf("deep: decoded ok=%v err=%v\n", v != nil, err)
	os.Exit(0)
}

func (h *H) deep(levels int) {
	c := h.c
	c.Obs.Evaluations++
	exe, err := os.Executable()
	if err != nil {
		c.Note("deep nesting: cannot locate own executable: " + err.Error())
		return
	}
	cmd := exec.Command(exe, "-deep", fmt.Sprint(levels), "-out", c.Out)
	var out bytes.Buffer
	cmd.Stdout, cmd.Stderr = &out, &out
	runErr := cmd.Run()
	s := out.String()
	first := s
	if i := strings.Index(first, "\n\n"); i > 0 {
		first = first[:i]
	}
	if len(first) > 600 {
		first = first[:600]
	}
	c.Count(fmt.Sprintf("deep:levels=%d", levels))
	rp := replay{Mode: "deep", Depth: levels}
	switch {
	case strings.Contains(s, "stack overflow") || strings.Contains(s, "goroutine stack exceeds"):
		c.Violate("fatal-stack-overflow:deep-nesting-within-max-payload",
			fmt.Sprintf("decoding %d nested textBold (%d bytes, accepted by the 10 MiB gzip limit) kills the process: %s", levels, 4*(levels+1), strings.SplitN(first, "\n", 3)[0]+" / "+lastLine(first)), -1, 0, rp)
	case runErr != nil:
		c.Violate("deep-nesting-crash:other", fmt.Sprintf("subprocess for %d nested textBold failed: %v: %s", levels, runErr, first), -1, 0, rp)
	default:
		c.Note(fmt.Sprintf("deep nesting: %d levels decoded without crash: %s", levels, strings.ReplaceAll(strings.TrimSpace(first), "\n", " | ")))
	}
}

// truncOracle: the cost of a FAILING decode must stay proportional to the input.
func (h *H) truncOracle() {
	c := h.c
	a1, ok1 := h.trunc(500)
	a2, ok2 := h.trunc(1000)
	if !ok1 || !ok2 {
		return
	}
	c.Note(fmt.Sprintf("truncated nesting: 500 levels (2000 bytes) allocate %d bytes, 1000 levels (4000 bytes) allocate %d bytes (ratio %.1f)", a1, a2, float64(a2)/float64(a1+1)))
	if a2 > 1000*4000 {
		per := a2 / (1000 * 1000)
		c.Violate("quadratic-memory:error-rewrap-under-deep-nesting",
			fmt.Sprintf("decoding 1000 nested textBold without terminator (4000 bytes) fails after allocating %d bytes (%d for 500 levels: x%.1f for x2 input, ~%d bytes per level squared); 262144 levels (1 MiB, far below the 10 MiB limit) would need ~%d GiB: the process is OOM-killed",
				a2, a1, float64(a2)/float64(a1+1), per, per*262144*262144>>30), -1, 0, replay{Mode: "trunc", Depth: 1000})
	}
}

func lastLine(s string) string {
	l := strings.Split(strings.TrimSpace(s), "\n")
	for _, x := range l {
		if strings.Contains(x, "fatal error") {
			return x
		}
	}
	return l[len(l)-1]
}

func main() {
	deepN := flag.Int("deep", 0, "(internal) child mode: decode this many nested textBold and exit")
	truncN := flag.Int("trunc", 0, "(internal) child mode: decode this many nested textBold WITHOUT terminator, print the allocation and exit")
	c := hx.Start("C21", "Run.Check_C21", 80)
	if *deepN > 0 {
		deepChild(*deepN)
		return
	}
	if *truncN > 0 {
		truncChild(*truncN)
		return
	}
	h := &H{c: c, maxCase: 60000, coqLeft: map[string]int{}}
	h.regs = []*registry{
		newRegistry("tg", 0, tg.TypesConstructorMap(), tg.ClassConstructorsMap()),
		newRegistry("mt", 1, mt.TypesConstructorMap(), mt.ClassConstructorsMap()),
		newRegistry("e2e", 2, e2e.TypesConstructorMap(), e2e.ClassConstructorsMap()),
	}
	h.regs[0].boxes = discoverBoxes()
	h.regs[0].vectors = vectorTypes
	h.watchdog(90 * time.Second)

	var rp replay
	if c.LoadReplay(&rp) {
		reg := h.regs[rp.Sch]
		switch rp.Mode {
		case "value":
			h.coqLeft["replay"] = 1
			h.valueCase(reg, rp.ID, rp.Seed, rp.Canon, true)
		case "bytes":
			data, _ := hex.DecodeString(rp.Hex)
			for i := 0; i < rp.Tail; i++ {
				data = append(data, 0xff)
			}
			var box reflect.Type
			for _, b := range reg.boxes {
				if b.Name() == rp.Box {
					box = b
				}
			}
			h.bytesCase(reg, rp.Kind, rp.ID, box, data, "replay", true, 0)
		case "deep":
			h.deep(rp.Depth)
		case "trunc":
			h.truncOracle()
		case "dirty":
			h.dirtyCase(reg, rp.ID, rp.Seed, true)
		}
		for _, v := range c.Obs.Violations {
			fmt.Printf("replay: VIOLATION %s: %s\n", v.Sig, v.Desc)
		}
		if len(c.Obs.Violations) == 0 {
			fmt.Println("replay: no violation")
		}
		c.Finish()
		return
	}

	// cross-check: every interface used by a field is a class of ClassConstructorsMap
	rounds := c.N(1, 50)
	coqValues := c.N(120, 700)
	coqMutants := c.N(80, 400)
	total := 0
	for _, reg := range h.regs {
		total += len(reg.ids)
	}
	// corpus: the constructors the reading of the templates singled out
	corpus := []struct {
		reg *registry
		id  uint32
	}{
		{h.regs[0], tg.AccessPointRuleTypeID}, {h.regs[0], tg.HelpConfigSimpleTypeID}, {h.regs[0], tg.MessageTypeID},
		{h.regs[0], tg.UserTypeID}, {h.regs[0], tg.TextConcatTypeID}, {h.regs[0], tg.InvokeWithLayerRequestTypeID},
		{h.regs[0], tg.InitConnectionRequestTypeID}, {h.regs[1], mt.FutureSaltsTypeID}, {h.regs[1], mt.MsgContainerTypeID},
		{h.regs[1], mt.RPCResultTypeID}, {h.regs[1], mt.MsgCopyTypeID}, {h.regs[2], e2e.DecryptedMessageLayerTypeID},
	}
	for i, k := range corpus {
		for j := 0; j < 6; j++ {
			h.valueCase(k.reg, k.id, c.Seed*1000003+uint64(i*16+j)+77, true, j < 2)
		}
	}
	// every constructor, `rounds` values each; a stride sample goes to the Coq cases
	n := 0
	stride := total * rounds / coqValues
	if stride < 1 {
		stride = 1
	}
	for round := 0; round < rounds; round++ {
		for _, reg := range h.regs {
			for _, id := range reg.ids {
				seed := c.Rng.U64()
				canonical := round%4 != 3 && !c.Rng.Chance(1, 5)
				// small schemas are always part of the Coq sample in the first round
				want := n%stride == 0 || (round == 0 && reg.sch != 0 && n%2 == 0)
				h.valueCase(reg, id, seed, canonical, want)
				n++
			}
		}
	}
	// result-vector helper structs (IntVector, UserClassVector, ...): Encode without constructor id
	for _, reg := range h.regs {
		for i, t := range reg.vectors {
			for k := 0; k < c.N(2, 40); k++ {
				h.vectorBox(reg, t, k == 0 && i%2 == 0)
			}
		}
		c.Count(fmt.Sprintf("vector-box-types:%s=%d", reg.name, len(reg.vectors)))
	}
	// reused receivers: a sample of the constructors of tg, all of mt and e2e
	{
		k := 0
		for _, reg := range h.regs {
			for _, id := range reg.ids {
				k++
				if c.Thorough() || reg.sch != 0 || k%6 == 0 {
					h.dirtyCase(reg, id, c.Rng.U64(), k%9 == 0)
				}
			}
		}
	}
	// decoders reached only through the client: Decode<Class> via the Box types
	for _, reg := range h.regs {
		for _, box := range reg.boxes {
			ids := reg.implementers(box.Field(0).Type)
			if len(ids) == 0 {
				continue
			}
			id := ids[c.Rng.Intn(len(ids))]
			g := &gen{r: c.Rng.Fork(), reg: reg, canonical: true}
			o := reg.ctors[id]()
			g.fillStruct(reflect.ValueOf(o).Elem(), 1)
			enc := goEncode(o, kBoxed)
			if enc.err != nil || enc.panicked {
				continue
			}
			h.bytesCase(reg, kClass, id, box, enc.bytes, "class-valid", c.Rng.Chance(1, 12), 0)
			mb, _ := h.mutate(c.Rng, enc.bytes)
			h.bytesCase(reg, kClass, id, box, mb, "class-mutant", c.Rng.Chance(1, 12), 0)
		}
	}
	// mutants of valid encodings + pure noise behind a valid id
	nm := c.N(2000, 100000)
	mstride := nm / coqMutants
	if mstride < 1 {
		mstride = 1
	}
	for i := 0; i < nm; i++ {
		k := c.Rng.Intn(len(h.encoded))
		meta := h.encMeta[k]
		reg := h.regs[meta.Sch]
		var data []byte
		var how string
		if c.Rng.Chance(1, 8) {
			var b bin.Buffer
			if meta.Kind == kBoxed {
				b.PutID(meta.ID)
			}
			b.Put(c.Rng.Bytes(4 * c.Rng.Range(0, 12)))
			data, how = b.Buf, "noise"
		} else {
			data, how = h.mutate(c.Rng, h.encoded[k])
			if c.Rng.Chance(1, 3) {
				data, _ = h.mutate(c.Rng, data)
			}
		}
		var bound int64
		if how == "word-maxint" || how == "word-random" {
			// preallocation: cap <= PreallocateLimit elements of at most a few hundred bytes, plus
			// what the bytes actually present can justify
			bound = 1<<20 + 64*int64(len(data))
		}
		h.bytesCase(reg, meta.Kind, meta.ID, nil, data, "mutant:"+how, i%mstride == 0, bound)
	}
	// every top-level string / bytes field: input cut between the last content byte and the end
	// of the padding, short and long framing (lengths around the 253/254 switch, and 64 KiB)
	{
		k := 0
		for _, reg := range h.regs {
			for _, id := range reg.ids {
				k++
				switch {
				case c.Thorough():
					h.stringTails(reg, id, c.Rng, []int{1, 2, 3, 5, 253, 254, 255, 256, 257, 65535, 65537}, 900)
				case reg.sch != 0:
					h.stringTails(reg, id, c.Rng, []int{2, 5, 253, 254, 257}, 25)
				case k%3 == 0:
					h.stringTails(reg, id, c.Rng, []int{5, 254 + k%4}, 100)
				}
			}
		}
	}
	// every top-level vector field of every constructor: boundary counts (negative, around the
	// preallocation limit, maximal) and, for a sample, a huge count in front of a LARGE input
	{
		quickVals := []int32{-1, -1025, math.MinInt32, math.MaxInt32}
		allVals := []int32{-1, -2, -1023, -1024, -1025, math.MinInt32, math.MinInt32 + 1, 0, 1023, 1024, 1025, 1 << 20, math.MaxInt32}
		lb := newLargeBuf(c.N(8, 10) << 20)
		nSites, k := 0, 0
		for _, reg := range h.regs {
			for _, id := range reg.ids {
				for _, st := range h.vectorSites(reg, id, c.Rng) {
					nSites++
					if c.Thorough() || reg.sch != 0 {
						h.countBoundaries(st, allVals, 90)
					} else {
						h.countBoundaries(st, quickVals, 60)
					}
					k++
					if c.Thorough() || reg.sch != 0 || k%5 == 0 {
						h.largeInput(st, math.MaxInt32, lb)
						if c.Thorough() {
							h.largeInput(st, 1<<21+7, lb)
						}
					}
				}
			}
		}
		c.Count(fmt.Sprintf("vector-sites=%d", nSites))
	}
	// class maps: every interface type met equals one ClassConstructorsMap entry
	for _, reg := range h.regs {
		sets := map[string]bool{}
		for _, ids := range reg.classes {
			s := append([]uint32(nil), ids...)
			sort.Slice(s, func(i, j int) bool { return s[i] < s[j] })
			sets[fmt.Sprint(s)] = true
		}
		bad := 0
		for t, ids := range reg.impl {
			if !sets[fmt.Sprint(ids)] {
				bad++
				c.Note(fmt.Sprintf("%s: interface %s has implementers %v that are not a ClassConstructorsMap entry", reg.name, t, ids))
			}
		}
		c.Count(fmt.Sprintf("classes:%s:interfaces=%d:unmatched=%d", reg.name, len(reg.impl), bad))
	}
	// deep nesting: as many textBold levels as fit below the 10 MiB decompression limit
	h.deep(maxUncompressed/4 - 2)
	h.truncOracle()
	if c.Thorough() {
		h.deep(1000000)
	}
	c.Note("gen/_template/decode.tmpl: the inner loop of a double vector reads `for innerIndex := 0; innerIndex < innerLen; innerLen++` (increments the bound instead of the index: it would spin until innerLen overflows). No constructor of telegram.tl, mt.tl or encrypted.tl has a Vector<Vector<..>> field (harness/cmd/tlschema refuses such a schema), so the generated packages do not contain that loop.")
	c.Note(fmt.Sprintf("%d result-vector helper structs (IntVector ...) are pseudo-constructors of the schema term, addressed bare (stream vector-box); the %d XBox decoders are exercised through Decode<Class>", len(h.regs[0].vectors), len(h.regs[0].boxes)))
	c.Obs.Rule = "evaluation = one generated Go value (Encode, Decode(Encode), re-encode) or one byte string (Decode under recover, re-encode, decode again); every constructor of tg/mt/e2e TypesConstructorMap at least once per round; non-trivial = distinct (schema, constructor, encoded length) that encoded or decoded successfully"
	c.Finish()
}
