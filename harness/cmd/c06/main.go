// C06 harness: crypto.MessageKey / Keys / MessageKeyV1 / KeysV1 / OldKeys / Key.ID /
// EncryptBindMessage against an oracle written from the MTProto specification text.
package main

import (
	"bytes"
	"crypto/aes"
	"crypto/sha1"
	"crypto/sha256"
	"encoding/binary"
	"fmt"
	"io"
	"math"
	"strings"

	"github.com/gotd/ige"

	"github.com/gotd/td/bin"
	"github.com/gotd/td/crypto"
	"github.com/gotd/td/verifharness/hx"
)

// ---------- the specification, transcribed (substr(s, off, len), "+" = concatenation) ----------
func substr(s []byte, off, n int) []byte { return s[off : off+n] }
func cat(parts ...[]byte) []byte {
	var r []byte
	for _, p := range parts {
		r = append(r, p...)
	}
	return r
}
func h256(b []byte) []byte { s := sha256.Sum256(b); return s[:] }
func h1(b []byte) []byte   { s := sha1.Sum(b); return s[:] }

func specMsgKey(authKey, plaintextPadded []byte, x int) []byte {
	return substr(h256(cat(substr(authKey, 88+x, 32), plaintextPadded)), 8, 16)
}
func specKeys(authKey, msgKey []byte, x int) (key, iv []byte) {
	a := h256(cat(msgKey, substr(authKey, x, 36)))
	b := h256(cat(substr(authKey, 40+x, 36), msgKey))
	key = cat(substr(a, 0, 8), substr(b, 8, 16), substr(a, 24, 8))
	iv = cat(substr(b, 0, 8), substr(a, 8, 16), substr(b, 24, 8))
	return
}
func specMsgKeyV1(data []byte) []byte { return substr(h1(data), 4, 16) }
func specKeysV1(authKey, msgKey []byte, x int) (key, iv []byte) {
	a := h1(cat(msgKey, substr(authKey, x, 32)))
	b := h1(cat(substr(authKey, 32+x, 16), msgKey, substr(authKey, 48+x, 16)))
	c := h1(cat(substr(authKey, 64+x, 32), msgKey))
	d := h1(cat(msgKey, substr(authKey, 96+x, 32)))
	key = cat(substr(a, 0, 8), substr(b, 8, 12), substr(c, 4, 12))
	iv = cat(substr(a, 8, 12), substr(b, 0, 8), substr(c, 16, 4), substr(d, 0, 8))
	return
}
func specKeyID(authKey []byte) []byte { return substr(h1(authKey), 12, 8) }

type bound struct {
	MsgID                         int64
	SeqNo                         int32
	Nonce, TempKey, PermKey, Sess int64
	Expires                       int32
}

// specOpenBind: the receiver's view of the special binding message (api/pfs).
func specOpenBind(permKey, permKeyID, msg []byte) (bound, string) {
	var b bound
	if len(msg) < 24+32 || (len(msg)-24)%16 != 0 {
		return b, "bad length"
	}
	if !bytes.Equal(msg[:8], permKeyID) {
		return b, "perm_auth_key_id differs"
	}
	mk := msg[8:24]
	key, iv := specKeysV1(permKey, mk, 0)
	blk, err := aes.NewCipher(key)
	if err != nil {
		return b, err.Error()
	}
	pt := make([]byte, len(msg)-24)
	ige.DecryptBlocks(blk, iv, pt, msg[24:])
	n := int(int32(binary.LittleEndian.Uint32(pt[28:])))
	if n < 0 || n > len(pt)-32 || len(pt)-32-n > 15 {
		return b, "bad msg_len"
	}
	data := pt[:32+n]
	if !bytes.Equal(specMsgKeyV1(data), mk) {
		return b, "msg_key != substr(sha1(message_data), 4, 16)"
	}
	inner := data[32:]
	if n != 40 || binary.LittleEndian.Uint32(inner) != 0x75a3f765 {
		return b, "not bind_auth_key_inner"
	}
	b.MsgID = int64(binary.LittleEndian.Uint64(pt[16:]))
	b.SeqNo = int32(binary.LittleEndian.Uint32(pt[24:]))
	b.Nonce = int64(binary.LittleEndian.Uint64(inner[4:]))
	b.TempKey = int64(binary.LittleEndian.Uint64(inner[12:]))
	b.PermKey = int64(binary.LittleEndian.Uint64(inner[20:]))
	b.Sess = int64(binary.LittleEndian.Uint64(inner[28:]))
	b.Expires = int32(binary.LittleEndian.Uint32(inner[36:]))
	return b, ""
}

// dirty runs other exported users of package-level pooled state (hashers, buffers, gzip writers) with
// unrelated data, in a PRNG-chosen mix, right before the call under test: a derivation function must not
// depend on what ran before it in the same process.
var dirtyRng = hx.NewRand(0xD1127)

func dirty() {
	r := dirtyRng
	start := r.Intn(5)
	for i := 0; i < 5; i++ { // every user once, rotating order
		switch (start + i) % 5 {
		case 0:
			_ = crypto.SHA256(r.Bytes(r.Intn(200)))
		case 1:
			_ = crypto.SHA256(r.Bytes(r.Intn(70)), r.Bytes(1+r.Intn(70)))
		case 2:
			var k crypto.Key
			copy(k[:], r.Bytes(256))
			_ = k.ID()
			_ = crypto.MessageKeyV1(r.Bytes(r.Intn(100)))
		case 3:
			var k crypto.Key
			copy(k[:], r.Bytes(256))
			_ = crypto.MessageKey(k, r.Bytes(16*r.Intn(8)), crypto.Side(r.Intn(2)))
		default:
			_, _ = crypto.RandInt128(r)
			_ = crypto.SHA256(nil)
		}
	}
}

// ---------- cases ----------
type tc struct {
	Kind    int     `json:"kind"`
	Key     []byte  `json:"key"`
	KeyID   []byte  `json:"key_id,omitempty"`
	MsgKey  []byte  `json:"msg_key,omitempty"`
	Plain   []byte  `json:"plain,omitempty"`
	Side    int     `json:"side"`
	Rnd     []byte  `json:"rnd,omitempty"`
	MsgID   int64   `json:"msg_id,omitempty"`
	Inner   []int64 `json:"inner,omitempty"` // nonce, temp key id, perm key id, temp session, expires
}

type fixedReader struct{ b []byte }

func (r *fixedReader) Read(p []byte) (int, error) {
	n := copy(p, r.b)
	r.b = r.b[n:]
	if n < len(p) {
		return n, io.ErrUnexpectedEOF
	}
	return n, nil
}

func side(i int) crypto.Side {
	if i == 0 {
		return crypto.Client
	}
	return crypto.Server
}
func xOf(i int) int {
	if i == 0 {
		return 0
	}
	return 8
}

func bl(bs ...[]byte) string {
	s := make([]string, len(bs))
	for i, b := range bs {
		s[i] = hx.PackedBytes(b)
	}
	return hx.List(s)
}

func run(c *hx.Ctx, t tc) {
	c.Obs.Evaluations++
	dirty()
	var key crypto.Key
	copy(key[:], t.Key)
	var mk bin.Int128
	copy(mk[:], t.MsgKey)
	emit := func(bs string, zs []int64, code int, outs string) (int, int) {
		return c.Case(hx.Tuple(hx.Z(int64(t.Kind)), bs, hx.ZList(zs), hx.Z(int64(code)), outs), t)
	}
	differ := func(what string, got, want []byte, sh, ix int) {
		if !bytes.Equal(got, want) {
			c.Violate("kdf-differs-from-spec:"+what, fmt.Sprintf("%s differs from the specification (side %d, plaintext %d bytes): got %x want %x", what, t.Side, len(t.Plain), got, want), sh, ix, t)
		}
	}
	names := []string{"MessageKey", "Keys", "MessageKeyV1", "KeysV1", "OldKeys", "Key.ID", "EncryptBindMessage"}
	c.Count(names[t.Kind])
	p, pv := hx.Recover(func() {
		switch t.Kind {
		case 0:
			got := crypto.MessageKey(key, t.Plain, side(t.Side))
			sh, ix := emit(bl(t.Key, t.Plain), []int64{int64(t.Side)}, 0, bl(got[:]))
			differ("msg_key", got[:], specMsgKey(t.Key, t.Plain, xOf(t.Side)), sh, ix)
			c.Nontrivial(fmt.Sprintf("mk/%d/%d", t.Side, len(t.Plain)))
		case 1:
			k, iv := crypto.Keys(key, mk, side(t.Side))
			sh, ix := emit(bl(t.Key, t.MsgKey), []int64{int64(t.Side)}, 0, bl(k[:], iv[:]))
			wk, wiv := specKeys(t.Key, t.MsgKey, xOf(t.Side))
			differ("aes_key", k[:], wk, sh, ix)
			differ("aes_iv", iv[:], wiv, sh, ix)
			c.Nontrivial(fmt.Sprintf("keys/%d/%x", t.Side, t.MsgKey[:4]))
		case 2:
			got := crypto.MessageKeyV1(t.Plain)
			sh, ix := emit(bl(t.Plain), nil, 0, bl(got[:]))
			differ("msg_key_v1", got[:], specMsgKeyV1(t.Plain), sh, ix)
			c.Nontrivial(fmt.Sprintf("mk1/%d", len(t.Plain)))
		case 3:
			k, iv := crypto.KeysV1(key, mk)
			sh, ix := emit(bl(t.Key, t.MsgKey), nil, 0, bl(k[:], iv[:]))
			wk, wiv := specKeysV1(t.Key, t.MsgKey, 0)
			differ("aes_key_v1", k[:], wk, sh, ix)
			differ("aes_iv_v1", iv[:], wiv, sh, ix)
			c.Nontrivial(fmt.Sprintf("keys1/%x", t.MsgKey[:4]))
		case 4:
			k, iv := crypto.OldKeys(key, mk, side(t.Side))
			sh, ix := emit(bl(t.Key, t.MsgKey), []int64{int64(t.Side)}, 0, bl(k[:], iv[:]))
			wk, wiv := specKeysV1(t.Key, t.MsgKey, xOf(t.Side))
			differ("old aes_key", k[:], wk, sh, ix)
			differ("old aes_iv", iv[:], wiv, sh, ix)
			c.Nontrivial(fmt.Sprintf("old/%d/%x", t.Side, t.MsgKey[:4]))
		case 5:
			id := key.ID()
			sh, ix := emit(bl(t.Key), nil, 0, bl(id[:]))
			differ("auth_key_id", id[:], specKeyID(t.Key), sh, ix)
			c.Nontrivial(fmt.Sprintf("id/%x", t.Key[:4]))
		case 6:
			ak := crypto.AuthKey{Value: key}
			copy(ak.ID[:], t.KeyID)
			inner := &crypto.BindAuthKeyInner{Nonce: t.Inner[0], TempAuthKeyID: t.Inner[1], PermAuthKeyID: t.Inner[2], TempSessionID: t.Inner[3], ExpiresAt: int(t.Inner[4])}
			ct, err := crypto.EncryptBindMessage(&fixedReader{b: append([]byte(nil), t.Rnd...)}, ak, t.MsgID, inner)
			code := 0
			outs := bl(ct)
			if err != nil {
				outs = "[]"
				switch {
				case strings.Contains(err.Error(), "permanent key is zero"):
					code = 10
				case strings.Contains(err.Error(), "generate random"):
					code = 1
				default:
					code = 50
				}
			}
			sh, ix := emit(bl(t.Rnd, t.Key, t.KeyID), append([]int64{t.MsgID}, t.Inner...), code, outs)
			if err != nil {
				c.Count("bind-error")
				if code == 50 || (code == 1 && len(t.Rnd) >= 24) || (code == 10 && !(bytes.Equal(t.Key, make([]byte, 256)) && bytes.Equal(t.KeyID, make([]byte, 8)))) {
					c.Violate("bind-unexpected-error", "EncryptBindMessage failed: "+err.Error(), sh, ix, t)
				}
				return
			}
			b, why := specOpenBind(t.Key, t.KeyID, ct)
			want := bound{t.MsgID, 0, t.Inner[0], t.Inner[1], t.Inner[2], t.Inner[3], int32(t.Inner[4])}
			if why != "" {
				c.Violate("bind-does-not-decrypt", "bind message does not decrypt under the permanent key with the v1 KDF: "+why, sh, ix, t)
			} else if b != want {
				c.Violate("bind-fields-differ", fmt.Sprintf("bind message decrypts to %+v, bound %+v", b, want), sh, ix, t)
			}
			c.Nontrivial(fmt.Sprintf("bind/%d/%d", t.MsgID, t.Inner[0]))
			c.Sample(map[string]interface{}{"kind": "bind", "len": len(ct), "decrypted": b})
		}
	})
	if p {
		c.Violate("kdf-panic", fmt.Sprintf("%s panicked: %v", names[t.Kind], pv), -1, 0, t)
	}
}

// runQuiet: kinds 0 (MessageKey) and 2 (MessageKeyV1) under the specification oracle only (no Coq case).
func runQuiet(c *hx.Ctx, t tc) {
	c.Obs.Evaluations++
	dirty()
	var key crypto.Key
	copy(key[:], t.Key)
	p, pv := hx.Recover(func() {
		switch t.Kind {
		case 0:
			got := crypto.MessageKey(key, t.Plain, side(t.Side))
			c.Count("MessageKey(length sweep)")
			if want := specMsgKey(t.Key, t.Plain, xOf(t.Side)); !bytes.Equal(got[:], want) {
				c.Violate("kdf-differs-from-spec:msg_key", fmt.Sprintf("msg_key differs from the specification (side %d, plaintext %d bytes): got %x want %x", t.Side, len(t.Plain), got[:], want), -1, 0, t)
			}
		case 2:
			got := crypto.MessageKeyV1(t.Plain)
			c.Count("MessageKeyV1(length sweep)")
			if want := specMsgKeyV1(t.Plain); !bytes.Equal(got[:], want) {
				c.Violate("kdf-differs-from-spec:msg_key_v1", fmt.Sprintf("msg_key_v1 differs from the specification (plaintext %d bytes): got %x want %x", len(t.Plain), got[:], want), -1, 0, t)
			}
		}
	})
	if p {
		c.Violate("kdf-panic", fmt.Sprintf("panicked: %v", pv), -1, 0, t)
	}
}

func genKey(r *hx.Rand) []byte {
	switch r.Intn(8) {
	case 0:
		k := make([]byte, 256)
		for i := range k {
			k[i] = byte(i)
		}
		return k
	case 1:
		return bytes.Repeat([]byte{0xff}, 256)
	default:
		return r.Bytes(256)
	}
}
func b64(r *hx.Rand) int64 {
	switch r.Intn(6) {
	case 0:
		return 0
	case 1:
		return -1
	case 2:
		return math.MinInt64
	case 3:
		return math.MaxInt64
	default:
		return int64(r.U64())
	}
}

func main() {
	c := hx.Start("C06", "Run.Check_C06", 25)
	var rp tc
	if c.LoadReplay(&rp) {
		run(c, rp)
		fmt.Printf("replay: kind=%d -> violations=%d\n", rp.Kind, len(c.Obs.Violations))
		c.Finish()
		return
	}
	r := c.Rng
	// corpus: the sequential key with both directions and every alignment of the plaintext around the SHA block size
	seq := make([]byte, 256)
	for i := range seq {
		seq[i] = byte(i)
	}
	for sd := 0; sd < 2; sd++ {
		for _, n := range []int{0, 16, 23, 24, 31, 32, 96} {
			run(c, tc{Kind: 0, Key: seq, Plain: r.Bytes(n), Side: sd})
		}
		run(c, tc{Kind: 1, Key: seq, MsgKey: seq[100:116], Side: sd})
		run(c, tc{Kind: 4, Key: seq, MsgKey: seq[100:116], Side: sd})
	}
	run(c, tc{Kind: 3, Key: seq, MsgKey: seq[100:116]})
	n := c.N(24, 150)
	for i := 0; i < n; i++ {
		run(c, tc{Kind: 0, Key: genKey(r), Plain: r.Bytes(16 * r.Intn(12)), Side: r.Intn(2)})
		run(c, tc{Kind: 1, Key: genKey(r), MsgKey: r.Bytes(16), Side: r.Intn(2)})
		run(c, tc{Kind: 2, Plain: r.Bytes(r.Intn(150))})
		run(c, tc{Kind: 3, Key: genKey(r), MsgKey: r.Bytes(16)})
		run(c, tc{Kind: 4, Key: genKey(r), MsgKey: r.Bytes(16), Side: r.Intn(2)})
		run(c, tc{Kind: 5, Key: genKey(r)})
		k := genKey(r)
		var kk crypto.Key
		copy(kk[:], k)
		id := kk.ID()
		exp := int64(int32(r.U64()))
		if r.Chance(1, 6) {
			exp = []int64{0, math.MaxInt32, math.MinInt32, 1 << 31, 1<<32 + 5, -1}[r.Intn(6)]
		}
		run(c, tc{Kind: 6, Key: k, KeyID: id[:], Rnd: r.Bytes(24 + r.Intn(3)), MsgID: b64(r), Inner: []int64{b64(r), b64(r), b64(r), b64(r), exp}})
	}
	// every plaintext length across the block / buffer-size boundaries, both directions, against the
	// specification transcription only (Go oracle; a sample of them also goes to Coq below)
	sweepKey := genKey(r)
	long := r.Bytes(70000)
	var lens []int
	for n := 0; n <= 2200; n++ {
		lens = append(lens, n)
	}
	for _, b := range []int{4096, 8192, 16384, 32768, 65536} {
		lens = append(lens, b-33, b-32, b-31, b-1, b, b+1, b+31, b+32, b+33)
	}
	for _, n := range lens {
		for sd := 0; sd < 2; sd++ {
			runQuiet(c, tc{Kind: 0, Key: sweepKey, Plain: long[:n], Side: sd})
		}
		if n <= 700 {
			runQuiet(c, tc{Kind: 2, Plain: long[:n]})
		}
	}
	// lengths around powers of two and hash-block multiples also through Coq (model and Coq specification)
	for _, n := range []int{55, 56, 64, 119, 120, 128, 192, 208, 224, 240, 256, 272, 288, 512} {
		run(c, tc{Kind: 0, Key: genKey(r), Plain: r.Bytes(n), Side: r.Intn(2)})
	}
	// bind error paths: zero key, short random
	run(c, tc{Kind: 6, Key: make([]byte, 256), KeyID: make([]byte, 8), Rnd: r.Bytes(24), MsgID: 5, Inner: []int64{1, 2, 3, 4, 5}})
	run(c, tc{Kind: 6, Key: make([]byte, 256), KeyID: []byte{0, 0, 0, 0, 0, 0, 0, 1}, Rnd: r.Bytes(24), MsgID: 5, Inner: []int64{1, 2, 3, 4, 5}})
	for _, l := range []int{0, 15, 16, 23} {
		run(c, tc{Kind: 6, Key: genKey(r), KeyID: r.Bytes(8), Rnd: r.Bytes(l), MsgID: 5, Inner: []int64{1, 2, 3, 4, 5}})
	}
	c.Obs.Rule = "before every call a PRNG-chosen mix of other users of the package's pooled state (crypto.SHA256 with 0..2 parts, Key.ID, MessageKeyV1, MessageKey, RandInt128) runs with unrelated data, so that state carried between calls through pools shows up; each exported derivation function of crypto/keys.go, kdf_v1.go, keys_old.go, key.go (ID) and EncryptBindMessage on random/structured 2048-bit keys, both directions, plaintexts 0..176 bytes plus lengths around hash-block multiples up to 512 through Coq, and EVERY plaintext length 0..2200 and +-33 around 4096..65536 (both directions) under the Go specification oracle; oracle = a transcription of the specification formulas in Go (substr/+) and a specification-side decryption of the bind message; every case is also evaluated in Coq against both the Go-shaped model and the Coq transcription of the specification; non-trivial = distinct (function, direction, input) case"
	c.Finish()
}
