// C31 harness: crash atomicity of session.FileStorage.StoreSession.
//
// For every case (previous session present / absent, new session) the harness
//  1. runs a child process (this binary, "child" mode) that calls the real
//     FileStorage.StoreSession under strace and abstracts the system calls that touch the
//     session directory into the operations of coq/Lib/CrashFS.v (OBSERVED, not assumed);
//  2. derives, with a Go replica of the CrashFS semantics, the content of the session file
//     at every crash point (every system-call boundary and selected partial completions of
//     every write) under the process-crash and the power-loss model;
//  3. for the process-crash model additionally really kills the child with SIGKILL on
//     entry of every observed system call (strace fault injection) and reads what is on disk;
//  4. materialises every distinct content as a file and calls the real session.Loader.Load;
//  5. oracle: Load returns the previous or the new session (deep-equal), never an error,
//     and "not found" only if there was no previous session;
//  6. emits the case for the Coq correspondence (Run/Check_C31.v): the observed sequence
//     must be the model's, the replica's crash sets must be the model's, the really killed
//     runs must agree with the model's process-crash states, Load's verdicts must be the
//     model's classification.
package main

import (
	"bytes"
	"context"
	"encoding/hex"
	"encoding/json"
	"errors"
	"fmt"
	"os"
	"os/exec"
	"path/filepath"
	"reflect"
	"regexp"
	"sort"
	"strconv"
	"strings"

	"github.com/gotd/td/session"
	"github.com/gotd/td/tg"
	"github.com/gotd/td/verifharness/hx"
)

// ---------- child ----------

func child(args []string) {
	if len(args) != 2 {
		os.Exit(64)
	}
	data, err := os.ReadFile(args[1])
	if err != nil {
		os.Exit(65)
	}
	f := &session.FileStorage{Path: args[0]}
	if err := f.StoreSession(context.Background(), data); err != nil {
		fmt.Fprintln(os.Stderr, "StoreSession:", err)
		os.Exit(66)
	}
}

// ---------- abstract operations (mirror of CrashFS.op) ----------

type Op struct {
	K     string `json:"k"` // open opendir write fsync close rename unlink other
	Fd    int    `json:"fd,omitempty"`
	Name  int    `json:"name,omitempty"`
	Dst   int    `json:"dst,omitempty"`
	Creat bool   `json:"creat,omitempty"`
	Excl  bool   `json:"excl,omitempty"`
	Trunc bool   `json:"trunc,omitempty"`
	Data  []byte `json:"data,omitempty"`
	Off   int    `json:"off,omitempty"` // write: descriptor offset before the call; writeat: offset written at
	Raw   string `json:"raw,omitempty"` // the strace line it came from (not compared)
	Sys   string `json:"sys,omitempty"` // syscall name
	Nth   int    `json:"nth,omitempty"` // ordinal of this call among the calls of that name in the child (for kill injection)
}

func (o Op) coq() string {
	switch o.K {
	case "open":
		return fmt.Sprintf("OOpen %d%%nat %d%%nat %s %s %s", o.Fd, o.Name, hx.B(o.Creat), hx.B(o.Excl), hx.B(o.Trunc))
	case "opendir":
		return fmt.Sprintf("OOpenDir %d%%nat", o.Fd)
	case "write":
		return fmt.Sprintf("OWrite %d%%nat %s", o.Fd, hx.Bytes(o.Data))
	case "writeat":
		return fmt.Sprintf("OWriteAt %d%%nat %d%%nat %s", o.Fd, o.Off, hx.Bytes(o.Data))
	case "fsync":
		return fmt.Sprintf("OFsync %d%%nat", o.Fd)
	case "close":
		return fmt.Sprintf("OClose %d%%nat", o.Fd)
	case "rename":
		return fmt.Sprintf("ORename %d%%nat %d%%nat", o.Name, o.Dst)
	case "unlink":
		return fmt.Sprintf("OUnlink %d%%nat", o.Name)
	}
	return "OOther"
}

const traceSet = "openat,open,creat,write,pwrite64,writev,pwritev,pwritev2,fsync,fdatasync,sync_file_range,rename,renameat,renameat2,close,unlink,unlinkat,ftruncate,truncate,link,linkat,symlink,symlinkat,lseek,fallocate,copy_file_range,sendfile"

var (
	lineRe    = regexp.MustCompile(`^(\d+)\s+(.*)$`)
	callRe    = regexp.MustCompile(`^(\w+)\((.*)\)\s+=\s+(-?\d+|\?)(.*)$`)
	resumedRe = regexp.MustCompile(`^<\.\.\. (\w+) resumed>\s*(.*)$`)
)

// splitArgs splits a strace argument list at top-level commas (strings are "\x.." quoted).
func splitArgs(s string) []string {
	var out []string
	depth, inq, start := 0, false, 0
	for i := 0; i < len(s); i++ {
		ch := s[i]
		switch {
		case inq:
			if ch == '\\' {
				i++
			} else if ch == '"' {
				inq = false
			}
		case ch == '"':
			inq = true
		case ch == '(' || ch == '[' || ch == '{':
			depth++
		case ch == ')' || ch == ']' || ch == '}':
			depth--
		case ch == ',' && depth == 0:
			out = append(out, strings.TrimSpace(s[start:i]))
			start = i + 1
		}
	}
	if strings.TrimSpace(s[start:]) != "" {
		out = append(out, strings.TrimSpace(s[start:]))
	}
	return out
}

// unq decodes a strace -xx string literal "\x41\x42"; ok=false when it is not a complete literal.
func unq(s string) ([]byte, bool) {
	if len(s) < 2 || s[0] != '"' || s[len(s)-1] != '"' {
		return nil, false
	}
	s = s[1 : len(s)-1]
	var out []byte
	for i := 0; i < len(s); {
		if s[i] == '\\' && i+3 < len(s)+0 && s[i+1] == 'x' {
			v, err := strconv.ParseUint(s[i+2:i+4], 16, 8)
			if err != nil {
				return nil, false
			}
			out = append(out, byte(v))
			i += 4
		} else {
			out = append(out, s[i])
			i++
		}
	}
	return out, true
}

type call struct {
	name string
	args []string
	ret  int64
	unk  bool // "= ?" (killed inside)
	raw  string
}

// parseTrace returns the completed calls of the trace in order of completion.
func parseTrace(txt string) []call {
	pending := map[string]string{}
	var out []call
	for _, ln := range strings.Split(txt, "\n") {
		m := lineRe.FindStringSubmatch(ln)
		if m == nil {
			continue
		}
		pid, rest := m[1], m[2]
		if strings.HasSuffix(rest, "<unfinished ...>") {
			pending[pid] = strings.TrimSuffix(rest, "<unfinished ...>")
			continue
		}
		if r := resumedRe.FindStringSubmatch(rest); r != nil {
			rest = pending[pid] + r[2]
			delete(pending, pid)
		}
		c := callRe.FindStringSubmatch(rest)
		if c == nil {
			continue
		}
		cl := call{name: c[1], args: splitArgs(c[2]), raw: rest}
		if len(cl.raw) > 200 {
			cl.raw = cl.raw[:200] + "..."
		}
		if c[3] == "?" {
			cl.unk = true
		} else {
			cl.ret, _ = strconv.ParseInt(c[3], 10, 64)
		}
		out = append(out, cl)
	}
	return out
}

// abstract maps the calls that touch dir (the session directory) to Ops.
func abstract(calls []call, dir, target string, names map[string]int) (ops []Op, notes []string) {
	if names == nil {
		names = map[string]int{}
	}
	names[target] = 0
	nameOf := func(p string) (int, bool) {
		if filepath.Dir(p) != dir {
			return 0, false
		}
		if id, ok := names[p]; ok {
			return id, true
		}
		id := len(names)
		names[p] = id
		return id, true
	}
	fds := map[int64]int{}  // real fd -> id
	offs := map[int64]int{} // real fd -> file offset of the descriptor
	nextFd := 0
	count := map[string]int{}
	pathArg := func(s string) (string, bool) {
		b, ok := unq(s)
		return string(b), ok
	}
	for _, c := range calls {
		count[c.name]++
		nth := count[c.name]
		if c.unk || c.ret < 0 {
			continue
		}
		add := func(o Op) {
			o.Raw, o.Sys, o.Nth = c.raw, c.name, nth
			ops = append(ops, o)
		}
		switch c.name {
		case "openat", "open", "creat":
			ai := 0
			if c.name == "openat" {
				ai = 1
			}
			if len(c.args) <= ai {
				continue
			}
			p, ok := pathArg(c.args[ai])
			if !ok {
				continue
			}
			flags := ""
			if len(c.args) > ai+1 {
				flags = c.args[ai+1]
			}
			if c.name == "creat" {
				flags = "O_CREAT|O_WRONLY|O_TRUNC"
			}
			has := func(f string) bool {
				for _, x := range strings.Split(flags, "|") {
					if x == f {
						return true
					}
				}
				return false
			}
			if p == dir {
				fds[c.ret] = nextFd
				add(Op{K: "opendir", Fd: nextFd})
				nextFd++
				continue
			}
			id, rel := nameOf(p)
			if !rel {
				continue
			}
			fds[c.ret] = nextFd
			offs[c.ret] = 0
			if has("O_APPEND") {
				offs[c.ret] = -1 // always the end of the file
			}
			add(Op{K: "open", Fd: nextFd, Name: id, Creat: has("O_CREAT"), Excl: has("O_EXCL"), Trunc: has("O_TRUNC")})
			nextFd++
		case "write":
			id, ok := fds[mustInt(c.args, 0)]
			if !ok {
				continue
			}
			b, okb := unq(c.args[1])
			if !okb || int64(len(b)) < c.ret {
				add(Op{K: "other"})
				notes = append(notes, "write buffer not fully printed: "+c.raw)
				continue
			}
			rfd := mustInt(c.args, 0)
			add(Op{K: "write", Fd: id, Data: b[:c.ret], Off: offs[rfd]})
			if offs[rfd] >= 0 {
				offs[rfd] += int(c.ret)
			}
		case "pwrite64":
			id, ok := fds[mustInt(c.args, 0)]
			if !ok {
				continue
			}
			b, okb := unq(c.args[1])
			off := mustInt(c.args, 3)
			if !okb || int64(len(b)) < c.ret || off < 0 {
				add(Op{K: "other"})
				notes = append(notes, "pwrite not understood: "+c.raw)
				continue
			}
			add(Op{K: "writeat", Fd: id, Data: b[:c.ret], Off: int(off)})
		case "fsync", "fdatasync":
			if id, ok := fds[mustInt(c.args, 0)]; ok {
				add(Op{K: "fsync", Fd: id})
			}
		case "close":
			fd := mustInt(c.args, 0)
			if id, ok := fds[fd]; ok {
				add(Op{K: "close", Fd: id})
				delete(fds, fd)
			}
		case "rename", "renameat", "renameat2":
			var a, b string
			var oka, okb bool
			if c.name == "rename" {
				a, oka = pathArg(c.args[0])
				b, okb = pathArg(c.args[1])
			} else {
				a, oka = pathArg(c.args[1])
				b, okb = pathArg(c.args[3])
			}
			if !oka || !okb {
				continue
			}
			ia, ra := nameOf(a)
			ib, rb := nameOf(b)
			if ra && rb {
				add(Op{K: "rename", Name: ia, Dst: ib})
			} else if ra || rb {
				add(Op{K: "other"})
			}
		case "unlink", "unlinkat":
			ai := 0
			if c.name == "unlinkat" {
				ai = 1
			}
			if p, ok := pathArg(c.args[ai]); ok {
				if id, rel := nameOf(p); rel {
					add(Op{K: "unlink", Name: id})
				}
			}
		default:
			// any other traced call that names a tracked descriptor or a path in the directory is not modelled
			touched := false
			for _, a := range c.args {
				if v, err := strconv.ParseInt(a, 10, 64); err == nil {
					if _, ok := fds[v]; ok {
						touched = true
					}
				}
				if p, ok := pathArg(a); ok && (filepath.Dir(p) == dir || p == dir) {
					touched = true
				}
			}
			if touched {
				add(Op{K: "other"})
				notes = append(notes, "unmodelled call: "+c.raw)
			}
		}
	}
	return ops, notes
}

func mustInt(args []string, i int) int64 {
	if i >= len(args) {
		return -1
	}
	v, err := strconv.ParseInt(args[i], 10, 64)
	if err != nil {
		return -1
	}
	return v
}

// ---------- Go replica of the CrashFS semantics ----------

type inode struct {
	dur, vol []byte
	dirty    bool
}
type dirop struct {
	k        string // create rename unlink
	n, i, to int
}
type fsState struct {
	inodes map[int]*inode
	ddir   map[int]int
	pend   []dirop
	fds    map[int]int // id -> inode, -1 = directory
	next   int
}

func initFS(old []byte, has bool) *fsState {
	st := &fsState{inodes: map[int]*inode{}, ddir: map[int]int{}, fds: map[int]int{}, next: 1}
	if has {
		st.inodes[0] = &inode{dur: old, vol: old}
		st.ddir[0] = 0
	}
	return st
}
func applyDir(d map[int]int, ops []dirop) map[int]int {
	r := map[int]int{}
	for k, v := range d {
		r[k] = v
	}
	for _, o := range ops {
		switch o.k {
		case "create":
			r[o.n] = o.i
		case "rename":
			if i, ok := r[o.n]; ok {
				delete(r, o.n)
				r[o.to] = i
			}
		case "unlink":
			delete(r, o.n)
		}
	}
	return r
}
func (st *fsState) vdir() map[int]int { return applyDir(st.ddir, st.pend) }

// step returns false when the model cannot run the operation.
func (st *fsState) step(o Op) bool {
	switch o.K {
	case "open":
		if _, ok := st.fds[o.Fd]; ok {
			return false
		}
		if i, ok := st.vdir()[o.Name]; ok {
			if o.Excl {
				return false
			}
			nd := st.inodes[i]
			if nd == nil {
				return false
			}
			if o.Trunc {
				st.inodes[i] = &inode{dur: nd.dur, vol: nil, dirty: true}
			}
			st.fds[o.Fd] = i
			return true
		}
		if !o.Creat {
			return false
		}
		st.inodes[st.next] = &inode{}
		st.pend = append(st.pend[:len(st.pend):len(st.pend)], dirop{k: "create", n: o.Name, i: st.next})
		st.fds[o.Fd] = st.next
		st.next++
		return true
	case "opendir":
		if _, ok := st.fds[o.Fd]; ok {
			return false
		}
		st.fds[o.Fd] = -1
		return true
	case "write":
		i, ok := st.fds[o.Fd]
		if !ok || i < 0 || st.inodes[i] == nil {
			return false
		}
		nd := st.inodes[i]
		st.inodes[i] = &inode{dur: nd.dur, vol: append(append([]byte{}, nd.vol...), o.Data...), dirty: true}
		return true
	case "writeat":
		i, ok := st.fds[o.Fd]
		if !ok || i < 0 || st.inodes[i] == nil {
			return false
		}
		nd := st.inodes[i]
		if o.Off > len(nd.vol) {
			return false
		}
		v := append([]byte{}, nd.vol[:o.Off]...)
		v = append(v, o.Data...)
		if o.Off+len(o.Data) < len(nd.vol) {
			v = append(v, nd.vol[o.Off+len(o.Data):]...)
		}
		st.inodes[i] = &inode{dur: nd.dur, vol: v, dirty: nd.dirty || len(o.Data) > 0}
		return true
	case "fsync":
		i, ok := st.fds[o.Fd]
		if !ok {
			return false
		}
		if i < 0 {
			st.ddir = st.vdir()
			st.pend = nil
			return true
		}
		nd := st.inodes[i]
		if nd == nil {
			return false
		}
		st.inodes[i] = &inode{dur: nd.vol, vol: nd.vol}
		return true
	case "close":
		if _, ok := st.fds[o.Fd]; !ok {
			return false
		}
		delete(st.fds, o.Fd)
		return true
	case "rename":
		if _, ok := st.vdir()[o.Name]; !ok {
			return false
		}
		st.pend = append(st.pend[:len(st.pend):len(st.pend)], dirop{k: "rename", n: o.Name, to: o.Dst})
		return true
	case "unlink":
		if _, ok := st.vdir()[o.Name]; !ok {
			return false
		}
		st.pend = append(st.pend[:len(st.pend):len(st.pend)], dirop{k: "unlink", n: o.Name})
		return true
	}
	return false
}

// startState is the directory a save starts from: the session file (or none) and the
// leftover files earlier interrupted saves left behind (names 1..k in this order).
type startState struct {
	HasTarget  bool
	Target     []byte
	TargetData *session.Data
	Left       []leftFile
	Desc       string // how the directory came about (two-step cases)
}
type leftFile struct {
	Path string
	B    []byte
}

func runFrom(start *startState, ops []Op) *fsState {
	st := initFS(start.Target, start.HasTarget)
	for i, l := range start.Left {
		st.inodes[i+1] = &inode{dur: l.B, vol: l.B}
		st.ddir[i+1] = i + 1
	}
	st.next = len(start.Left) + 1
	for _, o := range ops {
		if !st.step(o) {
			return nil
		}
	}
	return st
}

// normalise turns a write whose descriptor offset is not the end of the file into a
// positional write (the model's OWrite appends).
func normalise(start *startState, ops []Op) []Op {
	st := runFrom(start, nil)
	out := make([]Op, len(ops))
	copy(out, ops)
	for i, o := range out {
		if st != nil && o.K == "write" && o.Off >= 0 {
			if ino, ok := st.fds[o.Fd]; ok && ino >= 0 && st.inodes[ino] != nil && len(st.inodes[ino].vol) != o.Off {
				out[i].K = "writeat"
			}
		}
		if st != nil && !st.step(out[i]) {
			st = nil
		}
	}
	return out
}

// dirStates enumerates what the whole directory (every name) can hold after a crash in st.
func dirStates(st *fsState, model int) []map[int][]byte {
	expand := func(d map[int]int, pick func(*inode) [][]byte) []map[int][]byte {
		out := []map[int][]byte{{}}
		var names []int
		for n := range d {
			names = append(names, n)
		}
		sort.Ints(names)
		for _, n := range names {
			nd := st.inodes[d[n]]
			if nd == nil {
				continue
			}
			var next []map[int][]byte
			for _, m := range out {
				for _, b := range pick(nd) {
					c := map[int][]byte{}
					for k, v := range m {
						c[k] = v
					}
					c[n] = b
					next = append(next, c)
				}
			}
			out = next
		}
		return out
	}
	if model == 0 {
		return expand(st.vdir(), func(nd *inode) [][]byte { return [][]byte{nd.vol} })
	}
	var out []map[int][]byte
	for k := 0; k <= len(st.pend); k++ {
		out = append(out, expand(applyDir(st.ddir, st.pend[:k]), func(nd *inode) [][]byte {
			if !nd.dirty {
				return [][]byte{nd.vol}
			}
			r := [][]byte{nd.dur}
			for _, p := range selPrefixLens(len(nd.vol)) {
				r = append(r, nd.vol[:p])
			}
			return r
		})...)
	}
	return out
}

// dataOf parses a session file content the way Loader.Load does (nil if it does not load).
func dataOf(b []byte) *session.Data {
	var m session.StorageMemory
	if err := m.StoreSession(context.Background(), b); err != nil {
		return nil
	}
	l := session.Loader{Storage: &m}
	d, err := l.Load(context.Background())
	if err != nil {
		return nil
	}
	return d
}

func run(old []byte, has bool, ops []Op) *fsState {
	st := initFS(old, has)
	for _, o := range ops {
		if !st.step(o) {
			return nil
		}
	}
	return st
}

// content: nil pointer = no such file
type content struct {
	exists bool
	b      []byte
}

func (c content) key() string {
	if !c.exists {
		return "-"
	}
	return "+" + hex.EncodeToString(c.b)
}

func dedupKeepLast(l []int) []int {
	var out []int
	for i, x := range l {
		later := false
		for _, y := range l[i+1:] {
			if y == x {
				later = true
			}
		}
		if !later {
			out = append(out, x)
		}
	}
	return out
}
func selNums(n int) []int {
	m := n - 1
	if m < 0 {
		m = 0
	}
	return dedupKeepLast([]int{0, 1, n / 2, m})
}
func selLens(n int) []int {
	var out []int
	for _, p := range selNums(n) {
		if p < n {
			out = append(out, p)
		}
	}
	return out
}
func selPrefixLens(n int) []int {
	var l []int
	for _, p := range append(selNums(n), n) {
		if p <= n {
			l = append(l, p)
		}
	}
	return dedupKeepLast(l)
}

func crashSet(st *fsState, model int) []content {
	at := func(d map[int]int, pick func(*inode) [][]byte) []content {
		i, ok := d[0]
		if !ok {
			return []content{{}}
		}
		nd := st.inodes[i]
		if nd == nil {
			return []content{{}}
		}
		var r []content
		for _, b := range pick(nd) {
			r = append(r, content{true, b})
		}
		return r
	}
	if model == 0 {
		return at(st.vdir(), func(nd *inode) [][]byte { return [][]byte{nd.vol} })
	}
	var out []content
	for k := 0; k <= len(st.pend); k++ {
		out = append(out, at(applyDir(st.ddir, st.pend[:k]), func(nd *inode) [][]byte {
			if !nd.dirty {
				return [][]byte{nd.vol}
			}
			r := [][]byte{nd.dur}
			for _, p := range selPrefixLens(len(nd.vol)) {
				r = append(r, nd.vol[:p])
			}
			return r
		})...)
	}
	return out
}

// ---------- cases ----------

type caseIn struct {
	HasOld bool          `json:"has_old"`
	Old    *session.Data `json:"old,omitempty"`
	New    *session.Data `json:"new"`
	Kill   bool          `json:"kill"` // also really kill the child at every system call
	// Next: sessions saved AFTER a crash of this save, on whatever the crash left in the
	// directory (two-step scenarios: a shorter and a longer one)
	Next []*session.Data `json:"next,omitempty"`
	// Focus restricts the oracle report of a replay to one crash point (corpus cases)
	Focus *focus `json:"focus,omitempty"`
}
type focus struct {
	Model   int `json:"model"`
	After   int `json:"after_ops"`
	Partial int `json:"partial"`
}

func genData(r *hx.Rand, keyLen int) *session.Data {
	d := &session.Data{
		DC:        []int{1, 2, 3, 4, 5}[r.Intn(5)],
		Addr:      []string{"", "149.154.167.50:443", "[2001:b28:f23d:f001::a]:443"}[r.Intn(3)],
		AuthKey:   r.Bytes(keyLen),
		AuthKeyID: r.Bytes(8),
		Salt:      int64(r.U64()),
	}
	d.Config.ThisDC = d.DC
	d.Config.Date = r.Intn(1 << 30)
	d.Config.Expires = d.Config.Date + 3600
	d.Config.TestMode = r.Bool()
	d.Config.DCTxtDomainName = []string{"", "apv3.stel.com", "t\"q\\ué世"}[r.Intn(3)]
	for i := r.Intn(3); i > 0; i-- {
		d.Config.DCOptions = append(d.Config.DCOptions, tg.DCOption{ID: r.Intn(5) + 1, IPAddress: "149.154.167.91", Port: 443, Ipv6: r.Bool()})
	}
	return d
}

// sameLength returns a session that differs from d and serialises to exactly as many bytes.
func sameLength(d *session.Data, r *hx.Rand) *session.Data {
	flip := func(v int64) int64 {
		s := []byte(strconv.FormatInt(v, 10))
		for try := 0; try < 20; try++ {
			i := r.Intn(len(s))
			if s[i] < '0' || s[i] > '9' || (i == 0 || s[i-1] == '-') {
				continue
			}
			s[i] = byte('0' + (int(s[i]-'0')+1+r.Intn(9))%10)
			n, err := strconv.ParseInt(string(s), 10, 64)
			if err == nil && n != v {
				return n
			}
		}
		return v
	}
	base := len(marshal(d))
	for try := 0; try < 10; try++ {
		n := *d
		// differences at both ends of the file (Config.Date near the start, Salt at the end), so
		// that a cut in the middle mixes a new head with an old tail
		n.Salt = flip(d.Salt)
		n.Config.Date = int(flip(int64(d.Config.Date)))
		nb := marshal(&n)
		if len(nb) == base && !bytes.Equal(nb, marshal(d)) {
			return &n
		}
	}
	return nil
}

func marshal(d *session.Data) []byte {
	var m session.StorageMemory
	l := session.Loader{Storage: &m}
	if err := l.Save(context.Background(), d); err != nil {
		panic(err)
	}
	b, err := m.Bytes(nil)
	if err != nil {
		panic(err)
	}
	return b
}

// canon is the Data a Load of marshal(d) returns.
func canon(d *session.Data) *session.Data {
	var m session.StorageMemory
	if err := m.StoreSession(context.Background(), marshal(d)); err != nil {
		panic(err)
	}
	l := session.Loader{Storage: &m}
	r, err := l.Load(context.Background())
	if err != nil {
		panic(err)
	}
	return r
}

type env struct {
	c    *hx.Ctx
	self string
	root string
	n    int
}

// strace runs the child under strace; kill = "" or an -e inject expression.
func (e *env) strace(dir, path, dataFile, inject string) (string, error) {
	tr := filepath.Join(dir, "..", "trace.txt")
	_ = os.Remove(tr)
	args := []string{"-f", "-o", tr, "-s", "10000000", "-xx", "-e", "trace=" + traceSet}
	if inject != "" {
		args = append(args, "-e", "inject="+inject)
	}
	args = append(args, e.self, "child", path, dataFile)
	cmd := exec.Command("strace", args...)
	var eb bytes.Buffer
	cmd.Stderr = &eb
	err := cmd.Run()
	b, rerr := os.ReadFile(tr)
	if rerr != nil {
		return "", fmt.Errorf("strace produced no trace: %v %s", err, eb.String())
	}
	if inject == "" && err != nil {
		return string(b), fmt.Errorf("child failed: %v %s", err, eb.String())
	}
	return string(b), nil
}

const (
	clsNone  = 0
	clsOld   = 1
	clsNew   = 2
	clsBoth  = 3
	clsErr   = 4
	clsOther = 5
)

func classify(path string, c content, old, new *session.Data) (int, string) {
	_ = os.Remove(path)
	if c.exists {
		if err := os.WriteFile(path, c.b, 0o600); err != nil {
			panic(err)
		}
	}
	l := session.Loader{Storage: &session.FileStorage{Path: path}}
	var d *session.Data
	var err error
	if p, v := hx.Recover(func() { d, err = l.Load(context.Background()) }); p {
		return clsErr, fmt.Sprint("panic: ", v)
	}
	if err != nil {
		if errors.Is(err, session.ErrNotFound) {
			return clsNone, err.Error()
		}
		return clsErr, err.Error()
	}
	isOld := old != nil && reflect.DeepEqual(d, old)
	isNew := reflect.DeepEqual(d, new)
	switch {
	case isOld && isNew:
		return clsBoth, ""
	case isOld:
		return clsOld, ""
	case isNew:
		return clsNew, ""
	}
	return clsOther, "loaded a session that is neither the previous nor the new one"
}

func (e *env) one(kind string, in caseIn) {
	if p, v := hx.Recover(func() { e.analyse(kind, in, nil, nil) }); p {
		e.c.Violate("harness-panic", fmt.Sprintf("the C31 harness panicked on a case (%v); the case is the replay", v), -1, 0, in)
	}
}

// analyse traces one save of in.New starting from start (nil: a directory holding in.Old or
// nothing) and judges every crash point; root is the top-level case for replay files.
func (e *env) analyse(kind string, in caseIn, start *startState, root *caseIn) {
	c := e.c
	e.n++
	base := filepath.Join(e.root, fmt.Sprintf("case%d", e.n))
	dir := filepath.Join(base, "d")
	must(os.MkdirAll(dir, 0o755))
	defer os.RemoveAll(base)
	path := filepath.Join(dir, "session.json")
	dataFile := filepath.Join(base, "new.bin")
	loadPath := filepath.Join(base, "load", "session.json")
	must(os.MkdirAll(filepath.Dir(loadPath), 0o755))

	newB := marshal(in.New)
	newD := canon(in.New)
	if start == nil {
		start = &startState{HasTarget: in.HasOld}
		if in.HasOld {
			start.Target = marshal(in.Old)
			start.TargetData = canon(in.Old)
		}
	}
	if root == nil {
		root = &in
	}
	hasOld, oldB, oldD := start.HasTarget, start.Target, start.TargetData
	names := map[string]int{path: 0}
	for i, l := range start.Left {
		names[filepath.Join(dir, filepath.Base(l.Path))] = i + 1
	}
	must(os.WriteFile(dataFile, newB, 0o600))
	reset := func() {
		ents, _ := os.ReadDir(dir)
		for _, x := range ents {
			_ = os.Remove(filepath.Join(dir, x.Name()))
		}
		if hasOld {
			must(os.WriteFile(path, oldB, 0o600))
		}
		for _, l := range start.Left {
			must(os.WriteFile(filepath.Join(dir, filepath.Base(l.Path)), l.B, 0o600))
		}
	}
	copyNames := func() map[string]int {
		m := map[string]int{}
		for k, v := range names {
			m[k] = v
		}
		return m
	}
	startNames := copyNames()
	reset()
	txt, err := e.strace(dir, path, dataFile, "")
	if err != nil {
		c.Note("case skipped: " + err.Error())
		c.Count("strace-failed")
		c.Violate("harness-strace-failed", "StoreSession child or strace failed: "+err.Error(), -1, 0, in)
		return
	}
	ops, notes := abstract(parseTrace(txt), dir, path, names)
	ops = normalise(start, ops)
	for _, n := range notes {
		c.Note(n)
	}
	c.Count(fmt.Sprintf("%s:old=%v:ops=%d:bytes=%d", kind, hasOld, len(ops), len(newB)/100*100))
	seq := make([]string, len(ops))
	for i, o := range ops {
		seq[i] = o.K
	}
	c.Count("sequence:" + strings.Join(seq, ","))

	// the finished save must load as the new session
	if b, err := os.ReadFile(path); err != nil || !bytes.Equal(b, newB) {
		c.Violate("store-not-effective", fmt.Sprintf("after StoreSession returned, the session file holds %d bytes that are not the %d-byte session just saved%s", len(b), len(newB), start.Desc), -1, 0, *root)
	}

	// table of distinct contents
	type entry struct {
		c   content
		cls int
		msg string
	}
	var table []entry
	index := map[string]int{}
	intern := func(ct content) int {
		k := ct.key()
		if i, ok := index[k]; ok {
			return i
		}
		cls, msg := classify(loadPath, ct, oldD, newD)
		c.Count("load-calls")
		index[k] = len(table)
		table = append(table, entry{ct, cls, msg})
		return len(table) - 1
	}

	type point struct {
		Model, K, P int
		Idx         []int
		Real        bool
	}
	var pts []point
	type viol struct {
		sig, desc string
		f         focus
	}
	var viols []viol
	judge := func(model, k, p int, ti int, real bool) {
		t := table[ti]
		c.Obs.Evaluations++ // one oracle judgement of one (crash point, possible content)
		okc := t.cls == clsNew || t.cls == clsBoth || (hasOld && t.cls == clsOld) || (!hasOld && t.cls == clsNone)
		if okc {
			return
		}
		if len(start.Left) == 0 && start.Desc == "" && in.Focus != nil && (in.Focus.Model != model || in.Focus.After != k || in.Focus.Partial != p) {
			return
		}
		sig := "torn-file-after-crash"
		what := fmt.Sprintf("a %d-byte file that Load rejects (%s)", len(t.c.b), t.msg)
		switch {
		case !t.c.exists:
			sig, what = "missing-file-after-crash", "no file"
		case len(t.c.b) == 0:
			sig, what = "empty-file-after-crash", "an empty file (Load: "+t.msg+")"
		case t.cls == clsOther:
			sig = "foreign-session-after-crash"
		}
		how := "crash-model replica"
		if real {
			how = "child really killed with SIGKILL"
		}
		mname := []string{"process crash", "power loss"}[model]
		at := fmt.Sprintf("after %d of %d system calls", k, len(ops))
		if p >= 0 {
			at += fmt.Sprintf(" + %d bytes of the next write", p)
		}
		if k < len(ops) {
			at += " (next: " + ops[k].K + ")"
		}
		viols = append(viols, viol{sig, fmt.Sprintf("StoreSession interrupted by %s %s leaves %s; previous session present=%v%s [%s]", mname, at, what, hasOld, start.Desc, how), focus{model, k, p}})
	}

	for model := 0; model <= 1; model++ {
		for k := 0; k <= len(ops); k++ {
			var plist []int
			plist = append(plist, -1)
			if k < len(ops) && (ops[k].K == "write" || ops[k].K == "writeat") {
				plist = append(plist, selLens(len(ops[k].Data))...)
			}
			for _, p := range plist {
				pre := append([]Op{}, ops[:k]...)
				if p >= 0 {
					w := ops[k]
					w.Data = w.Data[:p]
					pre = append(pre, w)
				}
				st := runFrom(start, pre)
				pt := point{Model: model, K: k, P: p}
				if st == nil {
					pt.Idx = []int{}
				} else {
					seen := map[int]bool{}
					for _, ct := range crashSet(st, model) {
						ti := intern(ct)
						if !seen[ti] {
							seen[ti] = true
							pt.Idx = append(pt.Idx, ti)
							judge(model, k, p, ti, false)
						}
					}
					sort.Ints(pt.Idx)
				}
				pts = append(pts, pt)
				if k > 0 && k < len(ops) {
					c.Nontrivial(fmt.Sprintf("%s|old=%v|m=%d|k=%d|p=%d|%d", strings.Join(seq, ","), hasOld, model, k, p, len(newB)))
				}
			}
		}
	}

	// really kill the child on entry of every observed call: what is on disk is a process-crash state
	type realObs struct{ K, Idx int }
	var reals []realObs
	if in.Kill {
		for k, o := range ops {
			if o.Sys == "" {
				continue
			}
			reset()
			txt, err := e.strace(dir, path, dataFile, fmt.Sprintf("%s:signal=SIGKILL:when=%d", o.Sys, o.Nth))
			if err != nil {
				c.Note("kill run failed: " + err.Error())
				continue
			}
			// the killed run must have executed exactly the first k observed operations
			kops, _ := abstract(parseTrace(txt), dir, path, func() map[string]int {
				m := map[string]int{}
				for k, v := range startNames {
					m[k] = v
				}
				return m
			}())
			kops = normalise(start, kops)
			same := len(kops) == k && strings.Contains(txt, "killed by SIGKILL")
			for i := 0; same && i < k; i++ {
				same = kops[i].K == ops[i].K && bytes.Equal(kops[i].Data, ops[i].Data)
			}
			if !same {
				c.Count("kill-run-diverged")
				continue
			}
			var ct content
			if b, err := os.ReadFile(path); err == nil {
				ct = content{true, b}
			}
			ti := intern(ct)
			reals = append(reals, realObs{k, ti})
			judge(0, k, -1, ti, true)
			c.Count("real-kill")
		}
	}

	// ---- two-step: whatever a crash of THIS save leaves in the directory is the start of the
	// next save.  For every distinct directory a crash can leave (all crash points, both
	// models, every name, not only the session file) a complete save of each in.Next (a
	// shorter and a longer session) is run for real and must load as exactly that session;
	// then the next save is itself traced and crashed from the directory with the biggest
	// leftover file.
	type twoViol struct{ sig, desc string }
	var twoViols []twoViol
	if len(in.Next) > 0 && start.Desc == "" {
		inv := map[int]string{}
		for p, id := range names {
			inv[id] = p
		}
		type dstate struct {
			files map[int][]byte
			how   string
		}
		var dstates []dstate
		seenD := map[string]bool{}
		addState := func(files map[int][]byte, how string) {
			var ids []int
			for id := range files {
				ids = append(ids, id)
			}
			sort.Ints(ids)
			key := ""
			for _, id := range ids {
				key += fmt.Sprintf("%d:%x;", id, files[id])
			}
			if !seenD[key] {
				seenD[key] = true
				dstates = append(dstates, dstate{files, how})
			}
		}
		for model := 0; model <= 1; model++ {
			for k := 0; k <= len(ops); k++ {
				plist := []int{-1}
				if k < len(ops) && (ops[k].K == "write" || ops[k].K == "writeat") {
					plist = append(plist, selLens(len(ops[k].Data))...)
				}
				for _, p := range plist {
					pre := append([]Op{}, ops[:k]...)
					if p >= 0 {
						w := ops[k]
						w.Data = w.Data[:p]
						pre = append(pre, w)
					}
					if st := runFrom(start, pre); st != nil {
						for _, f := range dirStates(st, model) {
							addState(f, fmt.Sprintf("%s after %d of %d system calls (+%d bytes of the next write)", []string{"process crash", "power loss"}[model], k, len(ops), p))
						}
					}
				}
			}
		}
		materialise := func(files map[int][]byte) {
			ents, _ := os.ReadDir(dir)
			for _, x := range ents {
				_ = os.Remove(filepath.Join(dir, x.Name()))
			}
			for id, b := range files {
				if pth, ok := inv[id]; ok {
					must(os.WriteFile(pth, b, 0o600))
				}
			}
		}
		best, bestLen := -1, -1
		for i, ds := range dstates {
			for id, b := range ds.files {
				if id != 0 && len(b) > bestLen {
					best, bestLen = i, len(b)
				}
			}
			for j, nx := range in.Next {
				nb, nd := marshal(nx), canon(nx)
				materialise(ds.files)
				c.Obs.Evaluations++
				c.Count("two-step:complete-second-save")
				var serr error
				if pn, v := hx.Recover(func() {
					serr = (&session.FileStorage{Path: path}).StoreSession(context.Background(), nb)
				}); pn {
					serr = fmt.Errorf("panic: %v", v)
				}
				var got *session.Data
				var lerr error
				if serr == nil {
					got, lerr = (&session.Loader{Storage: &session.FileStorage{Path: path}}).Load(context.Background())
				}
				if serr != nil || lerr != nil || !reflect.DeepEqual(got, nd) {
					onDisk, _ := os.ReadFile(path)
					why := fmt.Sprint("StoreSession: ", serr)
					if serr == nil && lerr != nil {
						why = "Load: " + lerr.Error()
					} else if serr == nil {
						why = "Load returned a different session"
					}
					twoViols = append(twoViols, twoViol{"save-after-crash-corrupt", fmt.Sprintf("a save interrupted by %s left %d file(s) in the directory; the NEXT complete save (session #%d of next, %d bytes; interrupted one %d bytes) does not load as the saved session: %s; file on disk has %d bytes", ds.how, len(ds.files), j, len(nb), len(newB), why, len(onDisk))})
				}
			}
		}
		// trace and crash the next save from the directory with the biggest leftover
		if best >= 0 {
			ds := dstates[best]
			st2 := &startState{Desc: "; directory left by " + ds.how + " of an earlier save"}
			if b, ok := ds.files[0]; ok {
				st2.HasTarget, st2.Target, st2.TargetData = true, b, dataOf(b)
			}
			var ids []int
			for id := range ds.files {
				if id != 0 {
					ids = append(ids, id)
				}
			}
			sort.Ints(ids)
			for _, id := range ids {
				st2.Left = append(st2.Left, leftFile{Path: inv[id], B: ds.files[id]})
			}
			if !st2.HasTarget || st2.TargetData != nil {
				in2 := caseIn{HasOld: st2.HasTarget, New: in.Next[0]}
				e.analyse(kind+"-second", in2, st2, root)
			}
		}
		reset()
	}

	// ---- emit the correspondence case ----
	// compact references: every byte string appears once in the case (see Run/Check_C31.v)
	cref := func(ct content) string {
		switch {
		case !ct.exists:
			return "RNone"
		case hasOld && bytes.Equal(ct.b, oldB):
			return "ROld"
		case len(ct.b) <= len(newB) && bytes.Equal(ct.b, newB[:len(ct.b)]):
			return fmt.Sprintf("(RNewPrefix %d%%nat)", len(ct.b))
		}
		return "(RRaw " + hx.Bytes(ct.b) + ")"
	}
	opl := make([]string, len(ops))
	woff := 0
	for i, o := range ops {
		if o.K == "write" && woff+len(o.Data) <= len(newB) && bytes.Equal(o.Data, newB[woff:woff+len(o.Data)]) {
			opl[i] = fmt.Sprintf("CWrite %d%%nat %d%%nat %d%%nat", o.Fd, woff, len(o.Data))
			woff += len(o.Data)
		} else {
			opl[i] = "COp (" + o.coq() + ")"
		}
	}
	tbl := make([]string, len(table))
	for i, t := range table {
		tbl[i] = hx.Tuple(cref(t.c), hx.Z(int64(t.cls)))
	}
	pl := make([]string, 0, len(pts)+len(reals))
	for _, p := range pts {
		pl = append(pl, hx.Tuple(hx.Z(int64(p.Model)), fmt.Sprint(p.K, "%nat"), hx.Z(int64(p.P)), natList(p.Idx)))
	}
	rl := make([]string, len(reals))
	for i, r := range reals {
		rl[i] = hx.Tuple(fmt.Sprint(r.K, "%nat"), fmt.Sprint(r.Idx, "%nat"))
	}
	lf := make([]string, len(start.Left))
	for i, l := range start.Left {
		lf[i] = hx.Bytes(l.B)
	}
	term := hx.Tuple(hx.Opt(hasOld, hx.Bytes(oldB)), hx.Bytes(newB), hx.List(opl), hx.List(tbl), hx.List(pl), hx.List(rl), hx.List(lf))
	js := map[string]interface{}{"in": in, "ops": ops, "points": len(pts), "real_kills": len(reals), "table_classes": func() []int {
		r := make([]int, len(table))
		for i, t := range table {
			r[i] = t.cls
		}
		return r
	}()}
	sh, ix := c.Case(term, js)
	c.Sample(map[string]interface{}{"has_old": hasOld, "new_bytes": len(newB), "sequence": seq, "crash_points": len(pts), "real_kills": len(reals), "distinct_contents": len(table)})
	seenSig := map[string]bool{}
	for _, v := range viols {
		if seenSig[v.sig] {
			continue
		}
		seenSig[v.sig] = true
		rp := *root
		if root == &in {
			f := v.f
			rp.Focus = &f
		} else {
			rp.Focus = nil
		}
		c.Violate(v.sig, v.desc, sh, ix, rp)
	}
	for _, v := range twoViols {
		if seenSig[v.sig] {
			continue
		}
		seenSig[v.sig] = true
		rp := *root
		rp.Focus = nil
		c.Violate(v.sig, v.desc, sh, ix, rp)
	}
}

func natList(l []int) string {
	s := make([]string, len(l))
	for i, v := range l {
		s[i] = fmt.Sprint(v, "%nat")
	}
	return hx.List(s)
}

func must(err error) {
	if err != nil {
		fmt.Fprintln(os.Stderr, "c31:", err)
		os.Exit(3)
	}
}

func corpusDir() string {
	// /verif/out/C31 -> /verif/corpus/C31 ; overridable
	if d := os.Getenv("VERIF_CORPUS"); d != "" {
		return filepath.Join(d, "C31")
	}
	return ""
}

func main() {
	if len(os.Args) > 1 && os.Args[1] == "child" {
		child(os.Args[2:])
		return
	}
	c := hx.Start("C31", "Run.Check_C31", 4)
	self, err := os.Executable()
	must(err)
	out, err := filepath.Abs(c.Out)
	must(err)
	e := &env{c: c, self: self, root: filepath.Join(out, "fs")}
	_ = os.RemoveAll(e.root)
	must(os.MkdirAll(e.root, 0o755))
	defer os.RemoveAll(e.root)

	var rp caseIn
	if c.LoadReplay(&rp) {
		e.one("replay", rp)
		for _, v := range c.Obs.Violations {
			fmt.Println("replay:", v.Sig, "-", v.Desc)
		}
		if len(c.Obs.Violations) == 0 {
			fmt.Println("replay: every crash state loads as the previous or the new session")
		}
		c.Finish()
		return
	}

	// corpus: /verif/corpus/C31/*.json (the torn-write witness of the pre-repair code), always first
	cdir := filepath.Join(filepath.Dir(filepath.Dir(out)), "corpus", "C31")
	if d := corpusDir(); d != "" {
		cdir = d
	}
	files, _ := filepath.Glob(filepath.Join(cdir, "*.json"))
	sort.Strings(files)
	for _, f := range files {
		raw, err := os.ReadFile(f)
		if err != nil {
			continue
		}
		var w struct {
			Replay caseIn `json:"replay"`
		}
		if json.Unmarshal(raw, &w) != nil || w.Replay.New == nil {
			c.Note("corpus file not understood: " + f)
			continue
		}
		w.Replay.Focus = nil // judge every crash point of the corpus input
		e.one("corpus", w.Replay)
	}

	// generated: previous session present / absent x key sizes; the first cases are also really killed
	n := c.N(10, 48)
	kills := c.N(3, 8)
	for i := 0; i < n; i++ {
		keyLen := []int{256, 0, 8, 256, 64, 1}[i%6]
		in := caseIn{HasOld: i%2 == 0, New: genData(c.Rng, keyLen), Kill: i < kills}
		if i < c.N(4, 12) {
			// two-step: after a crash of this save, a shorter and a longer session are saved
			in.Next = []*session.Data{genData(c.Rng, 0), genData(c.Rng, 300+c.Rng.Intn(200))}
		}
		if in.HasOld {
			in.Old = genData(c.Rng, []int{256, 16}[c.Rng.Intn(2)])
			if c.Rng.Chance(1, 8) {
				in.Old = in.New // saving the same session again
			}
		}
		if in.HasOld && i%4 == 2 {
			// the new session has exactly the size of the one it replaces (only salt / date digits
			// change: the usual case in practice); the system-call sequence is observed for this
			// relation between old and new content too
			if sl := sameLength(in.Old, c.Rng); sl != nil {
				in.New = sl
				c.Count("gen:same-length")
			}
		}
		e.one("gen", in)
	}
	c.Obs.Rule = "one case = one real FileStorage.StoreSession traced with strace (previous session present/absent, new session shorter / longer / of exactly the same serialized length as the previous one, auth key 0..256 bytes, config with 0..2 DC options, non-ASCII strings); evaluations = oracle judgements of one possible file content at one crash point (Loader.Load is called once per distinct content of a case, see load-calls); non-trivial = distinct (observed sequence, previous present, crash model, system-call boundary strictly inside the sequence, partial-write length, size); crash points = every boundary + write prefixes {0,1,n/2,n-1}; both models; the first cases are additionally SIGKILLed for real on entry of every system call; two-step: for the first cases every distinct directory (all names, leftover temporary files included) a crash of the save can leave is materialised, a complete save of a shorter and of a longer session is run on it for real and must load as exactly that session, and the next save is traced and crashed again from the directory with the biggest leftover (correspondence case with leftovers)"
	c.Finish()
}
