// C32 harness: the real uploader against a recording mock client and never-allocated pattern
// sources; exact differential of the pure part-size functions around every threshold.
package main

import (
	"context"
	"crypto/md5"
	"encoding/hex"
	"fmt"
	"io"
	"os"
	"path/filepath"
	"sort"
	"strings"
	"sync"
	"time"

	"github.com/gotd/td/telegram/uploader"
	"github.com/gotd/td/tg"
	"github.com/gotd/td/tgerr"
	"github.com/gotd/td/verifharness/hx"
	"github.com/gotd/td/verifharness/xfer"
)

const (
	kib                         = 1024
	mib                         = 1024 * 1024
	bigLimit                    = 10 * mib // the property's threshold (independent of the code's constant)
	partsLimit                  = 3999
	maxPartSize                 = 512 * kib
	rTrue, rFalse, rFlood, rErr = 0, 1, 2, 3
)

type ucase struct {
	Auto     bool  `json:"auto"`
	Cfg      int   `json:"cfg"`      // explicit part size when !Auto
	Declared int64 `json:"declared"` // Upload total (-1 unknown)
	Size     int64 `json:"size"`     // real length of the source
	Threads  int   `json:"threads"`
	// answers: percentage of false / FLOOD_WAIT per request, at most MaxRej rejections in a row per part;
	// ErrAt >= 0: the ErrAt-th request (in arrival order) gets a non-retryable RPC error
	PFalse, PFlood, MaxRej int
	ErrAt                  int `json:"err_at"`
	// Gate >= 0: the first answer for part Gate (made a FLOOD_WAIT) is held back until a request for the
	// LAST part has arrived (streamed uploads, threads >= 2): forces "retry after the count became known"
	Gate    int    `json:"gate"`
	gateSet bool   // Gate = 0 is meant (otherwise 0 is the zero value = no gate)
	Chunked bool   `json:"chunked"` // the source returns short reads
	Seed    uint64 `json:"seed"`
}

type req struct {
	Part, Len, Total, Resp int
	BytesOK                bool
	// Late: when the answer to this request was RETURNED, the mock had already received a request that
	// carried a known (non -1) total. A retry of the part is built after that return, hence after the count
	// was stored by the reader: it must carry the count.
	Late bool
}

type mock struct {
	mu        sync.Mutex
	c         ucase
	rng       *hx.Rand
	log       []req
	rejRun    map[int]int
	knownSeen bool          // a request with file_total_parts != -1 has arrived
	lastSeen  chan struct{} // closed when a request for the last part has arrived
	lastPart  int
	gated     bool
	badRetry  string
	ps        int // the part size the property prescribes (explicit, or smallest of 128/256/512 KiB within 3999 parts)
	fileIDs   map[int64]bool
}

func (m *mock) decide(part int) int {
	n := len(m.log)
	if m.c.ErrAt >= 0 && n == m.c.ErrAt {
		return rErr
	}
	if m.rejRun[part] >= m.c.MaxRej {
		m.rejRun[part] = 0
		return rTrue
	}
	x := m.rng.Intn(100)
	switch {
	case x < m.c.PFalse:
		m.rejRun[part]++
		return rFalse
	case x < m.c.PFalse+m.c.PFlood:
		m.rejRun[part]++
		return rFlood
	}
	m.rejRun[part] = 0
	return rTrue
}

func (m *mock) answer(id int64, part, total int, b []byte) (bool, error) {
	m.mu.Lock()
	r := m.decide(part)
	m.fileIDs[id] = true
	hold := false
	if m.c.Gate >= 0 && part == m.c.Gate && !m.gated && part != m.lastPart {
		m.gated, hold, r = true, true, rFlood
	}
	if total != -1 && total != 0 {
		m.knownSeen = true
	}
	// a retry whose previous answer was returned after the count was known must carry the count
	for i := len(m.log) - 1; i >= 0; i-- {
		if m.log[i].Part == part {
			if m.log[i].Late && total == -1 && m.badRetry == "" {
				m.badRetry = fmt.Sprintf("request %d (retry of part %d) carries file_total_parts=-1 although the previous answer for that part was returned after a request with the final count had been received", len(m.log), part)
			}
			break
		}
	}
	idx := len(m.log)
	// part k must hold file[k*ps : k*ps+len] where ps is the part size the property prescribes
	m.log = append(m.log, req{Part: part, Len: len(b), Total: total, Resp: r, BytesOK: m.ps > 0 && xfer.Equal(int64(part)*int64(m.ps), b)})
	if part == m.lastPart && m.lastSeen != nil {
		select {
		case <-m.lastSeen:
		default:
			close(m.lastSeen)
		}
	}
	m.mu.Unlock()
	if hold {
		select {
		case <-m.lastSeen:
		case <-time.After(3 * time.Second): // never with >= 2 workers; keeps a broken build from hanging
		}
	}
	m.mu.Lock()
	m.log[idx].Late = m.knownSeen
	m.mu.Unlock()
	switch r {
	case rTrue:
		return true, nil
	case rFalse:
		return false, nil
	case rFlood:
		return false, tgerr.New(420, fmt.Sprintf("FLOOD_WAIT_%d", 1+int(m.c.Seed%29)))
	}
	return false, tgerr.New(400, "FILE_PART_INVALID")
}

func (m *mock) UploadSaveFilePart(ctx context.Context, r *tg.UploadSaveFilePartRequest) (bool, error) {
	return m.answer(r.FileID, r.FilePart, 0, r.Bytes)
}
func (m *mock) UploadSaveBigFilePart(ctx context.Context, r *tg.UploadSaveBigFilePartRequest) (bool, error) {
	return m.answer(r.FileID, r.FilePart, r.FileTotalParts, r.Bytes)
}

type obs struct {
	Status   int // 0 ok / RPC error, 1-3 checkPartSize, 4 too many parts
	Ps       int
	Big      bool
	Tp       int
	Log      []req
	Kind     int // 0 error, 1 InputFile, 2 InputFileBig
	Parts    int
	MD5      string
	Err      string
	Panic    string
	FileIDs  int
	BadRetry string
}

func run(c ucase) obs {
	m := &mock{c: c, rng: hx.NewRand(c.Seed), rejRun: map[int]int{}, fileIDs: map[int64]bool{}, ps: expectedPartSize(c), lastSeen: make(chan struct{}), lastPart: -1}
	if m.ps > 0 && c.Size > 0 {
		m.lastPart = int(ceilDiv(c.Size, int64(m.ps))) - 1
	}
	u := uploader.NewUploader(m).WithThreads(c.Threads).WithIDGenerator(func() (int64, error) { return 4242, nil })
	if !c.Auto {
		u = u.WithPartSize(c.Cfg)
	}
	src := &xfer.Reader{Size: c.Size}
	if c.Chunked {
		src.Rng = hx.NewRand(c.Seed ^ 0xABCDEF)
	}
	up := uploader.NewUpload("pattern.bin", src, c.Declared)
	var o obs
	var res tg.InputFileClass
	var err error
	p, v := hx.Recover(func() { res, err = u.Upload(context.Background(), up) })
	if p {
		o.Panic = fmt.Sprint(v)
		return o
	}
	o.Ps, o.Tp, o.Big = up.VerifPlan()
	m.mu.Lock()
	o.Log = append([]req(nil), m.log...)
	o.FileIDs = len(m.fileIDs)
	o.BadRetry = m.badRetry
	m.mu.Unlock()
	if err != nil {
		o.Err = err.Error()
		switch {
		case strings.Contains(o.Err, "invalid part size"):
			switch {
			case strings.Contains(o.Err, "is equal to zero"):
				o.Status = 1
			case strings.Contains(o.Err, fmt.Sprintf("is not divisible by %d", kib)):
				o.Status = 2
			default:
				o.Status = 3
			}
		case strings.Contains(o.Err, "part size is too small"):
			o.Status = 4
		}
		return o
	}
	switch f := res.(type) {
	case *tg.InputFile:
		o.Kind, o.Parts, o.MD5 = 1, f.Parts, f.MD5Checksum
	case *tg.InputFileBig:
		o.Kind, o.Parts = 2, f.Parts
	}
	return o
}

// expectedPartSize: the explicit size, or for automatic sizing the smallest of 128/256/512 KiB
// that keeps the declared size within 3999 parts (512 KiB beyond that).
func expectedPartSize(c ucase) int {
	if !c.Auto {
		return c.Cfg
	}
	ps := 128 * kib
	for ps < maxPartSize && c.Declared > 0 && ceilDiv(c.Declared, int64(ps)) > partsLimit {
		ps *= 2
	}
	return ps
}

func patternMD5(size int64) string {
	h := md5.New()
	_, _ = io.Copy(h, &xfer.Reader{Size: size})
	return hex.EncodeToString(h.Sum(nil))
}

func ceilDiv(a, b int64) int64 { return (a + b - 1) / b }

func checkCode(err error) int {
	if err == nil {
		return 0
	}
	s := err.Error()
	switch {
	case strings.Contains(s, "is equal to zero"):
		return 1
	case strings.HasSuffix(s, fmt.Sprintf("is not divisible by %d", kib)):
		return 2
	}
	return 3
}

func main() {
	xfer.InstallInstantClock()
	c := hx.Start("C32", "Run.Check_C32", 700)

	pure := func(ps int, total int64) {
		c.Obs.Evaluations++
		c.Count("pure")
		parts := 0
		if ps != 0 {
			p, _ := hx.Recover(func() { parts = uploader.VerifComputeParts(ps, total) })
			if p {
				c.Violate("pure-panic", fmt.Sprintf("computeParts(%d,%d) panicked", ps, total), -1, 0, nil)
				return
			}
		}
		code := checkCode(uploader.VerifCheckPartSize(ps))
		auto := uploader.VerifComputePartSize(total)
		c.Case(fmt.Sprintf("CPure %s %s %s %d %d", hx.Z(int64(ps)), hx.Z(total), hx.Z(int64(parts)), code, auto),
			map[string]interface{}{"pure": true, "ps": ps, "total": total, "parts": parts, "code": code, "auto": auto})
		// oracle for the pure functions: ceiling, validity of the automatic size, limit
		if ps > 0 && total > 0 && int64(parts) != ceilDiv(total, int64(ps)) {
			c.Violate("compute-parts-not-ceiling", fmt.Sprintf("computeParts(%d,%d)=%d", ps, total, parts), -1, 0, nil)
		}
		if uploader.VerifCheckPartSize(auto) != nil || auto < 128*kib || auto > maxPartSize {
			c.Violate("auto-size-invalid", fmt.Sprintf("computePartSize(%d)=%d is not a valid part size", total, auto), -1, 0, nil)
		}
		if total > 0 && total <= int64(partsLimit)*maxPartSize && ceilDiv(total, int64(auto)) > partsLimit {
			c.Violate("auto-size-exceeds-parts-limit", fmt.Sprintf("computePartSize(%d)=%d gives %d parts", total, auto, ceilDiv(total, int64(auto))), -1, 0, nil)
		}
	}

	spent := map[string]float64{}
	one := func(src string, uc ucase) {
		if uc.Gate == 0 && !uc.gateSet {
			uc.Gate = -1
		}
		c.Obs.Evaluations++
		t0 := time.Now()
		o := run(uc)
		spent[src] += time.Since(t0).Seconds()
		c.Count("upload:" + src)
		c.Count(fmt.Sprintf("upload:threads=%d", uc.Threads))
		logs := make([]string, len(o.Log))
		rejected := 0
		for i, q := range o.Log {
			late := 0
			if q.Late {
				late = 1
			}
			logs[i] = hx.Tuple(hx.Z(int64(q.Part)), hx.Z(int64(q.Len)), hx.Z(int64(q.Total)), hx.Z(int64(q.Resp)), hx.Z(int64(late)))
			if q.Resp == rFalse || q.Resp == rFlood {
				rejected++
			}
		}
		js := map[string]interface{}{"case": uc, "status": o.Status, "ps": o.Ps, "big": o.Big, "kind": o.Kind, "parts": o.Parts, "err": o.Err, "requests": len(o.Log)}
		if o.Panic != "" {
			c.Violate("upload-panic", fmt.Sprintf("Upload panicked on %+v: %s", uc, o.Panic), -1, 0, uc)
			return
		}
		cfg := uc.Cfg
		if uc.Auto {
			cfg = 128 * kib // NewUploader's part size when WithPartSize is not called
		}
		sh, ix := c.Case(fmt.Sprintf("CUp %s %s %s %s %d %d %s %s %s %d %d", hx.B(uc.Auto), hx.Z(int64(cfg)), hx.Z(uc.Declared), hx.Z(uc.Size), uc.Threads,
			o.Status, hx.Z(int64(o.Ps)), hx.B(o.Big), hx.List(logs), o.Kind, o.Parts), js)
		c.Sample(js)
		honest := uc.Declared == -1 || uc.Declared == uc.Size
		// "automatic part sizing keeps n within the 3999-part limit": judged on the plan (declared size) and,
		// for streams, on the parts actually sent. Known finding: not kept above 3999 x 512 KiB and for streams.
		if uc.Auto && o.Status == 0 && (o.Tp > partsLimit || (uc.Declared == -1 && o.Parts > partsLimit)) {
			c.Violate("auto-sizing-exceeds-parts-limit-for-huge-or-unknown-size",
				fmt.Sprintf("%+v: automatic sizing chose %d-byte parts and the upload went on with %d parts (limit %d)", uc, o.Ps, max(o.Tp, o.Parts), partsLimit), sh, ix, uc)
		}
		if uc.ErrAt >= 0 {
			return // the rest of the property speaks about retryable answers
		}
		// a declared size that differs from the real one (the source is simply read to its end): the parts must
		// still be cut with the negotiated part size, numbered, genuine and acknowledged once; only the clauses
		// that speak about the declared size (totals, descriptor kind, limits) are not judged
		structOnly := !honest
		bad := func(sig, f string, a ...interface{}) {
			c.Violate(sig, fmt.Sprintf("%+v: ", uc)+fmt.Sprintf(f, a...), sh, ix, uc)
		}
		if o.Status != 0 {
			// refused before sending anything: only legitimate for an invalid explicit part size or a
			// small file that would need more than 3999 parts of that size
			valid := uc.Auto || (uc.Cfg > 0 && uc.Cfg%kib == 0 && maxPartSize%uc.Cfg == 0)
			tooMany := !uc.Auto && valid && uc.Size <= bigLimit && uc.Declared != -1 && ceilDiv(uc.Size, int64(uc.Cfg)) > partsLimit
			if (o.Status <= 3 && valid) || (o.Status == 4 && !tooMany) || len(o.Log) > 0 {
				bad("upload-refused-wrongly", "refused with status %d (%s)", o.Status, o.Err)
			}
			return
		}
		if o.Err != "" {
			bad("upload-error", "failed: %s", o.Err)
			return
		}
		ps := int64(o.Ps)
		if o.Ps != expectedPartSize(uc) {
			bad("part-size-unexpected", "part size %d, expected %d", o.Ps, expectedPartSize(uc))
			return
		}
		n := int64(0)
		if uc.Size > 0 {
			n = ceilDiv(uc.Size, ps)
		}
		if n >= 2 && rejected > 0 {
			c.Nontrivial(fmt.Sprintf("%+v", uc))
		}
		if !uc.Auto && o.Ps != uc.Cfg {
			bad("part-size-changed", "explicit part size %d became %d", uc.Cfg, o.Ps)
		}
		accepted := map[int]int{}
		for _, q := range o.Log {
			if !q.BytesOK {
				bad("part-bytes-differ-from-source", "request for part %d (len %d) does not carry source bytes [%d, +%d)", q.Part, q.Len, int64(q.Part)*ps, q.Len)
				return
			}
			want := ps
			if int64(q.Part) == n-1 {
				want = uc.Size - (n-1)*ps
			}
			if int64(q.Part) >= n || int64(q.Len) != want {
				bad("part-wrong-size-or-number", "part %d of %d has %d bytes, want %d", q.Part, n, q.Len, want)
				return
			}
			if q.Resp == rTrue {
				accepted[q.Part]++
			}
			if o.Big && !structOnly {
				okTot := int64(q.Total) == n || (uc.Declared == -1 && q.Total == -1)
				if uc.Declared == -1 && int64(q.Part) == n-1 && uc.Size%ps != 0 && int64(q.Total) != n {
					okTot = false // the short last part is sent after the count was learned
				}
				if !okTot {
					bad("big-part-wrong-total", "part %d carries file_total_parts=%d, real count %d", q.Part, q.Total, n)
					return
				}
			}
		}
		if o.Big && o.BadRetry != "" {
			bad("big-retry-without-known-total", "%s", o.BadRetry)
			return
		}
		for i := int64(0); i < n; i++ {
			if accepted[int(i)] != 1 {
				bad("part-not-acknowledged-exactly-once", "part %d acknowledged %d times (n=%d)", i, accepted[int(i)], n)
				return
			}
		}
		if int64(len(accepted)) != n {
			bad("part-not-acknowledged-exactly-once", "%d distinct parts acknowledged, want %d", len(accepted), n)
		}
		if structOnly {
			if int64(o.Parts) != n {
				bad("descriptor-wrong", "descriptor says %d parts, %d were uploaded", o.Parts, n)
			}
			return
		}
		wantBig := uc.Declared == -1 || uc.Size > bigLimit
		wantKind := 1
		if wantBig {
			wantKind = 2
		}
		if o.Kind != wantKind || int64(o.Parts) != n || o.FileIDs > 1 {
			bad("descriptor-wrong", "descriptor kind %d parts %d (file ids %d), want kind %d parts %d", o.Kind, o.Parts, o.FileIDs, wantKind, n)
		}
		if o.Kind == 1 && o.MD5 != patternMD5(uc.Size) {
			bad("descriptor-md5-wrong", "MD5 %s differs from the source's", o.MD5)
		}
		// (for a stream of unknown size no sizing is possible: that case is the known finding flagged above)
		if uc.Auto && uc.Declared != -1 && uc.Size <= int64(partsLimit)*maxPartSize && n > partsLimit {
			bad("auto-size-exceeds-parts-limit", "%d parts of %d bytes", n, ps)
		}
	}

	var rp ucase
	if c.LoadReplay(&rp) {
		o := run(rp)
		o2 := o
		if len(o2.Log) > 40 {
			o2.Log = o2.Log[:40]
		}
		fmt.Printf("replay %+v\n  observed %+v\n", rp, o2)
		one("replay", rp)
		for _, v := range c.Obs.Violations {
			fmt.Println("replay: VIOLATION", v.Sig, v.Desc)
		}
		c.Finish()
		return
	}

	// ---- pure functions: every threshold +-1 ----
	partSizes := []int{0, 1, 1000, 1023, kib, 2 * kib, 3 * kib, 4 * kib, 8 * kib, 16 * kib, 32 * kib, 64 * kib, 96 * kib, 128 * kib, 256 * kib, 384 * kib, 512 * kib, 512*kib + kib, mib, -kib, -3 * kib}
	var totals []int64
	for _, t := range []int64{-5, -1, 0, 1, 2, bigLimit, int64(partsLimit) * 128 * kib, int64(partsLimit) * 256 * kib, int64(partsLimit) * 512 * kib,
		4000 * 128 * kib, 4000 * 512 * kib, 4 << 30, 8 << 30, 1536 * mib} {
		totals = append(totals, t-1, t, t+1)
	}
	for _, ps := range partSizes {
		if ps > 0 {
			totals = append(totals, int64(ps)-1, int64(ps), int64(ps)+1, int64(ps)*partsLimit-1, int64(ps)*partsLimit, int64(ps)*partsLimit+1)
		}
	}
	for _, ps := range partSizes {
		for _, t := range totals {
			if c.Thorough() || c.Rng.Chance(1, 4) || t < 4*mib {
				pure(ps, t)
			}
		}
	}
	for i := 0; i < c.N(300, 6000); i++ {
		ps := partSizes[c.Rng.Intn(len(partSizes))]
		if c.Rng.Chance(1, 5) {
			ps = c.Rng.Intn(600) * kib
		}
		pure(ps, int64(c.Rng.U64()%uint64(5<<30))-3)
	}

	// ---- uploads ----
	answers := func(uc *ucase) {
		uc.ErrAt = -1
		uc.Seed = c.Rng.U64()
		switch c.Rng.Intn(4) {
		case 0: // always true
		case 1:
			uc.PFalse, uc.PFlood, uc.MaxRej = 20, 20, 3
		case 2:
			uc.PFalse, uc.PFlood, uc.MaxRej = 0, 50, 2
		default:
			uc.PFalse, uc.PFlood, uc.MaxRej = 45, 45, 4
		}
		uc.Chunked = c.Rng.Bool()
	}
	sizesAround := func(p int64, k int64) []int64 {
		return []int64{0, 1, p - 1, p, p + 1, k * p, k*p - 1, k*p + 1}
	}
	// corpus: the two DESIGN observations (unknown total, 4097 and 4096 bytes in 1 KiB parts)
	for _, sz := range []int64{4097, 4096} {
		uc := ucase{Cfg: kib, Declared: -1, Size: sz, Threads: 1, ErrAt: -1}
		one("corpus", uc)
	}
	// corpus/C32/race-totalparts.json: the witness of the fixed data race, a few times under -race
	for i := 0; i < 5; i++ {
		one("corpus", ucase{Cfg: kib, Declared: -1, Size: 8197, Threads: 4, ErrAt: -1, Seed: 1})
	}
	// streams (unknown total -> big loop) and small files, all boundary sizes, threads 1..8
	for _, ps := range []int{kib, 4 * kib, 128 * kib, 512 * kib} {
		kmax := 9
		if ps >= 128*kib && !c.Thorough() {
			kmax = 4
		}
		for _, sz := range sizesAround(int64(ps), int64(c.Rng.Range(2, kmax))) {
			for t := 1; t <= 8; t++ {
				if !c.Thorough() && ps >= 128*kib && t != 1 && t != 4 && t != 8 {
					continue // big buffers are slow under the race detector: three thread counts in the quick tier
				}
				uc := ucase{Cfg: ps, Declared: -1, Size: sz, Threads: t}
				answers(&uc)
				one("stream", uc)
				uc2 := ucase{Cfg: ps, Declared: sz, Size: sz, Threads: t}
				answers(&uc2)
				one("small-explicit", uc2)
			}
		}
	}
	// a part is answered FLOOD_WAIT while the reader goes on to the end of the stream: its retry is sent after
	// the count became known and must carry it (the mock holds the first answer until the last part arrives)
	for _, ps := range []int{kib, 4 * kib} {
		for _, k := range []int64{2, 3, 5} {
			for _, t := range []int{2, 3, 8} {
				for _, gate := range []int{0, 1} {
					if int64(gate) >= k {
						continue
					}
					uc := ucase{Cfg: ps, Declared: -1, Size: k*int64(ps) + int64(1+c.Rng.Intn(ps-1)), Threads: t, ErrAt: -1, Gate: gate, gateSet: true, Seed: c.Rng.U64()}
					one("gated-retry", uc)
				}
			}
		}
	}
	// automatic sizing, small and big by the 10 MiB threshold
	for i, sz := range []int64{0, 1, 128 * kib, 128*kib + 1, bigLimit - 1, bigLimit, bigLimit + 1, 11*mib + 5, 12 * mib} {
		for j, t := range []int{1, 3, 8} {
			if !c.Thorough() && (i+j+int(c.Seed))%3 != 0 {
				continue
			}
			uc := ucase{Auto: true, Declared: sz, Size: sz, Threads: t}
			answers(&uc)
			one("auto", uc)
		}
	}
	// explicit part sizes on big files; invalid part sizes; too many parts for a small file
	for i, ps := range []int{16 * kib, 64 * kib, 512 * kib} {
		if !c.Thorough() && i != int(c.Seed%3) {
			continue
		}
		sz := int64(bigLimit) + int64(c.Rng.Intn(3*ps))
		uc := ucase{Cfg: ps, Declared: sz, Size: sz, Threads: c.Rng.Range(1, 8)}
		answers(&uc)
		one("big-explicit", uc)
	}
	for _, ps := range []int{0, 1000, 3 * kib, 96 * kib, mib} {
		uc := ucase{Cfg: ps, Declared: 5000, Size: 5000, Threads: 1, ErrAt: -1}
		one("invalid-part-size", uc)
	}
	for _, sz := range []int64{3999 * kib, 3999*kib + 1, 5 * mib} {
		uc := ucase{Cfg: kib, Declared: sz, Size: sz, Threads: 1, ErrAt: -1}
		one("many-parts", uc)
	}
	// non-retryable error somewhere (the model must predict the failure; no oracle)
	for i := 0; i < c.N(12, 100); i++ {
		ps := []int{kib, 4 * kib}[c.Rng.Intn(2)]
		sz := int64(c.Rng.Range(1, 12*ps))
		decl := sz
		if c.Rng.Bool() {
			decl = -1
		}
		uc := ucase{Cfg: ps, Declared: decl, Size: sz, Threads: c.Rng.Range(1, 4)}
		answers(&uc)
		uc.ErrAt = c.Rng.Intn(6)
		one("rpc-error", uc)
	}
	// declared size only (tiny real source, as uploader_test.go does): ties the plan through Upload at
	// every automatic-sizing threshold without moving gigabytes
	for _, d := range []int64{int64(partsLimit) * 128 * kib, int64(partsLimit)*128*kib + 1, int64(partsLimit)*256*kib + 1, int64(partsLimit) * 512 * kib, int64(partsLimit)*512*kib + 1, 4 << 30} {
		one("declared-only", ucase{Auto: true, Declared: d, Size: 3, Threads: 2, ErrAt: -1})
	}
	// the negotiated part size must be the one the source is actually cut with: declared sizes just above
	// every automatic-sizing threshold with a real source of a few parts (declared != real: only the part
	// structure is judged)
	for _, d := range []int64{int64(partsLimit)*128*kib + 1, int64(partsLimit)*256*kib + 1, 4 << 30} {
		for _, t := range []int{1, 3} {
			uc := ucase{Auto: true, Declared: d, Size: int64(c.Rng.Range(2, 4))*int64(expectedPartSize(ucase{Auto: true, Declared: d})) + int64(c.Rng.Intn(5000)), Threads: t}
			answers(&uc)
			one("declared-above-threshold", uc)
		}
	}
	// random
	for i := 0; i < c.N(60, 1000); i++ {
		ps := []int{kib, 2 * kib, 4 * kib, 32 * kib, 128 * kib}[c.Rng.Intn(5)]
		k := int64(c.Rng.Range(0, 40))
		if ps >= 32*kib {
			k = int64(c.Rng.Range(0, 9))
		}
		sz := k*int64(ps) + int64(c.Rng.Intn(3)-1)*int64(c.Rng.Intn(ps))
		if sz < 0 {
			sz = 0
		}
		decl := sz
		if c.Rng.Chance(2, 3) {
			decl = -1
		}
		uc := ucase{Cfg: ps, Declared: decl, Size: sz, Threads: c.Rng.Range(1, 8)}
		answers(&uc)
		one("random", uc)
	}
	// large simulated sources
	large := []int64{16*mib + 1}
	if c.Thorough() {
		large = append(large, 64*mib, int64(partsLimit)*128*kib+1, 4<<30)
		// a stream of unknown size longer than 3999 default parts (known finding: no sizing, no check)
		uc := ucase{Auto: true, Declared: -1, Size: int64(partsLimit)*128*kib + 1, Threads: 8, ErrAt: -1, Seed: c.Rng.U64()}
		one("large-stream", uc)
	}
	for _, sz := range large {
		uc := ucase{Auto: true, Declared: sz, Size: sz, Threads: 8, PFalse: 2, PFlood: 2, MaxRej: 2, ErrAt: -1, Seed: c.Rng.U64()}
		one("large", uc)
	}

	// race reports (the binary is built with -race; GORACE log_path points into the output directory)
	files, _ := filepath.Glob(filepath.Join(c.Out, "race.log*"))
	sort.Strings(files)
	for _, f := range files {
		b, _ := os.ReadFile(f)
		s := string(b)
		if !strings.Contains(s, "DATA RACE") {
			continue
		}
		sig := "data-race-other"
		if strings.Contains(s, "uploadBigFilePart") && strings.Contains(s, "bigLoop") {
			sig = "data-race-upload-totalParts"
		}
		first := s
		if len(first) > 1500 {
			first = first[:1500]
		}
		c.Violate(sig, "race detector report during uploads: "+strings.ReplaceAll(first, "\n", " | "), -1, 0, map[string]interface{}{"race_log": first})
	}
	c.Obs.Extra = map[string]interface{}{"seconds_by_source": spent, "flood_waits_taken": xfer.Waits.Load(), "flood_wait_seconds_skipped": xfer.WaitedNanos.Load() / 1e9}
	c.Obs.Rule = "pure functions: part sizes x totals around every threshold (10 MiB, 3999 x 128/256/512 KiB, part size multiples) +-1 and random; uploads through the real Uploader with a recording mock client and pattern sources: streams and declared sizes {0,1,p-1,p,p+1,kp,kp+-1} for p in {1,4,128,512 KiB}, threads 1..8, false/FLOOD_WAIT answer patterns, automatic sizing across 10 MiB, invalid part sizes, too many parts, RPC errors, declared-only thresholds, random, 16 MiB+1 (thorough: 64 MiB, 500 MiB+1, 4 GiB); non-trivial = distinct honest upload with >= 2 parts and at least one rejected request"
	c.Finish()
}
