// C34 harness: CDN request plans (exhaustive on the 4 KiB grid), CTR decryption, inline chunk
// verification and the verifier queue against their models, and whole downloads through an
// adversarial CDN / master: a download that completes without error must equal the genuine file.
package main

import (
	"context"
	"crypto/aes"
	"crypto/cipher"
	"crypto/sha256"
	"encoding/binary"
	"fmt"
	"io"
	"sort"
	"strings"
	"sync"

	"github.com/gotd/td/telegram/downloader"
	"github.com/gotd/td/tg"
	"github.com/gotd/td/tgerr"
	"github.com/gotd/td/verifharness/hx"
	"github.com/gotd/td/verifharness/xfer"
)

const (
	kib  = 1024
	mib  = 1024 * 1024
	grid = 4 * kib
)

// ---------------------------------------------------------------------------------------
// A. request plan
// ---------------------------------------------------------------------------------------

func planOracle(offset int64, limit int, plan []downloader.VerifCDNRange) string {
	cur := offset
	for _, s := range plan {
		switch {
		case s.Offset != cur:
			return fmt.Sprintf("step at %d, expected %d (not contiguous)", s.Offset, cur)
		case s.Limit <= 0 || s.Limit%grid != 0:
			return fmt.Sprintf("step limit %d is not a positive multiple of 4 KiB", s.Limit)
		case mib%s.Limit != 0:
			return fmt.Sprintf("step limit %d does not divide 1 MiB", s.Limit)
		case s.Offset/mib != (s.Offset+int64(s.Limit)-1)/mib:
			return fmt.Sprintf("step [%d,+%d) crosses a 1 MiB boundary", s.Offset, s.Limit)
		}
		cur += int64(s.Limit)
	}
	if cur != offset+int64(limit) {
		return fmt.Sprintf("plan covers [%d,%d), wanted [%d,%d)", offset, cur, offset, offset+int64(limit))
	}
	return ""
}

// ---------------------------------------------------------------------------------------
// D. whole downloads
// ---------------------------------------------------------------------------------------

const window = 128 * kib

type attack struct {
	Kind string `json:"kind"` // none corrupt truncate-boundary truncate-mid truncate-empty extend extend-over reorder hash-lie
	At   int    `json:"at"`   // index of the data response (in arrival order) that is attacked; -1 = every response at/after Off
	Off  int64  `json:"off"`  // offset selector for some attacks
	Once bool   `json:"once"` // only the first matching response
}

type fcase struct {
	Mode      string `json:"mode"` // cdn-inline | cdn-verify | master-verify
	Stream    bool   `json:"stream"`
	Size      int64  `json:"size"`
	P         int    `json:"p"`
	Threads   int    `json:"threads"`
	Attack    attack `json:"attack"`
	TokenOnce bool   `json:"token_once"` // FILE_TOKEN_INVALID once (refresh of the redirect)
	Reupload  bool   `json:"reupload"`   // upload.cdnFileReuploadNeeded once
	Seed      uint64 `json:"seed"`
}

func hashesOf(size int64) []tg.FileHash {
	var r []tg.FileHash
	for off := int64(0); off < size; off += window {
		n := int64(window)
		if off+n > size {
			n = size - off
		}
		h := sha256.Sum256(xfer.Bytes(off, int(n)))
		r = append(r, tg.FileHash{Offset: off, Limit: window, Hash: h[:]})
	}
	return r
}

type world struct {
	mu       sync.Mutex
	c        fcase
	rng      *hx.Rand
	hashes   []tg.FileHash
	key, iv  []byte
	nData    int
	attacked int
	tokenBad bool
	reup     bool
	events   []string
	cdnReqs  [][3]int64 // every getCdnFile request in order: offset, limit, length of the answer
}

func (w *world) note(f string, a ...interface{}) {
	if len(w.events) < 60 {
		w.events = append(w.events, fmt.Sprintf(f, a...))
	}
}

// genuine bytes of [off, off+limit) cut at the end of the file
func genuine(size, off int64, limit int) []byte {
	if off >= size {
		return nil
	}
	n := int64(limit)
	if off+n > size {
		n = size - off
	}
	return xfer.Bytes(off, int(n))
}

// tamper applies the attack of the case to one data response (plain bytes).
func (w *world) tamper(off int64, limit int, b []byte) []byte {
	a := w.c.Attack
	idx := w.nData
	w.nData++
	if a.Kind == "none" || a.Kind == "hash-lie" {
		return b
	}
	match := (a.At >= 0 && idx == a.At) || (a.At < 0 && off >= a.Off)
	if !match || (a.Once && w.attacked > 0) {
		return b
	}
	out := append([]byte(nil), b...)
	switch a.Kind {
	case "corrupt":
		if len(out) == 0 {
			return b
		}
		out[w.rng.Intn(len(out))] ^= byte(1 + w.rng.Intn(255))
	case "truncate-boundary": // cut at the last hash-window boundary inside the response
		end := off + int64(len(out))
		cut := (end - 1) / window * window
		if cut <= off || cut >= end {
			return b
		}
		out = out[:cut-off]
	case "truncate-mid":
		if len(out) < 2 {
			return b
		}
		out = out[:1+w.rng.Intn(len(out)-1)]
	case "truncate-empty":
		if len(out) == 0 {
			return b
		}
		out = nil
	case "extend": // more bytes than the file has, up to what was asked for
		extra := 1 + w.rng.Intn(8*kib)
		if len(out)+extra > limit {
			extra = limit - len(out)
		}
		if extra <= 0 {
			return b
		}
		out = append(out, w.rng.Bytes(extra)...)
	case "extend-over": // genuine answer followed by extra bytes, MORE than was asked for
		extra := 1 + w.rng.Intn(64)
		if w.rng.Bool() {
			extra = 16 * (1 + w.rng.Intn(4*kib/16))
		}
		out = append(out, w.rng.Bytes(limit-len(out)+extra)...)
	case "reorder": // the bytes of another part of the file
		other := (off + int64(limit)) % (w.c.Size + 1)
		other -= other % 16
		out = genuine(w.c.Size, other, len(b))
		if len(out) == 0 || string(out) == string(b) {
			return b
		}
	default:
		return b
	}
	w.attacked++
	w.note("%s: response %d for [%d,+%d): %d -> %d bytes", a.Kind, idx, off, limit, len(b), len(out))
	return out
}

func (w *world) redirect() *tg.UploadFileCDNRedirect {
	return &tg.UploadFileCDNRedirect{DCID: 203, FileToken: []byte("token"), EncryptionKey: w.key, EncryptionIv: w.iv,
		FileHashes: append([]tg.FileHash(nil), w.hashes[:min(len(w.hashes), 2)]...)}
}

func (w *world) hashBatch(offset int64) []tg.FileHash {
	// like Telegram: a batch of windows starting at the one containing offset; past the end the last batch again
	hs := w.hashes
	if w.c.Attack.Kind == "hash-lie" {
		hs = append([]tg.FileHash(nil), hs...)
		for i := range hs {
			if hs[i].Offset >= w.c.Attack.Off {
				h := append([]byte(nil), hs[i].Hash...)
				h[0] ^= 0x55
				hs[i].Hash = h
				break
			}
		}
	}
	if len(hs) == 0 {
		return nil
	}
	start := len(hs) - 1
	for i, h := range hs {
		if offset < h.Offset+int64(h.Limit) {
			start = i
			break
		}
	}
	end := start + 3
	if end > len(hs) {
		end = len(hs)
	}
	if start >= end {
		start = max(0, end-3)
	}
	return append([]tg.FileHash(nil), hs[start:end]...)
}

// --- master DC ---
func (w *world) UploadGetFile(ctx context.Context, r *tg.UploadGetFileRequest) (tg.UploadFileClass, error) {
	w.mu.Lock()
	defer w.mu.Unlock()
	if strings.HasPrefix(w.c.Mode, "cdn") && r.GetCDNSupported() {
		return w.redirect(), nil
	}
	return &tg.UploadFile{Type: &tg.StorageFilePng{}, Bytes: w.tamper(r.Offset, r.Limit, genuine(w.c.Size, r.Offset, r.Limit))}, nil
}
func (w *world) UploadGetFileHashes(ctx context.Context, r *tg.UploadGetFileHashesRequest) ([]tg.FileHash, error) {
	w.mu.Lock()
	defer w.mu.Unlock()
	return w.hashBatch(r.Offset), nil
}
func (w *world) UploadGetCDNFileHashes(ctx context.Context, r *tg.UploadGetCDNFileHashesRequest) ([]tg.FileHash, error) {
	w.mu.Lock()
	defer w.mu.Unlock()
	return w.hashBatch(r.Offset), nil
}
func (w *world) UploadReuploadCDNFile(ctx context.Context, r *tg.UploadReuploadCDNFileRequest) ([]tg.FileHash, error) {
	w.mu.Lock()
	defer w.mu.Unlock()
	return w.hashBatch(0), nil
}
func (w *world) UploadGetWebFile(ctx context.Context, r *tg.UploadGetWebFileRequest) (*tg.UploadWebFile, error) {
	return nil, fmt.Errorf("unexpected UploadGetWebFile")
}

// --- CDN DC (untrusted) ---
func (w *world) CDN(ctx context.Context, dc int, max int64) (downloader.CDN, io.Closer, error) {
	return w, io.NopCloser(nil), nil
}
func ctrXor(key, iv []byte, offset int64, b []byte) []byte {
	blk, _ := aes.NewCipher(key)
	ctr := append([]byte(nil), iv...)
	binary.BigEndian.PutUint32(ctr[12:], uint32(offset/16))
	out := make([]byte, len(b))
	cipher.NewCTR(blk, ctr).XORKeyStream(out, b)
	return out
}
func (w *world) UploadGetCDNFile(ctx context.Context, r *tg.UploadGetCDNFileRequest) (tg.UploadCDNFileClass, error) {
	w.mu.Lock()
	defer w.mu.Unlock()
	if w.c.TokenOnce && !w.tokenBad {
		w.tokenBad = true
		return nil, tgerr.New(400, "FILE_TOKEN_INVALID")
	}
	if w.c.Reupload && !w.reup {
		w.reup = true
		return &tg.UploadCDNFileReuploadNeeded{RequestToken: []byte{1, 2, 3}}, nil
	}
	plain := w.tamper(r.Offset, r.Limit, genuine(w.c.Size, r.Offset, r.Limit))
	w.cdnReqs = append(w.cdnReqs, [3]int64{r.Offset, int64(r.Limit), int64(len(plain))})
	return &tg.UploadCDNFile{Bytes: ctrXor(w.key, w.iv, r.Offset, plain)}, nil
}

type sink struct {
	mu     sync.Mutex
	buf    []byte
	max    int64
	ranges [][2]int64 // every write: [off, end)
	badAt  int64      // offset of the first write whose bytes are not the file's at that place (-1 none)
}

func (s *sink) Write(b []byte) (int, error) { return s.WriteAt(b, int64(len(s.bufLocked()))) }
func (s *sink) bufLocked() []byte {
	s.mu.Lock()
	defer s.mu.Unlock()
	return s.buf
}
func (s *sink) WriteAt(b []byte, off int64) (int, error) {
	s.mu.Lock()
	defer s.mu.Unlock()
	end := off + int64(len(b))
	if end > s.max {
		return 0, fmt.Errorf("write beyond %d bytes", s.max)
	}
	if int64(len(s.buf)) < end {
		s.buf = append(s.buf, make([]byte, end-int64(len(s.buf)))...)
	}
	copy(s.buf[off:], b)
	s.ranges = append(s.ranges, [2]int64{off, end})
	if s.badAt < 0 && !xfer.Equal(off, b) {
		s.badAt = off
	}
	return len(b), nil
}

type fobs struct {
	Err     string
	Panic   string
	Written int64
	Equal   bool
	// what was observed, independent of the attack: every write carried the file's bytes for its place
	// and stayed inside the file; Covered = length of the gap-free prefix that was written; Dup = some
	// byte range was written twice
	AllGenuine bool
	Covered    int64
	Dup        bool
	Attacked   int
	Events     []string
	CDNReqs    [][3]int64
}

func runFile(c fcase) fobs {
	w := &world{c: c, rng: hx.NewRand(c.Seed), hashes: hashesOf(c.Size)}
	w.key = hx.NewRand(c.Seed ^ 1).Bytes(32)
	w.iv = hx.NewRand(c.Seed ^ 2).Bytes(16)
	d := downloader.NewDownloader().WithPartSize(c.P)
	if strings.HasPrefix(c.Mode, "cdn") {
		d = d.WithAllowCDN(true)
	}
	b := d.Download(w, &tg.InputDocumentFileLocation{ID: 7}).WithThreads(c.Threads)
	if c.Mode == "cdn-verify" || c.Mode == "master-verify" {
		b = b.WithVerify(true)
	}
	out := &sink{max: c.Size + 64*mib, badAt: -1}
	var o fobs
	var err error
	p, v := hx.Recover(func() {
		if c.Stream {
			_, err = b.Stream(context.Background(), out)
		} else {
			_, err = b.Parallel(context.Background(), out)
		}
	})
	if p {
		o.Panic = fmt.Sprint(v)
		return o
	}
	if err != nil {
		o.Err = err.Error()
	}
	o.Written = int64(len(out.buf))
	o.Equal = o.Written == c.Size && xfer.Equal(0, out.buf)
	rs := append([][2]int64(nil), out.ranges...)
	sort.Slice(rs, func(i, j int) bool { return rs[i][0] < rs[j][0] })
	o.AllGenuine = out.badAt < 0
	gap := false
	for _, r := range rs {
		if r[1] > c.Size {
			o.AllGenuine = false
		}
		switch {
		case gap:
		case r[0] > o.Covered:
			gap = true
		case r[0] < o.Covered:
			o.Dup = true
			if r[1] > o.Covered {
				o.Covered = r[1]
			}
		default:
			o.Covered = r[1]
		}
	}
	w.mu.Lock()
	o.Attacked, o.Events = w.attacked, w.events
	o.CDNReqs = append([][3]int64(nil), w.cdnReqs...)
	w.mu.Unlock()
	return o
}

// ---------------------------------------------------------------------------------------
// C. verifyChunk directly, tiny windows
// ---------------------------------------------------------------------------------------

type vwin struct {
	Off, Limit int64
	Data       []byte // what the server hashes (genuine window bytes, possibly shorter than Limit at the tail)
	Serve      []byte // what a fetch of the whole window returns (may be tampered)
}

type vclient struct {
	wins []vwin
	lie  int // index of a window whose hash is wrong, -1 none
}

func (v *vclient) UploadGetFile(ctx context.Context, r *tg.UploadGetFileRequest) (tg.UploadFileClass, error) {
	for _, w := range v.wins {
		if w.Off == r.Offset {
			return &tg.UploadFile{Bytes: append([]byte(nil), w.Serve...)}, nil
		}
	}
	return &tg.UploadFile{}, nil
}
func (v *vclient) UploadGetFileHashes(ctx context.Context, r *tg.UploadGetFileHashesRequest) ([]tg.FileHash, error) {
	var hs []tg.FileHash
	for i, w := range v.wins {
		h := sha256.Sum256(w.Data)
		if i == v.lie {
			h[3] ^= 1
		}
		hs = append(hs, tg.FileHash{Offset: w.Off, Limit: int(w.Limit), Hash: h[:]})
	}
	return hs, nil
}
func (v *vclient) UploadReuploadCDNFile(ctx context.Context, r *tg.UploadReuploadCDNFileRequest) ([]tg.FileHash, error) {
	return nil, nil
}
func (v *vclient) UploadGetCDNFileHashes(ctx context.Context, r *tg.UploadGetCDNFileHashesRequest) ([]tg.FileHash, error) {
	return nil, nil
}
func (v *vclient) UploadGetWebFile(ctx context.Context, r *tg.UploadGetWebFileRequest) (*tg.UploadWebFile, error) {
	return nil, nil
}

func main() {
	xfer.InstallInstantClock()
	c := hx.Start("C34", "Run.Check_C34", 600)

	// ---------------- A: plans ----------------
	planCase := func(offset int64, limit int, toCoq bool) {
		c.Obs.Evaluations++
		var plan []downloader.VerifCDNRange
		var err error
		p, _ := hx.Recover(func() { plan, err = downloader.VerifBuildCDNRequestPlan(offset, limit) })
		if p {
			c.Violate("plan-panic", fmt.Sprintf("buildCDNRequestPlan(%d,%d) panicked", offset, limit), -1, 0, map[string]interface{}{"plan": []int64{offset, int64(limit)}})
			return
		}
		valid := limit > 0 && offset >= 0 && offset%grid == 0 && limit%grid == 0
		sh, ix := -1, 0
		if toCoq {
			steps := make([]string, len(plan))
			for i, s := range plan {
				steps[i] = hx.Tuple(hx.Z(s.Offset), hx.Z(int64(s.Limit)))
			}
			sh, ix = c.Case(fmt.Sprintf("CPlan %s %s %s %s", hx.Z(offset), hx.Z(int64(limit)), hx.B(err == nil), hx.List(steps)),
				map[string]interface{}{"plan": []int64{offset, int64(limit)}, "ok": err == nil, "steps": len(plan)})
		}
		if !valid {
			c.Count("plan:invalid-input")
			if err == nil {
				c.Violate("plan-accepts-invalid-range", fmt.Sprintf("buildCDNRequestPlan(%d,%d) accepted", offset, limit), sh, ix, map[string]interface{}{"plan": []int64{offset, int64(limit)}})
			}
			return
		}
		c.Count("plan:grid")
		if err != nil {
			c.Violate("plan-refuses-valid-range", fmt.Sprintf("buildCDNRequestPlan(%d,%d): %v", offset, limit, err), sh, ix, map[string]interface{}{"plan": []int64{offset, int64(limit)}})
			return
		}
		if msg := planOracle(offset, limit, plan); msg != "" {
			c.Violate("plan-invalid", fmt.Sprintf("buildCDNRequestPlan(%d,%d): %s", offset, limit, msg), sh, ix, map[string]interface{}{"plan": []int64{offset, int64(limit)}})
		}
		if len(plan) > 1 {
			c.Nontrivial(fmt.Sprintf("plan %d %d", offset, limit))
		}
	}

	// ---------------- D: files ----------------
	fileCase := func(src string, fc fcase) {
		c.Obs.Evaluations++
		o := runFile(fc)
		c.Count("file:" + fc.Mode + ":" + fc.Attack.Kind)
		js := map[string]interface{}{"file": fc, "err": o.Err, "written": o.Written, "equal": o.Equal, "attacked": o.Attacked, "events": o.Events}
		c.Sample(js)
		if o.Panic != "" {
			c.Violate("download-panic", fmt.Sprintf("%+v panicked: %s", fc, o.Panic), -1, 0, map[string]interface{}{"file": fc})
			return
		}
		if o.Attacked > 0 {
			c.Nontrivial(fmt.Sprintf("%+v", fc))
		}
		// the walk over the request plans (cdn.Chunk): single-threaded streaming downloads with a part size
		// that is a multiple of the hash window (no whole-window fetches in between), no token/reupload events
		if fc.Mode == "cdn-inline" && fc.Stream && fc.Threads == 1 && fc.P%window == 0 && !fc.TokenOnce && !fc.Reupload && len(o.CDNReqs) > 0 {
			rs := make([]string, len(o.CDNReqs))
			ls := make([]string, len(o.CDNReqs))
			for i, r := range o.CDNReqs {
				rs[i] = hx.Tuple(hx.Z(r[0]), hx.Z(r[1]))
				ls[i] = hx.Z(r[2])
			}
			c.Case(fmt.Sprintf("CWalk %d %s %s", fc.P, hx.List(rs), hx.List(ls)), map[string]interface{}{"file": fc, "cdn_requests": len(o.CDNReqs)})
			c.Count("walk:" + fc.Attack.Kind)
		}
		if o.Err == "" && !o.Equal {
			// classification by what was OBSERVED, not by the attack that was tried
			sig := "accepted-download-differs"
			sh, ix := -1, 0
			switch {
			case fc.Mode == "cdn-inline" && o.AllGenuine && !o.Dup && o.Covered < fc.Size:
				// only genuine bytes at their places, but the file is not complete: the gap-free prefix
				// ends early. The model (C34_complete_partial, C34_empty_accepted) explains this only at
				// the nominal end of a hash window or at a part boundary (empty answer): checked in Coq.
				sig = "cdn-truncated-at-window-boundary-accepted"
				sh, ix = c.Case(fmt.Sprintf("CTrunc %d %d %d %d", fc.Size, window, fc.P, o.Covered),
					map[string]interface{}{"file": fc, "covered": o.Covered, "written": o.Written})
			case fc.Mode == "cdn-inline" && fc.Attack.Kind == "extend":
				sig = "cdn-extended-tail-in-split-window-accepted"
			case fc.Mode == "cdn-inline" && fc.Attack.Kind == "extend-over":
				sig = "cdn-overlong-response-accepted"
			case fc.Mode != "cdn-inline" && strings.HasPrefix(fc.Attack.Kind, "extend"):
				sig = "verifier-accepts-non-genuine-chunk"
			case fc.Mode == "cdn-inline" && fc.Attack.Kind == "truncate-mid":
				sig = "cdn-truncated-in-split-window-accepted"
			}
			c.Violate(sig, fmt.Sprintf("%s download of %d bytes (part %d, threads %d, stream=%v) under attack %+v completed without error but wrote %d bytes (gap-free genuine prefix %d, all writes genuine=%v, duplicate writes=%v), equal=%v; %v",
				fc.Mode, fc.Size, fc.P, fc.Threads, fc.Stream, fc.Attack, o.Written, o.Covered, o.AllGenuine, o.Dup, o.Equal, o.Events), sh, ix, map[string]interface{}{"file": fc})
		}
		if o.Err != "" && fc.Attack.Kind == "none" {
			c.Violate("honest-download-fails", fmt.Sprintf("%+v failed without any attack: %s", fc, o.Err), -1, 0, map[string]interface{}{"file": fc})
		}
	}

	// ---------------- B: CTR ----------------
	ctrCase := func(offset int64, n int, toCoq bool) {
		c.Obs.Evaluations++
		c.Count("ctr")
		key, iv, src := c.Rng.Bytes(32), c.Rng.Bytes(16), c.Rng.Bytes(n)
		if c.Rng.Chance(1, 3) { // counters close to a carry out of the low 32 bits live in the IV's tail only via offset
			copy(iv[8:12], []byte{0xff, 0xff, 0xff, 0xff})
		}
		got, err := downloader.VerifCDNDecrypt(src, offset, key, iv)
		if err != nil {
			c.Violate("ctr-error", fmt.Sprintf("decrypt(offset %d): %v", offset, err), -1, 0, nil)
			return
		}
		sh, ix := -1, 0
		if toCoq {
			sh, ix = c.Case(fmt.Sprintf("CCtr %s %s %s %s %s", hx.Bytes(key), hx.Bytes(iv), hx.Z(offset), hx.Bytes(src), hx.Bytes(got)),
				map[string]interface{}{"ctr": true, "offset": offset, "n": n})
		}
		// oracle (Telegram CDN doc): block j of the file is encrypted with counter iv[0:12] || BE32(j)
		if offset%16 == 0 && offset/16+int64(n+15)/16 < 1<<32 {
			blk, _ := aes.NewCipher(key)
			want := make([]byte, n)
			for j := 0; j*16 < n; j++ {
				ctr := append([]byte(nil), iv...)
				binary.BigEndian.PutUint32(ctr[12:], uint32(offset/16+int64(j)))
				var ks [16]byte
				blk.Encrypt(ks[:], ctr)
				for k := 0; k < 16 && j*16+k < n; k++ {
					want[j*16+k] = src[j*16+k] ^ ks[k]
				}
			}
			if string(want) != string(got) {
				c.Violate("ctr-keystream-wrong", fmt.Sprintf("decrypt at offset %d (%d bytes) differs from the per-block counter keystream", offset, n), sh, ix, nil)
			}
		}
	}

	// ---------------- C: verifyChunk ----------------
	type vcase struct {
		Wins       []vwin
		Lie        int
		Off        int64
		Limit      int
		Data       []byte
		FileSize   int64
		Tampered   bool
		TamperKind string
	}
	verifyCase := func(vc vcase) {
		c.Obs.Evaluations++
		c.Count("verify:" + vc.TamperKind)
		cl := &vclient{wins: vc.Wins, lie: vc.Lie}
		v := downloader.VerifNewCDN(cl)
		data := append([]byte(nil), vc.Data...)
		var err error
		p, pv := hx.Recover(func() { err = v.VerifyChunk(context.Background(), vc.Off, vc.Limit, data) })
		if p {
			c.Violate("verify-panic", fmt.Sprintf("verifyChunk panicked: %v", pv), -1, 0, nil)
			return
		}
		ws := make([]string, len(vc.Wins))
		for i, w := range vc.Wins {
			h := sha256.Sum256(w.Data)
			if i == vc.Lie {
				h[3] ^= 1
			}
			ws[i] = hx.Tuple(hx.Z(w.Off), hx.Z(w.Limit), hx.Bytes(h[:]), hx.Bytes(w.Serve))
		}
		sh, ix := c.Case(fmt.Sprintf("CVerify %s %s %d %s %s %s", hx.List(ws), hx.Z(vc.Off), vc.Limit, hx.Bytes(vc.Data), hx.B(err == nil), hx.Bytes(data)),
			map[string]interface{}{"verify": true, "off": vc.Off, "limit": vc.Limit, "len": len(vc.Data), "tamper": vc.TamperKind, "ok": err == nil})
		if vc.Tampered {
			c.Nontrivial(fmt.Sprintf("verify %d %d %s %d", vc.Off, vc.Limit, vc.TamperKind, len(vc.Data)))
		}
		// oracle: an accepted chunk is the genuine slice of the file, nothing beyond its end
		if err == nil && len(data) > 0 {
			end := vc.Off + int64(len(data))
			if end > vc.FileSize || !xfer.Equal(vc.Off, data) {
				sig := "verify-accepts-wrong-bytes"
				if vc.TamperKind == "extend" {
					sig = "cdn-extended-tail-in-split-window-accepted"
				}
				c.Violate(sig, fmt.Sprintf("verifyChunk(offset %d, limit %d, %d bytes, %s) accepted a chunk that is not file[%d:%d) of a %d-byte file",
					vc.Off, vc.Limit, len(data), vc.TamperKind, vc.Off, end, vc.FileSize), sh, ix, nil)
			}
		}
		if err != nil && !vc.Tampered && vc.Lie < 0 {
			c.Violate("verify-rejects-genuine", fmt.Sprintf("verifyChunk(offset %d, limit %d, %d genuine bytes): %v", vc.Off, vc.Limit, len(data), err), sh, ix, nil)
		}
	}

	// ---------------- E: verifier queue ----------------
	queueCase := func(nw, k, batch int, endMode int, shuffle bool) {
		c.Obs.Evaluations++
		c.Count("queue")
		// consecutive windows with varying limits
		var W []tg.FileHash
		off := int64(0)
		for i := 0; i < nw; i++ {
			l := 1 + c.Rng.Intn(5)
			W = append(W, tg.FileHash{Offset: off, Limit: l})
			off += int64(l)
		}
		total := off
		if k > nw {
			k = nw
		}
		pre := append([]tg.FileHash(nil), W[:k]...)
		if shuffle {
			for i := len(pre) - 1; i > 0; i-- {
				j := c.Rng.Intn(i + 1)
				pre[i], pre[j] = pre[j], pre[i]
			}
		}
		server := func(o int64) []tg.FileHash {
			if o >= total {
				switch endMode {
				case 0:
					return nil
				default: // the last batch again
					s := max(0, nw-batch)
					return append([]tg.FileHash(nil), W[s:]...)
				}
			}
			for i, w := range W {
				if w.Offset == o {
					e := min(nw, i+batch)
					b := append([]tg.FileHash(nil), W[i:e]...)
					if shuffle && len(b) > 1 {
						b[0], b[len(b)-1] = b[len(b)-1], b[0]
					}
					return b
				}
			}
			return nil
		}
		v := downloader.VerifNewVerifier(pre...)
		var served, asked []string
		var got []tg.FileHash
		finished := false
		for steps := 0; steps < 4*nw+8; steps++ {
			h, ok := v.Pop()
			if !ok {
				o, _ := v.State()
				b := server(o)
				bs := make([]string, len(b))
				for i, x := range b {
					bs[i] = hx.Tuple(hx.Z(x.Offset), hx.Z(int64(x.Limit)))
				}
				asked = append(asked, hx.Tuple(hx.Z(o), hx.List(bs)))
				h, ok = v.Update(b...)
				if !ok {
					finished = true
					break
				}
			}
			got = append(got, h)
			served = append(served, hx.Tuple(hx.Z(h.Offset), hx.Z(int64(h.Limit))))
		}
		ps := make([]string, len(pre))
		for i, x := range pre {
			ps[i] = hx.Tuple(hx.Z(x.Offset), hx.Z(int64(x.Limit)))
		}
		// the model looks an answer up by the asked offset: keep the first answer per offset (they are functions of it)
		sh, ix := c.Case(fmt.Sprintf("CQueue %s %s %s %s", hx.List(ps), hx.List(asked), hx.List(served), hx.B(finished)),
			map[string]interface{}{"queue": true, "windows": nw, "pre": k, "batch": batch, "end_mode": endMode, "shuffle": shuffle})
		if nw > batch {
			c.Nontrivial(fmt.Sprintf("queue %d %d %d %d %v", nw, k, batch, endMode, shuffle))
		}
		// oracle: every window once, in offset order, no gaps, then the end
		okSeq := finished && len(got) == nw
		for i := 0; okSeq && i < nw; i++ {
			okSeq = got[i].Offset == W[i].Offset && got[i].Limit == W[i].Limit
		}
		if !okSeq {
			c.Violate("verifier-queue-wrong-order-or-gap", fmt.Sprintf("verifier queue over %d windows (pre %d, batch %d, end mode %d, shuffled %v) served %v finished=%v", nw, k, batch, endMode, shuffle, served, finished), sh, ix, nil)
		}
	}

	var rp struct {
		Plan []int64 `json:"plan"`
		File *fcase  `json:"file"`
		Vq   *struct {
			Offset     int64  `json:"offset"`
			Limit      int    `json:"limit"`
			GenuineLen int    `json:"genuine_len"`
			Data       []byte `json:"data"`
		} `json:"vq"`
	}
	if c.LoadReplay(&rp) {
		switch {
		case rp.File != nil:
			o := runFile(*rp.File)
			fmt.Printf("replay %+v\n  observed %+v\n", *rp.File, o)
			fileCase("replay", *rp.File)
		case rp.Vq != nil:
			gen := xfer.Bytes(rp.Vq.Offset, rp.Vq.GenuineLen)
			h := sha256.Sum256(gen)
			got := downloader.VerifNewVerifier().Verify(tg.FileHash{Offset: rp.Vq.Offset, Limit: rp.Vq.Limit, Hash: h[:]}, rp.Vq.Data)
			fmt.Printf("replay verifier.verify(limit %d, %d bytes; genuine window %d bytes) = %v, data genuine = %v\n", rp.Vq.Limit, len(rp.Vq.Data), rp.Vq.GenuineLen, got, string(rp.Vq.Data) == string(gen))
			if got != (string(rp.Vq.Data) == string(gen)) {
				c.Violate("verifier-accepts-non-genuine-chunk", "verifier.verify accepts a chunk that is not the genuine window (or rejects the genuine one)", -1, 0, nil)
			}
		case len(rp.Plan) == 2:
			plan, err := downloader.VerifBuildCDNRequestPlan(rp.Plan[0], int(rp.Plan[1]))
			fmt.Printf("replay plan(%d,%d) = %v, %v\n", rp.Plan[0], rp.Plan[1], plan, err)
			planCase(rp.Plan[0], int(rp.Plan[1]), true)
		}
		for _, v := range c.Obs.Violations {
			fmt.Println("replay: VIOLATION", v.Sig, v.Desc)
		}
		c.Finish()
		return
	}

	// A: exhaustive on the grid up to 3 MiB against the oracle; a structured sample goes to Coq
	maxG := 3 * mib / grid
	for o := 0; o <= maxG; o++ {
		for l := 1; l <= maxG; l++ {
			near := func(x int) bool { m := x % 256; return m <= 2 || m >= 254 }
			toCoq := (o <= 12 && l <= 12) || (near(o) && near(o+l) && (o+l)%7 == 0) || (o%97 == 0 && l%89 == 0)
			planCase(int64(o)*grid, l*grid, toCoq)
		}
	}
	for _, bad := range [][2]int64{{0, 0}, {0, -4096}, {-4096, 4096}, {100, 4096}, {4096, 100}, {4095, 4097}, {0, 1}, {1 << 40, 4096}, {1<<40 + 4096*255, 8192}} {
		planCase(bad[0], int(bad[1]), true)
	}
	for i := 0; i < c.N(150, 2000); i++ {
		planCase(int64(c.Rng.Intn(1<<22))*grid, (1+c.Rng.Intn(600))*grid, true)
	}

	// B: CTR
	for i := 0; i < c.N(24, 120); i++ {
		off := int64(c.Rng.Intn(1<<20)) * 16
		if i%4 == 0 {
			off = (int64(1)<<36 - int64(c.Rng.Intn(3))*16) // around the 2^32-block wrap of uint32(offset/16)
		}
		if i%7 == 0 {
			off += int64(c.Rng.Intn(16)) // unaligned offsets: the model must still agree
		}
		ctrCase(off, 1+c.Rng.Intn(40), true)
	}
	for i := 0; i < c.N(300, 5000); i++ {
		ctrCase(int64(c.Rng.Intn(1<<30))*16, 1+c.Rng.Intn(5000), false)
	}

	// C: verifyChunk with tiny hash windows (the SHA-256 of the model runs in the Coq VM)
	for i := 0; i < c.N(160, 1500); i++ {
		wl := int64(8 * (1 + c.Rng.Intn(4))) // window 8..32 bytes
		nw := 1 + c.Rng.Intn(4)
		tail := int64(1 + c.Rng.Intn(int(wl)))
		size := int64(nw-1)*wl + tail
		var wins []vwin
		for k := 0; k < nw; k++ {
			n := wl
			if k == nw-1 {
				n = tail
			}
			g := xfer.Bytes(int64(k)*wl, int(n))
			wins = append(wins, vwin{Off: int64(k) * wl, Limit: wl, Data: g, Serve: g})
		}
		off := int64(c.Rng.Intn(int(size)))
		if c.Rng.Chance(2, 3) {
			off -= off % 4
		}
		limit := 4 * (1 + c.Rng.Intn(12))
		data := genuine(size, off, limit)
		vc := vcase{Wins: wins, Lie: -1, Off: off, Limit: limit, Data: data, FileSize: size, TamperKind: "genuine"}
		switch c.Rng.Intn(7) {
		case 0:
			vc.TamperKind, vc.Tampered = "corrupt", true
			vc.Data = append([]byte(nil), data...)
			vc.Data[c.Rng.Intn(len(data))] ^= 0x40
		case 1:
			if len(data) > 1 {
				vc.TamperKind, vc.Tampered = "truncate", true
				vc.Data = data[:1+c.Rng.Intn(len(data)-1)]
			}
		case 2:
			if len(data) < limit {
				vc.TamperKind, vc.Tampered = "extend", true
				vc.Data = append(append([]byte(nil), data...), c.Rng.Bytes(1+c.Rng.Intn(limit-len(data)))...)
			}
		case 3:
			vc.TamperKind, vc.Tampered = "window-corrupt", true
			k := c.Rng.Intn(nw)
			s := append([]byte(nil), wins[k].Serve...)
			s[c.Rng.Intn(len(s))] ^= 1
			wins[k].Serve = s
		case 4:
			vc.TamperKind, vc.Lie = "hash-lie", c.Rng.Intn(nw)
		}
		verifyCase(vc)
	}

	// F: verifier.verify (WithVerify(true)): genuine window, and corrupted / truncated / extended /
	// over-long (more than hash.Limit) / reordered variants of it
	for i := 0; i < c.N(120, 1500); i++ {
		c.Obs.Evaluations++
		limit := 4 * (1 + c.Rng.Intn(10))
		n := limit
		if c.Rng.Chance(1, 4) {
			n = 1 + c.Rng.Intn(limit) // the short last window
		}
		off := int64(c.Rng.Intn(1 << 20))
		gen := xfer.Bytes(off, n)
		h := sha256.Sum256(gen)
		data, kind := gen, "genuine"
		switch c.Rng.Intn(6) {
		case 0:
			kind = "corrupt"
			data = append([]byte(nil), gen...)
			data[c.Rng.Intn(n)] ^= 0x20
		case 1:
			kind = "truncate"
			data = gen[:c.Rng.Intn(n)]
		case 2:
			kind = "extend"
			data = append(append([]byte(nil), gen...), c.Rng.Bytes(1+c.Rng.Intn(limit))...)
		case 3:
			kind = "extend-over-limit"
			data = append(append([]byte(nil), gen...), c.Rng.Bytes(limit-n+1+c.Rng.Intn(20))...)
		case 4:
			kind = "reorder"
			data = xfer.Bytes(off+int64(limit), n)
		}
		c.Count("verifier-verify:" + kind)
		got := downloader.VerifNewVerifier().Verify(tg.FileHash{Offset: off, Limit: limit, Hash: h[:]}, data)
		sh, ix := c.Case(fmt.Sprintf("CVq %s %d %s %s", hx.Bytes(h[:]), limit, hx.Bytes(data), hx.B(got)),
			map[string]interface{}{"vq": true, "kind": kind, "limit": limit, "len": len(data), "accepted": got})
		if kind != "genuine" {
			c.Nontrivial(fmt.Sprintf("vq %s %d %d", kind, limit, len(data)))
		}
		if got != (string(data) == string(gen)) {
			c.Violate("verifier-accepts-non-genuine-chunk", fmt.Sprintf("verifier.verify(limit %d) = %v for a %s chunk of %d bytes (genuine window: %d bytes)", limit, got, kind, len(data), n), sh, ix,
				map[string]interface{}{"vq": map[string]interface{}{"offset": off, "limit": limit, "genuine_len": n, "data": data}})
		}
	}

	// E: verifier queue
	for i := 0; i < c.N(200, 2000); i++ {
		queueCase(c.Rng.Range(0, 12), c.Rng.Range(0, 4), c.Rng.Range(1, 5), c.Rng.Intn(2), c.Rng.Chance(1, 3))
	}

	// D: whole files. Sizes: 4 windows + tail, exact multiple of the window, less than one window.
	sizes := []int64{4*window + 1000, 4 * window, 3*window + window/2, 70 * kib}
	parts := []int{128 * kib, 256 * kib, 512 * kib, 192 * kib, 96 * kib, 320 * kib} // aligned and not aligned with the 128 KiB windows
	attacks := []string{"none", "corrupt", "truncate-boundary", "truncate-mid", "truncate-empty", "extend", "extend-over", "reorder", "hash-lie"}
	for _, mode := range []string{"cdn-inline", "cdn-verify", "master-verify"} {
		for _, sz := range sizes {
			for pi, p := range parts {
				for ai, ak := range attacks {
					if !c.Thorough() && (pi+ai+int(sz/kib)+int(c.Seed))%2 == 1 && ak != "none" && !(mode == "cdn-inline" && strings.HasPrefix(ak, "truncate")) {
						continue
					}
					nresp := int(sz/int64(min(p, mib))) + 2
					fc := fcase{Mode: mode, Stream: c.Rng.Bool(), Size: sz, P: p, Threads: c.Rng.Range(1, 4), Seed: c.Rng.U64(),
						Attack: attack{Kind: ak, At: c.Rng.Intn(nresp), Once: c.Rng.Bool()}}
					if c.Rng.Chance(1, 3) {
						fc.Attack.At, fc.Attack.Off = -1, int64(c.Rng.Intn(int(sz/window)+1))*window
					}
					if ak == "hash-lie" {
						fc.Attack.Off = int64(c.Rng.Intn(int(sz/window)+1)) * window
					}
					if mode != "master-verify" {
						fc.TokenOnce, fc.Reupload = c.Rng.Chance(1, 4), c.Rng.Chance(1, 4)
					}
					fileCase("matrix", fc)
				}
			}
		}
	}
	// every single data response of a small download attacked in turn, for every attack and mode
	// (the matrix above picks the attacked response at random)
	for _, mode := range []string{"cdn-inline", "cdn-verify", "master-verify"} {
		for _, ak := range attacks[1:] {
			if ak == "hash-lie" {
				continue
			}
			for _, p := range []int{128 * kib, 192 * kib} {
				sz := int64(2*window + 1000)
				for at := 0; at < int(sz/int64(min(p, window)))+3; at++ {
					fileCase("each-response", fcase{Mode: mode, Stream: at%2 == 0, Size: sz, P: p, Threads: 1 + at%2, Seed: c.Rng.U64(),
						Attack: attack{Kind: ak, At: at, Once: true}})
				}
			}
		}
	}
	// plan walks: single-threaded streams with window-aligned part sizes under every attack
	for _, p := range []int{128 * kib, 256 * kib, 512 * kib, 1280 * kib} {
		for _, sz := range []int64{4*window + 1000, 4 * window, 70 * kib, 9*window + 5} {
			for _, ak := range attacks {
				if ak == "hash-lie" || ak == "reorder" {
					continue
				}
				fileCase("walk", fcase{Mode: "cdn-inline", Stream: true, Size: sz, P: p, Threads: 1, Seed: c.Rng.U64(),
					Attack: attack{Kind: ak, At: c.Rng.Intn(int(sz/int64(min(p, mib))) + 2), Once: true}})
			}
		}
	}
	// corpus: the orchestrator's baseline witness (part 256 KiB, 4 windows + 1000 bytes, first response cut at 128 KiB)
	fileCase("corpus", fcase{Mode: "cdn-inline", Stream: true, Size: 4*window + 1000, P: 256 * kib, Threads: 1, Seed: 1,
		Attack: attack{Kind: "truncate-boundary", At: 0, Once: true}})
	// corpus: CDN answer longer than the request limit (fixed finding)
	fileCase("corpus", fcase{Mode: "cdn-inline", Stream: true, Size: 4 * window, P: 320 * kib, Threads: 3, Seed: 1,
		Attack: attack{Kind: "extend-over", At: 1}})
	// corpus: response truncated inside a hash window that starts before the chunk (fixed finding)
	fileCase("corpus", fcase{Mode: "cdn-inline", Stream: true, Size: 4*window + 1000, P: 192 * kib, Threads: 1, Seed: 5,
		Attack: attack{Kind: "truncate-mid", At: 3, Once: true}})
	// corpus: tail extended inside the last (short) hash window, part size not aligned with the windows
	fileCase("corpus", fcase{Mode: "cdn-inline", Stream: true, Size: 200 * kib, P: 192 * kib, Threads: 1, Seed: 2,
		Attack: attack{Kind: "extend", At: -1, Off: 192 * kib}})

	keys := make([]string, 0)
	for k := range c.Obs.Distribution {
		keys = append(keys, k)
	}
	sort.Strings(keys)
	c.Obs.Rule = "plans: every (offset, limit) on the 4 KiB grid up to 3 MiB against the oracle (a structured sample and random far offsets also against the Coq model), invalid inputs; CTR: random keys/IVs/offsets incl. the 2^32-block wrap against the per-block counter keystream (a sample also against the Coq AES model); verifyChunk: tiny hash windows with genuine / corrupted / truncated / extended chunks, corrupted windows and lying hashes; verifier.verify: genuine / corrupted / truncated / extended (also beyond hash.Limit) / reordered chunks; verifier queue: random consecutive window lists, seed prefixes, batch sizes, shuffled batches, both end-of-list server behaviours; whole downloads (cdn inline, cdn + verifier, master + verifier) x sizes x aligned and unaligned part sizes x attacks {corrupt, truncate at / off a window boundary / to nothing, extend within and beyond the requested limit, reorder, lying hash}, every single response of a small download attacked in turn, with token refresh and reupload events; non-trivial = distinct multi-step plan, tampered verify case, or download in which the attack was applied"
	c.Finish()
}
