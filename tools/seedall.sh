#!/bin/sh
# start one seedbatch per seed output directory, in parallel (each has its own worktree and private Coq tree)
cd /verif
for g in "$@"; do
  git -C /var/tmp/seed-$g checkout -q -- . 2>/dev/null; git -C /var/tmp/seed-$g clean -fdq
  nohup python3 tools/seedbatch.py /var/tmp/seed-$g-out /var/tmp/seed-$g > out/seedbatch-$g.log 2>&1 &
done
