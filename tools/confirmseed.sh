#!/bin/sh
# tools/confirmseed.sh <worktree> <seeddir> <demo-dest-dir-in-repo> <test-run-regex> "<pkgs for existing tests>"
# Confirms a seeded mutant in a scratch worktree synced to /repo HEAD:
#  1 demo passes without the patch, 2 patch applies and builds, 3 existing tests of pkgs pass with the patch (no demo file),
#  4 demo fails with the patch. Prints CONFIRMED or the failing step. Restores the worktree.
wt="$1"; sd="$2"; dest="$3"; rx="$4"; pkgs="$5"
export GOFLAGS=-mod=mod GOPROXY=off
cd "$wt" || exit 2
git checkout -q -- . && git clean -fdq && git checkout -q --detach "$(git -C /repo rev-parse HEAD)" || exit 2
clean() { cd "$wt" && git checkout -q -- . && git clean -fdq; }
cp "$sd"/zz_seed_*_test.go "$dest"/ 2>/dev/null
if ! go test -vet=off -count=1 -run "$rx" ./"$dest"/ >/tmp/cs.$$ 2>&1; then echo "STEP1 demo fails WITHOUT patch"; tail -15 /tmp/cs.$$; clean; exit 1; fi
rm -f "$dest"/zz_seed_*_test.go
git apply "$sd/patch.diff" || { echo "STEP2 patch does not apply"; clean; exit 1; }
go build ./... >/tmp/cs.$$ 2>&1 || { echo "STEP2 build fails"; tail /tmp/cs.$$; clean; exit 1; }
if ! go test -vet=off -count=1 $pkgs >/tmp/cs.$$ 2>&1; then echo "STEP3 existing tests fail with patch"; grep -E "^(FAIL|---)" /tmp/cs.$$ | head; clean; exit 1; fi
cp "$sd"/zz_seed_*_test.go "$dest"/
if go test -vet=off -count=1 -run "$rx" ./"$dest"/ >/tmp/cs.$$ 2>&1; then echo "STEP4 demo PASSES with patch (mutant not demonstrated)"; clean; exit 1; fi
grep -E "^(--- FAIL|FAIL|panic)" /tmp/cs.$$ | head -3
echo CONFIRMED
clean; rm -f /tmp/cs.$$
