#!/bin/sh
# re-run detection for every stored seed (after checks were strengthened): one job per seed output dir
cd /verif
for g in "$@"; do
  git -C /var/tmp/seed-$g checkout -q -- . 2>/dev/null; git -C /var/tmp/seed-$g clean -fdq
  nohup python3 tools/seedbatch.py /var/tmp/seed-$g-out /var/tmp/seed-$g --detect-only > out/seeddetect-$g.log 2>&1 &
done
