#!/bin/sh
cd /verif
for g in "$@"; do
  git -C /var/tmp/seed-$g reset -q --hard 2>/dev/null; git -C /var/tmp/seed-$g clean -fdq
  nohup python3 tools/seedbatch.py /var/tmp/seed-$g-out /var/tmp/seed-$g --tag r3 > out/seedbatch-$g.log 2>&1 &
done
