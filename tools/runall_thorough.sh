#!/bin/sh
cd /verif
ids="$@"; [ -z "$ids" ] && ids=$(ls props/C*.json | sed 's#props/##; s#.json##')
for i in $ids; do
  s=$(date +%s); ./check $i --tier thorough > out/thorough-$i.log 2>&1; rc=$?; e=$(date +%s)
  echo "$i exit=$rc wall=$((e-s))s $(tail -1 out/thorough-$i.log | cut -c1-170)" | tee -a out/thorough.log
done
