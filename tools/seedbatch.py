#!/usr/bin/env python3
"""tools/seedbatch.py <seed-out-dir> <scratch-worktree> [--only Cxx[,Cyy]] [--detect-only] [--force]

For every mutant directory <out>/<Cxx>-<n>/ (patch.diff, zz_seed_*_test.go / demo, demo.md, meta.json) written by an
independent mutation author:
  1. confirm it in the scratch worktree synced to /repo HEAD (demo passes without the patch; patch applies and builds;
     existing tests of the touched packages pass with the patch and no demo file; demo fails with the patch);
  2. if props/<Cxx>.json exists, run `VERIF_REPO=<worktree> ./check Cxx` with the patch applied and record the verdict;
  3. store it as /verif/seeded/<Cxx>-<n>/ (patch.diff, demonstration, meta.json).
/repo itself is never touched.
"""
import glob, json, os, re, shutil, subprocess, sys

ROOT = os.path.dirname(os.path.dirname(os.path.abspath(__file__)))
ENV = dict(os.environ, GOFLAGS="-mod=mod", GOPROXY="off")


def sh(cmd, cwd, timeout=3600, env=ENV):
    try:
        p = subprocess.run(cmd, cwd=cwd, env=env, shell=isinstance(cmd, str), stdout=subprocess.PIPE, stderr=subprocess.STDOUT, text=True, timeout=timeout, errors="replace")
        return p.returncode, p.stdout
    except subprocess.TimeoutExpired as e:
        return 124, "timeout"


def clean(wt):
    sh("git reset -q --hard && git clean -fdq", wt)


def sync(wt):
    head = subprocess.run(["git", "-C", "/repo", "rev-parse", "HEAD"], capture_output=True, text=True).stdout.strip()
    clean(wt)
    return sh("git checkout -q --detach " + head, wt)[0] == 0


def demo_files(sd):
    fs = [f for f in glob.glob(os.path.join(sd, "*_test.go"))]
    return fs


def find_dest(sd, wt, patch_dirs):
    md = ""
    for f in ("demo.md", "meta.json"):
        p = os.path.join(sd, f)
        if os.path.exists(p):
            md += open(p, errors="replace").read()
    cands = re.findall(r"`([\w./-]+?)/?`", md) + re.findall(r"\b((?:[\w-]+/)+[\w-]+)/", md)
    pkgs = set()
    for f in demo_files(sd):
        m = re.search(r"^package\s+(\w+)", open(f, errors="replace").read(), re.M)
        if m:
            pkgs.add(m.group(1).replace("_test", ""))
    for c in cands:
        c = c.strip("./")
        d = os.path.join(wt, c)
        if c and os.path.isdir(d) and glob.glob(os.path.join(d, "*.go")):
            if not pkgs or os.path.basename(c) in pkgs or any(re.search(r"^package\s+%s\b" % p, open(g, errors="replace").read(), re.M) for p in pkgs for g in glob.glob(os.path.join(d, "*.go"))[:3]):
                return c
    for d in patch_dirs:
        return d
    return None


def main():
    args = [a for i, a in enumerate(sys.argv[1:], 1) if not a.startswith("--") and sys.argv[i - 1] not in ("--tag", "--only")]
    out, wt = args[0], args[1]
    only = None
    for i, a in enumerate(sys.argv):
        if a == "--only":
            only = set(sys.argv[i + 1].split(","))
    tag = ""
    for i, a in enumerate(sys.argv):
        if a == "--tag":
            tag = sys.argv[i + 1]
    detect_only = "--detect-only" in sys.argv
    force = "--force" in sys.argv
    for sd in sorted(glob.glob(os.path.join(out, "C[0-9][0-9]-[0-9]*"))):
        if not os.path.isdir(sd) or not os.path.exists(os.path.join(sd, "patch.diff")):
            continue
        name = os.path.basename(sd)
        prop = name.split("-")[0]
        if only and prop not in only:
            continue
        if tag:  # later rounds reuse the authors' numbering: keep them apart
            name = prop + "-" + tag + "-" + name.split("-", 1)[1]
        dst = os.path.join(ROOT, "seeded", name)
        meta_p = os.path.join(dst, "meta.json")
        meta = json.load(open(meta_p)) if os.path.exists(meta_p) else {}
        patch = os.path.join(sd, "patch.rebased.diff") if os.path.exists(os.path.join(sd, "patch.rebased.diff")) else os.path.join(sd, "patch.diff")
        pdirs = sorted({os.path.dirname(m) for m in re.findall(r"^\+\+\+ b/(\S+)", open(patch, errors="replace").read(), re.M)})
        if not sync(wt):
            print(name, "cannot sync worktree"); continue
        if not (meta.get("confirmed") and not force) and not detect_only:
            dest = find_dest(sd, wt, pdirs)
            rxm = re.search(r"-run[ =]+'?\"?([^\s'\"]+)", open(os.path.join(sd, "demo.md"), errors="replace").read()) if os.path.exists(os.path.join(sd, "demo.md")) else None
            rx = rxm.group(1) if rxm else "Seed"
            steps = []
            ok = dest is not None and bool(demo_files(sd))
            if not ok:
                steps.append("no demo test file / destination found (dest=%s)" % dest)
            if ok:
                for f in demo_files(sd):
                    shutil.copy(f, os.path.join(wt, dest))
                rc, o = sh(["go", "test", "-vet=off", "-count=1", "-run", rx, "./" + dest + "/"], wt, 1800)
                steps.append("demo without patch: " + ("ok" if rc == 0 else "FAIL"))
                if rc != 0:
                    ok = False; steps.append(o[-600:])
                clean(wt)
            if ok:
                rc, o = sh(["git", "apply", patch], wt)
                if rc != 0:
                    rc, o2 = sh(["git", "apply", "-3", patch], wt)
                    if rc == 0 and "with conflicts" not in o2:
                        sh("git reset -q", wt)
                        steps.append("patch applied with a 3-way merge (the code moved since the author's base)")
                        rebased = subprocess.run(["git", "diff"], cwd=wt, capture_output=True, text=True).stdout
                        open(os.path.join(sd, "patch.rebased.diff"), "w").write(rebased)
                        patch = os.path.join(sd, "patch.rebased.diff")
                    else:
                        ok = False; steps.append("patch does not apply to current /repo HEAD: " + o[-300:])
            if ok:
                rc, o = sh(["go", "build", "./..."], wt, 1800)
                steps.append("go build ./... with patch: " + ("ok" if rc == 0 else "FAIL"))
                ok = rc == 0
            if ok:
                pk = sorted({"./" + d + "/..." for d in pdirs + [dest]})
                rc, o = sh(["go", "test", "-vet=off", "-count=1"] + pk, wt, 3000)
                if rc != 0:  # one retry: the suite has load-sensitive tests
                    rc, o = sh(["go", "test", "-vet=off", "-count=1"] + pk, wt, 3000)
                steps.append("existing tests %s with patch: %s" % (" ".join(pk), "ok" if rc == 0 else "FAIL " + " ".join(re.findall(r"^--- FAIL: (\S+)", o, re.M)[:5])))
                ok = rc == 0
            if ok:
                for f in demo_files(sd):
                    shutil.copy(f, os.path.join(wt, dest))
                rc, o = sh(["go", "test", "-vet=off", "-count=1", "-run", rx, "./" + dest + "/"], wt, 1800)
                if rc == 0:  # demos that force a schedule through verifhook need the tag (the mutant itself does not)
                    rc0, o0 = sh(["go", "test", "-tags", "verif", "-vet=off", "-count=1", "-run", rx, "./" + dest + "/"], wt, 1800)
                    if rc0 != 0:
                        clean(wt)
                        for f in demo_files(sd):
                            shutil.copy(f, os.path.join(wt, dest))
                        rcw, _ = sh(["go", "test", "-tags", "verif", "-vet=off", "-count=1", "-run", rx, "./" + dest + "/"], wt, 1800)
                        sh(["git", "apply", patch], wt)
                        if rcw == 0:
                            rc, o = rc0, o0
                            steps.append("demo needs -tags verif (forces its schedule through verifhook): passes without the patch")
                steps.append("demo with patch: " + ("FAIL (as required) " + " ".join(re.findall(r"^--- FAIL: (\S+)", o, re.M)[:4]) if rc != 0 else "passes -> NOT demonstrated"))
                ok = rc != 0
            clean(wt)
            meta["confirmed"] = ok
            meta["confirmation_steps"] = steps
            meta["demo_dest"] = dest
            meta["demo_run"] = rx
            print(name, "CONFIRMED" if ok else "NOT CONFIRMED", "|", "; ".join(s for s in steps if len(s) < 200))
            if not ok:
                os.makedirs(os.path.join(ROOT, "out", "seed-rejected"), exist_ok=True)
                json.dump(meta, open(os.path.join(ROOT, "out", "seed-rejected", name + ".json"), "w"), indent=1)
                continue
        if not meta.get("confirmed"):
            continue
        # store
        os.makedirs(dst, exist_ok=True)
        for f in glob.glob(os.path.join(sd, "*")):
            b = os.path.basename(f)
            if os.path.isfile(f) and (b in ("patch.diff", "patch.rebased.diff", "demo.md") or b.endswith("_test.go") or b.endswith(".go")):
                shutil.copy(f, dst)
        src_meta = {}
        try:
            src_meta = json.load(open(os.path.join(sd, "meta.json")))
        except Exception:
            pass
        meta.update({"property": prop, "summary": src_meta.get("summary"), "needs": src_meta.get("needs"), "violates": src_meta.get("violates"),
                     "author": "independent sub-agent that saw only the property text and a scratch worktree"})
        # detection
        if os.path.exists(os.path.join(ROOT, "props", prop + ".json")) and (force or detect_only or "detection" not in meta):
            sync(wt)
            rc, o = sh(["git", "apply", patch], wt)
            if rc == 0:
                rc, o = sh(["./check", prop], ROOT, 3600, dict(os.environ, VERIF_REPO=wt))
                lines = [l[:500] for l in o.splitlines() if l.startswith("VIOLATION") or l.startswith("check: " + prop + " tier") or l.startswith("check: ")]
                meta["detection"] = {"exit": rc, "detected": rc == 1 and any(l.startswith("VIOLATION") for l in lines),
                                     "concrete_replay": any(l.startswith("VIOLATION") and "no-failing-input-found" not in l for l in lines),
                                     "cmd": "VERIF_REPO=<scratch worktree with patch> ./check %s" % prop, "output": lines[-4:]}
                print(name, "detection:", "DETECTED" if meta["detection"]["detected"] else "MISSED", "(concrete replay)" if meta["detection"]["concrete_replay"] else "", lines[-1:] )
            clean(wt)
        json.dump(meta, open(meta_p, "w"), indent=1)
    clean(wt)


if __name__ == "__main__":
    main()
