#!/usr/bin/env python3
"""Regenerates the machine-derived parts of DESIGN.md (between <!-- BEGIN:x --> / <!-- END:x --> markers):
findings table (from known_findings.jsonl), seeded-mutant table (from seeded/*/meta.json), per-property status
(from props/*.json, evidence/*.json, claimed.txt)."""
import glob, json, os, re
R = os.path.dirname(os.path.dirname(os.path.abspath(__file__)))


def findings():
    rows = ["| property | status | sig | commit | what |", "|---|---|---|---|---|"]
    for l in open(os.path.join(R, "known_findings.jsonl")):
        l = l.strip()
        if not l or l.startswith("#"):
            continue
        k = json.loads(l)
        what = k.get("what", "").replace("|", "\\|").replace("\n", " ")
        rows.append("| %s | %s | `%s` | %s | %s |" % (k.get("property"), k.get("status"), k.get("sig", ""), (k.get("commit") or "")[:9], what[:420]))
    return "\n".join(rows)


def seeded():
    rows = ["| mutant | what it changes / needs | confirmed | detected by `./check` | replay |", "|---|---|---|---|---|"]
    tot = det = conc = 0
    for d in sorted(glob.glob(os.path.join(R, "seeded", "C*"))):
        try:
            m = json.load(open(os.path.join(d, "meta.json")))
        except Exception:
            continue
        dd = m.get("detection") or {}
        if isinstance(m.get("detected_by"), str):  # early hand-written entries
            dd = {"detected": True, "concrete_replay": True}
        tot += 1
        det += 1 if dd.get("detected") else 0
        conc += 1 if dd.get("concrete_replay") else 0
        s = (m.get("summary") or "")[:230].replace("|", "\\|").replace("\n", " ")
        n = (m.get("needs") or "")[:160].replace("|", "\\|").replace("\n", " ")
        rows.append("| %s | %s — needs: %s | %s | %s | %s |" % (os.path.basename(d), s, n, "yes" if m.get("confirmed", True) else "no",
                    "yes" if dd.get("detected") else ("not run" if not dd else "**no**"), "concrete" if dd.get("concrete_replay") else ("no-failing-input-found" if dd.get("detected") else "")))
    rows.append("")
    rows.append("Totals: %d confirmed mutants stored, %d detected (%d with a concrete failing input as replay)." % (tot, det, conc))
    return "\n".join(rows)


def status():
    claimed = set(open(os.path.join(R, "props", "claimed.txt")).read().split())
    rows = ["| id | claimed | theorems (Prop/Cxx.v) | obligations | correspondence cases | oracle evaluations | known findings seen | quick wall s |", "|---|---|---|---|---|---|---|---|"]
    for l in open(os.path.join(R, "properties.jsonl")):
        i = json.loads(l)["id"]
        ev = os.path.join(R, "evidence", i + ".json")
        if os.path.exists(ev):
            e = json.load(open(ev)); c = e["coverage"]
            rows.append("| %s | %s | %s | %s/%s | %s | %s | %s | %s |" % (i, "yes" if i in claimed else "no", ", ".join(c.get("theorems", []))[:600], c.get("discharged"), c.get("obligations"),
                        c.get("correspondence_cases"), c.get("evaluations"), ", ".join(c.get("known_findings_seen", [])) or "-", e.get("wall_s")))
        else:
            rows.append("| %s | %s | | | | | | |" % (i, "yes" if i in claimed else "no"))
    return "\n".join(rows)


def main():
    p = os.path.join(R, "DESIGN.md")
    s = open(p).read()
    for name, fn in (("findings", findings), ("seeded", seeded), ("status", status)):
        b, e = "<!-- BEGIN:%s -->" % name, "<!-- END:%s -->" % name
        if b in s and e in s:
            s = s[:s.index(b) + len(b)] + "\n" + fn() + "\n" + s[s.index(e):]
    open(p, "w").write(s)


if __name__ == "__main__":
    main()
