#!/bin/sh
# run the thorough tier of every property, 3 at a time; one line per property in out/thorough2.log
cd /verif
ls props/C*.json | sed 's#props/##; s#.json##' | xargs -P 3 -I{} sh -c '
  i={}; s=$(date +%s); timeout 1800 ./check $i --tier thorough > out/thorough2-$i.log 2>&1; rc=$?; e=$(date +%s)
  echo "$i exit=$rc wall=$((e-s))s $(tail -1 out/thorough2-$i.log | cut -c1-150)" >> out/thorough2.log'
echo done >> out/thorough2.log
