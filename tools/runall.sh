#!/bin/sh
# tools/runall.sh [ids...] : run ./check for each id (default: every props/C*.json) sequentially; summary in out/runall.log
cd /verif
ids="$@"; [ -z "$ids" ] && ids=$(ls props/C*.json | sed 's#props/##; s#.json##')
for i in $ids; do
  s=$(date +%s); ./check $i > out/runall-$i.log 2>&1; rc=$?; e=$(date +%s)
  echo "$i exit=$rc wall=$((e-s))s $(grep -c '^KNOWN-FINDING' out/runall-$i.log) known $(tail -1 out/runall-$i.log | cut -c1-160)" | tee -a out/runall.log
done
