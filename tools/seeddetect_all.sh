#!/bin/sh
# refresh the detection verdict of every stored seeded mutant against the current checks, 6 seed directories at a time
cd /verif
ls -d /var/tmp/seed-*-out | sed 's#/var/tmp/seed-##; s#-out##' | xargs -P 6 -I{} sh -c '
  g={}; tag=""; case "$g" in r*) tag="--tag r2";; t*) tag="--tag r3";; esac
  git -C /var/tmp/seed-$g reset -q --hard 2>/dev/null; git -C /var/tmp/seed-$g clean -fdq
  python3 tools/seedbatch.py /var/tmp/seed-$g-out /var/tmp/seed-$g $tag --detect-only > out/seedfinal-$g.log 2>&1'
echo done > out/seedfinal.done
