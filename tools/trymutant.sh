#!/bin/sh
# tools/trymutant.sh <worktree> <patch.diff> <Cxx> [extra check args]: run ./check Cxx against a scratch worktree
# (synced to /repo HEAD) with the patch applied; the worktree is restored afterwards. /repo itself is not touched.
wt="$1"; patch="$2"; id="$3"; shift 3
cd "$wt" || exit 2
git checkout -q -- . && git clean -fdq && git checkout -q --detach "$(git -C /repo rev-parse HEAD)" || exit 2
git apply "$patch" || { echo "trymutant: patch does not apply"; exit 3; }
cd /verif && VERIF_REPO="$wt" ./check "$id" "$@" 2>&1 | grep -E "^(VIOLATION|KNOWN-FINDING|check: $id tier|check: )" | cut -c1-400
rc=$?
cd "$wt" && git checkout -q -- . && git clean -fdq
