(* io.ReadFull over a reader that delivers the stream in arbitrary pieces.

   The transport models (Codec, FakeTls, Obfs2) treat a connection as a byte list and
   io.ReadFull(r, buf) as "exactly len(buf) bytes, or io.EOF / io.ErrUnexpectedEOF".  This file
   models the loop of io.ReadAtLeast

       for n < min && err == nil { nn, err = r.Read(buf[n:]); n += nn }

   over a reader whose k-th Read returns at most [szs k] bytes (at least one, never more than
   asked or than what is left; (0, io.EOF) at the end of the stream), and proves that the
   result does not depend on the schedule [szs]: it is [read_full_spec].  The models' read_full
   functions are instances of [read_full_spec] (see Proof/ReadFullInst.v). *)
From Coq Require Import ZArith List Bool Lia.
From TD Require Import Lib.GoSem.
Import ListNotations.
Open Scope Z_scope.

Section RF.
Context {E : Type} (e_eof e_unexp : E).

Definition read_full_spec (k : Z) (s : list Z) : res E (list Z * list Z) :=
  if k <=? 0 then Ok ([], s)
  else if k <=? Z.of_nat (length s) then Ok (firstn (Z.to_nat k) s, skipn (Z.to_nat k) s)
  else match s with [] => Err e_eof | _ => Err e_unexp end.

(* one Read(buf[n:]) with [need] bytes still wanted: how many bytes the reader hands out *)
Definition delivery (need : nat) (s : list Z) (szs : list nat) : nat :=
  Nat.min (Nat.min need (Nat.max 1 (hd need szs))) (length s).

(* the loop; returns (bytes read, rest of the stream, rest of the schedule, hit EOF) *)
Fixpoint rf_loop (fuel need : nat) (got s : list Z) (szs : list nat) : list Z * list Z * list nat * bool :=
  match fuel with
  | O => (got, s, szs, false)
  | S f =>
    match need with
    | O => (got, s, szs, false)
    | _ =>
      match s with
      | [] => (got, s, szs, true)
      | _ => let t := delivery need s szs in
             rf_loop f (need - t) (got ++ firstn t s) (skipn t s) (tl szs)
      end
    end
  end.

Definition read_full_sched (k : Z) (s : list Z) (szs : list nat) : res E (list Z * list Z) :=
  if k <=? 0 then Ok ([], s)
  else
    let n := Z.to_nat k in
    let '(got, s', _, eof) := rf_loop n n [] s szs in
    if eof then match got with [] => Err e_eof | _ => Err e_unexp end
    else Ok (got, s').

Lemma firstn_plus {A} (a b : nat) (l : list A) : firstn (a + b) l = firstn a l ++ firstn b (skipn a l).
Proof.
  revert l; induction a as [|a IH]; intros l; [reflexivity|].
  destruct l as [|x l]; [cbn; rewrite firstn_nil; reflexivity|]. cbn. rewrite IH; reflexivity.
Qed.
Lemma skipn_plus {A} (a b : nat) (l : list A) : skipn (a + b) l = skipn b (skipn a l).
Proof.
  revert l; induction a as [|a IH]; intros l; [reflexivity|].
  destruct l as [|x l]; [cbn; rewrite skipn_nil; reflexivity|]. cbn. apply IH.
Qed.

Lemma rf_loop_spec : forall fuel need got s szs,
  (need <= fuel)%nat ->
  exists szs', rf_loop fuel need got s szs =
               (got ++ firstn need s, skipn need s, szs', (length s <? need)%nat).
Proof.
  induction fuel as [|f IH]; intros need got s szs H.
  - assert (need = 0%nat) by lia; subst. exists szs. cbn. rewrite app_nil_r. reflexivity.
  - destruct need as [|n].
    + exists szs. cbn. rewrite app_nil_r. reflexivity.
    + destruct s as [|x s'].
      * exists szs. cbn. rewrite app_nil_r. reflexivity.
      * cbn [rf_loop]. set (t := delivery (S n) (x :: s') szs).
        assert (1 <= t <= S n /\ t <= length (x :: s'))%nat as Ht.
        { subst t. unfold delivery. cbn [length]. lia. }
        destruct (IH (S n - t)%nat (got ++ firstn t (x :: s')) (skipn t (x :: s')) (tl szs) ltac:(lia)) as (szs' & Hr).
        exists szs'. rewrite Hr.
        assert ((got ++ firstn t (x :: s')) ++ firstn (S n - t) (skipn t (x :: s')) = got ++ firstn (S n) (x :: s')) as E1.
        { rewrite <- app_assoc. f_equal. replace (S n) with (t + (S n - t))%nat at 2 by lia. symmetry; apply firstn_plus. }
        assert (skipn (S n - t) (skipn t (x :: s')) = skipn (S n) (x :: s')) as E2.
        { replace (S n) with (t + (S n - t))%nat at 2 by lia. symmetry; apply skipn_plus. }
        assert ((length (skipn t (x :: s')) <? S n - t)%nat = (length (x :: s') <? S n)%nat) as E3.
        { rewrite skipn_length. destruct (Nat.ltb_spec (length (x :: s') - t) (S n - t));
            destruct (Nat.ltb_spec (length (x :: s')) (S n)); try reflexivity; lia. }
        rewrite E1, E2, E3. reflexivity.
Qed.

(* every schedule gives the result of the specification *)
Theorem read_full_any_schedule k s szs : read_full_sched k s szs = read_full_spec k s.
Proof.
  unfold read_full_sched, read_full_spec. destruct (Z.leb_spec k 0); [reflexivity|].
  destruct (rf_loop_spec (Z.to_nat k) (Z.to_nat k) [] s szs (Nat.le_refl _)) as (szs' & ->).
  cbn [app]. destruct (Nat.ltb_spec (length s) (Z.to_nat k)) as [Hlt|Hge].
  - destruct (Z.leb_spec k (Z.of_nat (length s))); [lia|].
    rewrite firstn_all2 by lia. destruct s; reflexivity.
  - destruct (Z.leb_spec k (Z.of_nat (length s))); [reflexivity|lia].
Qed.
End RF.
