(* Byte strings as lists of Z in [0,256); little-endian integer coding; signed views.
   Shared by all codec models. *)
From Coq Require Import ZArith List Bool Lia.
Import ListNotations.
Open Scope Z_scope.

Definition byte_ok (b : Z) : Prop := 0 <= b < 256.
Definition bytes_ok (l : list Z) : Prop := Forall byte_ok l.
Definition byte_okb (b : Z) : bool := (0 <=? b) && (b <? 256).
Definition bytes_okb (l : list Z) : bool := forallb byte_okb l.

Lemma byte_okb_spec b : byte_okb b = true <-> byte_ok b.
Proof. unfold byte_okb, byte_ok; rewrite andb_true_iff, Z.leb_le, Z.ltb_lt; tauto. Qed.
Lemma bytes_okb_spec l : bytes_okb l = true <-> bytes_ok l.
Proof.
  unfold bytes_okb, bytes_ok; rewrite forallb_forall, Forall_forall.
  split; intros H x Hx; apply byte_okb_spec, H, Hx.
Qed.
Lemma bytes_ok_app a b : bytes_ok (a ++ b) <-> bytes_ok a /\ bytes_ok b.
Proof. unfold bytes_ok; apply Forall_app. Qed.
Lemma in_firstn_in {A} n (l : list A) x : In x (firstn n l) -> In x l.
Proof. revert l; induction n as [|n IH]; intros [|a l]; cbn; auto; try tauto. intros [H|H]; auto. Qed.
Lemma bytes_ok_firstn n l : bytes_ok l -> bytes_ok (firstn n l).
Proof. unfold bytes_ok; rewrite !Forall_forall; intros H x Hx; apply H; eapply in_firstn_in; eauto. Qed.
Lemma in_skipn_in {A} n (l : list A) x : In x (skipn n l) -> In x l.
Proof. revert l; induction n as [|n IH]; intros [|a l]; cbn; auto. Qed.
Lemma bytes_ok_skipn n l : bytes_ok l -> bytes_ok (skipn n l).
Proof. unfold bytes_ok; rewrite !Forall_forall; intros H x Hx; apply H; eapply in_skipn_in; eauto. Qed.
Lemma bytes_ok_repeat b n : byte_ok b -> bytes_ok (repeat b n).
Proof. intros Hb; unfold bytes_ok; apply Forall_forall; intros x Hx; apply repeat_spec in Hx; subst; exact Hb. Qed.

(* little-endian: n bytes of v (v taken modulo 256^n, two's complement for negative v) *)
Fixpoint le_enc (n : nat) (v : Z) : list Z :=
  match n with
  | O => []
  | S k => (v mod 256) :: le_enc k (v / 256)
  end.
Fixpoint le_dec (l : list Z) : Z :=
  match l with
  | [] => 0
  | b :: t => b + 256 * le_dec t
  end.

Lemma le_enc_length n v : length (le_enc n v) = n.
Proof. revert v; induction n as [|n IH]; intros v; cbn [le_enc length]; [reflexivity|rewrite IH; reflexivity]. Qed.
Lemma le_enc_ok n v : bytes_ok (le_enc n v).
Proof.
  revert v; induction n as [|n IH]; intros v; cbn [le_enc]; constructor; [|apply IH].
  unfold byte_ok; apply Z.mod_pos_bound; lia.
Qed.
Lemma le_dec_range l : bytes_ok l -> 0 <= le_dec l < 256 ^ Z.of_nat (length l).
Proof.
  induction l as [|b t IH]; intros H; cbn [le_dec length].
  - cbn; lia.
  - inversion H as [|? ? Hb Ht]; subst; specialize (IH Ht); unfold byte_ok in Hb.
    rewrite Nat2Z.inj_succ, Z.pow_succ_r by lia. lia.
Qed.
Lemma le_dec_enc n v : 0 <= v < 256 ^ Z.of_nat n -> le_dec (le_enc n v) = v.
Proof.
  revert v; induction n as [|n IH]; intros v Hv; cbn [le_enc le_dec].
  - cbn in Hv; lia.
  - rewrite Nat2Z.inj_succ, Z.pow_succ_r in Hv by lia.
    rewrite IH.
    + pose proof (Z.div_mod v 256); lia.
    + split; [apply Z.div_pos; lia|apply Z.div_lt_upper_bound; lia].
Qed.
Lemma le_dec_enc_mod n v : le_dec (le_enc n v) = v mod 256 ^ Z.of_nat n.
Proof.
  revert v; induction n as [|n IH]; intros v; cbn [le_enc le_dec].
  - cbn; rewrite Z.mod_1_r; reflexivity.
  - rewrite IH, Nat2Z.inj_succ, Z.pow_succ_r by lia.
    rewrite Z.rem_mul_r by (try apply Z.pow_nonzero; try apply Z.pow_pos_nonneg; lia). reflexivity.
Qed.
Lemma le_enc_dec l : bytes_ok l -> le_enc (length l) (le_dec l) = l.
Proof.
  induction l as [|b t IH]; intros H; cbn [le_dec length le_enc]; [reflexivity|].
  inversion H as [|? ? Hb Ht]; subst; unfold byte_ok in Hb.
  replace ((b + 256 * le_dec t) mod 256) with b.
  2:{ replace (b + 256 * le_dec t) with (b + le_dec t * 256) by ring.
      rewrite Z.mod_add by lia; symmetry; apply Z.mod_small; lia. }
  replace ((b + 256 * le_dec t) / 256) with (le_dec t).
  2:{ replace (b + 256 * le_dec t) with (b + le_dec t * 256) by ring.
      rewrite Z.div_add by lia; rewrite Z.div_small by lia; lia. }
  rewrite IH by exact Ht; reflexivity.
Qed.
Lemma le_dec_app a b : le_dec (a ++ b) = le_dec a + 256 ^ Z.of_nat (length a) * le_dec b.
Proof.
  induction a as [|x a IH]; cbn [app le_dec length]; [change (Z.of_nat 0) with 0; rewrite Z.pow_0_r; lia|].
  rewrite IH, Nat2Z.inj_succ, Z.pow_succ_r by lia; ring.
Qed.

(* signed interpretation of an unsigned value of [bits] bits, and back *)
Definition to_signed (bits : Z) (u : Z) : Z := if u <? 2 ^ (bits - 1) then u else u - 2 ^ bits.
Definition of_signed (bits : Z) (s : Z) : Z := s mod 2 ^ bits.
Lemma to_of_signed bits s : 0 < bits -> - 2 ^ (bits - 1) <= s < 2 ^ (bits - 1) -> to_signed bits (of_signed bits s) = s.
Proof.
  intros Hb Hs; unfold to_signed, of_signed.
  assert (2 ^ bits = 2 * 2 ^ (bits - 1)) as E by (rewrite <- Z.pow_succ_r by lia; f_equal; lia).
  destruct (Z_lt_ge_dec s 0) as [Hn|Hp].
  - replace (s mod 2 ^ bits) with (s + 2 ^ bits).
    2:{ symmetry; rewrite <- (Z.mod_add _ 1) by lia; rewrite Z.mul_1_l; apply Z.mod_small; lia. }
    destruct (Z.ltb_spec (s + 2 ^ bits) (2 ^ (bits - 1))); lia.
  - rewrite Z.mod_small by lia. destruct (Z.ltb_spec s (2 ^ (bits - 1))); lia.
Qed.
Lemma of_to_signed bits u : 0 < bits -> 0 <= u < 2 ^ bits -> of_signed bits (to_signed bits u) = u.
Proof.
  intros Hb Hu; unfold to_signed, of_signed.
  destruct (Z.ltb_spec u (2 ^ (bits - 1))).
  - apply Z.mod_small; lia.
  - rewrite <- (Z.mod_add _ 1) by lia; rewrite Z.mul_1_l. replace (u - 2 ^ bits + 2 ^ bits) with u by lia.
    apply Z.mod_small; lia.
Qed.

(* firstn/skipn helpers *)
Lemma firstn_app_exact {A} (a b : list A) : firstn (length a) (a ++ b) = a.
Proof. rewrite firstn_app, Nat.sub_diag, firstn_all; cbn; apply app_nil_r. Qed.
Lemma skipn_app_exact {A} (a b : list A) : skipn (length a) (a ++ b) = b.
Proof. rewrite skipn_app, Nat.sub_diag, skipn_all; reflexivity. Qed.
Lemma firstn_le_enc_app n v r : firstn n (le_enc n v ++ r) = le_enc n v.
Proof. rewrite <- (le_enc_length n v) at 1; apply firstn_app_exact. Qed.
Lemma skipn_le_enc_app n v r : skipn n (le_enc n v ++ r) = r.
Proof. rewrite <- (le_enc_length n v) at 1; apply skipn_app_exact. Qed.
