(* A small crash model of a POSIX file system, for properties about what a file contains
   when the process or the machine stops in the middle of a sequence of system calls
   (DESIGN.md section 3.5, property C31).

   One directory.  Directory entries ([name]) point to inodes; an inode has the content as
   of its last fsync ([i_dur]), its current content ([i_vol]) and a dirty flag.  The
   directory has a durable table and the list of entry operations not yet made durable by
   an fsync of the directory.  Operations are system calls that SUCCEEDED (the observer
   drops failed calls, they have no effect).  [OWrite] appends; the observer tracks the offset
   of every descriptor and reports a write whose offset is not the end of the file (pwrite, or
   a write through a descriptor opened without O_TRUNC on a non-empty file) as [OWriteAt],
   which overwrites in place; lseek and anything else is [OOther] and poisons the run
   ([run] = None).

   Two crash models:
   * [Process]: the process dies, the kernel lives: every completed system call (and the
     completed prefix of an interrupted write) is visible.
   * [Power]: the machine stops: the directory is the durable table plus any prefix of the
     pending entry operations (metadata journalling is ordered); an inode that is dirty
     holds either its last synced content or any prefix of its current content (a
     truncation counts as a prefix of length 0); a clean inode holds its content.  Data
     and directory are NOT ordered with respect to each other -- that is what makes the
     fsync before a rename necessary.
   File-system specific behaviour beyond these two models is not modelled. *)
From Coq Require Import List ZArith Bool Arith Lia.
Import ListNotations.

Definition bytes := list Z.
Definition name := nat.
Definition ino := nat.
Definition fdn := nat.

Record inode := { i_dur : bytes; i_vol : bytes; i_dirty : bool }.
Inductive dirop := DCreate (n : name) (i : ino) | DRename (src dst : name) | DUnlink (n : name).
Inductive fdt := FFile (i : ino) | FDir.

(* association lists with in-place update (so that updating twice = updating once) *)
Fixpoint aget {A} (k : nat) (l : list (nat * A)) : option A :=
  match l with
  | [] => None
  | (k', v) :: t => if Nat.eqb k k' then Some v else aget k t
  end.
Fixpoint aset {A} (k : nat) (v : A) (l : list (nat * A)) : list (nat * A) :=
  match l with
  | [] => [(k, v)]
  | (k', v') :: t => if Nat.eqb k k' then (k, v) :: t else (k', v') :: aset k v t
  end.
Fixpoint adel {A} (k : nat) (l : list (nat * A)) : list (nat * A) :=
  match l with
  | [] => []
  | (k', v') :: t => if Nat.eqb k k' then adel k t else (k', v') :: adel k t
  end.

Record fs := {
  inodes : list (ino * inode);
  ddir : list (name * ino);      (* durable directory *)
  pend : list dirop;             (* entry operations since the last directory sync, oldest first *)
  fds : list (fdn * fdt);
  next : ino
}.

Definition apply_dirop (d : list (name * ino)) (o : dirop) : list (name * ino) :=
  match o with
  | DCreate n i => aset n i d
  | DRename s t => match aget s d with Some i => aset t i (adel s d) | None => d end
  | DUnlink n => adel n d
  end.
Definition apply_dirops (d : list (name * ino)) (os : list dirop) : list (name * ino) :=
  fold_left apply_dirop os d.
Definition vdir (st : fs) : list (name * ino) := apply_dirops (ddir st) (pend st).

Inductive op :=
| OOpen (fd : fdn) (n : name) (creat excl trunc : bool)
| OOpenDir (fd : fdn)
| OWrite (fd : fdn) (data : bytes)                 (* write at the end of the file *)
| OWriteAt (fd : fdn) (off : nat) (data : bytes)   (* write at an offset inside the file: overwrites in place *)
| OFsync (fd : fdn)
| OClose (fd : fdn)
| ORename (src dst : name)
| OUnlink (n : name)
| OOther.

Definition with_inodes (st : fs) (x : list (ino * inode)) : fs :=
  {| inodes := x; ddir := ddir st; pend := pend st; fds := fds st; next := next st |}.
Definition with_fds (st : fs) (x : list (fdn * fdt)) : fs :=
  {| inodes := inodes st; ddir := ddir st; pend := pend st; fds := x; next := next st |}.
Definition with_pend (st : fs) (x : list dirop) : fs :=
  {| inodes := inodes st; ddir := ddir st; pend := x; fds := fds st; next := next st |}.

(* None: the call cannot have succeeded in this state, or is not modelled *)
Definition step (st : fs) (o : op) : option fs :=
  match o with
  | OOpen fd n creat excl trunc =>
      match aget fd (fds st) with
      | Some _ => None
      | None =>
          match aget n (vdir st) with
          | Some i =>
              if excl then None else
              match aget i (inodes st) with
              | None => None
              | Some nd =>
                  if trunc then
                    Some {| inodes := aset i {| i_dur := i_dur nd; i_vol := []; i_dirty := true |} (inodes st);
                            ddir := ddir st; pend := pend st; fds := aset fd (FFile i) (fds st); next := next st |}
                  else Some (with_fds st (aset fd (FFile i) (fds st)))
              end
          | None =>
              if creat then
                Some {| inodes := aset (next st) {| i_dur := []; i_vol := []; i_dirty := false |} (inodes st);
                        ddir := ddir st; pend := pend st ++ [DCreate n (next st)];
                        fds := aset fd (FFile (next st)) (fds st); next := S (next st) |}
              else None
          end
      end
  | OOpenDir fd =>
      match aget fd (fds st) with
      | Some _ => None
      | None => Some (with_fds st (aset fd FDir (fds st)))
      end
  | OWrite fd d =>
      match aget fd (fds st) with
      | Some (FFile i) =>
          match aget i (inodes st) with
          | Some nd => Some (with_inodes st (aset i {| i_dur := i_dur nd; i_vol := i_vol nd ++ d; i_dirty := true |} (inodes st)))
          | None => None
          end
      | _ => None
      end
  | OWriteAt fd off d =>
      match aget fd (fds st) with
      | Some (FFile i) =>
          match aget i (inodes st) with
          | Some nd =>
              if Nat.leb off (length (i_vol nd))
              then Some (with_inodes st (aset i {| i_dur := i_dur nd;
                                                   i_vol := firstn off (i_vol nd) ++ d ++ skipn (off + length d) (i_vol nd);
                                                   i_dirty := match d with [] => i_dirty nd | _ => true end |} (inodes st)))
              else None                       (* hole: not modelled *)
          | None => None
          end
      | _ => None
      end
  | OFsync fd =>
      match aget fd (fds st) with
      | Some (FFile i) =>
          match aget i (inodes st) with
          | Some nd => Some (with_inodes st (aset i {| i_dur := i_vol nd; i_vol := i_vol nd; i_dirty := false |} (inodes st)))
          | None => None
          end
      | Some FDir => Some {| inodes := inodes st; ddir := vdir st; pend := []; fds := fds st; next := next st |}
      | None => None
      end
  | OClose fd =>
      match aget fd (fds st) with
      | Some _ => Some (with_fds st (adel fd (fds st)))
      | None => None
      end
  | ORename s t =>
      match aget s (vdir st) with
      | Some _ => Some (with_pend st (pend st ++ [DRename s t]))
      | None => None
      end
  | OUnlink n =>
      match aget n (vdir st) with
      | Some _ => Some (with_pend st (pend st ++ [DUnlink n]))
      | None => None
      end
  | OOther => None
  end.

Fixpoint run (st : fs) (os : list op) : option fs :=
  match os with
  | [] => Some st
  | o :: t => match step st o with Some st' => run st' t | None => None end
  end.

(* ---- crash ---- *)
Inductive crash_model := Process | Power.

Fixpoint list_prefixes {A} (l : list A) : list (list A) :=
  match l with
  | [] => [[]]
  | x :: t => [] :: map (cons x) (list_prefixes t)
  end.
Definition prefixes : bytes -> list bytes := list_prefixes.

Definition content_in (inos : list (ino * inode)) (d : list (name * ino)) (n : name)
           (pick : inode -> list bytes) : list (option bytes) :=
  match aget n d with
  | None => [None]
  | Some i => match aget i inos with
              | None => [None]
              | Some nd => map Some (pick nd)
              end
  end.

(* [pre]: which prefixes of the unsynced content are considered; the theorems use
   [prefixes] (all of them), the executable correspondence check a selection *)
Definition power_pick (pre : bytes -> list bytes) (nd : inode) : list bytes :=
  if i_dirty nd then i_dur nd :: pre (i_vol nd) else [i_vol nd].

(* possible contents of entry [n] after a crash in state [st]; None = no such file *)
Definition crash_gen (pre : bytes -> list bytes) (m : crash_model) (n : name) (st : fs) : list (option bytes) :=
  match m with
  | Process => content_in (inodes st) (vdir st) n (fun nd => [i_vol nd])
  | Power => flat_map (fun ps => content_in (inodes st) (apply_dirops (ddir st) ps) n (power_pick pre))
                      (list_prefixes (pend st))
  end.
Definition crash := crash_gen prefixes.

(* ---- crash points of a system-call sequence: every boundary, and every partial
   completion of every write ---- *)
Definition partials_gen (lens : bytes -> list nat) (o : op) : list (list op) :=
  match o with
  | OWrite fd d => map (fun p => [OWrite fd (firstn p d)]) (lens d)
  | OWriteAt fd off d => map (fun p => [OWriteAt fd off (firstn p d)]) (lens d)
  | _ => []
  end.
Fixpoint crash_prefixes_gen (lens : bytes -> list nat) (os : list op) : list (list op) :=
  match os with
  | [] => [[]]
  | o :: t => [] :: partials_gen lens o ++ map (cons o) (crash_prefixes_gen lens t)
  end.
Definition all_lens (d : bytes) : list nat := seq 0 (length d).
Definition crash_prefixes := crash_prefixes_gen all_lens.

(* all contents entry [n] can have after a crash somewhere in [os] started in [st0];
   an element None means: the sequence cannot run in the model (unmodelled call) *)
Definition crash_states_gen (lens : bytes -> list nat) (pre : bytes -> list bytes)
           (m : crash_model) (n : name) (st0 : fs) (os : list op) : list (option (option bytes)) :=
  flat_map (fun p => match run st0 p with
                     | Some st => map Some (crash_gen pre m n st)
                     | None => [None]
                     end) (crash_prefixes_gen lens os).
Definition crash_states := crash_states_gen all_lens prefixes.

(* initial states: the entry 0 either holds a synced file with content [old], or does not exist *)
Definition init_fs (old : option bytes) : fs :=
  match old with
  | Some b => {| inodes := [(0, {| i_dur := b; i_vol := b; i_dirty := false |})]; ddir := [(0, 0)]; pend := []; fds := []; next := 1 |}
  | None => {| inodes := []; ddir := []; pend := []; fds := []; next := 1 |}
  end.

(* ---- the state a crash leaves behind is the start state of the next run ----
   After a crash no descriptor is open.  [Process]: the kernel's view survives, nothing
   distinguishes it from a state in which everything visible is also durable, so recovery
   flattens it.  [Power]: one choice of a directory prefix and, per inode, of one of its
   possible contents; [power_recovered] relates a state to every state that can come back. *)
Definition flatten_inode (nd : inode) : inode := {| i_dur := i_vol nd; i_vol := i_vol nd; i_dirty := false |}.
Definition recover_process (st : fs) : fs :=
  {| inodes := map (fun e => (fst e, flatten_inode (snd e))) (inodes st);
     ddir := vdir st; pend := []; fds := []; next := next st |}.
Definition clean_with (b : bytes) : inode := {| i_dur := b; i_vol := b; i_dirty := false |}.
Inductive inodes_recovered : list (ino * inode) -> list (ino * inode) -> Prop :=
| IRnil : inodes_recovered [] []
| IRcons i nd b t t' : In b (power_pick prefixes nd) -> inodes_recovered t t' ->
                       inodes_recovered ((i, nd) :: t) ((i, clean_with b) :: t').
Definition power_recovered (st st' : fs) : Prop :=
  exists k, ddir st' = apply_dirops (ddir st) (firstn k (pend st)) /\ pend st' = [] /\ fds st' = [] /\
            next st' = next st /\ inodes_recovered (inodes st) (inodes st').

(* Start states with leftover files: entry 0 holds [cur] (or does not exist), entries
   1..k hold the leftovers [left] (whatever earlier interrupted runs left behind), all
   clean, nothing pending, nothing open; names and inodes numbered alike. *)
Fixpoint left_inodes (i : nat) (left : list bytes) : list (ino * inode) :=
  match left with
  | [] => []
  | b :: t => (i, clean_with b) :: left_inodes (S i) t
  end.
Fixpoint left_dir (i : nat) (left : list bytes) : list (name * ino) :=
  match left with
  | [] => []
  | _ :: t => (i, i) :: left_dir (S i) t
  end.
Definition init_left (cur : option bytes) (left : list bytes) : fs :=
  {| inodes := match cur with Some b => [(0, clean_with b)] | None => [] end ++ left_inodes 1 left;
     ddir := match cur with Some _ => [(0, 0)] | None => [] end ++ left_dir 1 left;
     pend := []; fds := []; next := S (length left) |}.
