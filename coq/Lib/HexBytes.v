(* Compact byte-string literals for generated case files: [hb n 0x...] is the n-byte string
   whose little-endian value is the given number (the harness prints the bytes reversed as
   one hexadecimal numeral, which parses much faster than a list of numerals).  Decoding uses
   shifts and masks only (constant work per byte on binary integers). *)
From Coq Require Import ZArith List.
Open Scope Z_scope.
Fixpoint hb (n : nat) (v : Z) : list Z :=
  match n with
  | O => nil
  | S k => Z.land v 255 :: hb k (Z.shiftr v 8)
  end.
Example hb_example : hb 3 0x030201 = (1 :: 2 :: 3 :: nil)%list.
Proof. reflexivity. Qed.
