(* Big-endian byte strings <-> Z (math/big SetBytes / FillBytes), bytewise xor, io.ReadFull on a
   recorded random stream, byte-string equality, square-and-multiply modular exponentiation.
   Shared by the RSA (C14) and SRP (C15) models. *)
From Coq Require Import ZArith List Bool Lia.
From TD Require Import Lib.Bytes.
Import ListNotations.
Open Scope Z_scope.

(* ---- big.Int.SetBytes / FillBytes ---- *)
Definition be_dec (l : list Z) : Z := le_dec (rev l).
Definition be_enc (n : nat) (v : Z) : list Z := rev (le_enc n v).

Lemma bytes_ok_rev l : bytes_ok l <-> bytes_ok (rev l).
Proof.
  unfold bytes_ok; rewrite !Forall_forall; split; intros H x Hx; apply H.
  - apply in_rev; exact Hx.
  - apply in_rev; rewrite rev_involutive; exact Hx.
Qed.
Lemma be_enc_length n v : length (be_enc n v) = n.
Proof. unfold be_enc; rewrite rev_length; apply le_enc_length. Qed.
Lemma be_enc_ok n v : bytes_ok (be_enc n v).
Proof. unfold be_enc; apply bytes_ok_rev; rewrite rev_involutive; apply le_enc_ok. Qed.
Lemma be_dec_range l : bytes_ok l -> 0 <= be_dec l < 256 ^ Z.of_nat (length l).
Proof. intros H; unfold be_dec; rewrite <- (rev_length l); apply le_dec_range, bytes_ok_rev; rewrite rev_involutive; exact H. Qed.
Lemma be_dec_enc n v : 0 <= v < 256 ^ Z.of_nat n -> be_dec (be_enc n v) = v.
Proof. intros H; unfold be_dec, be_enc; rewrite rev_involutive; apply le_dec_enc; exact H. Qed.
Lemma be_enc_dec l : bytes_ok l -> be_enc (length l) (be_dec l) = l.
Proof.
  intros H; unfold be_dec, be_enc. rewrite <- (rev_length l).
  rewrite le_enc_dec by (apply bytes_ok_rev; rewrite rev_involutive; exact H). apply rev_involutive.
Qed.
Lemma be_dec_app a b : be_dec (a ++ b) = be_dec a * 256 ^ Z.of_nat (length b) + be_dec b.
Proof. unfold be_dec; rewrite rev_app_distr, le_dec_app, rev_length; ring. Qed.
Lemma be_dec_nil : be_dec [] = 0.
Proof. reflexivity. Qed.
Lemma be_dec_snoc a x : be_dec (a ++ [x]) = be_dec a * 256 + x.
Proof. rewrite be_dec_app; cbn [length]; unfold be_dec at 2; cbn; lia. Qed.
Lemma be_enc_inj n v w : 0 <= v < 256 ^ Z.of_nat n -> 0 <= w < 256 ^ Z.of_nat n -> be_enc n v = be_enc n w -> v = w.
Proof. intros Hv Hw E; rewrite <- (be_dec_enc n v Hv), <- (be_dec_enc n w Hw), E; reflexivity. Qed.

(* Horner form (used by the independent specifications) *)
Definition be_horner (l : list Z) : Z := fold_left (fun acc b => acc * 256 + b) l 0.
Lemma be_horner_acc l acc : fold_left (fun acc b => acc * 256 + b) l acc = acc * 256 ^ Z.of_nat (length l) + be_dec l.
Proof.
  revert acc; induction l as [|x l IH]; intros acc; cbn [fold_left length].
  - rewrite be_dec_nil; change (Z.of_nat 0) with 0; rewrite Z.pow_0_r; lia.
  - rewrite IH. change (x :: l) with ([x] ++ l). rewrite be_dec_app.
    rewrite Nat2Z.inj_succ, Z.pow_succ_r by lia. unfold be_dec at 2; cbn [rev app le_dec]. ring.
Qed.
Lemma be_horner_dec l : be_horner l = be_dec l.
Proof. unfold be_horner; rewrite be_horner_acc; lia. Qed.

(* ---- bytewise xor (go-faster/xor.Bytes: min of the two lengths) ---- *)
Fixpoint xor_bytes (a b : list Z) : list Z :=
  match a, b with
  | x :: a', y :: b' => Z.lxor x y :: xor_bytes a' b'
  | _, _ => []
  end.
Lemma xor_bytes_length a b : length (xor_bytes a b) = Nat.min (length a) (length b).
Proof. revert b; induction a as [|x a IH]; intros [|y b]; cbn [xor_bytes length Nat.min]; auto. Qed.
Lemma xor_bytes_invol a b : (length a <= length b)%nat -> xor_bytes (xor_bytes a b) b = a.
Proof.
  revert b; induction a as [|x a IH]; intros [|y b] H; cbn [xor_bytes length] in *; try reflexivity; try lia.
  rewrite IH by lia. rewrite Z.lxor_assoc, Z.lxor_nilpotent, Z.lxor_0_r; reflexivity.
Qed.
Lemma lxor_byte x y : byte_ok x -> byte_ok y -> byte_ok (Z.lxor x y).
Proof.
  unfold byte_ok; intros Hx Hy.
  assert (0 <= Z.lxor x y) as H0 by (apply Z.lxor_nonneg; lia).
  split; [exact H0|].
  destruct (Z.eq_dec (Z.lxor x y) 0) as [E|E]; [lia|].
  apply (Z.log2_lt_pow2 _ 8); [lia|].
  pose proof (Z.log2_lxor x y ltac:(lia) ltac:(lia)) as HL.
  assert (Z.log2 x < 8) by (destruct (Z.eq_dec x 0) as [->|]; [cbn; lia|apply Z.log2_lt_pow2; lia]).
  assert (Z.log2 y < 8) by (destruct (Z.eq_dec y 0) as [->|]; [cbn; lia|apply Z.log2_lt_pow2; lia]).
  lia.
Qed.
Lemma xor_bytes_ok a b : bytes_ok a -> bytes_ok b -> bytes_ok (xor_bytes a b).
Proof.
  revert b; induction a as [|x a IH]; intros [|y b] Ha Hb; cbn [xor_bytes]; try constructor.
  - inversion Ha; inversion Hb; subst; apply lxor_byte; assumption.
  - inversion Ha; inversion Hb; subst; apply IH; assumption.
Qed.
Lemma xor_bytes_zero a n : (length a <= n)%nat -> xor_bytes a (repeat 0 n) = a.
Proof.
  revert n; induction a as [|x a IH]; intros [|n] H; cbn [xor_bytes repeat length] in *; try reflexivity; try lia.
  rewrite Z.lxor_0_r, IH by lia; reflexivity.
Qed.

(* ---- byte-string equality (bytes.Equal) ---- *)
Fixpoint beqb (a b : list Z) : bool :=
  match a, b with
  | [], [] => true
  | x :: a', y :: b' => (x =? y) && beqb a' b'
  | _, _ => false
  end.
Lemma beqb_eq a b : beqb a b = true <-> a = b.
Proof.
  revert b; induction a as [|x a IH]; intros [|y b]; cbn [beqb]; try (split; [discriminate|discriminate]); try tauto.
  rewrite andb_true_iff, Z.eqb_eq, IH. split; [intros [-> ->]; reflexivity|intros E; inversion E; auto].
Qed.
Lemma beqb_refl a : beqb a a = true.
Proof. apply beqb_eq; reflexivity. Qed.
Lemma beqb_neq a b : beqb a b = false <-> a <> b.
Proof. rewrite <- beqb_eq; destruct (beqb a b); split; congruence. Qed.

(* ---- io.ReadFull(r, buf[:n]) on a recorded stream: all n bytes or an error ---- *)
Definition read_full (n : nat) (r : list Z) : option (list Z * list Z) :=
  if (n <=? length r)%nat then Some (firstn n r, skipn n r) else None.
Lemma read_full_some n r a r' : read_full n r = Some (a, r') ->
  a = firstn n r /\ r' = skipn n r /\ length a = n /\ (length r' + n = length r)%nat.
Proof.
  unfold read_full; destruct (Nat.leb_spec n (length r)) as [H|H]; [|discriminate].
  intros E; inversion E; subst; repeat split; [apply firstn_length_le; exact H|rewrite skipn_length; lia].
Qed.

(* ---- big.Int.Exp(b, e, m) for e >= 0, m > 0: square and multiply over the bits of e ---- *)
Fixpoint modexp_pos (b : Z) (e : positive) (m : Z) : Z :=
  match e with
  | xH => b mod m
  | xO e' => let t := modexp_pos b e' m in (t * t) mod m
  | xI e' => let t := modexp_pos b e' m in (((t * t) mod m) * b) mod m
  end.
Definition modexp_sm (b e m : Z) : Z :=
  match e with
  | Z0 => 1 mod m
  | Zpos p => modexp_pos b p m
  | Zneg _ => 1 mod m
  end.
Lemma modexp_pos_spec b e m : modexp_pos b e m = b ^ Zpos e mod m.
Proof.
  induction e as [e IH|e IH|]; cbn [modexp_pos].
  - rewrite IH. rewrite Pos2Z.inj_xI. replace (2 * Z.pos e + 1) with (Z.pos e + Z.pos e + 1) by lia.
    rewrite !Z.pow_add_r, Z.pow_1_r by lia.
    rewrite <- Zmult_mod, Zmult_mod_idemp_l; reflexivity.
  - rewrite IH. rewrite Pos2Z.inj_xO. replace (2 * Z.pos e) with (Z.pos e + Z.pos e) by lia.
    rewrite Z.pow_add_r by lia. rewrite <- Zmult_mod; reflexivity.
  - rewrite Z.pow_1_r; reflexivity.
Qed.
Lemma modexp_sm_spec b e m : 0 <= e -> modexp_sm b e m = b ^ e mod m.
Proof. intros He; destruct e as [|p|p]; cbn [modexp_sm]; [reflexivity|apply modexp_pos_spec|lia]. Qed.
