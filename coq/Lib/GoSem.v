(* Results of Go operations that may fail or panic. "Never panics" theorems are
   statements [f x <> Panic]. *)
From Coq Require Import List ZArith Bool.
Import ListNotations.

Inductive res (E A : Type) : Type :=
| Ok (a : A)
| Err (e : E)
| Panic.
Arguments Ok {E A} a.
Arguments Err {E A} e.
Arguments Panic {E A}.

Definition bind {E A B} (r : res E A) (f : A -> res E B) : res E B :=
  match r with
  | Ok a => f a
  | Err e => Err e
  | Panic => Panic
  end.
Notation "'do' x <- r ; k" := (bind r (fun x => k)) (at level 200, x pattern, r at level 100, k at level 200).

Definition is_ok {E A} (r : res E A) : bool := match r with Ok _ => true | _ => false end.
Definition is_panic {E A} (r : res E A) : bool := match r with Panic => true | _ => false end.

Open Scope bool_scope.
(* Go slice expression s[lo:hi] on a slice whose len = cap = length s: panics unless 0<=lo<=hi<=len *)
Open Scope Z_scope.
Definition go_slice {E A} (s : list A) (lo hi : Z) : res E (list A) :=
  if (0 <=? lo) && (lo <=? hi) && (hi <=? Z.of_nat (length s))
  then Ok (firstn (Z.to_nat (hi - lo)) (skipn (Z.to_nat lo) s))
  else Panic.
(* make([]T, n): panics for n < 0 (len out of range) *)
Definition go_make {E} (n : Z) : res E (list Z) :=
  if n <? 0 then Panic else Ok (repeat 0 (Z.to_nat n)).
