(* Go slice/index operations on byte lists with their panics, and the lemmas the codec
   proofs need about them (prefix/middle/suffix of concatenations, no-panic under the
   guards the Go code checks). Builds on Lib/GoSem.v. *)
From Coq Require Import ZArith List Bool Lia.
From TD Require Import Lib.Bytes Lib.GoSem.
Import ListNotations.
Open Scope Z_scope.

Definition len {A} (s : list A) : Z := Z.of_nat (length s).

(* s[i]: panics unless 0 <= i < len s *)
Definition go_index {E} (s : list Z) (i : Z) : res E Z :=
  if (0 <=? i) && (i <? len s) then Ok (nth (Z.to_nat i) s 0) else Panic.

Definition zeros (n : Z) : list Z := repeat 0 (Z.to_nat n).

Lemma len_nonneg {A} (s : list A) : 0 <= len s.
Proof. unfold len; lia. Qed.
Lemma len_app {A} (a b : list A) : len (a ++ b) = len a + len b.
Proof. unfold len; rewrite app_length; lia. Qed.
Lemma len_cons {A} (x : A) s : len (x :: s) = 1 + len s.
Proof. unfold len; cbn [length]; lia. Qed.
Lemma len_nil {A} : len (@nil A) = 0.
Proof. reflexivity. Qed.
Lemma len_le_enc n v : len (le_enc n v) = Z.of_nat n.
Proof. unfold len; rewrite le_enc_length; reflexivity. Qed.
Lemma len_zeros n : 0 <= n -> len (zeros n) = n.
Proof. intros H; unfold len, zeros; rewrite repeat_length; lia. Qed.
Lemma len_firstn {A} n (s : list A) : (n <= length s)%nat -> len (firstn n s) = Z.of_nat n.
Proof. intros H; unfold len; rewrite firstn_length_le; auto. Qed.
Lemma len_skipn {A} n (s : list A) : len (skipn n s) = len s - Z.of_nat (Nat.min n (length s)).
Proof. unfold len; rewrite skipn_length; lia. Qed.
Lemma len_zero_nil {A} (s : list A) : len s = 0 -> s = [].
Proof. destruct s; [reflexivity|unfold len; cbn [length]; lia]. Qed.
Lemma bytes_ok_zeros n : bytes_ok (zeros n).
Proof. apply bytes_ok_repeat; unfold byte_ok; lia. Qed.

Lemma go_slice_ok {E A} (s : list A) lo hi :
  0 <= lo -> lo <= hi -> hi <= len s ->
  @go_slice E A s lo hi = Ok (firstn (Z.to_nat (hi - lo)) (skipn (Z.to_nat lo) s)).
Proof.
  intros H1 H2 H3; unfold go_slice, len in *.
  destruct (Z.leb_spec 0 lo); [|lia].
  destruct (Z.leb_spec lo hi); [|lia].
  destruct (Z.leb_spec hi (Z.of_nat (length s))); [|lia]. reflexivity.
Qed.
Lemma go_slice_panic_iff {E A} (s : list A) lo hi :
  @go_slice E A s lo hi = Panic <-> ~ (0 <= lo /\ lo <= hi /\ hi <= len s).
Proof.
  unfold go_slice, len.
  destruct (Z.leb_spec 0 lo); destruct (Z.leb_spec lo hi);
    destruct (Z.leb_spec hi (Z.of_nat (length s))); cbn; split; intros; try discriminate; try lia; try reflexivity.
Qed.

(* the three shapes used by codecs *)
Lemma go_slice_prefix {E A} (a r : list A) : @go_slice E A (a ++ r) 0 (len a) = Ok a.
Proof.
  rewrite go_slice_ok by (rewrite ?len_app; pose proof (len_nonneg a); pose proof (len_nonneg r); lia).
  rewrite Z.sub_0_r; unfold len; rewrite Nat2Z.id; cbn [Z.to_nat skipn].
  rewrite firstn_app_exact; reflexivity.
Qed.
Lemma go_slice_suffix {E A} (a r : list A) : @go_slice E A (a ++ r) (len a) (len (a ++ r)) = Ok r.
Proof.
  rewrite go_slice_ok by (rewrite ?len_app; pose proof (len_nonneg a); pose proof (len_nonneg r); lia).
  rewrite len_app. replace (len a + len r - len a) with (len r) by lia.
  unfold len; rewrite !Nat2Z.id, skipn_app_exact, firstn_all; reflexivity.
Qed.
Lemma go_slice_mid {E A} (a b c : list A) :
  @go_slice E A (a ++ b ++ c) (len a) (len a + len b) = Ok b.
Proof.
  rewrite go_slice_ok by (rewrite ?len_app; pose proof (len_nonneg a); pose proof (len_nonneg b); pose proof (len_nonneg c); lia).
  replace (len a + len b - len a) with (len b) by lia.
  unfold len; rewrite !Nat2Z.id, skipn_app_exact, firstn_app_exact; reflexivity.
Qed.

Lemma go_index_ok {E} (s : list Z) i : 0 <= i < len s -> @go_index E s i = Ok (nth (Z.to_nat i) s 0).
Proof.
  intros H; unfold go_index.
  destruct (Z.leb_spec 0 i); [|lia]. destruct (Z.ltb_spec i (len s)); [|lia]. reflexivity.
Qed.
Lemma nth_bytes_ok s i : bytes_ok s -> (i < length s)%nat -> byte_ok (nth i s 0).
Proof. intros H Hi; unfold bytes_ok in H; rewrite Forall_forall in H; apply H, nth_In, Hi. Qed.

(* splitting: a successful s[lo:hi] with the tail s[hi:] reconstructs s[lo:] *)
Lemma firstn_skipn_split {A} (s : list A) n : s = firstn n s ++ skipn n s.
Proof. symmetry; apply firstn_skipn. Qed.
Lemma skipn_skipn' {A} (x y : nat) (l : list A) : skipn x (skipn y l) = skipn (x + y) l.
Proof.
  revert l; induction y as [|y IH]; intros l; [rewrite Nat.add_0_r; reflexivity|].
  destruct l as [|a l]; [rewrite !skipn_nil; reflexivity|].
  rewrite Nat.add_succ_r; cbn [skipn]; apply IH.
Qed.
