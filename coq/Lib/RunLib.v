(* Helpers shared by the correspondence checkers in Run/. *)
From Coq Require Import List ZArith Bool.
Import ListNotations.

Fixpoint mismatch_from {A} (ok : A -> bool) (i : nat) (l : list A) : list nat :=
  match l with
  | [] => []
  | x :: t => if ok x then mismatch_from ok (S i) t else i :: mismatch_from ok (S i) t
  end.
Definition mismatch_idx {A} (ok : A -> bool) (l : list A) : list nat := mismatch_from ok 0 l.

Fixpoint list_eqb {A} (eqb : A -> A -> bool) (a b : list A) : bool :=
  match a, b with
  | [], [] => true
  | x :: a', y :: b' => eqb x y && list_eqb eqb a' b'
  | _, _ => false
  end.
Definition zlist_eqb := list_eqb Z.eqb.
Definition z3_eqb (a b : Z * Z * Z) : bool :=
  let '(a1, a2, a3) := a in let '(b1, b2, b3) := b in
  Z.eqb a1 b1 && Z.eqb a2 b2 && Z.eqb a3 b3.
Definition option_eqb {A} (eqb : A -> A -> bool) (a b : option A) : bool :=
  match a, b with
  | Some x, Some y => eqb x y
  | None, None => true
  | _, _ => false
  end.
