(* Semantics of the math/big operations that appear in translated fragments (b-exchange:
   C13, C09, C10).  math/big itself is trusted ("modelled, not verified"). *)
From Coq Require Import ZArith Lia.
Open Scope Z_scope.

(* big.Int Cmp *)
Definition big_cmp (a b : Z) : Z :=
  match a ?= b with Lt => -1 | Eq => 0 | Gt => 1 end.
(* big.Int BitLen: length of |x| in bits, 0 for 0 *)
Definition bitlen (x : Z) : Z :=
  match x with Z0 => 0 | Zpos p | Zneg p => Z.log2 (Zpos p) + 1 end.

Lemma big_cmp_gt a b : (big_cmp a b >? 0) = (a >? b).
Proof. unfold big_cmp, Z.gtb. destruct (a ?= b); reflexivity. Qed.
Lemma big_cmp_lt a b : (big_cmp a b <? 0) = (a <? b).
Proof. unfold big_cmp, Z.ltb. destruct (a ?= b); reflexivity. Qed.

Lemma bitlen_range x n : 0 < n -> (bitlen x = n <-> 2 ^ (n - 1) <= Z.abs x < 2 ^ n).
Proof.
  intros Hn. destruct x as [|p|p]; cbn [bitlen Z.abs].
  - split; [lia|]. intros [H _]. pose proof (Z.pow_pos_nonneg 2 (n - 1) ltac:(lia) ltac:(lia)). lia.
  - pose proof (Z.log2_spec (Zpos p) ltac:(lia)) as [L U].
    pose proof (Z.log2_nonneg (Zpos p)) as Hnn.
    split.
    + intros <-. replace (Z.log2 (Z.pos p) + 1 - 1) with (Z.log2 (Z.pos p)) by lia.
      rewrite <- Z.add_1_r in U. lia.
    + intros [L2 U2].
      assert (Z.log2 (Zpos p) = n - 1); [|lia].
      apply Z.log2_unique; [lia|]. replace (Z.succ (n - 1)) with n by lia. lia.
  - pose proof (Z.log2_spec (Zpos p) ltac:(lia)) as [L U].
    pose proof (Z.log2_nonneg (Zpos p)) as Hnn.
    split.
    + intros <-. replace (Z.log2 (Z.pos p) + 1 - 1) with (Z.log2 (Z.pos p)) by lia.
      rewrite <- Z.add_1_r in U. lia.
    + intros [L2 U2].
      assert (Z.log2 (Zpos p) = n - 1); [|lia].
      apply Z.log2_unique; [lia|]. replace (Z.succ (n - 1)) with n by lia. lia.
Qed.
