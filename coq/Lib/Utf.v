(* Unicode code points (Z), UTF-8 encoding / Go's decoding semantics, UTF-16 length,
   unicode.IsSpace, strings.TrimRightFunc(s, unicode.IsSpace) on bytes.
   Shared by the entity / HTML / Markdown models (C35, C37). *)
From Coq Require Import ZArith List Bool Lia.
Import ListNotations.
Open Scope Z_scope.

(* ---------- code points ---------- *)
Definition cp_validb (c : Z) : bool :=
  ((0 <=? c) && (c <? 55296)) || ((57344 <=? c) && (c <=? 1114111)).
Definition cp_valid (c : Z) : Prop := cp_validb c = true.
Definition rune_error : Z := 65533.

Lemma cp_valid_iff c : cp_valid c <-> (0 <= c < 55296 \/ 57344 <= c <= 1114111).
Proof.
  unfold cp_valid, cp_validb.
  rewrite orb_true_iff, !andb_true_iff, !Z.leb_le, !Z.ltb_lt. tauto.
Qed.

(* UTF-16 code units of one code point *)
Definition utf16len (c : Z) : Z := if 65536 <=? c then 2 else 1.
Fixpoint u16c (s : list Z) : Z := match s with [] => 0 | c :: t => utf16len c + u16c t end.

Lemma utf16len_pos c : 1 <= utf16len c <= 2.
Proof. unfold utf16len; destruct (65536 <=? c); lia. Qed.
Lemma u16c_app a b : u16c (a ++ b) = u16c a + u16c b.
Proof. induction a as [|x a IH]; cbn [app u16c]; lia. Qed.
Lemma u16c_cons x a : u16c (x :: a) = utf16len x + u16c a.
Proof. reflexivity. Qed.
Lemma u16c_ge_length s : Z.of_nat (length s) <= u16c s.
Proof.
  induction s as [|x s IH]; [cbn; lia|].
  rewrite u16c_cons; cbn [length]; pose proof (utf16len_pos x); lia.
Qed.
Lemma u16c_nonneg s : 0 <= u16c s.
Proof. pose proof (u16c_ge_length s); lia. Qed.

(* ---------- UTF-8 encoding ---------- *)
Definition utf8_enc (c : Z) : list Z :=
  if c <? 128 then [c]
  else if c <? 2048 then [192 + c / 64; 128 + c mod 64]
  else if c <? 65536 then [224 + c / 4096; 128 + (c / 64) mod 64; 128 + c mod 64]
  else [240 + c / 262144; 128 + (c / 4096) mod 64; 128 + (c / 64) mod 64; 128 + c mod 64].
Definition utf8_encode (s : list Z) : list Z := flat_map utf8_enc s.
(* utf8.EncodeRune / AppendRune: invalid runes are written as U+FFFD *)
Definition go_encode_rune (r : Z) : list Z := if cp_validb r then utf8_enc r else utf8_enc rune_error.

Lemma utf8_encode_app a b : utf8_encode (a ++ b) = utf8_encode a ++ utf8_encode b.
Proof. unfold utf8_encode; apply flat_map_app. Qed.
Lemma utf8_encode_cons c s : utf8_encode (c :: s) = utf8_enc c ++ utf8_encode s.
Proof. reflexivity. Qed.

(* ---------- decoding: one strict step (None = Go reports RuneError, width 1) ---------- *)
Definition contb (b : Z) : bool := (128 <=? b) && (b <=? 191).
Definition dec1 (s : list Z) : option (Z * list Z) :=
  match s with
  | [] => None
  | b0 :: t =>
    if (0 <=? b0) && (b0 <? 128) then Some (b0, t)
    else if (194 <=? b0) && (b0 <=? 223) then
      match t with
      | b1 :: t1 => if contb b1 then Some ((b0 - 192) * 64 + (b1 - 128), t1) else None
      | _ => None
      end
    else if (224 <=? b0) && (b0 <=? 239) then
      match t with
      | b1 :: b2 :: t2 =>
        if ((if b0 =? 224 then 160 else 128) <=? b1) && (b1 <=? (if b0 =? 237 then 159 else 191)) && contb b2
        then Some ((b0 - 224) * 4096 + (b1 - 128) * 64 + (b2 - 128), t2) else None
      | _ => None
      end
    else if (240 <=? b0) && (b0 <=? 244) then
      match t with
      | b1 :: b2 :: b3 :: t3 =>
        if ((if b0 =? 240 then 144 else 128) <=? b1) && (b1 <=? (if b0 =? 244 then 143 else 191))
           && contb b2 && contb b3
        then Some ((b0 - 240) * 262144 + (b1 - 128) * 4096 + (b2 - 128) * 64 + (b3 - 128), t3) else None
      | _ => None
      end
    else None
  end.

(* Go's decoding of a whole string (range over string / utf8.DecodeRune loop):
   invalid bytes yield U+FFFD and advance by one byte. *)
Fixpoint go_decode_f (fuel : nat) (s : list Z) : list Z :=
  match fuel with
  | O => []
  | S f =>
    match s with
    | [] => []
    | _ :: t =>
      match dec1 s with
      | Some (c, rest) => c :: go_decode_f f rest
      | None => rune_error :: go_decode_f f t
      end
    end
  end.
Definition go_decode (s : list Z) : list Z := go_decode_f (length s) s.

(* strict decoding = utf8.Valid *)
Fixpoint dec_strict_f (fuel : nat) (s : list Z) : option (list Z) :=
  match s with
  | [] => Some []
  | _ =>
    match fuel with
    | O => None
    | S f =>
      match dec1 s with
      | Some (c, rest) =>
        match dec_strict_f f rest with Some l => Some (c :: l) | None => None end
      | None => None
      end
    end
  end.
Definition utf8_validb (s : list Z) : bool :=
  match dec_strict_f (length s) s with Some _ => true | None => false end.

(* ---------- unicode.IsSpace ---------- *)
Definition space_runes : list Z :=
  [9; 10; 11; 12; 13; 32; 133; 160; 5760;
   8192; 8193; 8194; 8195; 8196; 8197; 8198; 8199; 8200; 8201; 8202;
   8232; 8233; 8239; 8287; 12288].
Definition is_spaceb (c : Z) : bool := existsb (Z.eqb c) space_runes.
Definition is_space (c : Z) : Prop := is_spaceb c = true.

(* strings.TrimRightFunc(s, unicode.IsSpace) on code points *)
Fixpoint trim_rev_cps (r : list Z) : list Z :=
  match r with
  | c :: t => if is_spaceb c then trim_rev_cps t else r
  | [] => []
  end.
Definition trim_cps (s : list Z) : list Z := rev (trim_rev_cps (rev s)).

(* ... and on bytes. utf8.DecodeLastRune yields a space rune exactly when the string ends
   with the (shortest-form) encoding of that rune, so trimming strips such suffixes. *)
Fixpoint strip_prefix (p r : list Z) : option (list Z) :=
  match p, r with
  | [], _ => Some r
  | x :: p', y :: r' => if x =? y then strip_prefix p' r' else None
  | _ :: _, [] => None
  end.
Fixpoint strip_any (cands : list Z) (r : list Z) : option (list Z) :=
  match cands with
  | [] => None
  | c :: cs => match strip_prefix (rev (utf8_enc c)) r with Some r' => Some r' | None => strip_any cs r end
  end.
Fixpoint trim_rev_bytes (fuel : nat) (r : list Z) : list Z :=
  match fuel with
  | O => r
  | S f => match strip_any space_runes r with Some r' => trim_rev_bytes f r' | None => r end
  end.
Definition trim_bytes (s : list Z) : list Z := rev (trim_rev_bytes (length s) (rev s)).

(* ====================================================================== *)
(* Proofs                                                                  *)
(* ====================================================================== *)

Ltac zb :=
  repeat match goal with
  | H : (_ && _) = true |- _ => apply andb_prop in H; destruct H
  | H : (_ || _) = false |- _ => apply orb_false_elim in H; destruct H
  | H : (_ <=? _) = true |- _ => apply Z.leb_le in H
  | H : (_ <=? _) = false |- _ => apply Z.leb_gt in H
  | H : (_ <? _) = true |- _ => apply Z.ltb_lt in H
  | H : (_ <? _) = false |- _ => apply Z.ltb_ge in H
  | H : (_ =? _) = true |- _ => apply Z.eqb_eq in H
  | H : (_ =? _) = false |- _ => apply Z.eqb_neq in H
  end.

Lemma enc_len_cases c :
  cp_valid c ->
  (0 <= c < 128 /\ utf8_enc c = [c]) \/
  (128 <= c < 2048 /\ utf8_enc c = [192 + c / 64; 128 + c mod 64]) \/
  (2048 <= c < 65536 /\ utf8_enc c = [224 + c / 4096; 128 + (c / 64) mod 64; 128 + c mod 64]) \/
  (65536 <= c <= 1114111 /\
   utf8_enc c = [240 + c / 262144; 128 + (c / 4096) mod 64; 128 + (c / 64) mod 64; 128 + c mod 64]).
Proof.
  intros H; apply cp_valid_iff in H; unfold utf8_enc.
  destruct (c <? 128) eqn:E1; zb; [left; split; [lia|reflexivity]|].
  destruct (c <? 2048) eqn:E2; zb; [right; left; split; [lia|reflexivity]|].
  destruct (c <? 65536) eqn:E3; zb; [right; right; left; split; [lia|reflexivity]|].
  right; right; right; split; [lia|reflexivity].
Qed.

(* completeness of one step: decoding an encoded valid code point *)
Lemma dec1_enc c rest : cp_valid c -> dec1 (utf8_enc c ++ rest) = Some (c, rest).
Proof.
  intros Hv; pose proof Hv as Hr; apply cp_valid_iff in Hr.
  destruct (enc_len_cases c Hv) as [[R E]|[[R E]|[[R E]|[R E]]]]; rewrite E; cbn [app dec1].
  - replace ((0 <=? c) && (c <? 128)) with true; [reflexivity|].
    symmetry; apply andb_true_intro; split; [apply Z.leb_le|apply Z.ltb_lt]; lia.
  - assert (0 <= c mod 64 < 64) by (apply Z.mod_pos_bound; lia).
    assert (2 <= c / 64 < 32) by (split; [apply Z.div_le_lower_bound|apply Z.div_lt_upper_bound]; lia).
    pose proof (Z.div_mod c 64 ltac:(lia)).
    replace ((0 <=? 192 + c / 64) && (192 + c / 64 <? 128)) with false
      by (symmetry; apply andb_false_intro2, Z.ltb_ge; lia).
    replace ((194 <=? 192 + c / 64) && (192 + c / 64 <=? 223)) with true
      by (symmetry; apply andb_true_intro; split; apply Z.leb_le; lia).
    replace (contb (128 + c mod 64)) with true
      by (symmetry; unfold contb; apply andb_true_intro; split; apply Z.leb_le; lia).
    do 2 f_equal; lia.
  - assert (0 <= c mod 64 < 64) by (apply Z.mod_pos_bound; lia).
    assert (0 <= (c / 64) mod 64 < 64) by (apply Z.mod_pos_bound; lia).
    pose proof (Z.div_mod c 64 ltac:(lia)).
    pose proof (Z.div_mod (c / 64) 64 ltac:(lia)).
    assert (c / 4096 = c / 64 / 64) as E4 by (rewrite Z.div_div by lia; reflexivity).
    assert (0 <= c / 4096 < 16) by (split; [apply Z.div_pos|apply Z.div_lt_upper_bound]; lia).
    set (q := c / 4096) in *. set (m1 := (c / 64) mod 64) in *. set (m0 := c mod 64) in *.
    replace ((0 <=? 224 + q) && (224 + q <? 128)) with false
      by (symmetry; apply andb_false_intro2, Z.ltb_ge; lia).
    replace ((194 <=? 224 + q) && (224 + q <=? 223)) with false
      by (symmetry; apply andb_false_intro2, Z.leb_gt; lia).
    replace ((224 <=? 224 + q) && (224 + q <=? 239)) with true
      by (symmetry; apply andb_true_intro; split; apply Z.leb_le; lia).
    assert (c = q * 4096 + m1 * 64 + m0) as Ec by lia.
    replace (((if 224 + q =? 224 then 160 else 128) <=? 128 + m1) &&
             (128 + m1 <=? (if 224 + q =? 237 then 159 else 191)) && contb (128 + m0)) with true.
    + do 2 f_equal; lia.
    + symmetry; unfold contb; repeat (apply andb_true_intro; split); try apply Z.leb_le; try lia.
      * destruct (224 + q =? 224) eqn:Eq; zb; lia.
      * destruct (224 + q =? 237) eqn:Eq; zb; lia.
  - assert (0 <= c mod 64 < 64) by (apply Z.mod_pos_bound; lia).
    assert (0 <= (c / 64) mod 64 < 64) by (apply Z.mod_pos_bound; lia).
    assert (0 <= (c / 4096) mod 64 < 64) by (apply Z.mod_pos_bound; lia).
    pose proof (Z.div_mod c 64 ltac:(lia)).
    pose proof (Z.div_mod (c / 64) 64 ltac:(lia)).
    pose proof (Z.div_mod (c / 4096) 64 ltac:(lia)).
    assert (c / 4096 = c / 64 / 64) as E4 by (rewrite Z.div_div by lia; reflexivity).
    assert (c / 262144 = c / 4096 / 64) as E5 by (rewrite Z.div_div by lia; reflexivity).
    assert (0 <= c / 262144 < 5) by (split; [apply Z.div_pos|apply Z.div_lt_upper_bound]; lia).
    set (q := c / 262144) in *. set (m2 := (c / 4096) mod 64) in *.
    set (m1 := (c / 64) mod 64) in *. set (m0 := c mod 64) in *.
    assert (c = q * 262144 + m2 * 4096 + m1 * 64 + m0) as Ec by lia.
    replace ((0 <=? 240 + q) && (240 + q <? 128)) with false
      by (symmetry; apply andb_false_intro2, Z.ltb_ge; lia).
    replace ((194 <=? 240 + q) && (240 + q <=? 223)) with false
      by (symmetry; apply andb_false_intro2, Z.leb_gt; lia).
    replace ((224 <=? 240 + q) && (240 + q <=? 239)) with false
      by (symmetry; apply andb_false_intro2, Z.leb_gt; lia).
    replace ((240 <=? 240 + q) && (240 + q <=? 244)) with true
      by (symmetry; apply andb_true_intro; split; apply Z.leb_le; lia).
    replace (((if 240 + q =? 240 then 144 else 128) <=? 128 + m2) &&
             (128 + m2 <=? (if 240 + q =? 244 then 143 else 191)) &&
             contb (128 + m1) && contb (128 + m0)) with true.
    + do 2 f_equal; lia.
    + symmetry; unfold contb; repeat (apply andb_true_intro; split); try apply Z.leb_le; try lia.
      * destruct (240 + q =? 240) eqn:Eq; zb; lia.
      * destruct (240 + q =? 244) eqn:Eq; zb; lia.
Qed.

(* soundness of one step: what decodes strictly is the encoding of a valid code point *)
Lemma dec1_sound s c rest : dec1 s = Some (c, rest) -> cp_valid c /\ s = utf8_enc c ++ rest.
Proof.
  unfold dec1; destruct s as [|b0 t]; [discriminate|].
  destruct ((0 <=? b0) && (b0 <? 128)) eqn:E1.
  { intros H; inversion H; subst; clear H; zb. split; [apply cp_valid_iff; lia|].
    unfold utf8_enc; replace (c <? 128) with true by (symmetry; apply Z.ltb_lt; lia); reflexivity. }
  destruct ((194 <=? b0) && (b0 <=? 223)) eqn:E2.
  { destruct t as [|b1 t1]; [discriminate|]. destruct (contb b1) eqn:C1; [|discriminate].
    intros H; inversion H; subst; clear H; unfold contb in *; zb.
    set (c := (b0 - 192) * 64 + (b1 - 128)).
    assert (128 <= c < 2048) by (unfold c; lia).
    split; [apply cp_valid_iff; lia|].
    unfold utf8_enc. replace (c <? 128) with false by (symmetry; apply Z.ltb_ge; lia).
    replace (c <? 2048) with true by (symmetry; apply Z.ltb_lt; lia).
    assert (c / 64 = b0 - 192) by (symmetry; apply (Z.div_unique c 64 (b0 - 192) (b1 - 128)); unfold c; lia).
    assert (c mod 64 = b1 - 128) by (symmetry; apply (Z.mod_unique c 64 (b0 - 192) (b1 - 128)); unfold c; lia).
    cbn [app]; repeat f_equal; lia. }
  destruct ((224 <=? b0) && (b0 <=? 239)) eqn:E3.
  { destruct t as [|b1 [|b2 t2]]; try discriminate.
    match goal with |- (if ?x then _ else _) = _ -> _ => destruct x eqn:C end; [|discriminate].
    intros H; inversion H; subst; clear H; unfold contb in *; zb.
    assert (128 <= b1 <= 191) by (destruct (b0 =? 224) eqn:Ea; destruct (b0 =? 237) eqn:Eb; zb; lia).
    set (c := (b0 - 224) * 4096 + (b1 - 128) * 64 + (b2 - 128)).
    assert (2048 <= c < 65536 /\ (c < 55296 \/ 57344 <= c)) as [R1 R2].
    { unfold c; destruct (b0 =? 224) eqn:Ea; destruct (b0 =? 237) eqn:Eb; zb; lia. }
    split; [apply cp_valid_iff; lia|].
    unfold utf8_enc. replace (c <? 128) with false by (symmetry; apply Z.ltb_ge; lia).
    replace (c <? 2048) with false by (symmetry; apply Z.ltb_ge; lia).
    replace (c <? 65536) with true by (symmetry; apply Z.ltb_lt; lia).
    assert (c mod 64 = b2 - 128)
      by (symmetry; apply (Z.mod_unique c 64 ((b0 - 224) * 64 + (b1 - 128)) (b2 - 128)); unfold c; lia).
    assert (c / 64 = (b0 - 224) * 64 + (b1 - 128))
      by (symmetry; apply (Z.div_unique c 64 ((b0 - 224) * 64 + (b1 - 128)) (b2 - 128)); unfold c; lia).
    assert ((c / 64) mod 64 = b1 - 128)
      by (symmetry; apply (Z.mod_unique (c / 64) 64 (b0 - 224) (b1 - 128)); lia).
    assert (c / 4096 = b0 - 224)
      by (symmetry; apply (Z.div_unique c 4096 (b0 - 224) ((b1 - 128) * 64 + (b2 - 128))); unfold c; lia).
    cbn [app]; repeat f_equal; lia. }
  destruct ((240 <=? b0) && (b0 <=? 244)) eqn:E4; [|discriminate].
  destruct t as [|b1 [|b2 [|b3 t3]]]; try discriminate.
  match goal with |- (if ?x then _ else _) = _ -> _ => destruct x eqn:C end; [|discriminate].
  intros H; inversion H; subst; clear H; unfold contb in *; zb.
  assert (128 <= b1 <= 191) by (destruct (b0 =? 240) eqn:Ea; destruct (b0 =? 244) eqn:Eb; zb; lia).
  set (c := (b0 - 240) * 262144 + (b1 - 128) * 4096 + (b2 - 128) * 64 + (b3 - 128)).
  assert (65536 <= c <= 1114111) as R1.
  { unfold c; destruct (b0 =? 240) eqn:Ea; destruct (b0 =? 244) eqn:Eb; zb; lia. }
  split; [apply cp_valid_iff; lia|].
  unfold utf8_enc. replace (c <? 128) with false by (symmetry; apply Z.ltb_ge; lia).
  replace (c <? 2048) with false by (symmetry; apply Z.ltb_ge; lia).
  replace (c <? 65536) with false by (symmetry; apply Z.ltb_ge; lia).
  assert (c mod 64 = b3 - 128)
    by (symmetry; apply (Z.mod_unique c 64 ((b0 - 240) * 4096 + (b1 - 128) * 64 + (b2 - 128)) (b3 - 128)); unfold c; lia).
  assert (c / 64 = (b0 - 240) * 4096 + (b1 - 128) * 64 + (b2 - 128))
    by (symmetry; apply (Z.div_unique c 64 ((b0 - 240) * 4096 + (b1 - 128) * 64 + (b2 - 128)) (b3 - 128)); unfold c; lia).
  assert ((c / 64) mod 64 = b2 - 128)
    by (symmetry; apply (Z.mod_unique (c / 64) 64 ((b0 - 240) * 64 + (b1 - 128)) (b2 - 128)); lia).
  assert (c / 4096 = (b0 - 240) * 64 + (b1 - 128))
    by (symmetry; apply (Z.div_unique c 4096 ((b0 - 240) * 64 + (b1 - 128)) ((b2 - 128) * 64 + (b3 - 128))); unfold c; lia).
  assert ((c / 4096) mod 64 = b1 - 128)
    by (symmetry; apply (Z.mod_unique (c / 4096) 64 (b0 - 240) (b1 - 128)); lia).
  assert (c / 262144 = b0 - 240)
    by (symmetry; apply (Z.div_unique c 262144 (b0 - 240) ((b1 - 128) * 4096 + (b2 - 128) * 64 + (b3 - 128))); unfold c; lia).
  cbn [app]; repeat f_equal; lia.
Qed.

Lemma utf8_enc_nonempty c : utf8_enc c <> [].
Proof. unfold utf8_enc; destruct (c <? 128), (c <? 2048), (c <? 65536); discriminate. Qed.
Lemma utf8_enc_length c : (1 <= length (utf8_enc c) <= 4)%nat.
Proof. unfold utf8_enc; destruct (c <? 128), (c <? 2048), (c <? 65536); cbn; lia. Qed.

Lemma dec1_shorter s c rest : dec1 s = Some (c, rest) -> (length rest < length s)%nat.
Proof.
  intros H; apply dec1_sound in H; destruct H as [_ ->].
  rewrite app_length; pose proof (utf8_enc_length c); lia.
Qed.

(* ---------- whole strings ---------- *)
Lemma go_decode_f_fuel f1 : forall f2 s, (length s <= f1)%nat -> (length s <= f2)%nat ->
  go_decode_f f1 s = go_decode_f f2 s.
Proof.
  induction f1 as [|f1 IH]; intros f2 s H1 H2.
  - destruct s; [|cbn in H1; lia]. destruct f2; reflexivity.
  - destruct s as [|b t]; [destruct f2; reflexivity|].
    destruct f2 as [|f2]; [cbn in H2; lia|].
    cbn [go_decode_f]. destruct (dec1 (b :: t)) as [[c rest]|] eqn:E.
    + apply dec1_shorter in E. f_equal; apply IH; cbn [length] in *; lia.
    + f_equal; apply IH; cbn [length] in *; lia.
Qed.

Lemma go_decode_enc_cons c rest : cp_valid c -> go_decode (utf8_enc c ++ rest) = c :: go_decode rest.
Proof.
  intros Hv; unfold go_decode.
  pose proof (utf8_enc_length c) as HL.
  destruct (utf8_enc c ++ rest) as [|b t] eqn:E.
  { destruct (utf8_enc c); [cbn in HL; lia|discriminate]. }
  cbn [length go_decode_f]. rewrite <- E, (dec1_enc c rest Hv).
  f_equal; apply go_decode_f_fuel; [|lia].
  assert (length (b :: t) = length (utf8_enc c ++ rest)) as EL by (rewrite E; reflexivity).
  rewrite app_length in EL; cbn [length] in EL; lia.
Qed.

Lemma go_decode_encode_app cps rest :
  Forall cp_valid cps -> go_decode (utf8_encode cps ++ rest) = cps ++ go_decode rest.
Proof.
  induction 1 as [|c cps Hc _ IH]; [reflexivity|].
  rewrite utf8_encode_cons, <- app_assoc, go_decode_enc_cons by exact Hc.
  rewrite IH; reflexivity.
Qed.
Lemma go_decode_nil : go_decode [] = [].
Proof. reflexivity. Qed.
Lemma go_decode_encode cps : Forall cp_valid cps -> go_decode (utf8_encode cps) = cps.
Proof.
  intros H; rewrite <- (app_nil_r (utf8_encode cps)), go_decode_encode_app, go_decode_nil, app_nil_r by exact H.
  reflexivity.
Qed.

Lemma dec_strict_sound f : forall s l, dec_strict_f f s = Some l -> Forall cp_valid l /\ s = utf8_encode l.
Proof.
  induction f as [|f IH]; intros s l H.
  - destruct s; [inversion H; split; [constructor|reflexivity]|discriminate].
  - destruct s as [|b t]; [inversion H; split; [constructor|reflexivity]|].
    cbn [dec_strict_f] in H. destruct (dec1 (b :: t)) as [[c rest]|] eqn:E; [|discriminate].
    destruct (dec_strict_f f rest) as [l'|] eqn:E'; [|discriminate].
    inversion H; subst; clear H.
    apply dec1_sound in E; destruct E as [Hc Es]. apply IH in E'; destruct E' as [Hl ->].
    split; [constructor; assumption|]. rewrite Es; reflexivity.
Qed.

(* a byte string is valid UTF-8 iff it is the encoding of valid code points *)
Definition utf8_valid (s : list Z) : Prop := exists cps, Forall cp_valid cps /\ s = utf8_encode cps.

Lemma utf8_validb_sound s : utf8_validb s = true -> utf8_valid s.
Proof.
  unfold utf8_validb; destruct (dec_strict_f (length s) s) as [l|] eqn:E; [|discriminate].
  intros _; exists l; apply dec_strict_sound in E; exact E.
Qed.

Lemma dec_strict_complete cps : Forall cp_valid cps ->
  forall f, (length (utf8_encode cps) <= f)%nat -> dec_strict_f f (utf8_encode cps) = Some cps.
Proof.
  induction 1 as [|c cps Hc _ IH]; intros f Hf; [destruct f; reflexivity|].
  rewrite utf8_encode_cons in *. pose proof (utf8_enc_length c) as HL. rewrite app_length in Hf.
  destruct f as [|f]; [lia|].
  destruct (utf8_enc c ++ utf8_encode cps) as [|b t] eqn:E.
  { destruct (utf8_enc c); [cbn in HL; lia|discriminate]. }
  cbn [dec_strict_f]. rewrite <- E, (dec1_enc c _ Hc), IH by lia. reflexivity.
Qed.
Lemma utf8_validb_complete cps : Forall cp_valid cps -> utf8_validb (utf8_encode cps) = true.
Proof. intros H; unfold utf8_validb; rewrite dec_strict_complete; [reflexivity|exact H|lia]. Qed.

Lemma utf8_valid_app a b : utf8_valid a -> utf8_valid b -> utf8_valid (a ++ b).
Proof.
  intros [ca [Ha ->]] [cb [Hb ->]]; exists (ca ++ cb); split; [apply Forall_app; split; assumption|].
  symmetry; apply utf8_encode_app.
Qed.
Lemma utf8_valid_nil : utf8_valid [].
Proof. exists []; split; [constructor|reflexivity]. Qed.

(* encoding is injective on valid strings *)
Lemma utf8_encode_inj a b : Forall cp_valid a -> Forall cp_valid b -> utf8_encode a = utf8_encode b -> a = b.
Proof. intros Ha Hb E; rewrite <- (go_decode_encode a Ha), <- (go_decode_encode b Hb), E; reflexivity. Qed.

(* UTF-16 length of a byte string as Go computes it (ComputeLength) *)
Definition u16_bytes (s : list Z) : Z := u16c (go_decode s).
Lemma u16_bytes_encode cps : Forall cp_valid cps -> u16_bytes (utf8_encode cps) = u16c cps.
Proof. intros H; unfold u16_bytes; rewrite go_decode_encode by exact H; reflexivity. Qed.
Lemma u16_bytes_app_valid a b : utf8_valid a -> u16_bytes (a ++ b) = u16_bytes a + u16_bytes b.
Proof.
  intros [ca [Ha ->]]; unfold u16_bytes.
  rewrite go_decode_encode_app, go_decode_encode, u16c_app by exact Ha; reflexivity.
Qed.

(* ---------- trimming ---------- *)
Lemma enc_shape c : cp_valid c ->
  exists l cs, utf8_enc c = l :: cs /\ contb l = false /\ forallb contb cs = true.
Proof.
  intros Hv; destruct (enc_len_cases c Hv) as [[R E]|[[R E]|[[R E]|[R E]]]]; rewrite E; eexists; eexists;
    (split; [reflexivity|]); unfold contb; cbn [forallb].
  - split; [apply andb_false_intro1, Z.leb_gt; lia|reflexivity].
  - assert (0 <= c mod 64 < 64) by (apply Z.mod_pos_bound; lia).
    assert (0 <= c / 64) by (apply Z.div_pos; lia).
    split; [apply andb_false_intro2, Z.leb_gt; lia|].
    rewrite andb_true_r; apply andb_true_intro; split; apply Z.leb_le; lia.
  - assert (0 <= c mod 64 < 64) by (apply Z.mod_pos_bound; lia).
    assert (0 <= (c / 64) mod 64 < 64) by (apply Z.mod_pos_bound; lia).
    assert (0 <= c / 4096) by (apply Z.div_pos; lia).
    split; [apply andb_false_intro2, Z.leb_gt; lia|].
    rewrite andb_true_r; repeat (apply andb_true_intro; split); apply Z.leb_le; lia.
  - assert (0 <= c mod 64 < 64) by (apply Z.mod_pos_bound; lia).
    assert (0 <= (c / 64) mod 64 < 64) by (apply Z.mod_pos_bound; lia).
    assert (0 <= (c / 4096) mod 64 < 64) by (apply Z.mod_pos_bound; lia).
    assert (0 <= c / 262144) by (apply Z.div_pos; lia).
    split; [apply andb_false_intro2, Z.leb_gt; lia|].
    rewrite andb_true_r; repeat (apply andb_true_intro; split); apply Z.leb_le; lia.
Qed.

Lemma cont_sync a : forall b l1 l2 (x y : list Z),
  forallb contb a = true -> forallb contb b = true -> contb l1 = false -> contb l2 = false ->
  a ++ l1 :: x = b ++ l2 :: y -> a = b /\ l1 = l2 /\ x = y.
Proof.
  induction a as [|a0 a IH]; intros [|b0 b] l1 l2 x y Ha Hb H1 H2 E; cbn [app forallb] in *.
  - inversion E; auto.
  - inversion E; subst. apply andb_prop in Hb; destruct Hb; congruence.
  - inversion E; subst. apply andb_prop in Ha; destruct Ha; congruence.
  - inversion E; subst. apply andb_prop in Ha; destruct Ha. apply andb_prop in Hb; destruct Hb.
    destruct (IH b l1 l2 x y) as [-> [-> ->]]; auto.
Qed.

Lemma forallb_rev {A} (f : A -> bool) l : forallb f (rev l) = forallb f l.
Proof.
  induction l as [|x l IH]; [reflexivity|]. cbn [rev forallb].
  rewrite forallb_app, IH; cbn [forallb]. rewrite andb_true_r, andb_comm; reflexivity.
Qed.

Lemma strip_prefix_spec p : forall r r', strip_prefix p r = Some r' <-> r = p ++ r'.
Proof.
  induction p as [|x p IH]; intros r r'; cbn [strip_prefix app].
  - split; [intros H; inversion H; reflexivity|intros ->; reflexivity].
  - destruct r as [|y r]; [split; discriminate|].
    destruct (x =? y) eqn:E.
    + apply Z.eqb_eq in E; subst. rewrite IH. split; [intros ->; reflexivity|intros H; inversion H; reflexivity].
    + apply Z.eqb_neq in E. split; [discriminate|intros H; inversion H; congruence].
Qed.

Lemma strip_any_enc cands : Forall cp_valid cands -> forall c R, cp_valid c ->
  strip_any cands (rev (utf8_enc c) ++ R) = if existsb (Z.eqb c) cands then Some R else None.
Proof.
  induction 1 as [|d cands Hd _ IH]; intros c R Hc; [reflexivity|].
  cbn [strip_any existsb].
  destruct (strip_prefix (rev (utf8_enc d)) (rev (utf8_enc c) ++ R)) as [r'|] eqn:E.
  - apply strip_prefix_spec in E.
    destruct (enc_shape c Hc) as [lc [cc [Ec [Hlc Hcc]]]]. destruct (enc_shape d Hd) as [ld [cd [Ed [Hld Hcd]]]].
    rewrite Ec, Ed in E. cbn [rev] in E. rewrite <- !app_assoc in E; cbn [app] in E.
    apply cont_sync in E; try (rewrite forallb_rev); auto.
    destruct E as [E1 [E2 E3]]. apply (f_equal (@rev Z)) in E1. rewrite !rev_involutive in E1. subst.
    assert (c = d) as ->.
    { assert (utf8_enc c = utf8_enc d) as EE by congruence.
      pose proof (dec1_enc c [] Hc) as D1. pose proof (dec1_enc d [] Hd) as D2. rewrite EE in D1. congruence. }
    rewrite Z.eqb_refl; reflexivity.
  - destruct (c =? d) eqn:Ecd.
    + apply Z.eqb_eq in Ecd; subst.
      assert (strip_prefix (rev (utf8_enc d)) (rev (utf8_enc d) ++ R) = Some R) by (apply strip_prefix_spec; reflexivity).
      congruence.
    + cbn [orb]. apply IH; exact Hc.
Qed.

Lemma strip_any_nil cands : strip_any cands [] = None.
Proof.
  induction cands as [|c cs IH]; [reflexivity|]. cbn [strip_any].
  destruct (rev (utf8_enc c)) eqn:E; [|exact IH].
  apply (f_equal (@rev Z)) in E; rewrite rev_involutive in E. exfalso; exact (utf8_enc_nonempty c E).
Qed.

Lemma space_runes_valid : Forall cp_valid space_runes.
Proof. apply Forall_forall; intros x Hx. unfold cp_valid. repeat (destruct Hx as [<-|Hx]; [reflexivity|]). destruct Hx. Qed.

(* reversed encoding of a reversed code-point string *)
Definition renc (r : list Z) : list Z := rev (utf8_encode (rev r)).
Lemma renc_cons c t : renc (c :: t) = rev (utf8_enc c) ++ renc t.
Proof.
  unfold renc; cbn [rev]. rewrite utf8_encode_app, rev_app_distr. cbn [utf8_encode flat_map]. rewrite app_nil_r; reflexivity.
Qed.

Lemma trim_rev_bytes_renc r : Forall cp_valid r -> forall fuel, (length (renc r) <= fuel)%nat ->
  trim_rev_bytes fuel (renc r) = renc (trim_rev_cps r).
Proof.
  induction 1 as [|c t Hc Ht IH]; intros fuel Hf.
  - change (renc []) with (@nil Z). destruct fuel; [reflexivity|]. cbn [trim_rev_bytes]. rewrite strip_any_nil; reflexivity.
  - rewrite renc_cons in *. rewrite app_length, rev_length in Hf. pose proof (utf8_enc_length c).
    destruct fuel as [|fuel]; [lia|]. cbn [trim_rev_bytes trim_rev_cps].
    rewrite (strip_any_enc _ space_runes_valid c (renc t) Hc). fold (is_spaceb c).
    destruct (is_spaceb c); [apply IH; lia|]. rewrite renc_cons; reflexivity.
Qed.

Theorem trim_bytes_encode s : Forall cp_valid s -> trim_bytes (utf8_encode s) = utf8_encode (trim_cps s).
Proof.
  intros H; unfold trim_bytes, trim_cps.
  assert (rev (utf8_encode s) = renc (rev s)) as -> by (unfold renc; rewrite rev_involutive; reflexivity).
  rewrite trim_rev_bytes_renc.
  - unfold renc; rewrite rev_involutive; reflexivity.
  - apply Forall_rev; exact H.
  - unfold renc; rewrite rev_involutive, rev_length; lia.
Qed.

Lemma trim_rev_cps_split r : exists w, r = w ++ trim_rev_cps r /\ Forall is_space w.
Proof.
  induction r as [|c t [w [E Hw]]]; [exists []; split; [reflexivity|constructor]|].
  cbn [trim_rev_cps]. destruct (is_spaceb c) eqn:Ec.
  - exists (c :: w); split; [cbn [app]; f_equal; exact E|constructor; assumption].
  - exists []; split; [reflexivity|constructor].
Qed.
Lemma trim_cps_split s : exists w, s = trim_cps s ++ w /\ Forall is_space w.
Proof.
  destruct (trim_rev_cps_split (rev s)) as [w [E Hw]]. exists (rev w); split.
  - unfold trim_cps. rewrite <- rev_app_distr, <- E, rev_involutive; reflexivity.
  - apply Forall_rev; exact Hw.
Qed.
Lemma trim_rev_cps_valid r : Forall cp_valid r -> Forall cp_valid (trim_rev_cps r).
Proof. induction 1 as [|c t Hc Ht IH]; [constructor|]. cbn [trim_rev_cps]; destruct (is_spaceb c); [exact IH|constructor; assumption]. Qed.
Lemma trim_cps_valid s : Forall cp_valid s -> Forall cp_valid (trim_cps s).
Proof. intros H; unfold trim_cps; apply Forall_rev, trim_rev_cps_valid, Forall_rev, H. Qed.
