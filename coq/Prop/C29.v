(* C29 -- Requests survive primary connection loss without duplicate execution.
   Only statements; proofs in Proof/ClientRetry.v, model in Model/ClientRetry.v (one
   invocation through invokeConn x the rpc outcome classes x connection generations).
   PARTIAL BY DESIGN: the reconnect machinery (backoff, dialer, key exchange, init) is the
   pair of environment events EReplace (connection installed) / EStart (backoff pause over,
   connection run), exercised against the in-process server by the harness, not modelled
   further.  "Acknowledged" is the client's view (ack processed). *)
From Coq Require Import List ZArith Bool Arith.
From TD Require Import Model.ClientRetry Proof.ClientRetry Model.ClientRetryN Proof.ClientRetryN.
From TD Require Model.Rpc.
Import ListNotations.

(* Not acknowledged when its connection died (not sent, sent and lost, or sent and executed
   but the ack not processed), client open: from every reachable state of that shape the
   invocation observes the death, waits, is woken by the replacement, re-sends on it and
   returns that result; exactly one more execution on the server. *)
Theorem C29_retry_unacked_resent_and_answered :
  forall es st g s v,
    run init es = Some st -> ph st = OnConn g s -> s <> Acked -> g = cur_gen st ->
    is_dead st g = true -> closed st = false ->
    exists st', run st [EObserveDead; EReplace; EStart; EWake; ESnapshot; ESend; EResult v] = Some st' /\
                ph st' = Returned (RRes v) /\ nsends st' = S (nsends st).
Proof. exact unacked_retried. Qed.
Print Assumptions C29_retry_unacked_resent_and_answered.

(* ... and while it waits, with the client open and the caller's context live, no event
   can fail it: the only way out of the wait is the replaced connection. *)
Theorem C29_retry_waiting_not_failed :
  forall st g e st',
    ph st = Waiting g -> closed st = false -> cancelled st = false -> step st e = Some st' ->
    ph st' = Waiting g \/ (e = EWake /\ ph st' = Idle).
Proof. exact waiting_only_wakes. Qed.
Print Assumptions C29_retry_waiting_not_failed.

(* Acknowledged: for ALL fault sequences and schedules (every event list), once the client
   has processed an ack the request is never sent again, and the invocation is either still
   on that connection or has returned the result, the "acknowledged, connection lost"
   error, or the caller's context error. *)
Theorem C29_retry_acked_never_resent :
  forall es2 es1 s1 s2,
    run init es1 = Some s1 -> acked s1 = true -> run s1 es2 = Some s2 ->
    nsends s2 = nsends s1 /\ acked s2 = true /\ ackphase (ph s2).
Proof. exact acked_never_resent. Qed.
Print Assumptions C29_retry_acked_never_resent.

(* what reaches the caller is justified: the connection-lost error only after an ack, the
   client-closed error only when closed, a context error only when cancelled (a retryable
   error is not a result at all) *)
Theorem C29_retry_results_justified :
  forall es st r,
    run init es = Some st -> ph st = Returned r ->
    match r with
    | RRes _ => True
    | RErrAcked => acked st = true
    | RCtx => cancelled st = true
    | RClosed => closed st = true
    end.
Proof. exact results_justified. Qed.
Print Assumptions C29_retry_results_justified.

(* FULL STATEMENT of the last clause ("once the client is closed, pending and new invocations
   return instead of waiting for a reconnect"), kept visible:
     forall es st pw, run init es = Some st -> closed st = true -> returned (run_own pw 6 st) = true.
   It is REFUTED by the faithful model and by the real client (known finding
   "close-waits-for-backoff-pause"): the replacement connection installed by the reconnect
   loop's notify callback is not running during the backoff pause; an invocation woken by
   connChanged sits in its waitSession; closing the client does not reach it, because
   invokeConn looks at the client context only after conn.Invoke returned and
   backoff.RetryNotify's pause is not interrupted (tdsync.SyncBackoff hides BackOffContext). *)
Theorem C29_refuted :
  exists st, run init closed_stuck_trace = Some st /\ closed st = true /\
             returned (run_own true 6 st) = false /\ returned (run_own false 6 st) = false /\
             step st ESnapshot = None /\ step st ESend = None /\ step st ESendLost = None /\
             step st EObserveDead = None /\ step st EWake = None /\ step st EWakeClosed = None /\ step st EWakeCtx = None.
Proof. exact closed_returns_refuted. Qed.
Print Assumptions C29_refuted.

(* What holds after close, for every reachable closed state and whichever ready case the
   select picks: the invocation returns by its own steps (at most 6), or it is on the
   installed-not-running replacement and returns by its own steps once the pause has ended
   (EStart: the loop runs the connection with the cancelled context, it dies) -- i.e. it
   returns within the reconnect backoff interval (default at most 5 s, user-configurable). *)
Theorem C29_partial :
  forall es st pw,
    run init es = Some st -> closed st = true ->
    returned (run_own pw 6 st) = true \/
    (paused (run_own pw 6 st) = true /\
     exists st2, step (run_own pw 6 st) EStart = Some st2 /\ returned (run_own pw 6 st2) = true).
Proof. exact closed_returns_partial. Qed.
Print Assumptions C29_partial.

(* Universal reading of the first two clauses, for ALL event lists: the request is executed
   at most once per connection generation (re-sends only happen on replacements) ... *)
Theorem C29_retry_one_execution_per_generation :
  forall es st, run init es = Some st -> nsends st <= S (cur_gen st).
Proof. exact sends_bounded. Qed.
Print Assumptions C29_retry_one_execution_per_generation.

(* ... and with the client open and the caller's context live, the only things an invocation
   ever returns are the result, or -- after an ack -- the connection-lost error. *)
Theorem C29_retry_open_returns_result_or_acked_error :
  forall es st r,
    run init es = Some st -> ph st = Returned r -> closed st = false -> cancelled st = false ->
    (exists v, r = RRes v) \/ (r = RErrAcked /\ acked st = true).
Proof. exact open_returns_result_or_acked_error. Qed.
Print Assumptions C29_retry_open_returns_result_or_acked_error.

(* The outcome classes are the rpc engine's (Model/Rpc.v, C24-C26) under the retry decision
   regenerated from telegram/invoke.go (Gen/RpcClass.v): what the model does when the
   connection under an invocation died is errRetryableOnNewConn applied to the class Do
   returns. *)
Theorem C29_outcome_classes_are_rpc_classes :
  forall st g s st',
    ph st = OnConn g s -> step st EObserveDead = Some st' ->
    (TD.Model.Rpc.retryable_tg (retv_at_death s) = true /\ ph st' = Waiting g) \/
    (TD.Model.Rpc.retryable_tg (retv_at_death s) = false /\ ph st' = Returned RErrAcked).
Proof. exact observe_dead_is_rpc_class. Qed.
Print Assumptions C29_outcome_classes_are_rpc_classes.

(* The snapshot (c.conn, c.connChanged) is ONE critical section: an invocation only ever
   waits on the "replaced" channel of a connection that is dead ... *)
Theorem C29_retry_waits_only_on_dead_connection :
  forall es st g, run init es = Some st -> ph st = Waiting g -> is_dead st g = true /\ g <= cur_gen st.
Proof. exact waits_only_on_dead. Qed.
Print Assumptions C29_retry_waits_only_on_dead_connection.

(* ... hence, while the client is open, it can always be woken: its channel is already
   closed (a newer generation exists), or its connection is the current one, which the
   reconnect loop replaces because it is dead. *)
Theorem C29_retry_waiting_can_be_woken :
  forall es st g, run init es = Some st -> ph st = Waiting g -> closed st = false ->
    exists st', (run st [EWake] = Some st' \/ run st [EReplace; EWake] = Some st') /\ ph st' = Idle.
Proof. exact waiting_can_be_woken. Qed.
Print Assumptions C29_retry_waiting_can_be_woken.

(* Why the atomicity matters: reading the connection and the channel in two critical
   sections can pair the old dead connection with the channel of the current working
   generation; that state (unreachable above) has no enabled step of the invocation or of the
   reconnect loop -- the request is lost although a working primary connection exists.  The
   harness searches for it on the real invokeConn/replaceConn (race-replace stress). *)
Theorem C29_retry_split_snapshot_loses_wakeup :
  forall st, ph st = Waiting (cur_gen st) -> is_dead st (cur_gen st) = false ->
    closed st = false -> cancelled st = false -> paused st = false ->
    step st ESnapshot = None /\ step st ESend = None /\ step st ESendLost = None /\ step st EAck = None /\
    (forall v, step st (EResult v) = None) /\ step st EObserveDead = None /\ step st EWake = None /\
    step st EWakeClosed = None /\ step st EWakeCtx = None /\ step st EReplace = None /\ step st EStart = None.
Proof. exact split_snapshot_state_is_stuck. Qed.
Print Assumptions C29_retry_split_snapshot_loses_wakeup.

(* ---- one or more requests in flight (Model/ClientRetryN.v): N invocations share the
   connection generations, the pause and the close; events of invocation i are its own steps
   (including the delivery of ITS ack / result and ITS caller cancelling), environment events
   hit everybody.  For ALL interleavings: ---- *)

(* every invocation of a joint run goes through a run of the single-invocation model over its
   own events and the environment events: all theorems above apply to each invocation *)
Theorem C29N_each_invocation_is_a_single_run :
  forall n mes ms i, mrun (minit n) mes = Some ms -> i < n ->
    exists s, nth_error ms i = Some s /\ run init (proj i mes) = Some s.
Proof. exact proj_reachable. Qed.
Print Assumptions C29N_each_invocation_is_a_single_run.

(* independence: a step of invocation i does not change the state of any other invocation *)
Theorem C29N_independence :
  forall ms i e ms' j, step_nth ms i e = Some ms' -> j <> i -> nth_error ms' j = nth_error ms j.
Proof. exact step_nth_other. Qed.
Print Assumptions C29N_independence.

(* ... and the only thing they share is the environment, which they all see alike *)
Theorem C29N_shared_environment :
  forall n mes ms, mrun (minit n) mes = Some ms ->
    forall i j s t, nth_error ms i = Some s -> nth_error ms j = Some t -> env_of s = env_of t.
Proof. exact env_shared. Qed.
Print Assumptions C29N_shared_environment.

Theorem C29N_retry_acked_never_resent :
  forall n mes1 mes2 ms1 ms2 i s1 s2,
    mrun (minit n) mes1 = Some ms1 -> mrun ms1 mes2 = Some ms2 -> i < n ->
    nth_error ms1 i = Some s1 -> nth_error ms2 i = Some s2 -> acked s1 = true ->
    nsends s2 = nsends s1 /\ acked s2 = true /\ ackphase (ph s2).
Proof. exact n_acked_never_resent. Qed.
Print Assumptions C29N_retry_acked_never_resent.

Theorem C29N_retry_one_execution_per_generation :
  forall n mes ms i s, mrun (minit n) mes = Some ms -> i < n -> nth_error ms i = Some s -> nsends s <= S (cur_gen s).
Proof. exact n_sends_bounded. Qed.
Print Assumptions C29N_retry_one_execution_per_generation.

Theorem C29N_retry_open_returns_result_or_acked_error :
  forall n mes ms i s r,
    mrun (minit n) mes = Some ms -> i < n -> nth_error ms i = Some s ->
    ph s = Returned r -> closed s = false -> cancelled s = false ->
    (exists v, r = RRes v) \/ (r = RErrAcked /\ acked s = true).
Proof. exact n_open_returns. Qed.
Print Assumptions C29N_retry_open_returns_result_or_acked_error.

Theorem C29N_retry_waits_only_on_dead_connection :
  forall n mes ms i s g, mrun (minit n) mes = Some ms -> i < n -> nth_error ms i = Some s -> ph s = Waiting g ->
    is_dead s g = true /\ g <= cur_gen s.
Proof. exact n_waits_only_on_dead. Qed.
Print Assumptions C29N_retry_waits_only_on_dead_connection.

Theorem C29N_partial_after_close :
  forall n mes ms i s pw,
    mrun (minit n) mes = Some ms -> i < n -> nth_error ms i = Some s -> closed s = true ->
    returned (run_own pw 6 s) = true \/
    (paused (run_own pw 6 s) = true /\
     exists s2, step (run_own pw 6 s) EStart = Some s2 /\ returned (run_own pw 6 s2) = true).
Proof. exact n_closed_partial. Qed.
Print Assumptions C29N_partial_after_close.

(* non-vacuity: two requests in flight, the connection dies after the first was acknowledged and
   the second only sent: the first gets the connection-lost error (1 execution), the second is
   re-sent on the replacement and answered (2 executions) *)
Example C29N_two_in_flight :
  exists ms, mrun (minit 2)
    [MOwn 0 ESnapshot; MOwn 1 ESnapshot; MOwn 0 ESend; MOwn 1 ESend; MOwn 0 EAck; MEnv (EKill 0);
     MOwn 0 EObserveDead; MOwn 1 EObserveDead; MEnv EReplace; MEnv EStart; MOwn 1 EWake; MOwn 1 ESnapshot;
     MOwn 1 ESend; MOwn 1 (EResult 7)] = Some ms /\
    map (fun s => (ph s, nsends s)) ms = [(Returned RErrAcked, 1); (Returned (RRes 7), 2)].
Proof. eexists. vm_compute. split; reflexivity. Qed.

(* non-vacuity: states of each hypothesis shape are reachable *)
Example C29_shapes_reachable :
  (exists st, run init [ESnapshot; ESend; EKill 0] = Some st /\ ph st = OnConn 0 SentUnacked /\ is_dead st 0 = true /\ closed st = false) /\
  (exists st, run init [ESnapshot; ESend; EAck; EKill 0; EObserveDead] = Some st /\ acked st = true /\ ph st = Returned RErrAcked /\ nsends st = 1) /\
  (exists st, run init [ESnapshot; ESendLost; EKill 0; EObserveDead; EClose] = Some st /\ closed st = true /\ ph st = Waiting 0) /\
  (exists st, run init [ESnapshot; ESend; EKill 0; EObserveDead; EReplace; EWake; ESnapshot; EClose; EStart; EObserveDead; EWakeClosed] = Some st /\ ph st = Returned RClosed).
Proof. repeat split; eexists; vm_compute; repeat split; reflexivity. Qed.
