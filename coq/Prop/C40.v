(* C40 -- RPC errors are parsed into type and argument consistently; flood-wait errors of
   either kind make the client wait that many seconds plus the one-second margin.
   Only statements; proofs live in Proof/TgErr.v. *)
From Coq Require Import ZArith List Bool.
From TD Require Import Lib.RunLib Gen.TgErrConsts Model.TgErr Proof.TgErr.
Import ListNotations.
Open Scope Z_scope.

(* is_word w : w contains a byte that is not an ASCII digit and no '_' (every upper-case
   word over A-Z0-9 with at least one letter is one: C40_upper_words_are_words).
   is_num p n : p is a non-empty string of ASCII digits (leading zeros allowed) whose value
   is n <= MaxInt64. *)

(* The stated shape: words w1..wk (k >= 1) joined by '_' with exactly one numeric part at
   ANY position (front, middle, end). *)
Theorem C40_parse_shape : forall ws1 ws2 num n,
  Forall is_word ws1 -> Forall is_word ws2 -> ws1 ++ ws2 <> [] -> is_num num n ->
  parse (join (ws1 ++ [num] ++ ws2)) = (join (ws1 ++ ws2), n).
Proof. exact parse_shape. Qed.
Print Assumptions C40_parse_shape.

Theorem C40_upper_words_are_words : forall w, upper_word w -> is_word w.
Proof. exact upper_word_is_word. Qed.
Print Assumptions C40_upper_words_are_words.

(* General form (any number of numeric parts): Type = the non-numeric parts joined,
   Argument = the last numeric part, 0 if there is none. *)
Theorem C40_parse_general : forall ps, (2 <= length ps)%nat -> Forall good ps ->
  parse (join ps) = (join (words_of ps), last_num ps 0).
Proof. exact parse_good. Qed.
Print Assumptions C40_parse_general.

(* Messages without '_' (and the empty message) keep Type = Message, Argument = 0. *)
Theorem C40_no_underscore : forall m, no_us m -> parse m = (m, 0).
Proof. exact parse_no_us. Qed.
Print Assumptions C40_no_underscore.

(* REMARK, not a theorem of the property: parse is a Gallina function, so it is total by
   construction; the model of extractArgument contains no operation that can panic (no
   index, slice or conversion; Split/Join/Atoi are total). The "never panics" clause for the
   implementation therefore rests on the differential run (arbitrary byte strings incl.
   invalid UTF-8, every call wrapped in recover), not on a proof. *)
Remark C40_parse_is_a_total_function : forall msg, exists ty arg, parse msg = (ty, arg).
Proof. intros msg. destruct (parse msg) as [ty arg]. exists ty, arg. reflexivity. Qed.

(* Flood wait: for FLOOD_WAIT / FLOOD_PREMIUM_WAIT (number at any position) the timer is
   armed with exactly (n + 1) seconds, for every n whose nanosecond count fits int64. *)
Theorem C40_flood_wait : forall ws1 ws2 num n,
  Forall is_word ws1 -> Forall is_word ws2 -> is_num num n ->
  is_flood_type (join (ws1 ++ ws2)) = true -> 0 <= n -> (n + 1) * second_ns < 2 ^ 63 ->
  flood_timer (join (ws1 ++ [num] ++ ws2)) = Some ((n + 1) * second_ns).
Proof. exact flood_timer_shape. Qed.
Print Assumptions C40_flood_wait.

Definition s_FLOOD := [70; 76; 79; 79; 68].
Definition s_WAIT := [87; 65; 73; 84].
Definition s_PREMIUM := [80; 82; 69; 77; 73; 85; 77].

(* FloodWait's control flow over any environment (fake-clock advances of any sizes, context
   cancellation): for a flood-wait message with argument n the timer is armed with (n+1) s and
   (a) while less than (n+1) s have elapsed and the context lives, FloodWait is still blocked;
   (b) it returns "retry" at exactly the first step at which (n+1) s have elapsed;
   (c) it returns the context error at a cancellation that comes first;
   and for every other error it returns at once without arming a timer. *)
Section FloodRun.
  Variables (ws1 ws2 : list (list Z)) (num : list Z) (n : Z).
  Hypothesis W1 : Forall is_word ws1.
  Hypothesis W2 : Forall is_word ws2.
  Hypothesis N : is_num num n.
  Hypothesis T : is_flood_type (join (ws1 ++ ws2)) = true.
  Hypothesis N0 : 0 <= n.
  Hypothesis B : (n + 1) * second_ns < 2 ^ 63.

  Theorem C40_flood_wait_blocks : forall dts, Forall (fun dt => 0 <= dt) dts -> zsum dts < (n + 1) * second_ns ->
    flood_wait_run (join (ws1 ++ [num] ++ ws2)) (advances dts) = (Some ((n + 1) * second_ns), None).
  Proof. exact (run_blocks ws1 ws2 num n W1 W2 N T N0 B). Qed.
  Theorem C40_flood_wait_retries : forall dts dt rest, Forall (fun x => 0 <= x) dts ->
    zsum dts < (n + 1) * second_ns -> (n + 1) * second_ns <= zsum dts + dt ->
    flood_wait_run (join (ws1 ++ [num] ++ ws2)) (advances dts ++ FwAdvance dt :: rest) =
    (Some ((n + 1) * second_ns), Some (Z.of_nat (length dts), FwRetry)).
  Proof. exact (run_retries ws1 ws2 num n W1 W2 N T N0 B). Qed.
  Theorem C40_flood_wait_cancelled : forall dts rest, Forall (fun x => 0 <= x) dts -> zsum dts < (n + 1) * second_ns ->
    flood_wait_run (join (ws1 ++ [num] ++ ws2)) (advances dts ++ FwCancel :: rest) =
    (Some ((n + 1) * second_ns), Some (Z.of_nat (length dts), FwCtxErr)).
  Proof. exact (run_cancelled ws1 ws2 num n W1 W2 N T N0 B). Qed.
End FloodRun.
Print Assumptions C40_flood_wait_blocks.
Print Assumptions C40_flood_wait_retries.
Print Assumptions C40_flood_wait_cancelled.
Theorem C40_not_flood_returns_at_once : forall msg steps, flood_timer msg = None ->
  flood_wait_run msg steps = (None, Some (-1, FwNotFlood)).
Proof. exact run_not_flood. Qed.
Print Assumptions C40_not_flood_returns_at_once.

(* boundary of C40_flood_wait made visible: beyond (n+1)*1e9 < 2^63 the int64 nanosecond
   count wraps and the wait becomes negative, i.e. an immediate retry (FLOOD_WAIT_9223372037) *)
Example C40_flood_wait_overflow_witness :
  flood_timer (join ([s_FLOOD; s_WAIT] ++ [[57; 50; 50; 51; 51; 55; 50; 48; 51; 55]] ++ [])) = Some (-9223372035709551616).
Proof. vm_compute. reflexivity. Qed.

(* non-vacuity: the hypotheses are satisfiable, for both kinds, and compute *)
Example C40_nonvacuous_flood :
  Forall is_word [s_FLOOD; s_WAIT] /\ is_num [48; 51; 48] 30 /\ is_flood_type (join ([s_FLOOD; s_WAIT] ++ [])) = true /\
  flood_timer (join ([s_FLOOD; s_WAIT] ++ [[48; 51; 48]] ++ [])) = Some 31000000000 /\
  flood_timer (join ([s_FLOOD; s_PREMIUM; s_WAIT] ++ [[55]] ++ [])) = Some 8000000000.
Proof.
  repeat split; try (vm_compute; reflexivity); try (vm_compute; congruence).
  - repeat constructor; try (vm_compute; reflexivity); intros I; vm_compute in I; intuition congruence.
Qed.
Example C40_nonvacuous_parse :  (* FILE_PART_3_MISSING *)
  parse (join ([[70; 73; 76; 69]; [80; 65; 82; 84]] ++ [[51]] ++ [[77; 73; 83; 83; 73; 78; 71]])) =
  (join [[70; 73; 76; 69]; [80; 65; 82; 84]; [77; 73; 83; 83; 73; 78; 71]], 3).
Proof. vm_compute. reflexivity. Qed.
