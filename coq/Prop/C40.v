(* C40 -- RPC errors are parsed into type and argument consistently; flood-wait errors of
   either kind make the client wait that many seconds plus the one-second margin.
   Only statements; proofs live in Proof/TgErr.v. *)
From Coq Require Import ZArith List Bool.
From TD Require Import Lib.RunLib Gen.TgErrConsts Model.TgErr Proof.TgErr.
Import ListNotations.
Open Scope Z_scope.

(* is_word w : w contains a byte that is not an ASCII digit and no '_' (every upper-case
   word over A-Z0-9 with at least one letter is one: C40_upper_words_are_words).
   is_num p n : p is a non-empty string of ASCII digits (leading zeros allowed) whose value
   is n <= MaxInt64. *)

(* The stated shape: words w1..wk (k >= 1) joined by '_' with exactly one numeric part at
   ANY position (front, middle, end). *)
Theorem C40_parse_shape : forall ws1 ws2 num n,
  Forall is_word ws1 -> Forall is_word ws2 -> ws1 ++ ws2 <> [] -> is_num num n ->
  parse (join (ws1 ++ [num] ++ ws2)) = (join (ws1 ++ ws2), n).
Proof. exact parse_shape. Qed.
Print Assumptions C40_parse_shape.

Theorem C40_upper_words_are_words : forall w, upper_word w -> is_word w.
Proof. exact upper_word_is_word. Qed.
Print Assumptions C40_upper_words_are_words.

(* General form (any number of numeric parts): Type = the non-numeric parts joined,
   Argument = the last numeric part, 0 if there is none. *)
Theorem C40_parse_general : forall ps, (2 <= length ps)%nat -> Forall good ps ->
  parse (join ps) = (join (words_of ps), last_num ps 0).
Proof. exact parse_good. Qed.
Print Assumptions C40_parse_general.

(* Messages without '_' (and the empty message) keep Type = Message, Argument = 0. *)
Theorem C40_no_underscore : forall m, no_us m -> parse m = (m, 0).
Proof. exact parse_no_us. Qed.
Print Assumptions C40_no_underscore.

(* Totality: the model of extractArgument contains no operation that can panic (no index,
   slice or conversion; Split/Join/Atoi are total) -- parse is a total function on all byte
   strings. Absence of panics in the implementation on arbitrary strings (incl. invalid
   UTF-8) is what the differential run observes. *)
Theorem C40_total : forall msg, exists ty arg, parse msg = (ty, arg).
Proof. intros msg. destruct (parse msg) as [ty arg]. exists ty, arg. reflexivity. Qed.
Print Assumptions C40_total.

(* Flood wait: for FLOOD_WAIT / FLOOD_PREMIUM_WAIT (number at any position) the timer is
   armed with exactly (n + 1) seconds, for every n whose nanosecond count fits int64. *)
Theorem C40_flood_wait : forall ws1 ws2 num n,
  Forall is_word ws1 -> Forall is_word ws2 -> is_num num n ->
  is_flood_type (join (ws1 ++ ws2)) = true -> 0 <= n -> (n + 1) * second_ns < 2 ^ 63 ->
  flood_timer (join (ws1 ++ [num] ++ ws2)) = Some ((n + 1) * second_ns).
Proof. exact flood_timer_shape. Qed.
Print Assumptions C40_flood_wait.

(* non-vacuity: the hypotheses are satisfiable, for both kinds, and compute *)
Definition s_FLOOD := [70; 76; 79; 79; 68].
Definition s_WAIT := [87; 65; 73; 84].
Definition s_PREMIUM := [80; 82; 69; 77; 73; 85; 77].
Example C40_nonvacuous_flood :
  Forall is_word [s_FLOOD; s_WAIT] /\ is_num [48; 51; 48] 30 /\ is_flood_type (join ([s_FLOOD; s_WAIT] ++ [])) = true /\
  flood_timer (join ([s_FLOOD; s_WAIT] ++ [[48; 51; 48]] ++ [])) = Some 31000000000 /\
  flood_timer (join ([s_FLOOD; s_PREMIUM; s_WAIT] ++ [[55]] ++ [])) = Some 8000000000.
Proof.
  repeat split; try (vm_compute; reflexivity); try (vm_compute; congruence).
  - repeat constructor; try (vm_compute; reflexivity); intros I; vm_compute in I; intuition congruence.
Qed.
Example C40_nonvacuous_parse :  (* FILE_PART_3_MISSING *)
  parse (join ([[70; 73; 76; 69]; [80; 65; 82; 84]] ++ [[51]] ++ [[77; 73; 83; 83; 73; 78; 71]])) =
  (join [[70; 73; 76; 69]; [80; 65; 82; 84]; [77; 73; 83; 83; 73; 78; 71]], 3).
Proof. vm_compute. reflexivity. Qed.
