(* C19 -- FakeTLS carries any write sizes intact and checks the server digest.
   Only statements; proofs live in Proof/FakeTls.v.

   History: before fix commit 4ab891d2f FakeTLS.Write emitted one record per call with
   uint16(len(data)) -- the model of that code ([write_record] keeps the explicit mod 65536)
   refuted C19_stream at a single write of 65536 bytes (length field 0, peer fails with
   "unknown protocol version"); the 65536- and 70000-byte writes are corpus cases of harness c19.
   The chunk condition added by the fix is regenerated from the source (Gen/FakeTlsConsts.v). *)
From Coq Require Import ZArith List Bool.
From TD Require Import Lib.GoSem Gen.FakeTlsConsts Model.FakeTls Proof.FakeTls Lib.ReadFull Proof.ReadFullInst.
Import ListNotations.
Open Scope Z_scope.

(* Every list of writes of any lengths (first Write of the connection included), every
   sequence of positive Read buffer sizes: the peer reads exactly the concatenation of the
   writes and then io.EOF; the wire is a ChangeCipherSpec record followed by application
   records only, every record length is at most 65535 (so the 16-bit length field never wraps)
   and the application payloads concatenate to the writes. *)
Theorem C19_stream :
  forall (ws : list bytes) (ks : nat -> Z) (fuel : nat),
    (forall j, 1 <= ks j) -> (length (concat ws) < fuel)%nat ->
    exists w, ftls_write_all false ws = Ok w /\
              drain fuel ks 0 ([], w) = (concat ws, TEof) /\
              exists recs, parse_records (S (length w)) w = (recs, None) /\
                Forall (fun r => zlen (snd r) <= 65535 /\
                                 (fst r = c_RecordTypeChangeCipherSpec \/ fst r = c_RecordTypeApplication)) recs /\
                concat (map snd (filter (fun r => fst r =? c_RecordTypeApplication) recs)) = concat ws.
Proof. exact ftls_stream. Qed.
Print Assumptions C19_stream.

(* The client accepts a server hello exactly when the stream starts with a packet of the shape
   handshake record (>= 43 bytes), at most 15 further handshake records, ChangeCipherSpec,
   application record, and the 32 bytes at offset 11 equal HMAC(secret, client_random ++ packet
   with those 32 bytes zeroed).  HMAC-SHA256 is an arbitrary function here: the statement is
   the exact acceptance condition. *)
Theorem C19_hello :
  forall (hmac : bytes -> bytes -> bytes) (client_random secret s rest : bytes),
    read_server_hello hmac client_random secret s = Ok rest <->
    exists packet, s = packet ++ rest /\ hello_shape packet /\
                   hmac secret (client_random ++ zero_digest packet) = digest_of packet.
Proof. exact hello_accept_char. Qed.
Print Assumptions C19_hello.

(* Corollary ("only when"): with a digest made from another secret or another client random
   the handshake fails unless HMAC collides on the two inputs. *)
Corollary C19_hello_wrong_key_rejected :
  forall (hmac : bytes -> bytes -> bytes) (cr secret cr' secret' packet rest : bytes),
    hello_shape packet ->
    digest_of packet = hmac secret' (cr' ++ zero_digest packet) ->
    hmac secret (cr ++ zero_digest packet) <> hmac secret' (cr' ++ zero_digest packet) ->
    forall r, read_server_hello hmac cr secret (packet ++ rest) <> Ok r.
Proof.
  intros hmac cr secret cr' secret' packet rest Hs Hd Hne r H.
  apply hello_accept_iff in H. destruct H as (p & Hp & Hm).
  rewrite (hello_parse_complete packet rest Hs) in Hp. inversion Hp; subst. congruence.
Qed.
Print Assumptions C19_hello_wrong_key_rejected.

(* "All read chunkings" of the underlying connection: io.ReadFull's loop over a reader that hands
   out the stream in pieces of any sizes returns what the byte-list model's read_full returns
   (the sizes of the caller's own Read buffers are the [ks] of C19_stream). *)
Theorem C19_chunking :
  forall (k : Z) (s : bytes) (szs : list nat),
    read_full_sched TEof TUnexpEof k s szs = read_full k s.
Proof. exact faketls_read_full_chunking. Qed.
Print Assumptions C19_chunking.

(* ---- non-vacuity ---- *)
(* a concrete accepted hello: 38-byte handshake body, CCS, application; hmac returns the digest field *)
Example C19_hello_nonvacuous :
  let packet := [22;3;3;0;38] ++ repeat 7 38 ++ [20;3;3;0;1;1] ++ [23;3;3;0;2;9;9] in
  read_server_hello (fun _ _ => repeat 7 32) [1] [2] (packet ++ [5;5]) = Ok [5;5].
Proof. vm_compute. reflexivity. Qed.
Example C19_stream_example :
  exists w, ftls_write_all false [[1;2;3]; []; [4]] = Ok w /\
            drain 10 (fun _ => 2) 0 ([], w) = ([1;2;3;4], TEof).
Proof. eexists; split; vm_compute; reflexivity. Qed.
