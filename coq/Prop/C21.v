(* C21 -- every generated TL type round-trips and decodes any bytes safely.
   Only statements; proofs live in Proof/TlSchema.v.  The theorems are about the schema
   interpreter Model/TlSchema.v and are generic: proved once for every well-formed schema,
   then instantiated on the three schemas that harness/cmd/tlschema translates from
   /repo/_schema/{telegram,mt,encrypted}.tl on every run (schema_wf decided by vm_compute).
   The tie of the generated Go code to the interpreter is the differential run (Run/Check_C21.v). *)
From Coq Require Import ZArith List Bool.
From TD Require Import Lib.Bytes Lib.GoSem Lib.GoSlice Gen.TlSchemaConsts Model.TlPrim Model.TlSchema Proof.TlSchema.
From TD Require Import Gen.SchemaTg Gen.SchemaMt Gen.SchemaE2e.
Import ListNotations.
Open Scope Z_scope.

(* Round trip.  For every well-formed schema, every type (constructor boxed or bare, or a
   class decoded through Decode<Class>) and every canonical well-typed value v (wt: integers
   in range, strings < 2^24 bytes, flags consistent with the optional fields, empty vectors
   nil; any nesting depth `fuel`): Encode succeeds, and for every continuation r of the buffer
   Decode with the recursion budget len/4+2 returns exactly (v, r); re-encoding whatever was
   decoded gives the identical bytes. *)
Theorem C21_roundtrip :
  forall s t fuel v, schema_wf s = true -> wt s fuel t v = true ->
  exists bs, encode_fuel s fuel t v = Ok bs /\ bytes_ok bs /\
    forall r, bytes_ok r ->
      decode s t (std_fuel (bs ++ r)) (bs ++ r) = Ok (v, r) /\
      (forall v' r', decode s t (std_fuel (bs ++ r)) (bs ++ r) = Ok (v', r') -> encode_fuel s fuel t v' = Ok bs).
Proof. exact roundtrip_full. Qed.
Print Assumptions C21_roundtrip.

(* Totality.  For EVERY schema (well-formed or not), type and byte string: decoding never
   panics, whatever the recursion budget; a success returns a suffix-sized rest.  For a
   well-formed schema the budget std_fuel b = len b / 4 + 2 nesting levels is never exhausted
   (so the Go recursion depth is at most len/4 + 2, and the vector loop bound -- remaining
   bytes + 1 iterations -- is never reached), and a result other than out-of-fuel does not
   depend on the budget. *)
Theorem C21_total :
  forall s t b, bytes_ok b ->
  (forall fuel, decode s t fuel b <> Panic) /\
  (forall fuel v r, decode s t fuel b = Ok (v, r) -> bytes_ok r /\ len r <= len b) /\
  (schema_wf s = true -> decode s t (std_fuel b) b <> Err EOutOfFuel) /\
  (forall f f', (f <= f')%nat -> decode s t f b = Err EOutOfFuel \/ decode s t f b = decode s t f' b).
Proof. exact total_full. Qed.
Print Assumptions C21_total.

Theorem C21_depth : forall b, Z.of_nat (std_fuel b) = len b / 4 + 2.
Proof. exact std_fuel_depth. Qed.
Print Assumptions C21_depth.

(* The only allocation that is sized by attacker-controlled input: `if headerLen > 0 { make([]T, 0,
   headerLen % bin.PreallocateLimit) }`.  Guard, capacity expression and limit are all generated
   (prealloc_guard_go, prealloc_cap_go from a generated decoder, the limit from bin/const.go; every
   other vector site is checked to be textually identical by tools/c21-prealloc-sites): the capacity
   never exceeds the limit and is never negative (which would panic: make_cap in the model). *)
Theorem C21_prealloc : forall n, 0 <= prealloc n <= c_PreallocateLimit.
Proof. exact prealloc_bound. Qed.
Print Assumptions C21_prealloc.

(* ---- the schemas generated from /repo are well-formed ---- *)
Theorem C21_tg_wf : schema_wf tg_schema = true.
Proof. vm_compute. reflexivity. Qed.
Print Assumptions C21_tg_wf.
Theorem C21_mt_wf : schema_wf mt_schema = true.
Proof. vm_compute. reflexivity. Qed.
Print Assumptions C21_mt_wf.
Theorem C21_e2e_wf : schema_wf e2e_schema = true.
Proof. vm_compute. reflexivity. Qed.
Print Assumptions C21_e2e_wf.

Theorem C21_roundtrip_tg :
  forall t fuel v, wt tg_schema fuel t v = true ->
  exists bs, encode_fuel tg_schema fuel t v = Ok bs /\ bytes_ok bs /\
    forall r, bytes_ok r ->
      decode tg_schema t (std_fuel (bs ++ r)) (bs ++ r) = Ok (v, r) /\
      (forall v' r', decode tg_schema t (std_fuel (bs ++ r)) (bs ++ r) = Ok (v', r') -> encode_fuel tg_schema fuel t v' = Ok bs).
Proof. exact (fun t fuel v => roundtrip_full tg_schema t fuel v C21_tg_wf). Qed.
Print Assumptions C21_roundtrip_tg.
Theorem C21_roundtrip_mt :
  forall t fuel v, wt mt_schema fuel t v = true ->
  exists bs, encode_fuel mt_schema fuel t v = Ok bs /\ bytes_ok bs /\
    forall r, bytes_ok r ->
      decode mt_schema t (std_fuel (bs ++ r)) (bs ++ r) = Ok (v, r) /\
      (forall v' r', decode mt_schema t (std_fuel (bs ++ r)) (bs ++ r) = Ok (v', r') -> encode_fuel mt_schema fuel t v' = Ok bs).
Proof. exact (fun t fuel v => roundtrip_full mt_schema t fuel v C21_mt_wf). Qed.
Print Assumptions C21_roundtrip_mt.
Theorem C21_roundtrip_e2e :
  forall t fuel v, wt e2e_schema fuel t v = true ->
  exists bs, encode_fuel e2e_schema fuel t v = Ok bs /\ bytes_ok bs /\
    forall r, bytes_ok r ->
      decode e2e_schema t (std_fuel (bs ++ r)) (bs ++ r) = Ok (v, r) /\
      (forall v' r', decode e2e_schema t (std_fuel (bs ++ r)) (bs ++ r) = Ok (v', r') -> encode_fuel e2e_schema fuel t v' = Ok bs).
Proof. exact (fun t fuel v => roundtrip_full e2e_schema t fuel v C21_e2e_wf). Qed.
Print Assumptions C21_roundtrip_e2e.

Theorem C21_total_tg :
  forall t b, bytes_ok b ->
  (forall fuel, decode tg_schema t fuel b <> Panic) /\ decode tg_schema t (std_fuel b) b <> Err EOutOfFuel.
Proof.
  exact (fun t b OK => conj (proj1 (total_full tg_schema t b OK))
                            (proj1 (proj2 (proj2 (total_full tg_schema t b OK))) C21_tg_wf)).
Qed.
Print Assumptions C21_total_tg.
Theorem C21_total_mt :
  forall t b, bytes_ok b ->
  (forall fuel, decode mt_schema t fuel b <> Panic) /\ decode mt_schema t (std_fuel b) b <> Err EOutOfFuel.
Proof.
  exact (fun t b OK => conj (proj1 (total_full mt_schema t b OK))
                            (proj1 (proj2 (proj2 (total_full mt_schema t b OK))) C21_mt_wf)).
Qed.
Print Assumptions C21_total_mt.
Theorem C21_total_e2e :
  forall t b, bytes_ok b ->
  (forall fuel, decode e2e_schema t fuel b <> Panic) /\ decode e2e_schema t (std_fuel b) b <> Err EOutOfFuel.
Proof.
  exact (fun t b OK => conj (proj1 (total_full e2e_schema t b OK))
                            (proj1 (proj2 (proj2 (total_full e2e_schema t b OK))) C21_e2e_wf)).
Qed.
Print Assumptions C21_total_e2e.

(* ---- non-vacuity: canonical values exist in the generated schemas, with nesting, a class
        dispatch, flags, an optional vector/string and `true` flags ---- *)
Definition wt_by_id (s : schema) (kind id : Z) (v : value) : bool :=
  match ty_of s kind id with Some t => wt s (depth v) t v | None => false end.
Definition rt_by_id (s : schema) (kind id : Z) (v : value) : bool :=
  match ty_of s kind id with
  | Some t => match encode s t v with
              | Ok b => match decode s t (std_fuel b) b with Ok (VObj i _, []) => i =? id | _ => false end
              | _ => false
              end
  | None => false
  end.
(* tg: textBold(textBold(textEmpty)) through DecodeRichText *)
Example C21_nonvacuous_tg :
  wt_by_id tg_schema 2 0x6724abc4 (VObj 0x6724abc4 [VObj 0x6724abc4 [VObj 0xdc3d824f []]]) = true.
Proof. vm_compute. reflexivity. Qed.
(* e2e: decryptedMessage#91cc4674 with flags 5 (silent) and 11 (via_bot_name) set *)
Example C21_nonvacuous_e2e_flags :
  wt_by_id e2e_schema 0 0x91cc4674
    (VObj 0x91cc4674 [VZ 2080; VBool true; VZ 5; VZ 0; VBy [104; 105]; VNil; VNil; VBy [97; 98]; VZ 0; VZ 0]) = true.
Proof. vm_compute. reflexivity. Qed.
(* mt: future_salts with a bare vector of bare future_salt *)
Example C21_nonvacuous_mt :
  wt_by_id mt_schema 0 0xae500895
    (VObj 0xae500895 [VZ 7; VZ 1; VVec [VObj 0x0949d9dc [VZ 1; VZ 2; VZ (-3)]; VObj 0x0949d9dc [VZ 4; VZ 5; VZ 6]]]) = true.
Proof. vm_compute. reflexivity. Qed.
(* the witness of the repaired defect (known_findings: cdfc0a87f): accessPointRule with a
   non-empty bare vector of boxed IpPort is canonical and round-trips *)
Example C21_access_point_rule :
  let v := VObj 0x4679b65f [VBy [43]; VZ 2; VVec [VObj 0xd433ad73 [VZ 1; VZ 443]; VObj 0x37982646 [VZ 2; VZ 80; VBy [1; 2; 3]]]] in
  wt_by_id tg_schema 0 0x4679b65f v = true /\ rt_by_id tg_schema 0 0x4679b65f v = true.
Proof. vm_compute. split; reflexivity. Qed.

(* ---- result-vector helper structs (IntVector, UserClassVector, ...: gen/make_vector.go) are
        pseudo-constructors of the schema term (tg_vectors), addressed bare: Encode writes the
        vector header and the elements, no constructor id.  They are covered by C21_roundtrip /
        C21_total through TBare; the synthetic id 3942494659 = crc32 "vec:TyInt" names Vector<int>. ---- *)
Example C21_vector_box :
  let v := VObj 3942494659 [VVec [VZ 1; VZ (-2)]] in
  wt_by_id tg_schema 1 3942494659 v = true /\ rt_by_id tg_schema 1 3942494659 v = true /\
  match ty_of tg_schema 1 3942494659 with
  | Some t => encode tg_schema t v = Ok [21; 196; 181; 28; 2; 0; 0; 0; 1; 0; 0; 0; 254; 255; 255; 255]
  | None => False
  end.
Proof. vm_compute. repeat split; reflexivity. Qed.

(* ---- reused receivers (audit): the round trip is a statement about decoding into a FRESH
        value (what tmap constructors hand out).  Decoding into a receiver that already holds
        a value keeps optional fields whose bit is clear and vectors whose count is 0:
        decode_into (Model/TlSchema.v, validated against the generated code by the harness
        stream `dirty`) does NOT return the encoded value.  Known finding
        stale-state-on-reused-receiver; what holds is C21_roundtrip. ---- *)
Definition reuse_old : value :=
  VObj 0x91cc4674 [VZ 2048; VBool false; VZ 5; VZ 0; VBy [104; 105]; VNil; VNil; VBy [97; 98]; VZ 0; VZ 0].
Definition reuse_new : value :=
  VObj 0x91cc4674 [VZ 0; VBool false; VZ 9; VZ 0; VBy [120]; VNil; VNil; VBy []; VZ 0; VZ 0].
Definition reuse_check : bool :=
  match ty_of e2e_schema 0 0x91cc4674 with
  | Some (TBoxed ci) =>
      match encode e2e_schema (TBoxed ci) reuse_new with
      | Ok bs =>
          wt e2e_schema 1 (TBoxed ci) reuse_new &&
          match decode e2e_schema (TBoxed ci) (std_fuel bs) bs with Ok (v, []) => value_eqb v reuse_new | _ => false end &&
          match decode_into e2e_schema ci (std_fuel bs) reuse_old bs with
          | Ok (v, []) =>
              (* the stale via_bot_name "ab" of the old value survives although bit 11 is clear *)
              value_eqb v (VObj 0x91cc4674 [VZ 0; VBool false; VZ 9; VZ 0; VBy [120]; VNil; VNil; VBy [97; 98]; VZ 0; VZ 0]) &&
              negb (value_eqb v reuse_new)
          | _ => false
          end
      | _ => false
      end
  | _ => false
  end.
Theorem C21_reuse_refuted : reuse_check = true.
Proof. vm_compute. reflexivity. Qed.
Print Assumptions C21_reuse_refuted.
