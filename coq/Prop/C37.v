(* C37 -- HTML and Markdown formatting never crash and stay within the text (HTML part: proof;
   Markdown and the third-party tokenizers: see Prop/C37 comments and the harness).
   Only statements; proofs live in Proof/Html.v, Proof/Entity.v, Lib/Utf.v.

   History: before fix 670da85fb the model refuted the statement (tokens
   <b> "\xf0\x9f" </b> "\x98\x80" <i> "x" </i>: entity at offset 4 in a 3-unit text, because the
   builder counts UTF-16 units per written chunk) and it inherited C35's trimming defect
   (fix 5d0e7a40a).  The parser now rejects text that is not valid UTF-8; the witnesses are
   corpus cases of the harness and the examples below. *)
From Coq Require Import ZArith List Bool String.
From TD Require Import Lib.GoSem Lib.Utf Model.EntitySort Model.Entity Model.Html Model.Markdown Proof.Entity Proof.Html Proof.Markdown.
Import ListNotations.
Open Scope string_scope.
Open Scope Z_scope.

(* For ALL token streams of the tokenizer, both values of DisableTelegramEscape and every behaviour
   of getURLFormatter (utab): html.HTML followed by Builder.Complete never panics, and when it
   does not return an error every entity has non-negative offset and length and ends within the
   UTF-16 length of the returned text (as ComputeLength measures it). *)
Theorem C37_html :
  forall (disable : bool) (utab : list (list Z * Z)) (toks : list htok),
    html_complete disable utab b_init toks <> Panic /\
    forall text es, html_complete disable utab b_init toks = Ok (text, es) -> Forall (within_text text) es.
Proof. exact html_from_init. Qed.
Print Assumptions C37_html.

(* The same on a builder that already went through any well-formed build prefix
   (styling.Perform(b, Plain(..), Bold(..), html.String(..))). *)
Theorem C37_html_after_build :
  forall (disable : bool) (utab : list (list Z * Z)) (toks : list htok) (m : mstate) (ops : list uop),
    fresh (m_b m) -> build_ok s_init ops ->
    let b := m_b (fst (exec m (map (enc_uop (List.length (m_toks m))) ops))) in
    html_complete disable utab b toks <> Panic /\
    forall text es, html_complete disable utab b toks = Ok (text, es) -> Forall (within_text text) es.
Proof. exact html_after_build. Qed.
Print Assumptions C37_html_after_build.

(* ... and the returned text is valid UTF-8, so the bound is the UTF-16 length of its code points
   (not merely what ComputeLength reports). *)
Theorem C37_html_text_is_unicode :
  forall (disable : bool) (utab : list (list Z * Z)) (toks : list htok) text es,
    html_complete disable utab b_init toks = Ok (text, es) ->
    exists cps, Forall cp_valid cps /\ text = utf8_encode cps /\
      Forall (fun e => 0 <= e_off e /\ 0 <= e_len e /\ e_off e + e_len e <= u16c cps) es.
Proof. exact html_within_unicode. Qed.
Print Assumptions C37_html_text_is_unicode.

(* Markdown, for ALL goldmark ASTs (projected to the node kinds the renderer distinguishes) and every
   outcome of urlFormatter: markdown.Markdown + Builder.Complete never panics -- whatever bytes
   goldmark hands over (no hypothesis). *)
Theorem C37_markdown_no_panic :
  forall (src_valid : bool) (doc : mdbs), markdown_complete src_valid b_init doc <> Panic.
Proof. exact markdown_no_panic. Qed.
Print Assumptions C37_markdown_no_panic.

(* If the byte strings the renderer writes are valid UTF-8 (mdbs_ok: what goldmark yields for a valid
   source, checked by the harness on every input, not proved -- goldmark is not modelled), the
   returned text is valid UTF-8 and every entity lies within its UTF-16 length. *)
Theorem C37_markdown_within_text :
  forall (src_valid : bool) (doc : mdbs) text es,
    mdbs_ok doc -> markdown_complete src_valid b_init doc = Ok (text, es) ->
    exists cps, Forall cp_valid cps /\ text = utf8_encode cps /\
      Forall (fun e => 0 <= e_off e /\ 0 <= e_len e /\ e_off e + e_len e <= u16c cps) es.
Proof. exact markdown_within_unicode. Qed.
Print Assumptions C37_markdown_within_text.

(* telegramUnescape rewrites its buffer in place: every entity writes at most as many bytes as
   it consumes and consumes at least one byte within the buffer, so dst never overtakes src and
   utf8.EncodeRune / copy never run out of room. *)
Theorem C37_unescape_in_place :
  forall s, s <> [] ->
    let '(em, n) := unescape_entity s in (1 <= n <= List.length s)%nat /\ (List.length em <= n)%nat.
Proof. exact unescape_entity_fits. Qed.
Print Assumptions C37_unescape_in_place.

(* non-vacuity / regression witnesses *)
Definition tk (s : string) := bytes_of_string s.
(* <b>\xf0\x9f</b>\x98\x80<i>x</i> : rejected now *)
Example C37_split_rune_rejected :
  html_complete false []
    b_init [HStart (tk "b") false []; HText [240; 159] [240; 159]; HEnd (tk "b"); HText [152; 128] [152; 128];
            HStart (tk "i") false []; HText [120] [120]; HEnd (tk "i"); HErr true] = Err tt.
Proof. vm_compute. reflexivity. Qed.
(* <b>abc <i>def </i></b> : bold 0+7, italic 4+3 in "abc def" *)
Example C37_nested_trim :
  html_complete false []
    b_init [HStart (tk "b") false []; HText (tk "abc ") (tk "abc "); HStart (tk "i") false [];
            HText (tk "def ") (tk "def "); HEnd (tk "i"); HEnd (tk "b"); HErr true]
  = Ok (tk "abc def", [mk_ent 0 7 T_bold; mk_ent 4 3 T_italic]).
Proof. vm_compute. reflexivity. Qed.
(* **a `b `** : bold contains a code span ending in a space (old code: code 2+3, bold 0+4 in "a b") *)
Example C37_markdown_nested_trim :
  markdown_complete true b_init
    (BCons (MPara (ICons (MStyled T_bold (ICons (MText (tk "a ") (tk "a ") false)
                                            (ICons (MCode (ICons (MText (tk "b ") (tk "b ") false) INil)) INil))) INil)) BNil)
  = Ok (tk "a b", [mk_ent 0 3 T_bold; mk_ent 2 1 T_code]).
Proof. vm_compute. reflexivity. Qed.
Example C37_markdown_ok_nonvacuous :
  mdbs_ok (BCons (MPara (ICons (MText (tk "a ") (tk "a ") false) INil)) BNil).
Proof. cbn. repeat split; reflexivity. Qed.
