(* C33 -- Downloads reproduce the remote file exactly.
   Only statements; proofs live in Proof/Download.v. *)
From Coq Require Import Arith List Bool Lia.
From TD Require Import Model.Download Proof.Download.
Import ListNotations.
Open Scope nat_scope.

(* Streaming download, for ALL files, part sizes p >= 1 and ALL retry patterns (FLOOD_WAIT /
   retryable timeouts re-issue the same request): if the loop finishes, the chunks written,
   in order, concatenate to the file (no gap, no duplicate, correct length), all but the last
   are full, the returned type is the type of the chunk that stopped the loop (block size/p: the
   short last chunk, or the empty one when size = k*p; [tag i] = type the schema attaches to its
   answer for block i), and nextPlain
   handed out the offsets 0, p, 2p, ... each exactly once: size/p + 1 of them, i.e. for
   size = k*p the k full chunks and the empty one that stops, for an empty file just offset 0. *)
Theorem C33_stream :
  forall (B T : Type) (file : list B) (tag : nat -> T) (p : nat), 1 <= p ->
  forall fuel env w t offs reqs,
    stream_loop (blk file p) lempty (is_last p) tag fuel 0 env = SDone w t offs reqs ->
    concat w = file /\ all_full p w /\ t = tag (length file / p) /\
    offs = seq 0 (length offs) /\ length offs = S (length file / p).
Proof.
  intros B T file tag p Hp fuel env w t offs reqs H.
  exact (stream_loop_spec file tag p Hp fuel 0 env w t offs reqs H).
Qed.
Print Assumptions C33_stream.

(* ... and it does finish when the schema answers *)
Theorem C33_stream_completes :
  forall (B T : Type) (file : list B) (tag : nat -> T) (p : nat), 1 <= p ->
  exists w t offs reqs,
    stream_loop (blk file p) lempty (is_last p) tag (S (length file)) 0 (repeat false (S (length file))) = SDone w t offs reqs.
Proof.
  intros B T file tag p Hp. apply (stream_completes file tag p Hp (length file) 0). cbn. lia.
Qed.
Print Assumptions C33_stream_completes.

(* Parallel download, for ALL files, part sizes, thread counts >= 1 and ALL schedules of the
   workers, the retries and the write loop: when g.Wait() returns nil, WriteAt was called
   exactly once for every non-empty block i (offset i*p < size) and for nothing else, the
   output written through io.WriterAt equals the file at every position (and is empty beyond),
   the returned type is the type of SOME chunk that stops a worker (a block j that was handed out
   and is short or empty: the short last block or any empty block past the end -- typOnce keeps
   whichever calls stop first, so with a server that labels these chunks differently the result
   depends on the schedule: C33_parallel_type_depends_on_schedule; with one type per file, as an
   honest server has, it is that type), and every offset up to and including the end of the file
   was handed out (so size = k*p and the empty file stop, too). *)
Theorem C33_parallel :
  forall (B T : Type) (file : list B) (tag : nat -> T) (p threads : nat), 1 <= p -> 1 <= threads ->
  forall evs,
    let s := p_run (fun i => lempty (blk file p i)) (fun i => is_last p (blk file p i)) tag threads (p_init T threads) evs in
    p_terminal s = true ->
    NoDup (p_written s) /\
    (forall i, In i (p_written s) <-> i * p < length file) /\
    (forall x, apply_writes file p (p_written s) x = nth_error file x) /\
    (exists j, j < p_next s /\ length file < (j + 1) * p /\ p_typ s = Some (tag j)) /\
    (forall i, i * p <= length file -> i < p_next s).
Proof. intros B T file tag p threads Hp Ht evs. exact (p_terminal_correct file tag p threads Hp Ht evs). Qed.
Print Assumptions C33_parallel.

(* non-vacuity: a 10-byte file in parts of 4 with two workers and a schedule with a retry *)
Example C33_parallel_nonvacuous :
  let file := [1; 2; 3; 4; 5; 6; 7; 8; 9; 10] in
  let s := p_run (fun i => lempty (blk file 4 i)) (fun i => is_last 4 (blk file 4 i)) (fun _ => 7) 2 (p_init nat 2)
             [PCheck 0; PCheck 1; PAlloc 0; PAlloc 1; PRetry 1; PSend 1; PAfter 1; PCheck 1; PAlloc 1; PSend 0; PWrite; PSend 1;
              PAfter 0; PAfter 1; PCheck 0; PWrite; PWrite] in
  p_terminal s = true /\ p_written s = [1; 0; 2] /\ p_typ s = Some 7 /\
  map (apply_writes file 4 (p_written s)) (seq 0 11) = map (nth_error file) (seq 0 11).
Proof. vm_compute. repeat split. Qed.
Example C33_stream_exact_multiple :
  stream_loop (blk [1; 2; 3; 4; 5; 6; 7; 8] 4) lempty (is_last 4) (fun i => i) 5 0 [true; false; false; true; true; false] =
  SDone [[1; 2; 3; 4]; [5; 6; 7; 8]] 2 [0; 1; 2] [0; 0; 1; 2; 2; 2].
Proof. vm_compute. reflexivity. Qed.
(* a server that labels block i with type i: two complete, correct downloads of the same 6-byte file
   (parts of 4, two workers) report different types -- the short block 1 or the empty block 2 *)
Example C33_parallel_type_depends_on_schedule :
  let file := [1; 2; 3; 4; 5; 6] in
  let run := p_run (fun i => lempty (blk file 4 i)) (fun i => is_last 4 (blk file 4 i)) (fun i => i) 2 (p_init nat 2) in
  let a := run [PCheck 0; PCheck 1; PAlloc 0; PSend 0; PAfter 0; PCheck 0; PAlloc 0; PAlloc 1; PSend 0; PAfter 0; PSend 1; PWrite; PWrite] in
  let b := run [PCheck 0; PCheck 1; PAlloc 0; PSend 0; PAfter 0; PCheck 0; PAlloc 0; PAlloc 1; PSend 1; PSend 0; PAfter 0; PWrite; PWrite] in
  p_terminal a = true /\ p_terminal b = true /\ p_written a = [0; 1] /\ p_written b = [0; 1] /\
  p_typ a = Some 1 /\ p_typ b = Some 2.
Proof. vm_compute. repeat split. Qed.
