(* C31 -- Session file updates are atomic with respect to crashes.
   Only statements; proofs live in Proof/SessionFile.v.  The crash model is Lib/CrashFS.v
   (process crash: every completed system call and every prefix of an interrupted write
   is visible; power loss: any prefix of the unsynced directory operations, and for an
   unsynced file its last synced content or any prefix of its current content).
   [store_ops chunks dirsync] is the system-call sequence of FileStorage.StoreSession,
   observed with strace on every run and compared with this definition. *)
From Coq Require Import List ZArith Bool Arith.
From TD Require Import Lib.CrashFS Model.SessionFile Run.Check_C31 Proof.SessionFile.
Import ListNotations.

(* Full-strength statement: for every previous file content (or none), every new content,
   every split of the new content into write(2) calls, with or without the final
   directory sync, under both crash models, at every system-call boundary and after every
   partial completion of every write: the session file holds the complete previous content
   (or still does not exist) or the complete new content. *)
Theorem C31_atomic :
  forall (old : option bytes) (new : bytes) (chunks : list bytes) (dirsync : bool)
         (m : crash_model) (c : option (option bytes)),
    concat chunks = new ->
    In c (crash_states m tgt (init_fs old) (store_ops chunks dirsync)) ->
    c = Some old \/ c = Some (Some new).
Proof. exact store_atomic. Qed.
Print Assumptions C31_atomic.

(* ... so the next start loads the previous or the new session, whatever the parser *)
Theorem C31_next_start_loads :
  forall (S : Type) (parse : bytes -> option S)
         (old : option bytes) (new : bytes) (chunks : list bytes) (dirsync : bool) (m : crash_model) c,
    concat chunks = new ->
    In c (crash_states m tgt (init_fs old) (store_ops chunks dirsync)) ->
    exists c', c = Some c' /\ (load parse c' = load parse old \/ load parse c' = load parse (Some new)).
Proof. exact (@store_atomic_load). Qed.
Print Assumptions C31_next_start_loads.

(* a completed save (directory sync included) holds the new content under both models *)
Theorem C31_durable :
  forall (old : option bytes) (new : bytes) (chunks : list bytes),
    concat chunks = new ->
    exists st, run (init_fs old) (store_ops chunks true) = Some st /\
               crash Process tgt st = [Some new] /\ crash Power tgt st = [Some new].
Proof. exact store_durable. Qed.
Print Assumptions C31_durable.

(* The same from ANY directory an earlier interrupted save may have left behind: the
   session file holds [cur] (or does not exist) and there are k leftover temporary files
   with arbitrary contents; os.CreateTemp (O_EXCL) takes a name that does not exist. *)
Theorem C31_atomic_with_leftovers :
  forall (cur : option bytes) (left : list bytes) (new : bytes) (chunks : list bytes) (dirsync : bool)
         (m : crash_model) (c : option (option bytes)),
    concat chunks = new ->
    In c (crash_states m tgt (init_left cur left) (store_ops_named (S (length left)) chunks dirsync)) ->
    c = Some cur \/ c = Some (Some new).
Proof. exact store_atomic_left. Qed.
Print Assumptions C31_atomic_with_leftovers.

Theorem C31_durable_with_leftovers :
  forall (cur : option bytes) (left : list bytes) (new : bytes) (chunks : list bytes),
    concat chunks = new ->
    exists st, run (init_left cur left) (store_ops_named (S (length left)) chunks true) = Some st /\
               crash Process tgt st = [Some new] /\ crash Power tgt st = [Some new].
Proof. exact store_durable_left. Qed.
Print Assumptions C31_durable_with_leftovers.

(* The state of the directory after a crash is the start state of the next save: what a
   process crash before the rename leaves (the temporary file with whatever was written) is
   exactly the start state with one more leftover, so C31_atomic_with_leftovers applies to
   the next save, and to the one after the next interrupted save, and so on.  (After the
   rename the directory holds the new session and no extra file; after power loss the
   leftover may additionally be truncated or missing: contents are arbitrary in the theorem.) *)
Theorem C31_crash_state_is_next_start :
  forall (cur : option bytes) (left : list bytes) (nd : inode) f,
    recover_process (mid cur left nd (D0 cur left) [DCreate (S (length left)) (S (length left))] f)
    = init_left cur (left ++ [i_vol nd]).
Proof. exact crash_before_rename_is_next_start. Qed.
Print Assumptions C31_crash_state_is_next_start.

(* The sequence before the repair, os.WriteFile = open(O_TRUNC); write; close, is not
   atomic (empty and torn files, already under a process crash): the finding fixed in
   /repo; the witness is corpus/C31/torn-write.json. *)
Theorem C31_writefile_refuted : not_atomic writefile_ops.
Proof. exact writefile_not_atomic. Qed.
Print Assumptions C31_writefile_refuted.

(* The fsync before the rename is necessary under power loss (and only there). *)
Theorem C31_fsync_needed : not_atomic store_ops_nofsync.
Proof. exact nofsync_not_atomic. Qed.
Print Assumptions C31_fsync_needed.

(* Every state the executable correspondence check explores is a state of C31_atomic. *)
Theorem C31_checked_states_covered :
  forall m n st0 os c, In c (checked_states m n st0 os) -> In c (crash_states m n st0 os).
Proof. exact checked_states_incl. Qed.
Print Assumptions C31_checked_states_covered.

(* non-vacuity: the crash sets are inhabited and contain both outcomes *)
Example C31_both_outcomes_occur :
  In (Some (Some [1;2]%Z)) (crash_states Power tgt (init_fs (Some [1;2]%Z)) (store_ops [[3]%Z; [4]%Z] true)) /\
  In (Some (Some [3;4]%Z)) (crash_states Power tgt (init_fs (Some [1;2]%Z)) (store_ops [[3]%Z; [4]%Z] true)) /\
  In (Some None) (crash_states Process tgt (init_fs None) (store_ops [[3]%Z; [4]%Z] false)).
Proof. vm_compute. auto 50. Qed.
