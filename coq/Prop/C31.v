(* C31 -- Session file updates are atomic with respect to crashes.
   Only statements; proofs live in Proof/SessionFile.v.  The crash model is Lib/CrashFS.v
   (process crash: every completed system call and every prefix of an interrupted write
   is visible; power loss: any prefix of the unsynced directory operations, and for an
   unsynced file its last synced content or any prefix of its current content).
   [store_ops chunks dirsync] is the system-call sequence of FileStorage.StoreSession,
   observed with strace on every run and compared with this definition. *)
From Coq Require Import List ZArith Bool Arith.
From TD Require Import Lib.CrashFS Model.SessionFile Run.Check_C31 Proof.SessionFile.
Import ListNotations.

(* Full-strength statement: for every previous file content (or none), every new content,
   every split of the new content into write(2) calls, with or without the final
   directory sync, under both crash models, at every system-call boundary and after every
   partial completion of every write: the session file holds the complete previous content
   (or still does not exist) or the complete new content. *)
Theorem C31_atomic :
  forall (old : option bytes) (new : bytes) (chunks : list bytes) (dirsync : bool)
         (m : crash_model) (c : option (option bytes)),
    concat chunks = new ->
    In c (crash_states m tgt (init_fs old) (store_ops chunks dirsync)) ->
    c = Some old \/ c = Some (Some new).
Proof. exact store_atomic. Qed.
Print Assumptions C31_atomic.

(* ... so the next start loads the previous or the new session, whatever the parser *)
Theorem C31_next_start_loads :
  forall (S : Type) (parse : bytes -> option S)
         (old : option bytes) (new : bytes) (chunks : list bytes) (dirsync : bool) (m : crash_model) c,
    concat chunks = new ->
    In c (crash_states m tgt (init_fs old) (store_ops chunks dirsync)) ->
    exists c', c = Some c' /\ (load parse c' = load parse old \/ load parse c' = load parse (Some new)).
Proof. exact (@store_atomic_load). Qed.
Print Assumptions C31_next_start_loads.

(* a completed save (directory sync included) holds the new content under both models *)
Theorem C31_durable :
  forall (old : option bytes) (new : bytes) (chunks : list bytes),
    concat chunks = new ->
    exists st, run (init_fs old) (store_ops chunks true) = Some st /\
               crash Process tgt st = [Some new] /\ crash Power tgt st = [Some new].
Proof. exact store_durable. Qed.
Print Assumptions C31_durable.

(* The same from ANY directory an earlier interrupted save may have left behind: the
   session file holds [cur] (or does not exist) and there are k leftover temporary files
   with arbitrary contents; os.CreateTemp (O_EXCL) takes a name that does not exist. *)
Theorem C31_atomic_with_leftovers :
  forall (cur : option bytes) (left : list bytes) (new : bytes) (chunks : list bytes) (dirsync : bool)
         (m : crash_model) (c : option (option bytes)),
    concat chunks = new ->
    In c (crash_states m tgt (init_left cur left) (store_ops_named (S (length left)) chunks dirsync)) ->
    c = Some cur \/ c = Some (Some new).
Proof. exact store_atomic_left. Qed.
Print Assumptions C31_atomic_with_leftovers.

Theorem C31_durable_with_leftovers :
  forall (cur : option bytes) (left : list bytes) (new : bytes) (chunks : list bytes),
    concat chunks = new ->
    exists st, run (init_left cur left) (store_ops_named (S (length left)) chunks true) = Some st /\
               crash Process tgt st = [Some new] /\ crash Power tgt st = [Some new].
Proof. exact store_durable_left. Qed.
Print Assumptions C31_durable_with_leftovers.

(* The state of the directory after a crash is the start state of the next save: what a
   process crash before the rename leaves (the temporary file with whatever was written) is
   exactly the start state with one more leftover, so C31_atomic_with_leftovers applies to
   the next save, and to the one after the next interrupted save, and so on.  (After the
   rename the directory holds the new session and no extra file; after power loss the
   leftover may additionally be truncated or missing: contents are arbitrary in the theorem.) *)
Theorem C31_crash_state_is_next_start :
  forall (cur : option bytes) (left : list bytes) (nd : inode) f,
    recover_process (mid cur left nd (D0 cur left) [DCreate (S (length left)) (S (length left))] f)
    = init_left cur (left ++ [i_vol nd]).
Proof. exact crash_before_rename_is_next_start. Qed.
Print Assumptions C31_crash_state_is_next_start.

(* Chains of saves.  [good st cur]: nothing pending, nothing open, the session file holds [cur]
   in a synced inode (or does not exist), whatever else the directory contains.  After ANY
   number of completed saves (each with its directory sync, each with a temporary name that
   did not exist at that time -- os.CreateTemp, O_EXCL) a further save interrupted anywhere,
   under either crash model, shows the content of the LAST completed save or the new one. *)
Theorem C31_atomic_chain :
  forall (saves : list (name * list bytes)) (st : fs) (cur : option bytes) (stn : fs)
         (t : name) (ch : list bytes) (dirsync : bool) (m : crash_model) (c : option (option bytes)),
    good st cur -> fresh_names st saves -> run_saves st saves = Some stn ->
    aget t (ddir stn) = None -> t <> tgt ->
    In c (crash_states m tgt stn (store_ops_named t ch dirsync)) ->
    c = Some (last_content cur saves) \/ c = Some (Some (concat ch)).
Proof. exact store_atomic_chain. Qed.
Print Assumptions C31_atomic_chain.

Theorem C31_chain_runs_and_stays_good :
  forall saves st cur, good st cur -> fresh_names st saves ->
    exists stn, run_saves st saves = Some stn /\ good stn (last_content cur saves).
Proof. exact chain_good. Qed.
Print Assumptions C31_chain_runs_and_stays_good.

Theorem C31_initial_states_are_good : forall old, good (init_fs old) old.
Proof. exact good_init_fs. Qed.
Print Assumptions C31_initial_states_are_good.

(* The completed saves of the chain need their directory sync.  C31_atomic above also covers
   dirsync = false for the INTERRUPTED save (from a durable start); but a save that COMPLETED
   without the directory sync (the sync is best effort: a platform where a directory cannot
   be opened or synced) is not durable, and an interrupted later save can then surface the
   session before the previous one under power loss.  On Linux strace shows the directory
   sync on every run (the correspondence check compares the observed sequence). *)
Theorem C31_refuted_chain_without_dirsync :
  exists st1, run (init_fs (Some [9%Z])) (store_ops [[1%Z]] false) = Some st1 /\
              In (Some (Some [9%Z])) (crash_states Power tgt st1 (store_ops_named 1 [[2%Z]] false)).
Proof. exact chain_without_dirsync_surfaces_older. Qed.
Print Assumptions C31_refuted_chain_without_dirsync.

(* Failure branches of writeFileAtomic (write / sync / close / rename error: Close, Remove of
   the temporary file; no rename happened): every crash state still shows the previous content. *)
Theorem C31_failure_branches_keep_previous :
  forall (st0 : fs) (cur : option bytes) (t : name),
    good st0 cur -> aget t (ddir st0) = None -> t <> tgt ->
    forall chunks synced m c, In c (crash_states m tgt st0 (fail_ops t chunks synced)) -> c = Some cur.
Proof. exact fail_atomic_good. Qed.
Print Assumptions C31_failure_branches_keep_previous.

(* The sequence before the repair, os.WriteFile = open(O_TRUNC); write; close, is not
   atomic (empty and torn files, already under a process crash): the finding fixed in
   /repo; the witness is corpus/C31/torn-write.json. *)
Theorem C31_writefile_refuted : not_atomic writefile_ops.
Proof. exact writefile_not_atomic. Qed.
Print Assumptions C31_writefile_refuted.

(* Updating the session file in place -- even when the new session has exactly the size of
   the old one, even with an fsync -- is not atomic: a crash inside the write leaves a mix. *)
Theorem C31_inplace_overwrite_refuted : not_atomic (fun chunks => inplace_ops (concat chunks)).
Proof. exact inplace_not_atomic. Qed.
Print Assumptions C31_inplace_overwrite_refuted.

(* The fsync before the rename is necessary under power loss (and only there). *)
Theorem C31_fsync_needed : not_atomic store_ops_nofsync.
Proof. exact nofsync_not_atomic. Qed.
Print Assumptions C31_fsync_needed.

(* Every state the executable correspondence check explores is a state of C31_atomic. *)
Theorem C31_checked_states_covered :
  forall m n st0 os c, In c (checked_states m n st0 os) -> In c (crash_states m n st0 os).
Proof. exact checked_states_incl. Qed.
Print Assumptions C31_checked_states_covered.

(* non-vacuity of the chain hypotheses: two completed saves with fresh names from a good state *)
Example C31_chain_nonvacuous :
  good (init_fs (Some [1]%Z)) (Some [1]%Z) /\
  fresh_names (init_fs (Some [1]%Z)) [(1, [[2]%Z]); (2, [[3]%Z; [4]%Z])] /\
  last_content (Some [1]%Z) [(1, [[2]%Z]); (2, [[3]%Z; [4]%Z])] = Some [3; 4]%Z.
Proof. split; [apply good_init_fs|]. split; [|reflexivity]. vm_compute. repeat split; discriminate. Qed.

(* non-vacuity: the crash sets are inhabited and contain both outcomes *)
Example C31_both_outcomes_occur :
  In (Some (Some [1;2]%Z)) (crash_states Power tgt (init_fs (Some [1;2]%Z)) (store_ops [[3]%Z; [4]%Z] true)) /\
  In (Some (Some [3;4]%Z)) (crash_states Power tgt (init_fs (Some [1;2]%Z)) (store_ops [[3]%Z; [4]%Z] true)) /\
  In (Some None) (crash_states Process tgt (init_fs None) (store_ops [[3]%Z; [4]%Z] false)).
Proof. vm_compute. auto 50. Qed.
