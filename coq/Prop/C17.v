(* C17 -- Decoding arbitrary transport input never crashes the client and never grows the
   receive buffer beyond the frame limit.  Only statements; proofs live in Proof/Codec.v.

   History: on the code before fix commits 5964f188d and 099722bca the faithful model refuted
   this statement (codec.Full.Read panicked for length prefixes 1..3 and 8..11, abridged grew
   the buffer to n<<2 <= 64 MiB); the witnesses are kept below as examples and in the harness
   corpus.  The checks that the fixes added are part of Gen/CodecConsts.v: if they disappear
   from the source the translator refuses and this file no longer compiles. *)
From Coq Require Import ZArith List Bool.
From TD Require Import Lib.GoSem Gen.CodecConsts Model.Codec Proof.Codec.
Import ListNotations.
Open Scope Z_scope.

(* For ALL byte streams (any list of integers, not even required to be bytes), every codec,
   every frame counter and every checksum function: one Read call does not panic and the
   receive buffer never exceeds the frame limit plus the length word. *)
Theorem C17_total :
  forall (crc : bytes -> Z) (c : codec) (seq : Z) (s : bytes),
    snd (read_c crc c seq s) <> Panic /\
    fst (read_c crc c seq s) <= c_maxMessageSize + c_Word.
Proof. exact read_c_total. Qed.
Print Assumptions C17_total.

(* ... and so does any sequence of Read calls on one connection (any number of calls). *)
Theorem C17_stream_total :
  forall (crc : bytes -> Z) (c : codec) (seq : Z) (fuel : nat) (s : bytes),
    snd (read_stream crc c seq fuel s) <> StopPanic.
Proof. intros; apply read_stream_total. Qed.
Print Assumptions C17_stream_total.

(* The pre-fix witnesses now are plain read errors. *)
Example C17_witness_full_len1 :
  snd (read_c (fun _ => 0) Full 0 [1;0;0;0; 0;0;0;0; 0;0;0;0; 0;0;0;0]) = Err (EInvalidLen 1).
Proof. vm_compute. reflexivity. Qed.
Example C17_witness_full_len8 :
  snd (read_c (fun _ => 0) Full 0 [8;0;0;0; 0;0;0;0; 0;0;0;0; 0;0;0;0]) = Err (EInvalidLen 8).
Proof. vm_compute. reflexivity. Qed.
Example C17_witness_abridged_64MiB :
  read_c (fun _ => 0) Abridged 0 [127;255;255;255; 1;2;3] = (4, Err (EInvalidLen 67108860)).
Proof. vm_compute. reflexivity. Qed.
(* the bound is attained: a full frame of the maximal length grows the buffer to limit + 4 *)
Example C17_bound_tight :
  fst (read_c (fun _ => 0) Full 0 [0;0;0;1; 9]) = c_maxMessageSize + c_Word.
Proof. vm_compute. reflexivity. Qed.
