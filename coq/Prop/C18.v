(* C18 -- Obfuscated2 handshake agrees on protocol, DC and both byte streams.
   Only statements; proofs live in Proof/Obfs2.v and Proof/Obfs2Listen.v.

   AES-256-CTR is an arbitrary keystream function [ks key iv pos] and SHA-256 an arbitrary
   function: every theorem holds for all of them (so in particular for the real ones; that the
   Go cipher.Stream behaves as "xor with a position-indexed keystream" is trusted, and checked
   per run against crypto/aes + cipher.NewCTR).

   History: before fix commit 7d0ada58d Obfuscated2.Read returned the bytes undecrypted when
   the underlying reader delivered them together with an error; the model of that code refuted
   C18_streams for a chunk list whose last entry carries the error flag.  That session is a
   corpus case of harness c18. *)
From Coq Require Import ZArith List Bool.
From TD Require Import Lib.Bytes Lib.GoSem Gen.Obfs2Consts Model.Obfs2 Proof.Obfs2.
From TD Require Model.Codec Proof.Obfs2Listen.
From TD Require Import Lib.ReadFull Proof.ReadFullInst.
Import ListNotations.
Open Scope Z_scope.

(* Any protocol tag (4 bytes), any DC id, any secret, any random stream: if the client
   handshake succeeds, then on every stream that starts with the header it wrote the server
   recovers the same tag and uint16(dc) and continues after the 64 header bytes; the server's
   decrypt stream IS the client's encrypt stream -- same key, same iv, same position (64: both
   sides ran the 64 header bytes through it) -- and its encrypt stream is the client's decrypt
   stream (position 0).  The positions are computed by the model (XORKeyStream advances the
   stream by the length of its argument), not assumed. *)
Theorem C18_meta :
  forall (ks : bytes -> bytes -> Z -> Z) (sha256 : bytes -> bytes)
         (fuel : nat) (rnd protocol : bytes) (dc : Z) (secret hdr : bytes) (cep : endpoint) (rest t : bytes),
    length protocol = 4%nat ->
    client_handshake ks sha256 fuel rnd protocol dc secret = Ok (hdr, cep, rest) ->
    server_accept ks sha256 (hdr ++ t) secret =
      Ok ((protocol, dc mod 65536), {| enc := dec cep; dec := enc cep |}, t) /\
    s_pos (enc cep) = 64 /\ s_pos (dec cep) = 0.
Proof.
  intros ks sha fuel rnd p dc s hdr cep rest t Hp H.
  destruct (handshake_accept ks sha fuel rnd p dc s hdr cep rest t Hp H) as (A & B & C & _). auto.
Qed.
Print Assumptions C18_meta.

(* The whole session, composed: after Handshake and Accept (on the header followed by whatever
   the client wrote), with the stream states each side actually holds, data written by the
   client in any number of Write calls and delivered to the server in any pieces (an error may
   accompany the last one) is read unchanged, and likewise from the server to the client.
   Premise of the model of Write: every conn.Write completes (see level_note). *)
Theorem C18_session :
  forall (ks : bytes -> bytes -> Z -> Z) (sha256 : bytes -> bytes)
         (fuel : nat) (rnd protocol : bytes) (dc : Z) (secret hdr : bytes) (cep : endpoint) (rest : bytes)
         (c2s s2c : list bytes) (dl_s dl_c : list (bytes * bool)),
    length protocol = 4%nat ->
    client_handshake ks sha256 fuel rnd protocol dc secret = Ok (hdr, cep, rest) ->
    let wire := send_on ks (enc cep) c2s in
    exists sep,
      server_accept ks sha256 (hdr ++ wire) secret = Ok ((protocol, dc mod 65536), sep, wire) /\
      dec sep = enc cep /\ enc sep = dec cep /\
      (concat (map fst dl_s) = wire -> err_only_last dl_s -> recv_on ks (dec sep) dl_s = concat c2s) /\
      (concat (map fst dl_c) = send_on ks (enc sep) s2c -> err_only_last dl_c ->
       recv_on ks (dec cep) dl_c = concat s2c).
Proof. intros ks sha fuel rnd p dc s hdr cep rest c2s s2c dls dlc. apply session_roundtrip. Qed.
Print Assumptions C18_session.

(* negative and test DC ids survive the uint16 field: int16(meta.DC) = dc *)
Theorem C18_dc_signed : forall dc, - 32768 <= dc < 32768 -> to_signed 16 (dc mod 65536) = dc.
Proof. intros dc H. change 65536 with (2 ^ 16). apply (to_of_signed 16 dc); [reflexivity|exact H]. Qed.
Print Assumptions C18_dc_signed.

(* The stream lemma used by C18_session, for any one (key, iv, position) shared by a sender and
   a receiver: any
   list of Write calls, any way the underlying reader cuts the ciphertext into deliveries, an
   error allowed to accompany the last delivery: the bytes received are the bytes sent. *)
Theorem C18_streams :
  forall (ks : bytes -> bytes -> Z -> Z) (key iv : bytes) (pos : Z)
         (writes : list bytes) (deliveries : list (bytes * bool)),
    concat (map fst deliveries) = send_all ks key iv pos writes ->
    err_only_last deliveries ->
    recv_all ks key iv pos deliveries = concat writes.
Proof. exact stream_roundtrip. Qed.
Print Assumptions C18_streams.

(* The header is built from the FIRST acceptable 64-byte candidate of the random stream
   (everything skipped before it is a whole rejected candidate), keeps its first 56 bytes, and
   never starts with a reserved pattern (the tests are those of generateInit, regenerated from
   the source). *)
Theorem C18_prefix :
  forall (ks : bytes -> bytes -> Z -> Z) (sha256 : bytes -> bytes)
         (fuel : nat) (rnd protocol : bytes) (dc : Z) (secret hdr : bytes) (cep : endpoint) (rest : bytes),
    length protocol = 4%nat ->
    client_handshake ks sha256 fuel rnd protocol dc secret = Ok (hdr, cep, rest) ->
    length hdr = 64%nat /\ acceptable hdr = true /\
    exists init skipped,
      rnd = concat skipped ++ init ++ rest /\
      Forall (fun c => length c = 64%nat /\ acceptable c = false) skipped /\
      length init = 64%nat /\ firstn 56 hdr = firstn 56 init.
Proof.
  intros ks sha fuel rnd p dc s hdr cep rest Hp H.
  destruct (handshake_accept ks sha fuel rnd p dc s hdr cep rest [] Hp H) as (_ & _ & _ & R). exact R.
Qed.
Print Assumptions C18_prefix.

(* "acceptable" spelled out: none of the reserved first bytes / words *)
Theorem C18_acceptable_means :
  forall h, acceptable h = true ->
    nth 0 h 0 <> 239 /\
    ~ In (le_dec (firstn 4 h)) [1145128264; 1414745936; 542393671; 1230262351; 33620758; 3722304989; 4008636142] /\
    le_dec (firstn 4 (skipn 4 h)) <> 0.
Proof.
  intros h H. unfold acceptable in H. rewrite !andb_true_iff, !negb_true_iff in H. destruct H as [[H1 H2] H3].
  unfold reserved_first_byte_go in H1. unfold reserved_first_int_go in H2. unfold reserved_second_int_go in H3.
  rewrite !orb_false_iff in H2. rewrite !Z.eqb_neq in *. cbn [In]. intuition congruence.
Qed.
Print Assumptions C18_acceptable_means.

(* the loop of generateInit ends whenever the random stream does: fuel = length + 1 suffices *)
Theorem C18_init_terminates :
  forall fuel rnd, (length rnd < fuel)%nat -> gen_init fuel rnd <> Err OOutOfFuel.
Proof. exact gen_init_fuel. Qed.
Print Assumptions C18_init_terminates.

(* Server side of transport.ObfuscatedListener + transport.Listen: replaying the recovered tag
   (one byte for abridged, four otherwise) makes detectCodec choose the client's codec. *)
Theorem C18_listener_tag :
  forall (c : Codec.codec) (s : Codec.bytes),
    c <> Codec.Full -> Codec.detect (replay_tag (Obfs2Listen.obf_tag c) ++ s) = Ok (c, s).
Proof. exact Obfs2Listen.obf_listener_detect. Qed.
Print Assumptions C18_listener_tag.

(* Accept reads the 64 header bytes with io.ReadFull: for every way the connection splits them
   into reads the result is the byte-list model's read_full. *)
Theorem C18_header_chunking :
  forall (k : Z) (s : bytes) (szs : list nat),
    read_full_sched OEof OUnexpEof k s szs = read_full k s.
Proof. exact obfs2_read_full_chunking. Qed.
Print Assumptions C18_header_chunking.

(* ... composed with the handshake: a client announcing codec c (protocol = ObfuscatedTag of c)
   is accepted with a tag whose replay selects c. *)
Theorem C18_listener_session :
  forall (ks : bytes -> bytes -> Z -> Z) (sha256 : bytes -> bytes) (fuel : nat) (rnd : bytes)
         (c : Codec.codec) (dc : Z) (secret hdr : bytes) (cep : endpoint) (rest wire : bytes) (s : Codec.bytes),
    c <> Codec.Full ->
    client_handshake ks sha256 fuel rnd (Obfs2Listen.obf_tag c) dc secret = Ok (hdr, cep, rest) ->
    exists p d sep, server_accept ks sha256 (hdr ++ wire) secret = Ok ((p, d), sep, wire) /\
                    Codec.detect (replay_tag p ++ s) = Ok (c, s).
Proof. exact Obfs2Listen.obf_session_detect. Qed.
Print Assumptions C18_listener_session.

(* ---- non-vacuity ---- *)
Example C18_handshake_exists :
  exists hdr cep rest,
    client_handshake (fun _ _ p => p mod 256) (fun x => x) 3
      (239 :: repeat 1 63 ++ repeat 7 64 ++ [9]) [221; 221; 221; 221] (-2) [] = Ok (hdr, cep, rest) /\ rest = [9].
Proof. do 3 eexists. split; vm_compute; reflexivity. Qed.
Example C18_streams_example :
  recv_all (fun _ _ p => p) [] [] 64 [([1 ; 2], false); ([], false); ([7], true)] <> [] /\
  err_only_last [([1; 2], false); ([] : bytes, false); ([7], true)].
Proof. split; [vm_compute; discriminate|cbn; auto]. Qed.
