(* C22 -- Containers, RPC results, unencrypted messages and gzip-packed objects decode back
   to what was encoded; gzip decompression never yields 10 MiB or more; malformed input
   gives errors, never panics.  Only statements; proofs live in Proof/ProtoMsg.v.
   gzip/DEFLATE is abstract: Section variables gzip / gz_head / gz_stream with the single
   hypothesis that the decompressor inverts the compressor. *)
From Coq Require Import ZArith List Bool Lia.
From TD Require Import Lib.Bytes Lib.GoSem Lib.GoSlice Gen.ProtoConsts Model.TlPrim Model.ProtoMsg Proof.ProtoMsg.
Import ListNotations.
Open Scope Z_scope.

(* valid_msg m: id int64, seqno int32, Bytes = len Body <= 1 MiB *)
Theorem C22_container_roundtrip : forall ms e r, Forall valid_msg ms -> len ms < 2 ^ 31 ->
  encode_container ms = Ok e -> decode_container (e ++ r) = Ok (ms, r).
Proof. exact container_roundtrip. Qed.
Print Assumptions C22_container_roundtrip.

Theorem C22_container_encodes : forall ms, Forall valid_msg ms -> exists e, encode_container ms = Ok e.
Proof. exact encode_container_ok. Qed.
Print Assumptions C22_container_encodes.

(* malformed count: a container announcing a negative number of messages is rejected
   (holds since fix 8e2c2ab76; before it the loop simply did not run and Decode returned an
   empty container with a nil error) *)
Theorem C22_container_negative_count : forall n r, - 2 ^ 31 <= n < 0 ->
  decode_container (encode_uint32 c_MessageContainerTypeID ++ encode_int n ++ r) = Err (PTl EInvalidLength).
Proof. exact container_negative_count. Qed.
Print Assumptions C22_container_negative_count.

Theorem C22_result_roundtrip : forall id body, i64 id -> decode_result (encode_result id body) = Ok (id, body, []).
Proof. exact result_roundtrip. Qed.
Print Assumptions C22_result_roundtrip.

Theorem C22_unencrypted_roundtrip : forall id data r, i64 id -> len data < 2 ^ 31 ->
  decode_unencrypted (encode_unencrypted id data ++ r) = Ok (id, data, r).
Proof. exact unencrypted_roundtrip. Qed.
Print Assumptions C22_unencrypted_roundtrip.

(* Reused receivers (read loops decode into one long-lived value). NOTE: these three
   equalities hold by unfolding the hand-written _into models (append(old[:0], ..) keeps nothing
   of old); that the code really resets its receiver is NOT established by the proof but by
   the differential replay of dirty receivers (checker modes 8-10, harness reuse stream).
   Statement: whatever the value held
   before -- a longer message, a failed decode -- the outcome is that of a fresh value, so
   all round-trip theorems above hold for sequences decoded into the same value.
   (For containers this holds since fix 173e3bd61; before it the old messages were kept.) *)
Theorem C22_unencrypted_reuse : forall old b, decode_unencrypted_into old b = decode_unencrypted b.
Proof. exact decode_unencrypted_reuse. Qed.
Print Assumptions C22_unencrypted_reuse.
Theorem C22_result_reuse : forall old b, decode_result_into old b = decode_result b.
Proof. exact decode_result_reuse. Qed.
Print Assumptions C22_result_reuse.
Theorem C22_container_reuse : forall old b, decode_container_into old b = decode_container b.
Proof. exact decode_container_reuse. Qed.
Print Assumptions C22_container_reuse.

(* Totality for arbitrary bytes; the container loop never runs out of fuel (it is bounded
   by the input length) and every decoded message accounts for at least 16 input bytes. *)
Theorem C22_total_container : forall b, bytes_ok b ->
  match decode_container b with
  | Ok (ms, b1) => bytes_ok b1 /\ 16 * len ms + 8 <= len b - len b1
  | Err e => e <> POutOfFuel
  | Panic => False
  end.
Proof. exact decode_container_total. Qed.
Print Assumptions C22_total_container.

Theorem C22_message_progress : forall b, bytes_ok b ->
  match decode_message b with
  | Ok (m, b1) => bytes_ok b1 /\ len b = len b1 + 16 + m_bytes m /\ 0 <= m_bytes m <= msg_limit /\ m_bytes m = len (m_body m)
  | Err e => e <> POutOfFuel
  | Panic => False
  end.
Proof. exact decode_message_progress. Qed.
Print Assumptions C22_message_progress.

Theorem C22_total_result : forall b, bytes_ok b -> decode_result b <> Panic.
Proof. exact decode_result_total. Qed.
Print Assumptions C22_total_result.
Theorem C22_total_unencrypted : forall b, bytes_ok b -> decode_unencrypted b <> Panic.
Proof. exact decode_unencrypted_total. Qed.
Print Assumptions C22_total_unencrypted.

Section Gzip.
  Variable gzip : list Z -> list Z.
  Variable gz_head : list Z -> bool.
  Variable gz_stream : list Z -> list Z * bool.

  (* under the assumption that the decompressor inverts the compressor *)
  Theorem C22_gzip_roundtrip :
    (forall x, gz_head (gzip x) = true /\ gz_stream (gzip x) = (x, false)) ->
    forall x r, len x < c_maxUncompressedSize -> len (gzip x) < 2 ^ 24 ->
    decode_gzip gz_head gz_stream (encode_gzip gzip x ++ r) = Ok (x, r).
  Proof. exact (gzip_roundtrip gzip gz_head gz_stream). Qed.

  (* for ANY decompressor behaviour: success implies the whole decompressed stream is
     shorter than the limit (and is the returned data); never more than the limit is read *)
  Theorem C22_bomb : forall b data r, decode_gzip gz_head gz_stream b = Ok (data, r) ->
    len data < c_maxUncompressedSize /\
    exists buf, data = fst (gzip_read gz_stream buf) /\ len (fst (gz_stream buf)) < c_maxUncompressedSize /\ data = fst (gz_stream buf).
  Proof. exact (gzip_bomb gz_head gz_stream). Qed.
  (* the cap is the argument of io.LimitReader as generated from the source (limit_reader_arg_go) *)
  Theorem C22_bomb_bounded_read : forall buf, len (fst (gzip_read gz_stream buf)) <= c_maxUncompressedSize.
  Proof. exact (gzip_read_bounded gz_stream). Qed.
  Theorem C22_total_gzip : forall b, bytes_ok b -> decode_gzip gz_head gz_stream b <> Panic.
  Proof. exact (decode_gzip_total gz_head gz_stream). Qed.
  Theorem C22_gzip_code : forall h stream serr b,
    (forall buf, gz_head buf = h /\ gz_stream buf = (stream, serr)) ->
    res_code (decode_gzip gz_head gz_stream b) = decode_gzip_code h (len stream) serr b.
  Proof. exact (decode_gzip_code_agrees gz_head gz_stream). Qed.
End Gzip.
Print Assumptions C22_gzip_roundtrip.
Print Assumptions C22_bomb.
Print Assumptions C22_bomb_bounded_read.
Print Assumptions C22_total_gzip.
Print Assumptions C22_gzip_code.

(* non-vacuity: the gzip hypothesis is satisfiable (identity codec), the limit is the
   10 MiB of the source, valid messages exist and round-trip by computation *)
Example C22_gzip_hypothesis_satisfiable :
  exists (gzip : list Z -> list Z) (gz_head : list Z -> bool) (gz_stream : list Z -> list Z * bool),
    forall x, gz_head (gzip x) = true /\ gz_stream (gzip x) = (x, false).
Proof. exists (fun x => x), (fun _ => true), (fun x => (x, false)). intros x; split; reflexivity. Qed.
Example C22_limit_is_10MiB : c_maxUncompressedSize = 10 * 1024 * 1024.
Proof. reflexivity. Qed.
(* the assumption Bytes = len Body of C22_container_roundtrip is necessary: Message.Encode
   does not check it, and a message whose Bytes field is smaller than its body encodes fine
   but decodes to a different container (the surplus body bytes are left unread) *)
Example C22_bytes_field_must_match :
  let ms := [mkMsg 7 1 0 [1; 2; 3; 4]] in
  match encode_container ms with
  | Ok e => decode_container e = Ok ([mkMsg 7 1 0 []], [1; 2; 3; 4])
  | _ => False
  end.
Proof. vm_compute. reflexivity. Qed.
Example C22_container_nonvacuous :
  let ms := [mkMsg 7 1 3 [1; 2; 3]; mkMsg (-9) 2 0 []] in
  Forall valid_msg ms /\
  match encode_container ms with Ok e => decode_container (e ++ [5]) = Ok (ms, [5]) | _ => False end.
Proof.
  split; [|vm_compute; reflexivity].
  repeat constructor; cbn; try lia; try reflexivity; vm_compute; congruence.
Qed.
