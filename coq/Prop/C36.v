(* C36 -- Completed entities are ordered by offset, then by descending length.
   Only statements; proofs live in Proof/EntitySort.v. *)
From Coq Require Import ZArith List Bool Permutation Sorted.
From TD Require Import Gen.EntityLess Model.EntitySort Proof.EntitySort.
Import ListNotations.
Open Scope Z_scope.

(* Full-strength statement, for every comparison function that implements the TDLib
   order and every list (no bound): the model of Go's insertion sort returns a
   permutation sorted by (offset ascending, length descending). *)
Theorem C36_sorted_for_spec_order :
  forall less : less_t,
    (forall ao al bo bl, less ao al bo bl = true <-> lt_spec ao al bo bl) ->
    forall l, StronglySorted le_key (go_isort less l) /\ Permutation (go_isort less l) l.
Proof. exact go_isort_sorted_perm. Qed.
Print Assumptions C36_sorted_for_spec_order.

(* The (offset, length) sequence of the result is independent of the algorithm: any two
   sorted permutations agree on it (so the statement carries over to pdqsort's other
   phases, which are not modelled). *)
Theorem C36_order_unique :
  forall l1 l2, StronglySorted le_key l1 -> StronglySorted le_key l2 -> Permutation l1 l2 ->
                keys l1 = keys l2.
Proof. exact sorted_keys_unique. Qed.
Print Assumptions C36_order_unique.

(* What holds for the comparison function generated from the current source. *)
Theorem C36_partial_permutation : forall l, Permutation (go_isort less_go l) l.
Proof. exact (go_isort_perm_any less_go). Qed.
Print Assumptions C36_partial_permutation.

(* The generated entitySorter.Less is NOT the TDLib order: known finding C36. *)
Definition C36_witness : list ent :=
  [ {| e_off := 0; e_len := 3; e_tag := 0 |}; {| e_off := 5; e_len := 10; e_tag := 1 |} ].
Theorem C36_refuted : sortedb (go_isort less_go C36_witness) = false.
Proof. vm_compute. reflexivity. Qed.
Print Assumptions C36_refuted.

(* The known finding is pinned to its exact shape: the generated comparison IS
   `a.off < b.off || a.len > b.len`.  Any other change to entitySorter.Less breaks this
   theorem, and a broken obligation disables the known-finding classification in ./check,
   so a different defect in the comparison is reported as a new violation. *)
Theorem C36_known_defect_shape :
  forall ao al bo bl, less_go ao al bo bl = orb (Z.ltb ao bo) (Z.gtb al bl).
Proof. intros; destruct (Z.ltb ao bo) eqn:E1, (Z.gtb al bl) eqn:E2; unfold less_go; rewrite ?E1, ?E2; reflexivity. Qed.
Print Assumptions C36_known_defect_shape.

(* non-vacuity: the hypothesis of the full statement is satisfiable *)
Example C36_spec_order_exists :
  exists less : less_t, forall ao al bo bl, less ao al bo bl = true <-> lt_spec ao al bo bl.
Proof.
  exists (fun ao al bo bl => (ao <? bo) || ((ao =? bo) && (al >? bl))).
  intros; unfold lt_spec; rewrite orb_true_iff, andb_true_iff, Z.ltb_lt, Z.eqb_eq, Z.gtb_lt.
  split; intros [H|[H1 H2]]; auto; right; split; auto; apply Z.lt_gt || apply Z.gt_lt; exact H2.
Qed.
