(* C32 -- Uploads split the source into a complete, well-formed part sequence.
   Only statements; proofs live in Proof/Upload.v.  The arithmetic functions and constants
   (computeParts, checkPartSize, the loop of computePartSize, bigFileLimit, partsLimit, ...)
   are regenerated from telegram/uploader/part.go on every run (Gen/UploadPart.v). *)
From Coq Require Import ZArith List Bool Permutation.
From TD Require Import Gen.UploadPart Model.Upload Proof.Upload.
Import ListNotations.
Open Scope Z_scope.

(* computeParts is the ceiling of total / partSize, for ALL sizes (Z, unbounded) *)
Theorem C32_compute_parts :
  forall p total, 0 < p -> 0 < total ->
    (compute_parts_go p total - 1) * p < total <= compute_parts_go p total * p.
Proof. exact compute_parts_spec. Qed.
Print Assumptions C32_compute_parts.

(* automatic sizing, for ALL totals: the loop terminates, yields 128/256/512 KiB, a size that
   checkPartSize accepts, keeps the part count within partsLimit whenever the size permits
   (total <= partsLimit * 512 KiB), and is the smallest size doing so *)
Theorem C32_auto_part_size :
  forall total, exists ps,
    compute_part_size total = Some ps /\ valid_auto_size ps /\ check_part_size_go ps = 0 /\
    (total <= c_partsLimit * c_MaximumPartSize -> compute_parts_go ps total <= c_partsLimit) /\
    (c_defaultPartSize < ps -> c_partsLimit < compute_parts_go (ps / 2) total).
Proof. exact cps_correct. Qed.
Print Assumptions C32_auto_part_size.

(* The clause "automatic part sizing keeps n within the 3999-part limit" for EVERY size is false for
   the code as it is: beyond partsLimit * 512 KiB (about 1.95 GiB) the automatic size stays at
   512 KiB, initUpload checks the limit only for small files, and the upload proceeds with more than
   3999 parts; and for a stream of unknown size there is no sizing and no check at all, so any stream
   longer than 3999 parts of the configured size gets part numbers >= 3999 (with C32_big: n = number
   of parts read).  What holds is C32_auto_part_size (the premise total <= partsLimit * 512 KiB). *)
Theorem C32_parts_limit_refuted :
  (exists total ps tp, upload_plan true c_defaultPartSize total = Plan ps true tp /\ c_partsLimit < tp) /\
  (forall auto cfg, check_part_size_go cfg = 0 -> upload_plan auto cfg (-1) = Plan cfg true (-1)).
Proof.
  split.
  - exists (c_partsLimit * c_MaximumPartSize + 1), c_MaximumPartSize, (c_partsLimit + 1). vm_compute. split; reflexivity.
  - intros auto cfg H. unfold upload_plan. replace (auto && (-1 >? 0)) with false by (destruct auto; reflexivity).
    rewrite H. reflexivity.
Qed.
Print Assumptions C32_parts_limit_refuted.

(* what Uploader.Upload decides before entering a loop *)
Theorem C32_plan :
  forall auto cfg total ps big tp,
    upload_plan auto cfg total = Plan ps big tp ->
    check_part_size_go ps = 0 /\
    (if auto && (total >? 0) then compute_part_size total = Some ps else ps = cfg) /\
    (total = -1 -> big = true /\ tp = -1) /\
    (total <> -1 -> big = (total >? c_bigFileLimit) /\ tp = compute_parts_go ps total /\
                    (big = false -> tp <= c_partsLimit)).
Proof. exact upload_plan_inv. Qed.
Print Assumptions C32_plan.

(* successive io.ReadFull calls: the parts concatenate to the source, all but the last are
   full, the last is non-empty, and their number is computeParts -- for ALL sources *)
Theorem C32_chunks :
  forall (p : nat) (src : list Z), (1 <= p)%nat ->
    concat (chunks p src) = src /\ wf_chunks p (chunks p src) /\
    Z.of_nat (length (chunks p src)) = compute_parts_go (Z.of_nat p) (Z.of_nat (length src)).
Proof. intros p src Hp. split; [apply chunks_concat; exact Hp|]. split; [apply chunks_wf; exact Hp|apply chunks_count; exact Hp]. Qed.
Print Assumptions C32_chunks.

Section WithMD5.
Variable H : Type.
Variable md5 : list Z -> H.     (* abstract MD5 *)

(* Small files: for ALL sources, part sizes (explicit or automatic) and ALL answer patterns
   (true / false / FLOOD_WAIT in any order): if the upload returns a descriptor then the
   accepted requests are exactly parts 0..n-1, each once, in order, their bytes are the
   source, n <= partsLimit, the size is at most 10 MiB and the descriptor is
   InputFile{Parts: n, MD5: md5 of the source}. *)
Theorem C32_small :
  forall auto cfg (src : list Z) ps tp env log d,
    upload_plan auto cfg (Z.of_nat (length src)) = Plan ps false tp -> 0 < ps ->
    upload_small H md5 ps src env = (log, Some d) ->
    let cs := chunks (Z.to_nat ps) src in
    s_acc (list Z) log = index_from 0 cs /\ concat (map snd (s_acc (list Z) log)) = src /\
    wf_chunks (Z.to_nat ps) cs /\ tp = Z.of_nat (length cs) /\ tp <= c_partsLimit /\
    Z.of_nat (length src) <= c_bigFileLimit /\ d = InputFile tp (md5 src).
Proof. exact (small_upload_correct H md5). Qed.

(* Big files and streams: for ALL sources, part sizes, thread counts, ALL schedules of the
   reader and the workers and ALL answer patterns: if the upload returns a descriptor then
   the confirmed parts are a permutation of parts 0..n-1 (each exactly once, with its own
   bytes), confirmations are exactly the accepted requests, every request ever sent carries a
   genuine (number, bytes) pair, the parts concatenate to the source, all but the last are
   full, the file is bigger than 10 MiB or of unknown size, descriptor InputFileBig{Parts: n}. *)
Theorem C32_big :
  forall auto cfg total (src : list Z) ps tp threads evs s d,
    upload_plan auto cfg total = Plan ps true tp ->
    total = -1 \/ total = Z.of_nat (length src) -> 0 < ps ->
    upload_big H ps threads tp src evs = (s, Some d) ->
    let cs := chunks (Z.to_nat ps) src in
    Permutation (b_acked s) (index_from 0 cs) /\ b_acc (list Z) (b_log s) = b_acked s /\
    Forall (fun q => In (bq_part q, bq_data q) (index_from 0 cs)) (b_log s) /\
    concat cs = src /\ wf_chunks (Z.to_nat ps) cs /\
    (total = -1 \/ c_bigFileLimit < total) /\ d = InputFileBig (Z.of_nat (length cs)).
Proof. exact (big_upload_correct H). Qed.
End WithMD5.
Print Assumptions C32_small.
Print Assumptions C32_big.

(* C32_big is not vacuous: for every source and every thread count >= 1 some schedule ends the
   upload (one worker, every request answered true). *)
Theorem C32_big_terminates :
  forall ps threads tp (src : list Z), 0 < ps -> 1 <= threads ->
    exists evs, b_terminal (b_run blen ps threads (b_init (chunks (Z.to_nat ps) src) tp) evs) = true.
Proof.
  intros ps threads tp src Hps Ht.
  exact (big_terminal_reachable (list Z) blen ps threads Ht _ tp (chunks_wf_parts_Z ps src Hps)).
Qed.
Print Assumptions C32_big_terminates.

(* file_total_parts: every request carries the initial value (-1 only for unknown sizes) or
   the true count; once the count is known (state s1) it is the true count and every request
   sent afterwards carries it -- for ALL schedules before (evs1) and after (evs2) *)
Theorem C32_total_parts :
  forall ps threads tp (src : list Z) evs1 evs2, 0 < ps ->
    let cs := chunks (Z.to_nat ps) src in
    tp = -1 \/ tp = Z.of_nat (length cs) ->
    let s1 := b_run blen ps threads (b_init cs tp) evs1 in
    let s2 := b_run blen ps threads s1 evs2 in
    Forall (fun q => bq_total q = tp \/ bq_total q = Z.of_nat (length cs)) (b_log s2) /\
    (b_total s1 <> -1 ->
       b_total s1 = Z.of_nat (length cs) /\
       exists l, b_log s2 = b_log s1 ++ l /\ Forall (fun q => bq_total q = Z.of_nat (length cs)) l).
Proof. exact big_total_parts. Qed.
Print Assumptions C32_total_parts.

(* unknown size: the count is learned exactly when a SHORT last part has been read (so a
   finished upload of such a source knows it); for a size that is an exact multiple of the
   part size no part is short, the count is never learned and every part carries -1
   (observation recorded in DESIGN.md, consistent with "once it is known") *)
Theorem C32_total_learned :
  forall ps threads (src : list Z) evs, 0 < ps ->
    let cs := chunks (Z.to_nat ps) src in
    let s := b_run blen ps threads (b_init cs (-1)) evs in
    (b_total s = -1 \/ b_total s = Z.of_nat (length cs)) /\
    (b_total s <> -1 -> exists c, nth_error cs (length cs - 1) = Some c /\ blen c < ps) /\
    (b_terminal s = true -> (exists c, nth_error cs (length cs - 1) = Some c /\ blen c < ps) ->
     b_total s = Z.of_nat (length cs)).
Proof. exact big_total_learned. Qed.
Print Assumptions C32_total_learned.

(* non-vacuity: a stream of 2500 bytes, 1 KiB parts, 2 workers, a schedule with a FLOOD_WAIT
   and a false answer: terminal, three parts, totals -1 -1 -1 -1 3 (DESIGN section 8) *)
Definition C32_demo_src : list Z := repeat 7 2500.
Definition C32_demo_evs : list bevent :=
  [ERead; EQueue; ETake; ESend 0 RFlood; ERead; EQueue; ETake; ESend 1 RTrue; ESend 0 RFalse;
   ESend 0 RTrue; ERead; EQueue; ETake; ESend 0 RTrue].
Example C32_big_nonvacuous :
  upload_plan false 1024 (-1) = Plan 1024 true (-1) /\
  let '(s, d) := upload_big unit 1024 2 (-1) C32_demo_src C32_demo_evs in
  d = Some (InputFileBig 3) /\ map bq_total (b_log s) = [-1; -1; -1; -1; 3] /\
  map bq_part (b_log s) = [0; 1; 0; 0; 2].
Proof. vm_compute. repeat split. Qed.
Example C32_small_nonvacuous :
  upload_plan true 131072 2500 = Plan 131072 false 1 /\
  snd (upload_small (list Z) (fun x => x) 131072 C32_demo_src [RFlood; RFalse; RTrue]) =
  Some (InputFile 1 C32_demo_src).
Proof. vm_compute. split; reflexivity. Qed.
