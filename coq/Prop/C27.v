(* C27 -- The connection pool respects its limit and never shares a connection:
   "A pool never has more live connections than its configured maximum, never hands a connection
   that is in use to a second caller, and never hands out a connection that has died."
   Statements only; the model is Model/Pool.v (pool.DC after the `fix: pool: ...` repairs), the proofs
   are in Proof/Pool.v, Proof/PoolThm.v.  `reachable max st` quantifies over ALL event lists: any
   interleaving of any number of callers, connections, requests, cancellations, deaths and Close. *)
From Coq Require Import ZArith List Bool.
From TD Require Import Gen.PoolDecide Model.Pool Proof.PoolTac Proof.Pool Proof.PoolThm Proof.PoolRun.
Import ListNotations.
Open Scope Z_scope.

(* What "live connections" means here.  Two readings of the first clause are stated separately:
   COUNTED  = slots reserved by callers about to create + created connections whose death the pool has not
              recorded (`counted`); this is what the pool can know, and C27_limit bounds it for ALL runs.
   RUNNING  = created connections whose Run has not returned (`running`).  A connection whose death was
              recorded by the mark-dead path of Invoke (retryable error) may still be running, so RUNNING
              is bounded only under the environment premise `strict_ok` (a connection reports the retryable
              dead error only after its Run returned): C27_running_partial.  Without the premise the bound
              fails: C27_running_refuted -- max = 1, two running connections.  The premise is NOT guaranteed
              by pool.Conn implementations: telegram/internal/manager.Conn surfaces rpc.ErrEngineClosed /
              ErrConnDead while Run is still unwinding, and pool_test.go's invokeErrConn reports ErrConnDead
              with Run alive and expects a second connection with MaxOpenConnections = 1
              (TestDC_InvokeRetryOnDeadConn), so the transient max+1 is behaviour the existing suite fixes:
              known finding `running-exceeds-max:dead-reported-before-run-exit`.
   "has died" in the third clause means "death recorded by the pool" (c_dead); a connection whose Run has
   returned but whose dead() region has not run yet can still be handed out (inherent: the pool learns
   about a death only through dead()). *)

(* counted-live = total <= max (max < 1 means unlimited, as in the code); the dead() region never
   drives the counter negative (its panic is unreachable). *)
Theorem C27_limit : forall max st, reachable max st ->
  s_total st = counted st /\ (1 <= max -> s_total st <= max) /\ s_panicked st = false.
Proof. exact limit. Qed.
Print Assumptions C27_limit.

(* RUNNING connections, under the environment premise: never more than the counter, hence never more than max *)
Theorem C27_running_partial : forall max l st, run (init max) l = Some st -> strict_run (init max) l ->
  running (s_conns st) (s_created st) <= s_total st /\ (1 <= max -> running (s_conns st) (s_created st) <= max).
Proof. exact running_limit. Qed.
Print Assumptions C27_running_partial.

(* ... and without the premise the full statement "never more RUNNING connections than max" is refuted:
   connection 1 reports a retryable dead error while its Run is alive, the holder records its death and
   creates connection 2 (max = 1, two running connections, counter 1) *)
Definition C27_running_witness : list event :=
  [EStart 0; ENew 0 1; ECreate 0 1; EReady 1; ENewReady 0; ECheck 0 true; EInvRet 0 RDead true; EDeadBy 0 1;
   ENew 0 1; ECreate 0 2].
Theorem C27_running_refuted :
  exists st, run (init 1) C27_running_witness = Some st /\ s_total st = 1 /\ running (s_conns st) (s_created st) = 2.
Proof. eexists. split; [vm_compute; reflexivity|]. split; vm_compute; reflexivity. Qed.
Print Assumptions C27_running_refuted.
(* non-vacuity of the premise: the transfer trace below satisfies it *)
Example C27_strict_nonvacuous : strict_run (init 1) [EStart 0; ENew 0 1; ECreate 0 1; EReady 1; ENewReady 0; ECheck 0 true;
                                                     ERunExit 1; EInvRet 0 RDead true; EDeadBy 0 1].
Proof. simpl. repeat split. intros c H. cbv in H. injection H as <-. reflexivity. Qed.

(* one recorded death frees one slot: after the death of c is recorded no dead() region for c is enabled,
   whoever calls dead() (the connection's Run goroutine or a holder whose Invoke failed retryably) *)
Theorem C27_death_recorded_once : forall max st, reachable max st ->
  forall c, dead_in (s_conns st) c = true ->
    step st (ERunDead c) = None /\ forall x, step st (EDeadBy x c) = None.
Proof. exact death_recorded_once. Qed.
Print Assumptions C27_death_recorded_once.

(* a connection has at most one holder (a caller that is creating it, checking it, invoking on it,
   marking it dead or releasing it) ... *)
Theorem C27_exclusive : forall max st, reachable max st ->
  forall x y c, held_conn (s_pc st x) = Some c -> held_conn (s_pc st y) = Some c -> x = y.
Proof. exact exclusive. Qed.
Print Assumptions C27_exclusive.

(* ... and while it is held it is neither in the free list nor in a request channel, so no pop and no
   transfer can give it to a second caller. *)
Theorem C27_held_not_idle : forall max st, reachable max st ->
  forall x c, held_conn (s_pc st x) = Some c -> ~ In c (s_free st) /\ forall k, s_chan st k <> Some c.
Proof. exact held_not_idle. Qed.
Print Assumptions C27_held_not_idle.

(* acquire returns c to caller x (x starts to hold c for Invoke) only by a Dead() read that found the
   death of c not recorded at that moment: the hand-out decision. Holds for every state, reachable or not. *)
Theorem C27_no_dead_handout : forall st e st' x c,
  step st e = Some st' -> s_pc st' x = PHolding c -> s_pc st x <> PHolding c ->
  dead_in (s_conns st) c = false /\ s_pc st x = PCheck c /\ e = ECheck x true.
Proof. exact no_dead_handout. Qed.
Print Assumptions C27_no_dead_handout.

(* non-vacuity: a reachable state with max = 1 in which caller 1 got connection 1 by a transfer
   from caller 0, and the hand-out step exists *)
Definition C27_trace : list event :=
  [EStart 0; ENew 0 1; ECreate 0 1; EReady 1; ENewReady 0; ECheck 0 true; EStart 1; EReg 1 1;
   EInvRet 0 ROk false; ERelease 0 1 (Transferred 1); EWaitGot 1 1].
Example C27_nonvacuous :
  exists st st', run (init 1) C27_trace = Some st /\ reachable 1 st /\ s_total st = 1 /\
                 step st (ECheck 1 true) = Some st' /\ s_pc st' 1%nat = PHolding 1 /\ s_pc st 1%nat <> PHolding 1.
Proof.
  destruct (run (init 1) C27_trace) as [st|] eqn:E; [|vm_compute in E; discriminate].
  destruct (step st (ECheck 1 true)) as [st'|] eqn:E'.
  - exists st, st'. split; [reflexivity|]. split; [exists C27_trace; exact E|].
    revert E'. vm_compute in E. injection E as <-. vm_compute. intros E'. injection E' as <-.
    repeat split; try reflexivity. discriminate.
  - exfalso. revert E'. vm_compute in E. injection E as <-. vm_compute. discriminate.
Qed.

(* the Dead() read is effective: a connection that dies while it sits in the request channel is not
   handed out (corpus schedule f on the unrepaired code returned it) *)
Example C27_death_in_channel :
  exists st, run (init 1) (C27_trace ++ [ERunExit 1; ESwapRun 1; ERunDead 1; ECheck 1 false]) = Some st /\
             s_pc st 1%nat = PRetry /\ step st (ECheck 1 true) = None.
Proof. eexists. split; [vm_compute; reflexivity|]. split; vm_compute; reflexivity. Qed.
