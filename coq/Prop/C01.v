(* C01 -- Sequenced updates reach the handler in order and at most once.
   Only statements; definitions in Model/SeqBox.v, proofs in Proof/SeqBox.v.
   [check_gap_go] inside the model is regenerated from telegram/updates/gap_check.go on
   every run (Gen/GapCheck.v).

   Vocabulary (Proof/SeqBox.v):
     nz u        := ust u <> 0                       "non-zero position"
     wf u        := ust u <> 0 /\ 0 <= ucnt u        what validatePts + non-zero allow
     op_P P o    := P u when o = Handle u, True for SetState / ClearGaps
     chain s us e: us = u1..uk, start u1 = s, start u(i+1) = end ui, end uk = e
     step_ok b o b' evs :=
          (evs = [] /\ (bstate b' = bstate b \/ exists z, o = SetState z /\ bstate b' = z))
       \/ (exists s' us, evs = [Dlv s' us] /\ us <> [] /\ chain (bstate b) us s'
                         /\ bstate b' = s' /\ (exists u, o = Handle u) /\ ...)
     mono_ops b ops : every SetState z in ops is executed at a position <= z
     advancing tr : the delivered updates with count > 0, in delivery order
     before u v   := uend u <= ustart v
     cov h p      : p lies in (start v, end v] of a delivered v in h, or p <= z for a SetState z in h

   The theorems hold for EVERY operation list (any length, any loss / duplication /
   reordering / overlap / late fill / interleaved differences) and every initial box whose
   pending buffer holds non-zero positions (in particular the freshly created box). *)
From Coq Require Import ZArith List Bool Sorted Lia.
From TD Require Import Gen.GapCheck Model.SeqBox Proof.SeqBox.
Import ListNotations.
Open Scope Z_scope.

(* Every apply-callback invocation hands over a non-empty contiguous chain that starts at
   the current position; the position afterwards is the end of that chain.  Without a
   delivery the position is unchanged or is the argument of a SetState: it never skips a
   position silently.  No operation panics (evs is [] or a single Dlv). *)
Theorem C01_chain : forall ops b,
  pend_nz b -> Forall (op_P nz) ops -> Forall rec_ok (run b ops).
Proof. exact run_chain. Qed.
Print Assumptions C01_chain.

(* If fetched differences never move the position backwards, the advancing delivered
   updates have strictly increasing, pairwise disjoint ranges [start,end) ... *)
Theorem C01_at_most_once : forall ops b,
  pend_wf b -> Forall (op_P wf) ops -> mono_ops b ops ->
  StronglySorted before (advancing (flat_trace b ops)).
Proof. exact at_most_once. Qed.
Print Assumptions C01_at_most_once.

(* ... hence no advancing update (and no two overlapping ones) is delivered twice. *)
Theorem C01_no_redelivery : forall ops b,
  pend_wf b -> Forall (op_P wf) ops -> mono_ops b ops -> NoDup (advancing (flat_trace b ops)).
Proof. exact no_redelivery. Qed.
Print Assumptions C01_no_redelivery.

(* When u is delivered, every position above the initial one up to start u lies in an
   earlier delivered range or below an earlier SetState (fetched difference). *)
Theorem C01_covered : forall ops b, pend_nz b -> Forall (op_P nz) ops ->
  forall pre u post, flat_trace b ops = pre ++ FD u :: post ->
  forall p, bstate b < p <= ustart u -> cov pre p.
Proof. exact covered. Qed.
Print Assumptions C01_covered.

(* Documented boundary (why the statement restricts itself to non-zero positions): an
   update whose position is 0 is applied whatever the local position and resets it to 0.
   handleQts / handleAffected filter 0, handlePts does not. *)
Theorem C01_zero_position_resets :
  step (box_init 7) (Handle {| uid := 1; ust := 0; ucnt := 1 |}) =
  (box_init 0, [Dlv 0 [{| uid := 1; ust := 0; ucnt := 1 |}]]).
Proof. vm_compute. reflexivity. Qed.
Print Assumptions C01_zero_position_resets.

(* Second documented boundary: counts are assumed >= 0 (wf). handleSeq passes
   Count = Seq - SeqStart + 1 to the seq box and validateSeq does not reject SeqStart > Seq,
   so a combined container with SeqStart = Seq + 2 has Count = -1: it is applied exactly when
   the local position is one ABOVE its seq and moves the position back. *)
Theorem C01_negative_count_regresses :
  step (box_init 8) (Handle {| uid := 1; ust := 7; ucnt := -1 |}) =
  (box_init 7, [Dlv 7 [{| uid := 1; ust := 7; ucnt := -1 |}]]).
Proof. vm_compute. reflexivity. Qed.
Print Assumptions C01_negative_count_regresses.

(* non-vacuity: a history satisfying all hypotheses in which a gap is opened, filled by
   late arrivals (with a duplicate and an overlapping multi-count update), and a fetched
   difference intervenes; the chain u1,u4 is delivered at once (u4 = the multi-count
   update covering u2 and u3, which are then outdated and dropped). *)
Definition ex_u (i s c : Z) : upd := {| uid := i; ust := s; ucnt := c |}.
Definition ex_ops : list op :=
  [Handle (ex_u 3 13 1); Handle (ex_u 3 13 1); Handle (ex_u 1 11 1); Handle (ex_u 4 13 2);
   Handle (ex_u 2 12 1); ClearGaps; SetState 15; Handle (ex_u 5 16 1)].
Example C01_nonvacuous :
  pend_wf (box_init 10) /\ Forall (op_P wf) ex_ops /\ mono_ops (box_init 10) ex_ops /\
  flat_trace (box_init 10) ex_ops =
    [FD (ex_u 1 11 1); FD (ex_u 4 13 2); FS 15; FD (ex_u 5 16 1)].
Proof.
  split; [constructor|]. split.
  - repeat constructor; simpl; unfold wf; simpl; lia.
  - split; [vm_compute; intuition discriminate|vm_compute; reflexivity].
Qed.
