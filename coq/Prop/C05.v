(* C05 -- Tampered, reflected or foreign ciphertexts are rejected.
   Only statements; proofs live in Proof/MsgAccept.v.

   What is PROVED without any cryptographic assumption: the exact acceptance condition of
   Cipher.DecryptFromBuffer (C05_accept_iff), its totality, that an error carries no data
   (structural: the result type), and the rejections decided before any hashing.

   What needs assumptions is stated with the assumption as an explicit hypothesis:
     aes_inverse' aes_enc aes_dec  : aes_enc k (aes_dec k b) = b, |aes_dec k b| = 16 (AES is a permutation)
     no_collision sha256 a b       : the 128 middle bits of SHA-256 do not collide on the two
                                     inputs a b named in the statement.
   A modification of the msg_key itself cannot be excluded by collision freedom (no second
   preimage is involved): C05_tamper_accepted_is_forgery states exactly what an accepted
   modified message must be -- a complete genuine sealing of another plaintext under the
   secret key bytes auth_key[88+x .. 120+x), i.e. a forgery of the MAC. *)
From Coq Require Import ZArith List Bool Lia.
From TD Require Import Lib.Bytes Lib.GoSem Gen.CipherConsts Model.MsgCrypto Proof.MsgCrypto Proof.MsgAccept.
Import ListNotations.
Open Scope Z_scope.

(* accept_spec s k c d  :=  (Model/MsgCrypto.v)
     24 <= |c|  /\  c[0..8) = k.id  /\  16 | |c| - 24  /\
     with mk = c[8..24), pt = IGE^-1 (Keys (k, mk, other s)) c[24..) :
     MessageKey (k, pt, other s) = mk  /\  32 <= |pt|  /\  d = the fields of pt  /\
     0 <= d.len <= |d.body|  /\  4 | d.len  /\  minPadding <= |d.body| - d.len <= maxPadding *)
Theorem C05_accept_iff :
  forall (sha256 : list Z -> list Z) (aes_dec : list Z -> list Z -> list Z)
         (s : side) (k : authkey) (c : list Z) (d : dec),
    decrypt sha256 aes_dec s k c = Ok d <-> accept_spec sha256 aes_dec s k c d.
Proof. exact decrypt_accept_iff. Qed.
Print Assumptions C05_accept_iff.

(* Arbitrary bytes never crash the decryption; the result is a message or an error without data. *)
Theorem C05_decrypt_total :
  forall sha256 aes_dec s k c, decrypt sha256 aes_dec s k c <> Panic.
Proof. exact decrypt_no_panic. Qed.
Print Assumptions C05_decrypt_total.

Theorem C05_ok_or_error_without_data :
  forall sha256 aes_dec s k c,
    (exists d, decrypt sha256 aes_dec s k c = Ok d) \/ (exists e : err, decrypt sha256 aes_dec s k c = Err e).
Proof. exact decrypt_ok_or_err. Qed.
Print Assumptions C05_ok_or_error_without_data.

(* Any change of the auth key id, and any length that is too short or not block aligned. *)
Theorem C05_reject_key_id :
  forall sha256 aes_dec s k c,
    24 <= Z.of_nat (length c) -> firstn 8 c <> ak_id k -> decrypt sha256 aes_dec s k c = Err EKeyId.
Proof. exact reject_key_id. Qed.
Print Assumptions C05_reject_key_id.
Theorem C05_reject_short :
  forall sha256 aes_dec s k c, Z.of_nat (length c) < 24 -> decrypt sha256 aes_dec s k c = Err EShort.
Proof. exact reject_short. Qed.
Print Assumptions C05_reject_short.
Theorem C05_reject_unaligned :
  forall sha256 aes_dec s k c,
    24 <= Z.of_nat (length c) -> firstn 8 c = ak_id k -> (Z.of_nat (length c) - 24) mod 16 <> 0 ->
    decrypt sha256 aes_dec s k c = Err EAlign.
Proof. exact reject_unaligned. Qed.
Print Assumptions C05_reject_unaligned.

(* Every accepted byte string is exactly the peer's sealing of the plaintext it decrypts to. *)
Theorem C05_accepted_is_peer_output :
  forall sha256 aes_enc aes_dec, aes_inverse' aes_enc aes_dec ->
  forall s k c d, decrypt sha256 aes_dec s k c = Ok d ->
    c = sealed sha256 aes_enc (other s) k (decrypted_plaintext sha256 aes_dec s k c) /\
    seal sha256 aes_enc (other s) k (decrypted_plaintext sha256 aes_dec s k c) = Ok c /\
    d = parse_data (decrypted_plaintext sha256 aes_dec s k c).
Proof. exact accepted_is_sealed. Qed.
Print Assumptions C05_accepted_is_peer_output.

(* Genuine message ct = sealed s k padded (what side s sends).  Any other byte string with
   the same key id and msg_key -- bit flips anywhere in the body, truncation, extension,
   block reordering, splicing -- is rejected by the other side unless SHA-256 collides. *)
Theorem C05_reject_body_tamper :
  forall sha256 aes_enc aes_dec, aes_inverse' aes_enc aes_dec ->
  forall (s : side) (k : authkey) (padded : list Z), length (ak_id k) = 8%nat ->
  forall c' : list Z,
    firstn 24 c' = firstn 24 (sealed sha256 aes_enc s k padded) ->
    c' <> sealed sha256 aes_enc s k padded ->
    no_collision sha256 (mac_input (ak_value k) (decrypted_plaintext sha256 aes_dec (other s) k c') s)
                        (mac_input (ak_value k) padded s) ->
    exists e : err, decrypt sha256 aes_dec (other s) k c' = Err e.
Proof. exact reject_body_tamper. Qed.
Print Assumptions C05_reject_body_tamper.

(* Reflection: the side that produced ct decrypts it.  Rejected unless SHA-256 collides,
   provided the two 32-byte key windows differ (they coincide e.g. for a constant key, for
   which MTProto 2.0 itself has no direction separation). *)
Theorem C05_reject_reflection :
  forall sha256 aes_enc aes_dec (s : side) (k : authkey) (padded : list Z),
    length (ak_id k) = 8%nat -> length (ak_value k) = 256%nat ->
    gslice (ak_value k) (88 + x_of s) (32 + 88 + x_of s)
      <> gslice (ak_value k) (88 + x_of (other s)) (32 + 88 + x_of (other s)) ->
    no_collision sha256
      (mac_input (ak_value k) (decrypted_plaintext sha256 aes_dec s k (sealed sha256 aes_enc s k padded)) (other s))
      (mac_input (ak_value k) padded s) ->
    exists e : err, decrypt sha256 aes_dec s k (sealed sha256 aes_enc s k padded) = Err e.
Proof. exact reject_reflection. Qed.
Print Assumptions C05_reject_reflection.

(* A message under another auth key: rejected outright when the ids differ; with equal ids,
   rejected unless SHA-256 collides, provided the msg_key windows of the two keys differ. *)
Theorem C05_reject_foreign_key :
  forall sha256 aes_enc aes_dec (s : side) (k : authkey) (padded : list Z) (n : nat),
    length (ak_id k) = 8%nat -> length padded = (16 * n)%nat ->
  forall k2 : authkey,
    length (ak_value k) = 256%nat -> length (ak_value k2) = 256%nat ->
    ak_id k2 <> ak_id k \/
    (gslice (ak_value k2) (88 + x_of s) (32 + 88 + x_of s) <> gslice (ak_value k) (88 + x_of s) (32 + 88 + x_of s) /\
     no_collision sha256
       (mac_input (ak_value k2) (decrypted_plaintext sha256 aes_dec (other s) k2 (sealed sha256 aes_enc s k padded)) s)
       (mac_input (ak_value k) padded s)) ->
    exists e : err, decrypt sha256 aes_dec (other s) k2 (sealed sha256 aes_enc s k padded) = Err e.
Proof. exact reject_foreign_key. Qed.
Print Assumptions C05_reject_foreign_key.

(* Whatever modified message is accepted at all is a complete, genuine sealing of a different
   plaintext (a MAC forgery). *)
Theorem C05_tamper_accepted_is_forgery :
  forall sha256 aes_enc aes_dec, aes_inverse' aes_enc aes_dec ->
  forall (s : side) (k : authkey) (padded c' : list Z) (d : dec),
    c' <> sealed sha256 aes_enc s k padded ->
    decrypt sha256 aes_dec (other s) k c' = Ok d ->
    exists pt' : list Z, pt' <> padded /\ c' = sealed sha256 aes_enc s k pt' /\ d = parse_data pt'.
Proof. exact tamper_accepted_is_forgery. Qed.
Print Assumptions C05_tamper_accepted_is_forgery.

(* ---- non-vacuity: every hypothesis set is satisfiable (toy primitives: the "hash" exposes
   16 bytes of the message after the 32-byte key window, the block cipher is the identity) ---- *)
Definition toy_sha (m : list Z) : list Z := firstn 32 (repeat 0 8 ++ skipn 32 m ++ repeat 0 32).
Definition toy_aes (k b : list Z) : list Z := b.
Definition ex_k : authkey := {| ak_value := map Z.of_nat (seq 0 256); ak_id := [1; 2; 3; 4; 5; 6; 7; 8] |}.
Definition ex_k2 : authkey := {| ak_value := map (fun i => Z.of_nat (255 - i)) (seq 0 256); ak_id := [1; 2; 3; 4; 5; 6; 7; 8] |}.
Definition ex_padded : list Z :=
  encode_data {| h_salt := 11; h_session := -22; h_msg_id := 33; h_seq_no := 5 |} 4 ([1; 2; 3; 4] ++ repeat 9 12).
Definition ex_ct : list Z := sealed toy_sha toy_aes Client ex_k ex_padded.

Example C05_aes_hypotheses_satisfiable : aes_inverse toy_aes toy_aes /\ aes_inverse' toy_aes toy_aes.
Proof. split; intros k b Hb; (split; [reflexivity|exact Hb]). Qed.

Example C05_accepts_something :
  exists d, decrypt toy_sha toy_aes Server ex_k ex_ct = Ok d.
Proof. eexists. vm_compute. reflexivity. Qed.

Example C05_body_tamper_hypotheses_satisfiable :
  let c' := firstn 24 ex_ct ++ map (Z.lxor 1) (skipn 24 ex_ct) in
  length (ak_id ex_k) = 8%nat /\ firstn 24 c' = firstn 24 ex_ct /\ c' <> ex_ct /\
  no_collision toy_sha (mac_input (ak_value ex_k) (decrypted_plaintext toy_sha toy_aes (other Client) ex_k c') Client)
                       (mac_input (ak_value ex_k) ex_padded Client).
Proof.
  cbv zeta. split; [reflexivity|]. split; [vm_compute; reflexivity|]. split; [vm_compute; discriminate|].
  intros H. vm_compute in H. discriminate H.
Qed.

Example C05_reflection_hypotheses_satisfiable :
  length (ak_id ex_k) = 8%nat /\ length (ak_value ex_k) = 256%nat /\
  gslice (ak_value ex_k) (88 + x_of Client) (32 + 88 + x_of Client)
    <> gslice (ak_value ex_k) (88 + x_of (other Client)) (32 + 88 + x_of (other Client)) /\
  no_collision toy_sha
    (mac_input (ak_value ex_k) (decrypted_plaintext toy_sha toy_aes Client ex_k ex_ct) (other Client))
    (mac_input (ak_value ex_k) ex_padded Client).
Proof.
  split; [reflexivity|]. split; [reflexivity|]. split; [vm_compute; discriminate|].
  intros H. vm_compute in H. discriminate H.
Qed.

Example C05_foreign_key_hypotheses_satisfiable :
  length (ak_id ex_k) = 8%nat /\ length ex_padded = (16 * 3)%nat /\
  length (ak_value ex_k) = 256%nat /\ length (ak_value ex_k2) = 256%nat /\
  gslice (ak_value ex_k2) (88 + x_of Client) (32 + 88 + x_of Client)
    <> gslice (ak_value ex_k) (88 + x_of Client) (32 + 88 + x_of Client) /\
  no_collision toy_sha
    (mac_input (ak_value ex_k2) (decrypted_plaintext toy_sha toy_aes (other Client) ex_k2 ex_ct) Client)
    (mac_input (ak_value ex_k) ex_padded Client).
Proof.
  split; [reflexivity|]. split; [reflexivity|]. split; [reflexivity|]. split; [reflexivity|].
  split; [vm_compute; discriminate|]. intros H. vm_compute in H. discriminate H.
Qed.
