(* C05 -- Tampered, reflected or foreign ciphertexts are rejected.
   Only statements; proofs live in Proof/MsgAccept.v.

   What is PROVED without any cryptographic assumption: the exact acceptance condition of
   Cipher.DecryptFromBuffer (C05_accept_iff), its totality, that an error carries no data
   (structural: the result type), and the rejections decided before any hashing.

   The cryptographic content is stated WITHOUT any hypothesis on SHA-256, in the constructive
   form "accepting a modified / reflected / foreign message EXHIBITS an explicit collision":
     collision sha256 a b := a <> b /\ msg_key-bits (sha256 a) = msg_key-bits (sha256 b)
   (the 128 middle bits, i.e. substr (SHA256 (.), 8, 16)) on two inputs named in the statement.
   The only assumption on the primitives is that AES is a permutation on 16-byte blocks:
     aes_inverse' aes_enc aes_dec  : aes_enc k (aes_dec k b) = b, |aes_dec k b| = 16.
   A modification of the msg_key itself involves no collision at all (no second preimage):
   C05_tamper_accepted_is_forgery states exactly what an accepted modified message must be --
   a complete genuine sealing of another plaintext under the secret key bytes
   auth_key[88+x .. 120+x), i.e. a forgery of the MAC. *)
From Coq Require Import ZArith List Bool Lia.
From TD Require Import Lib.Bytes Lib.GoSem Gen.CipherConsts Model.MsgCrypto Proof.MsgCrypto Proof.MsgAccept.
Import ListNotations.
Open Scope Z_scope.

(* accept_spec s k c d  :=  (Model/MsgCrypto.v)
     24 <= |c|  /\  c[0..8) = k.id  /\  16 | |c| - 24  /\
     with mk = c[8..24), pt = IGE^-1 (Keys (k, mk, other s)) c[24..) :
     MessageKey (k, pt, other s) = mk  /\  32 <= |pt|  /\  d = the fields of pt  /\
     0 <= d.len <= |d.body|  /\  4 | d.len  /\  minPadding <= |d.body| - d.len <= maxPadding *)
Theorem C05_accept_iff :
  forall (sha256 : list Z -> list Z) (aes_dec : list Z -> list Z -> list Z)
         (s : side) (k : authkey) (c : list Z) (d : dec),
    decrypt sha256 aes_dec s k c = Ok d <-> accept_spec sha256 aes_dec s k c d.
Proof. exact decrypt_accept_iff. Qed.
Print Assumptions C05_accept_iff.

(* Arbitrary bytes never crash the decryption; the result is a message or an error without data. *)
Theorem C05_decrypt_total :
  forall sha256 aes_dec s k c, decrypt sha256 aes_dec s k c <> Panic.
Proof. exact decrypt_no_panic. Qed.
Print Assumptions C05_decrypt_total.

Theorem C05_ok_or_error_without_data :
  forall sha256 aes_dec s k c,
    (exists d, decrypt sha256 aes_dec s k c = Ok d) \/ (exists e : err, decrypt sha256 aes_dec s k c = Err e).
Proof. exact decrypt_ok_or_err. Qed.
Print Assumptions C05_ok_or_error_without_data.

(* Any change of the auth key id, and any length that is too short or not block aligned. *)
Theorem C05_reject_key_id :
  forall sha256 aes_dec s k c,
    24 <= Z.of_nat (length c) -> firstn 8 c <> ak_id k -> decrypt sha256 aes_dec s k c = Err EKeyId.
Proof. exact reject_key_id. Qed.
Print Assumptions C05_reject_key_id.
Theorem C05_reject_short :
  forall sha256 aes_dec s k c, Z.of_nat (length c) < 24 -> decrypt sha256 aes_dec s k c = Err EShort.
Proof. exact reject_short. Qed.
Print Assumptions C05_reject_short.
Theorem C05_reject_unaligned :
  forall sha256 aes_dec s k c,
    24 <= Z.of_nat (length c) -> firstn 8 c = ak_id k -> (Z.of_nat (length c) - 24) mod 16 <> 0 ->
    decrypt sha256 aes_dec s k c = Err EAlign.
Proof. exact reject_unaligned. Qed.
Print Assumptions C05_reject_unaligned.

(* Every accepted byte string is exactly the peer's sealing of the plaintext it decrypts to. *)
Theorem C05_accepted_is_peer_output :
  forall sha256 aes_enc aes_dec, aes_inverse' aes_enc aes_dec ->
  forall s k c d, decrypt sha256 aes_dec s k c = Ok d ->
    c = sealed sha256 aes_enc (other s) k (decrypted_plaintext sha256 aes_dec s k c) /\
    seal sha256 aes_enc (other s) k (decrypted_plaintext sha256 aes_dec s k c) = Ok c /\
    d = parse_data (decrypted_plaintext sha256 aes_dec s k c).
Proof. exact accepted_is_sealed. Qed.
Print Assumptions C05_accepted_is_peer_output.

(* Genuine message ct = sealed s k padded (what side s sends).  If the other side accepts any
   other byte string with the same key id and msg_key -- bit flips anywhere in the body,
   truncation, extension, block reordering, splicing -- then the two msg_key hash inputs
   (secret key window ++ plaintext) are different and collide. *)
Theorem C05_accepted_body_tamper_exhibits_collision :
  forall sha256 aes_enc aes_dec, aes_inverse' aes_enc aes_dec ->
  forall (s : side) (k : authkey) (padded : list Z), length (ak_id k) = 8%nat ->
  forall (c' : list Z) (d : dec),
    firstn 24 c' = firstn 24 (sealed sha256 aes_enc s k padded) ->
    c' <> sealed sha256 aes_enc s k padded ->
    decrypt sha256 aes_dec (other s) k c' = Ok d ->
    collision sha256 (mac_input (ak_value k) (decrypted_plaintext sha256 aes_dec (other s) k c') s)
                     (mac_input (ak_value k) padded s).
Proof. exact accepted_body_tamper_collides. Qed.
Print Assumptions C05_accepted_body_tamper_exhibits_collision.

(* Reflection: if the side that produced ct accepts it back, SHA-256 collides on the two inputs --
   provided the two 32-byte key windows differ (they coincide e.g. for a constant key, for which
   MTProto 2.0 itself has no direction separation). *)
Theorem C05_accepted_reflection_exhibits_collision :
  forall sha256 aes_enc aes_dec (s : side) (k : authkey) (padded : list Z),
    length (ak_id k) = 8%nat ->
  forall d : dec,
    length (ak_value k) = 256%nat ->
    gslice (ak_value k) (88 + x_of s) (32 + 88 + x_of s)
      <> gslice (ak_value k) (88 + x_of (other s)) (32 + 88 + x_of (other s)) ->
    decrypt sha256 aes_dec s k (sealed sha256 aes_enc s k padded) = Ok d ->
    collision sha256
      (mac_input (ak_value k) (decrypted_plaintext sha256 aes_dec s k (sealed sha256 aes_enc s k padded)) (other s))
      (mac_input (ak_value k) padded s).
Proof. exact accepted_reflection_collides. Qed.
Print Assumptions C05_accepted_reflection_exhibits_collision.

(* A message under another auth key k2: a different key id is rejected outright
   (C05_reject_key_id); if it is accepted, the ids are equal and -- provided the msg_key windows
   of the two keys differ -- SHA-256 collides on the two inputs. *)
Theorem C05_accepted_foreign_key_exhibits_collision :
  forall sha256 aes_enc aes_dec (s : side) (k : authkey) (padded : list Z),
    length (ak_id k) = 8%nat ->
  forall (k2 : authkey) (d : dec),
    length (ak_value k) = 256%nat -> length (ak_value k2) = 256%nat ->
    gslice (ak_value k2) (88 + x_of s) (32 + 88 + x_of s) <> gslice (ak_value k) (88 + x_of s) (32 + 88 + x_of s) ->
    decrypt sha256 aes_dec (other s) k2 (sealed sha256 aes_enc s k padded) = Ok d ->
    ak_id k2 = ak_id k /\
    collision sha256
      (mac_input (ak_value k2) (decrypted_plaintext sha256 aes_dec (other s) k2 (sealed sha256 aes_enc s k padded)) s)
      (mac_input (ak_value k) padded s).
Proof. exact accepted_foreign_key_collides. Qed.
Print Assumptions C05_accepted_foreign_key_exhibits_collision.

(* Whatever modified message is accepted at all is a complete, genuine sealing of a different
   plaintext (a MAC forgery). *)
Theorem C05_tamper_accepted_is_forgery :
  forall sha256 aes_enc aes_dec, aes_inverse' aes_enc aes_dec ->
  forall (s : side) (k : authkey) (padded c' : list Z) (d : dec),
    c' <> sealed sha256 aes_enc s k padded ->
    decrypt sha256 aes_dec (other s) k c' = Ok d ->
    exists pt' : list Z, pt' <> padded /\ c' = sealed sha256 aes_enc s k pt' /\ d = parse_data pt'.
Proof. exact tamper_accepted_is_forgery. Qed.
Print Assumptions C05_tamper_accepted_is_forgery.

(* ---- non-vacuity: every hypothesis set is satisfiable (toy primitives: the "hash" exposes
   16 bytes of the message after the 32-byte key window, the block cipher is the identity) ---- *)
Definition toy_sha (m : list Z) : list Z := firstn 32 (repeat 0 8 ++ skipn 32 m ++ repeat 0 32).
Definition toy_aes (k b : list Z) : list Z := b.
Definition ex_k : authkey := {| ak_value := map Z.of_nat (seq 0 256); ak_id := [1; 2; 3; 4; 5; 6; 7; 8] |}.
Definition ex_k2 : authkey := {| ak_value := map (fun i => Z.of_nat (255 - i)) (seq 0 256); ak_id := [1; 2; 3; 4; 5; 6; 7; 8] |}.
Definition ex_padded : list Z :=
  encode_data {| h_salt := 11; h_session := -22; h_msg_id := 33; h_seq_no := 5 |} 4 ([1; 2; 3; 4] ++ repeat 9 12).
Definition ex_ct : list Z := sealed toy_sha toy_aes Client ex_k ex_padded.

Example C05_aes_hypotheses_satisfiable : aes_inverse toy_aes toy_aes /\ aes_inverse' toy_aes toy_aes.
Proof. split; intros k b Hb; (split; [reflexivity|exact Hb]). Qed.

Example C05_accepts_something :
  exists d, decrypt toy_sha toy_aes Server ex_k ex_ct = Ok d.
Proof. eexists. vm_compute. reflexivity. Qed.

(* the premises of the three "exhibits a collision" theorems are jointly satisfiable: with a weak
   toy hash (it ignores everything after the first 16 plaintext bytes) a modified body, a reflected
   message and a foreign key ARE accepted, and the theorems then yield the toy hash's collision *)
Definition weak_sha (m : list Z) : list Z := firstn 32 (repeat 0 8 ++ firstn 16 (skipn 32 m) ++ repeat 0 32).
Definition ex_ctw : list Z := sealed weak_sha toy_aes Client ex_k ex_padded.
Definition ex_tampered : list Z := firstn 71 ex_ctw ++ map (Z.lxor 1) (skipn 71 ex_ctw).   (* last padding byte *)

Example C05_body_tamper_premises_satisfiable :
  length (ak_id ex_k) = 8%nat /\ firstn 24 ex_tampered = firstn 24 ex_ctw /\ ex_tampered <> ex_ctw /\
  exists d, decrypt weak_sha toy_aes (other Client) ex_k ex_tampered = Ok d.
Proof.
  split; [reflexivity|]. split; [vm_compute; reflexivity|]. split; [vm_compute; discriminate|].
  eexists. vm_compute. reflexivity.
Qed.

(* constant "hash": everything collides, so reflection and a foreign key with the same id pass *)
Definition const_sha (m : list Z) : list Z := repeat 7 32.
Definition ex_ctc : list Z := sealed const_sha toy_aes Client ex_k ex_padded.
Example C05_reflection_premises_satisfiable :
  length (ak_id ex_k) = 8%nat /\ length (ak_value ex_k) = 256%nat /\
  gslice (ak_value ex_k) (88 + x_of Client) (32 + 88 + x_of Client)
    <> gslice (ak_value ex_k) (88 + x_of (other Client)) (32 + 88 + x_of (other Client)) /\
  exists d, decrypt const_sha toy_aes Client ex_k ex_ctc = Ok d.
Proof.
  split; [reflexivity|]. split; [reflexivity|]. split; [vm_compute; discriminate|].
  eexists. vm_compute. reflexivity.
Qed.
Example C05_foreign_key_premises_satisfiable :
  length (ak_id ex_k) = 8%nat /\ length (ak_value ex_k) = 256%nat /\ length (ak_value ex_k2) = 256%nat /\
  gslice (ak_value ex_k2) (88 + x_of Client) (32 + 88 + x_of Client)
    <> gslice (ak_value ex_k) (88 + x_of Client) (32 + 88 + x_of Client) /\
  exists d, decrypt const_sha toy_aes (other Client) ex_k2 ex_ctc = Ok d.
Proof.
  split; [reflexivity|]. split; [reflexivity|]. split; [reflexivity|]. split; [vm_compute; discriminate|].
  eexists. vm_compute. reflexivity.
Qed.
