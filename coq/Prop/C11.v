(* C11 -- Exchange answer decryption reports every hash mismatch as an error.
   Only statements; proofs live in Proof/ExchangeAnswer.v.  SHA-1 and AES-IGE are
   abstract: the theorems hold for EVERY function put in their place. *)
From Coq Require Import ZArith List Bool.
From TD Require Import Lib.GoSem Gen.DataWithHash Model.ExchangeAnswer Proof.ExchangeAnswer.
Import ListNotations.
Open Scope Z_scope.

(* Full-strength statement: for ALL ciphertexts, keys and ivs (any lengths), the model of
   DecryptExchangeAnswer returns either [Ok d] where d is NON-EMPTY, is the slice
   plaintext[20 : len-i] for some padding length i in 0..15, and SHA1(d) is the embedded
   20-byte prefix; or an error.  It panics only for an iv that is not 32 bytes long
   (ige.DecryptBlocks' documented precondition). *)
Theorem C11_ok_or_err :
  forall (sha1 : list Z -> list Z) (ige_dec : list Z -> list Z -> list Z -> list Z) data key iv,
    match decrypt_answer sha1 ige_dec data key iv with
    | Ok d =>
        let p := ige_dec key iv data in
        d <> [] /\
        exists i, (i < 16)%nat /\ (sha1_size + length d + i = length p)%nat /\
                  d = cand p i /\ sha1 d = firstn sha1_size p
    | Err _ => True
    | Panic => length iv <> 32%nat
    end.
Proof. exact decrypt_ok_or_err. Qed.
Print Assumptions C11_ok_or_err.

Theorem C11_no_panic :
  forall sha1 ige_dec data key iv, length iv = 32%nat -> decrypt_answer sha1 ige_dec data key iv <> Panic.
Proof. exact decrypt_no_panic. Qed.
Print Assumptions C11_no_panic.

(* "reports every hash mismatch": when no padding length 0..15 yields a non-empty candidate
   with the embedded hash, the call does not succeed. *)
Theorem C11_mismatch_is_error :
  forall sha1 ige_dec data key iv,
    (forall i, matches sha1 (ige_dec key iv data) i -> cand (ige_dec key iv data) i = []) ->
    is_ok (decrypt_answer sha1 ige_dec data key iv) = false.
Proof. exact decrypt_mismatch_is_error. Qed.
Print Assumptions C11_mismatch_is_error.

(* Exactness (nothing else is rejected): well-formed lengths and a matching non-empty
   candidate imply success with the first matching candidate. *)
Theorem C11_accepts :
  forall sha1 ige_dec data key iv,
    aes_key_ok key = true -> Z.of_nat (length data) mod 16 = 0 -> length iv = 32%nat ->
    forall i, matches sha1 (ige_dec key iv data) i ->
      (forall j, (j <= i)%nat -> matches sha1 (ige_dec key iv data) j -> cand (ige_dec key iv data) j <> []) ->
      exists j, (j <= i)%nat /\ decrypt_answer sha1 ige_dec data key iv = Ok (cand (ige_dec key iv data) j).
Proof. exact decrypt_accepts. Qed.
Print Assumptions C11_accepts.

(* Round trip with EncryptExchangeAnswer (uses the generated paddedLen16), under the stated
   hypotheses on the abstract primitives. *)
Theorem C11_roundtrip :
  forall sha1 ige_dec ige_enc,
    (forall x, length (sha1 x) = sha1_size) ->
    (forall k iv p, ige_dec k iv (ige_enc k iv p) = p) ->
    (forall k iv p, length (ige_enc k iv p) = length p) ->
    forall rnd a key iv,
      aes_key_ok key = true -> length iv = 32%nat -> a <> [] -> (15 <= length rnd)%nat ->
      (forall j, sha1 (a ++ firstn j rnd) = sha1 a -> a ++ firstn j rnd = a) ->
      decrypt_answer sha1 ige_dec (encrypt_answer sha1 ige_enc rnd a key iv) key iv = Ok a.
Proof. exact decrypt_encrypt. Qed.
Print Assumptions C11_roundtrip.

(* The literals of the hand model are the ones in the source: loop `for i := 0; i < 16; i++` of
   GuessDataWithHash and sha1.Size are GENERATED (Gen/DataWithHash.v); a change of either in the Go
   code breaks this proof. *)
Theorem C11_constants_are_the_sources :
  Z.of_nat sha1_size = c_sha1_Size /\ c_guess_from = 0 /\ c_guess_to = 16 /\
  (forall sha1 dwh, (sha1_size < length dwh)%nat ->
     guess_data_with_hash sha1 dwh = guess_loop sha1 (Z.to_nat c_guess_to) (Z.to_nat c_guess_from) dwh (firstn (Z.to_nat c_sha1_Size) dwh)).
Proof.
  repeat split; try reflexivity.
  intros sha1 dwh H. unfold guess_data_with_hash.
  destruct (Nat.leb_spec (length dwh) sha1_size); [exfalso; apply (Nat.lt_irrefl (length dwh)); eapply Nat.le_lt_trans; eassumption|reflexivity].
Qed.

(* The defect that was repaired (fix commit in /repo, see known_findings.jsonl): the code
   tested the INPUT slice for nil instead of the guess result, so 64 zero bytes under a zero
   key gave (nil, nil).  Model of the old test, kept to document the witness shape: *)
Definition decrypt_answer_before_fix sha1 ige_dec (data key iv : list Z) : res aerr (option (list Z)) :=
  if negb (aes_key_ok key) then Err EKey
  else if negb (Z.of_nat (length data) mod 16 =? 0) then Err ELen
  else if negb (length iv =? 32)%nat then Panic
  else Ok (guess_data_with_hash sha1 (ige_dec key iv data)).   (* `data == nil` is false for any non-nil input *)
Example C11_old_code_refuted :
  decrypt_answer_before_fix (fun _ => [1]) (fun _ _ d => d) (repeat 0 64) (repeat 0 32) (repeat 0 32) = Ok None.
Proof. vm_compute. reflexivity. Qed.

(* non-vacuity of C11_roundtrip's hypotheses: identity "cipher", a length-20 injective-enough hash *)
Example C11_roundtrip_hyps_satisfiable :
  exists (sha1 : list Z -> list Z) (ige_dec ige_enc : list Z -> list Z -> list Z -> list Z),
    (forall x, length (sha1 x) = sha1_size) /\
    (forall k iv p, ige_dec k iv (ige_enc k iv p) = p) /\
    (forall k iv p, length (ige_enc k iv p) = length p) /\
    decrypt_answer sha1 ige_dec (encrypt_answer sha1 ige_enc (repeat 7 15) [1;2;3] (repeat 0 32) (repeat 0 32))
                   (repeat 0 32) (repeat 0 32) = Ok [1;2;3].
Proof.
  exists (fun x => Z.of_nat (length x) :: repeat 0 19), (fun _ _ d => d), (fun _ _ d => d).
  repeat split; try reflexivity.
Qed.
