(* C08 -- Outgoing message ids are unique, increasing and client-typed; sequence numbers.
   Only statements; proofs live in Proof/MsgId.v.  gen_run / seq_run thread the state through
   the functions that xlate regenerates from proto/message_id.go (MessageIDGen.New,
   NewMessageIDNano, newMessageID, MessageID.Type) and mtproto/write.go (nextMsgSeq). *)
From Coq Require Import ZArith List Bool Sorted.
From TD Require Import Gen.MsgIdGen Model.MsgId Proof.MsgId.
Import ListNotations.
Open Scope Z_scope.

(* For EVERY sequence of non-negative clock readings (frozen, jumping backwards, advancing
   by 1..3 ns, coarse, any length): one id per call; ids strictly increasing (so each is
   greater than all earlier ones, hence unique); every id is divisible by 4 and has the
   client type; and (good_from/step_ok, Model/MsgId.v) the time encoded by each id -- the
   nanosecond reading id_time_enc of what newMessageID writes -- is strictly later than that
   of the previous id, is at most 3 ns behind the clock reading of its call and never exceeds
   max(clock reading, previous encoded time + 13 ns).  The upper bound is one-sided on
   purpose: under a frozen or backwards clock the generator runs ahead of the clock by ~10 ns
   per call, without bound (inherent in "strictly increasing").
   The model equals the Go code (int64) while readings stay below 2^31 s (year 2038: intPart<<32)
   and the generator has not run that far ahead; the theorem itself is about unbounded Z.
   (Before fix 63dd45d22 this was refuted by the readings [1000; 1001]: same id twice.) *)
Theorem C08_strict : forall clocks,
  Forall (fun c => 0 <= c) clocks ->
  let ids := gen_run gen_init clocks in
  length ids = length clocks /\
  StronglySorted Z.lt ids /\
  Forall (fun id => id mod 4 = 0 /\ message_type_go id = c_MessageFromClient) ids /\
  good_from 0 (combine clocks ids).
Proof. exact gen_strict. Qed.
Print Assumptions C08_strict.

(* Under the SPECIFICATION's reading of an id (id / 2^32 seconds, which is what the receive-side
   window check mtproto.messageIDCreated decodes) every generated id reads between 0 and 0.77 s BEFORE the
   instant its low word encodes: the encoder writes nanoseconds where the protocol has 2^-32 s
   units.  So "close to the clock reading" holds within 0.77 s + 3 ns under that reading. *)
Theorem C08_spec_reading : forall clocks,
  Forall (fun c => 0 <= c) clocks ->
  Forall (fun id => 0 <= id_time_enc id - id_time_lib id < 770000000) (gen_run gen_init clocks).
Proof. exact gen_spec_reading. Qed.
Print Assumptions C08_spec_reading.

(* Sequence numbers, for EVERY sequence of content (true) / service (false) requests taken
   in the order of the reqMux critical sections: the i-th request gets 2k+1 if it is a
   content message and 2k otherwise, k = number of earlier content messages.  Go computes
   this in int32; the hypothesis (fewer than 2^30 content messages in the session) is exactly
   what keeps the value inside int32, which the second conjunct records. *)
Theorem C08_seq : forall kinds i,
  (i < length kinds)%nat ->
  count_true kinds < 2 ^ 30 ->
  let s := nth i (seq_run 0 kinds) 0 in
  s = 2 * count_true (firstn i kinds) + (if nth i kinds false then 1 else 0) /\
  0 <= s < 2 ^ 31.
Proof. exact seq_spec. Qed.
Print Assumptions C08_seq.

(* regression witness of the repaired defect, on the model regenerated from the source *)
Theorem C08_sub4ns_steps_distinct : gen_run gen_init [1000; 1001] = [1000; 1008].
Proof. exact sub4ns_distinct. Qed.
Print Assumptions C08_sub4ns_steps_distinct.

(* non-vacuity: the hypotheses are satisfiable by non-trivial inputs *)
Example C08_strict_nonvacuous :
  exists clocks, Forall (fun c => 0 <= c) clocks /\ length (gen_run gen_init clocks) = 4%nat.
Proof. exists [1000; 1001; 5; 1000]. split; [repeat constructor; discriminate | reflexivity]. Qed.
Example C08_seq_nonvacuous :
  exists kinds i, (i < length kinds)%nat /\ count_true kinds < 2 ^ 30 /\ nth i (seq_run 0 kinds) 0 = 3.
Proof. exists [true; false; true], 2%nat. repeat split; simpl; auto. Qed.
