(* C25 -- Unacknowledged requests are retransmitted with the same identity, boundedly.
   Only statements; model Model/Rpc.v, proofs Proof/Rpc.v. *)
From Coq Require Import ZArith List Bool.
From TD Require Import Model.Rpc Proof.Rpc Proof.RpcEnv.
Import ListNotations.
Open Scope Z_scope.

(* Identity: once a call has entered Do (state s1), every later transmission event of it
   -- first send or retransmission, whatever happens in between (tr2 arbitrary) -- carries
   the msg id, seq no and body it entered with. *)
Theorem C25_identity : forall mx tr1 tr2 s1 s2 s3 c m q b o,
  run (init mx) tr1 = Some s1 -> pc (calls s1 c) <> PIdle -> run s1 tr2 = Some s2 ->
  step s2 (CSend c m q b o) = Some s3 ->
  m = mid (calls s1 c) /\ q = seq (calls s1 c) /\ b = body (calls s1 c).
Proof. exact c25_identity. Qed.
Print Assumptions C25_identity.

(* (Negative MaxRetries is not guarded by the code: it transmits twice and reports the limit;
   excluded by 1 <= mx, Options.setDefaults maps 0 to 5.)
   Bound: with MaxRetries = mx >= 1 a call is transmitted at most 1 + mx times (failed
   attempts included), and it returns the retry-limit error exactly when mx
   retransmissions succeeded. *)
Theorem C25_bound : forall mx s c, 1 <= mx -> reach mx s ->
  nsends (calls s c) <= 1 + mx /\
  (forall r, pc (calls s c) = PReturned r -> (r = RLimit <-> retries (calls s c) = mx)).
Proof. exact c25_bound. Qed.
Print Assumptions C25_bound.

(* Quiet after ack. viol25 is raised by a retransmission whose timer branch was entered
   after the call's ack was delivered (NotifyAcks closed its channel), after its result /
   error handler completed, or after its context was cancelled (snap25 = deliv at
   CSelTimer); violleft by any transmission after the call left the retry loop. Neither
   is ever raised; when a retransmission is about to happen (PTimerGo) the snapshot is
   clear and nothing had been delivered when the branch polled. *)
Theorem C25_quiet_after_ack : forall mx s c, 1 <= mx -> reach mx s ->
  viol25 (calls s c) = false /\ violleft (calls s c) = false /\
  (pc (calls s c) = PTimerGo ->
     snap25 (calls s c) = false /\ ackclosed (calls s c) || rcancel (calls s c) = deliv (calls s c)).
Proof. exact c25_quiet. Qed.
Print Assumptions C25_quiet_after_ack.

(* "Re-sent every retry interval": while a call waits in the retry loop its timer is always
   pending (armed, or fired and not yet consumed); a fired timer can always be consumed; and in
   the timer branch, with no ack delivered and the context not cancelled, the retransmission
   is enabled and carries the call's identity -- one more transmission per timer expiry. *)
Theorem C25_retransmits : forall mx s c, 1 <= mx -> reach mx s ->
  (pc (calls s c) = PSelect -> armed (calls s c) || tval (calls s c) = true) /\
  (pc (calls s c) = PSelect -> tval (calls s c) = true -> exists s', step s (CSelTimer c) = Some s') /\
  (pc (calls s c) = PSelTimer -> ackclosed (calls s c) = false -> rcancel (calls s c) = false ->
     exists s1 s2, step s (CTimerGo c) = Some s1 /\
       step s1 (CSend c (mid (calls s c)) (seq (calls s c)) (body (calls s c)) 0) = Some s2 /\
       nsends (calls s2 c) = nsends (calls s c) + 1).
Proof. exact c25_retransmits. Qed.
Print Assumptions C25_retransmits.

(* Quiet after ack, with the acknowledgement defined from the ENVIRONMENT's side: a NotifyAcks
   call (XAcks l _) whose id vector l contains the msg id of a request that is waiting for its
   ack -- wherever the id stands in l, next to unknown, finished or duplicate ids -- closes
   that request's channel, and in every later state (any continuation tr) neither a new
   retransmission (CTimerGo) nor the "unacknowledged" verdict of the close branch
   (CClosedUnacked, C26) is enabled for it. The only transmission that can still follow is
   the one whose poll had already passed (pc = PTimerGo) when the ack arrived -- inherent.
   Residual window for results: a result counts from the completion of its handler
   (NRetryClosed); between the handler's claim and its completion a retransmission is still
   possible in the model and in the code. *)
Theorem C25_quiet_after_env_ack : forall mx s s' l l2 c, 1 <= mx -> reach mx s ->
  step s (XAcks l l2) = Some s' -> In (mid (calls s c)) l -> waiting_pc (pc (calls s c)) = true ->
  ackclosed (calls s' c) = true /\ deliv (calls s' c) = true /\
  forall tr s2, run s' tr = Some s2 ->
    ackclosed (calls s2 c) = true /\ step s2 (CTimerGo c) = None /\ step s2 (CClosedUnacked c) = None.
Proof. exact c25_env_ack. Qed.
Print Assumptions C25_quiet_after_env_ack.

(* Non-vacuity: MaxRetries = 2, two timer expiries, two retransmissions, retry limit. *)
Definition C25_trace : list ev :=
  [CEntered 0 5 1 7; CRegistered 0; CAckWait 0; CSend 0 5 1 7 0; CSelect 0; XTimerFire 0; CSelTimer 0; CTimerGo 0;
   CSend 0 5 1 7 0; CSelect 0; XTimerFire 0; CSelTimer 0; CTimerGo 0; CSend 0 5 1 7 0; CRetried 0; CRetryErr 0;
   CUnregistered 0; CSettled 0; CReturn 0 9 0 false false].
Example C25_nonvacuous :
  exists s, run (init 2) C25_trace = Some s /\ pc (calls s 0) = PReturned RLimit /\ nsends (calls s 0) = 3.
Proof. vm_compute. eexists. repeat split. Qed.

(* Regression witness of the defect repaired by /repo commit 5a883bad7: ack delivered and
   timer expired before the select ran; select picks the timer branch. The retransmission
   (CTimerGo) is not enabled any more, the branch acknowledges instead. *)
Definition C25_old_witness_prefix : list ev :=
  [CEntered 0 5 1 7; CRegistered 0; CAckWait 0; CSend 0 5 1 7 0; CSelect 0; XTimerFire 0; XAcks [5] [5]; CSelTimer 0].
Example C25_old_witness_blocked :
  run (init 3) (C25_old_witness_prefix ++ [CTimerGo 0]) = None /\
  exists s, run (init 3) (C25_old_witness_prefix ++ [CTimerAcked 0]) = Some s /\ nsends (calls s 0) = 1.
Proof. vm_compute. split; [reflexivity | eexists; split; reflexivity]. Qed.

(* Non-vacuity of the environment-side statement: the pending id stands behind an unknown id. *)
Example C25_env_ack_nonvacuous :
  exists s s', run (init 3) [CEntered 0 5 1 7; CRegistered 0; CAckWait 0; CSend 0 5 1 7 0; CSelect 0] = Some s /\
    step s (XAcks [9; 5; 5] [5]) = Some s' /\ waiting_pc (pc (calls s 0)) = true /\ ackclosed (calls s' 0) = true.
Proof. vm_compute. eexists. eexists. repeat split. Qed.
