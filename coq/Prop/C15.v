(* C15 -- 2FA SRP answers follow the specification and verify only the right password.
   Only statements; proofs live in Proof/Srp.v.  H = SHA-256, pbkdf2 = PBKDF2-HMAC-SHA512 (100000
   iterations, 64 bytes), big.Int.Exp and the group check crypto.CheckDH (property C13) are abstract;
   the assumptions hash_wf (32 output bytes), exp_is_pow (Exp b x m = b^x mod m), check_dh_bounds
   (an accepted group has 2 <= g <= 7 and a 2048-bit p) are defined at the end of Model/Srp.v.
   The specification (Model/SrpSpec.v) is transcribed independently from core.telegram.org/api/srp. *)
From Coq Require Import ZArith List Bool Lia.
From TD Require Import Lib.Bytes Lib.GoSem Lib.BeBytes Model.Srp Model.SrpSpec Proof.Srp.
Import ListNotations.
Open Scope Z_scope.

(* For every password, salts, client secret (any byte string), accepted group (any encoding of p)
   and every server value B below 2^2048 (any encoding; NOT required to lie in (0, p): the code has
   no such range check and answers as the formulas say), SRP.Hash returns exactly the (A, M1) of the
   specification. *)
Theorem C15_spec :
  forall H pbkdf2 modexp check_dh,
    hash_wf H -> exp_is_pow modexp -> check_dh_bounds check_dh ->
    forall password srpB random salt1 salt2 g P,
      bytes_ok P -> bytes_ok srpB -> bytes_ok random ->
      check_dh g (be_dec P) = true -> be_dec srpB < 2 ^ 2048 ->
      srp_hash H pbkdf2 modexp check_dh password srpB random salt1 salt2 g P =
        Ok (spec_answer H pbkdf2 password salt1 salt2 (be_dec P) g (be_dec srpB) (be_dec random)).
Proof. exact srp_hash_spec. Qed.
Print Assumptions C15_spec.

(* Invalid groups are refused (by Hash and NewHash); [check_dh] is crypto.CheckDH, whose exact
   acceptance condition is property C13.  Conversely nothing else is refused. *)
Theorem C15_refuse :
  forall H pbkdf2 modexp check_dh password srpB random salt1 salt2 g P rnd,
    check_dh g (be_dec P) = false ->
    srp_hash H pbkdf2 modexp check_dh password srpB random salt1 salt2 g P = Err ERefuse /\
    srp_new_hash H pbkdf2 modexp check_dh password salt1 salt2 g P rnd = Err ERefuse.
Proof. exact srp_refuse. Qed.
Print Assumptions C15_refuse.

Theorem C15_answers_iff_group_accepted :
  forall H pbkdf2 modexp check_dh,
    hash_wf H -> exp_is_pow modexp -> check_dh_bounds check_dh ->
    forall password srpB random salt1 salt2 g P,
      bytes_ok P -> bytes_ok srpB -> bytes_ok random -> be_dec srpB < 2 ^ 2048 ->
      (is_ok (srp_hash H pbkdf2 modexp check_dh password srpB random salt1 salt2 g P) = true
       <-> check_dh g (be_dec P) = true).
Proof. exact srp_hash_ok_iff. Qed.
Print Assumptions C15_answers_iff_group_accepted.

(* NewHash returns the password verifier v = g^PH2(password, salt1 | 32 random bytes, salt2) mod p. *)
Theorem C15_new_hash_spec :
  forall H pbkdf2 modexp check_dh,
    hash_wf H -> exp_is_pow modexp -> check_dh_bounds check_dh ->
    forall password salt1 salt2 g P rnd,
      check_dh g (be_dec P) = true -> (32 <= length rnd)%nat ->
      srp_new_hash H pbkdf2 modexp check_dh password salt1 salt2 g P rnd =
        Ok (spec_new_password_hash H pbkdf2 password salt1 (firstn 32 rnd) salt2 (be_dec P) g,
            salt1 ++ firstn 32 rnd).
Proof. exact srp_new_hash_spec. Qed.
Print Assumptions C15_new_hash_spec.

(* Pure Z algebra, for EVERY modulus p > 0 (prime or not), every g, k: the client's secret
   s_a = ((B - k*v) mod p)^(a + u*x) and the server's s_b = (A * v^u)^b agree when B = (k*v + g^b) mod p. *)
Theorem C15_secret_agree :
  forall p g k x a b u,
    0 < p -> 0 <= x -> 0 <= a -> 0 <= b -> 0 <= u ->
    let v := g ^ x mod p in
    let B := (k * v + g ^ b) mod p in
    let A := g ^ a mod p in
    ((B - (k * v) mod p) mod p) ^ (a + u * x) mod p = (A * v ^ u) ^ b mod p.
Proof. exact srp_secret_agree. Qed.
Print Assumptions C15_secret_agree.

(* Hence a verifier holding v made from THE SAME password and salts accepts the answer. *)
Theorem C15_verifier :
  forall H pbkdf2, hash_wf H ->
    forall password salt1 salt2 p g a b,
      0 < p <= 2 ^ 2048 -> 0 <= a -> 0 <= b ->
      let x := spec_x H pbkdf2 password salt1 salt2 in
      let v := spec_v p g x in
      let B := spec_server_B H p g v b in
      let '(A, M1) := spec_answer H pbkdf2 password salt1 salt2 p g B a in
      spec_server_accepts H p g salt1 salt2 v b A M1.
Proof. exact verifier_accepts_right_password. Qed.
Print Assumptions C15_verifier.

(* Exactly when: for ANY verifier value v (e.g. made from another password) the answer carrying the
   client secret s_a is accepted iff s_a equals the server's s_b -- under the explicit hypotheses that
   SHA-256 does not collide on the two secret encodings and on the two M1 inputs.  (That a wrong
   password makes s_a <> s_b is a computational fact, exercised by the harness, not a theorem:
   equivalent passwords with g^x = g^x' do verify.) *)
Theorem C15_accept_iff_same_secret :
  forall H p g salt1 salt2 v b g_a s_a,
    0 <= s_a < 2 ^ 2048 -> 0 <= g_a < 2 ^ 2048 ->
    let g_b := spec_server_B H p g v b in
    let u := spec_u H g_a g_b in
    let s_b := spec_s_b p v g_a u b in
    0 <= s_b < 2 ^ 2048 ->
    let prefix := SrpSpec.XOR (H (num2048 p)) (H (num2048 g)) ++ H salt1 ++ H salt2 ++ num2048 g_a ++ num2048 g_b in
    (H (num2048 s_a) = H (num2048 s_b) -> num2048 s_a = num2048 s_b) ->
    (H (prefix ++ H (num2048 s_a)) = H (prefix ++ H (num2048 s_b)) ->
     prefix ++ H (num2048 s_a) = prefix ++ H (num2048 s_b)) ->
    (spec_server_accepts H p g salt1 salt2 v b (num2048 g_a) (spec_M1 H p g salt1 salt2 g_a g_b s_a)
     <-> s_a = s_b).
Proof. exact verifier_accepts_iff. Qed.
Print Assumptions C15_accept_iff_same_secret.

(* non-vacuity: the hypotheses are satisfiable and an accepted group with byte inputs exists *)
Example C15_hypotheses_satisfiable :
  exists H modexp check_dh, hash_wf H /\ exp_is_pow modexp /\ check_dh_bounds check_dh /\
    exists g P srpB, bytes_ok P /\ bytes_ok srpB /\ check_dh g (be_dec P) = true /\ be_dec srpB < 2 ^ 2048.
Proof.
  exists nv_H, modexp_sm, nv_check. destruct nv_srp_hyps as [H1 [H2 H3]].
  split; [exact H1|split; [exact H2|split; [exact H3|]]].
  exists 3, (128 :: repeat 0 255), [5].
  split; [apply bytes_okb_spec; vm_compute; reflexivity|].
  split; [apply bytes_okb_spec; vm_compute; reflexivity|].
  split; vm_compute; reflexivity.
Qed.
