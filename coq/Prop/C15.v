(* C15 -- 2FA SRP answers follow the specification and verify only the right password.
   Only statements; proofs live in Proof/Srp.v.  H = SHA-256, pbkdf2 = PBKDF2-HMAC-SHA512 (100000
   iterations, 64 bytes), big.Int.Exp and the group check crypto.CheckDH (property C13) are abstract;
   the assumptions hash_wf (32 output bytes), exp_is_pow (Exp b x m = b^x mod m), check_dh_bounds
   (an accepted group has 2 <= g <= 7 and a 2048-bit p) are defined at the end of Model/Srp.v.
   The specification (Model/SrpSpec.v) is transcribed independently from core.telegram.org/api/srp. *)
From Coq Require Import ZArith List Bool Lia.
From TD Require Import Lib.Bytes Lib.GoSem Lib.BeBytes Model.Srp Model.SrpSpec Proof.Srp.
Import ListNotations.
Open Scope Z_scope.

(* For every password, salts, client secret (any byte string), accepted group (any encoding of p)
   and every valid server value 0 < B < p (any encoding), SRP.Hash returns exactly the (A, M1) of the
   specification. *)
Theorem C15_spec :
  forall H pbkdf2 modexp check_dh,
    hash_wf H -> exp_is_pow modexp -> check_dh_bounds check_dh ->
    forall password srpB random salt1 salt2 g P,
      bytes_ok P -> bytes_ok srpB -> bytes_ok random ->
      check_dh g (be_dec P) = true -> spec_valid_B (be_dec P) (be_dec srpB) ->
      srp_hash H pbkdf2 modexp check_dh password srpB random salt1 salt2 g P =
        Ok (spec_answer H pbkdf2 password salt1 salt2 (be_dec P) g (be_dec srpB) (be_dec random)).
Proof. exact srp_hash_spec_valid. Qed.
Print Assumptions C15_spec.

(* What the code does with server values OUTSIDE 0 < B < p (known finding unchecked-srp-B: TDLib and
   SRP-6a refuse them, SRP.Hash has no range check): for every B below 2^2048, including B = 0,
   B = p and B > p, it does not refuse and answers by the same formulas (t = (B - k*v) mod p). *)
Theorem C15_unchecked_B :
  forall H pbkdf2 modexp check_dh,
    hash_wf H -> exp_is_pow modexp -> check_dh_bounds check_dh ->
    forall password srpB random salt1 salt2 g P,
      bytes_ok P -> bytes_ok srpB -> bytes_ok random ->
      check_dh g (be_dec P) = true -> be_dec srpB < 2 ^ 2048 ->
      srp_hash H pbkdf2 modexp check_dh password srpB random salt1 salt2 g P =
        Ok (spec_answer H pbkdf2 password salt1 salt2 (be_dec P) g (be_dec srpB) (be_dec random)).
Proof. exact srp_hash_spec. Qed.
Print Assumptions C15_unchecked_B.

(* Invalid groups are refused (by Hash and NewHash); [check_dh] is crypto.CheckDH, whose exact
   acceptance condition is property C13.  Conversely nothing else is refused. *)
Theorem C15_refuse :
  forall H pbkdf2 modexp check_dh password srpB random salt1 salt2 g P rnd,
    check_dh g (be_dec P) = false ->
    srp_hash H pbkdf2 modexp check_dh password srpB random salt1 salt2 g P = Err ERefuse /\
    srp_new_hash H pbkdf2 modexp check_dh password salt1 salt2 g P rnd = Err ERefuse.
Proof. exact srp_refuse. Qed.
Print Assumptions C15_refuse.

Theorem C15_answers_iff_group_accepted :
  forall H pbkdf2 modexp check_dh,
    hash_wf H -> exp_is_pow modexp -> check_dh_bounds check_dh ->
    forall password srpB random salt1 salt2 g P,
      bytes_ok P -> bytes_ok srpB -> bytes_ok random -> be_dec srpB < 2 ^ 2048 ->
      (is_ok (srp_hash H pbkdf2 modexp check_dh password srpB random salt1 salt2 g P) = true
       <-> check_dh g (be_dec P) = true).
Proof. exact srp_hash_ok_iff. Qed.
Print Assumptions C15_answers_iff_group_accepted.

(* NewHash returns the password verifier v = g^PH2(password, salt1 | 32 random bytes, salt2) mod p. *)
Theorem C15_new_hash_spec :
  forall H pbkdf2 modexp check_dh,
    hash_wf H -> exp_is_pow modexp -> check_dh_bounds check_dh ->
    forall password salt1 salt2 g P rnd,
      check_dh g (be_dec P) = true -> (32 <= length rnd)%nat ->
      srp_new_hash H pbkdf2 modexp check_dh password salt1 salt2 g P rnd =
        Ok (spec_new_password_hash H pbkdf2 password salt1 (firstn 32 rnd) salt2 (be_dec P) g,
            salt1 ++ firstn 32 rnd).
Proof. exact srp_new_hash_spec. Qed.
Print Assumptions C15_new_hash_spec.

(* Pure Z algebra, for EVERY modulus p > 0 (prime or not), every g, k: the client's secret
   s_a = ((B - k*v) mod p)^(a + u*x) and the server's s_b = (A * v^u)^b agree when B = (k*v + g^b) mod p. *)
Theorem C15_secret_agree :
  forall p g k x a b u,
    0 < p -> 0 <= x -> 0 <= a -> 0 <= b -> 0 <= u ->
    let v := g ^ x mod p in
    let B := (k * v + g ^ b) mod p in
    let A := g ^ a mod p in
    ((B - (k * v) mod p) mod p) ^ (a + u * x) mod p = (A * v ^ u) ^ b mod p.
Proof. exact srp_secret_agree. Qed.
Print Assumptions C15_secret_agree.

(* Hence a verifier holding v made from THE SAME password and salts accepts the answer. *)
Theorem C15_verifier :
  forall H pbkdf2, hash_wf H ->
    forall password salt1 salt2 p g a b,
      0 < p <= 2 ^ 2048 -> 0 <= a -> 0 <= b ->
      let x := spec_x H pbkdf2 password salt1 salt2 in
      let v := spec_v p g x in
      let B := spec_server_B H p g v b in
      let '(A, M1) := spec_answer H pbkdf2 password salt1 salt2 p g B a in
      spec_server_accepts H p g salt1 salt2 v b A M1.
Proof. exact verifier_accepts_right_password. Qed.
Print Assumptions C15_verifier.

(* Exactly when: for ANY verifier value v (e.g. made from another password) the answer carrying the
   client secret s_a is accepted iff s_a equals the server's s_b -- under the explicit hypotheses that
   SHA-256 does not collide on the two secret encodings and on the two M1 inputs.  (That a wrong
   password makes s_a <> s_b is a computational fact, exercised by the harness, not a theorem:
   equivalent passwords with g^x = g^x' do verify.) *)
Theorem C15_accept_iff_same_secret :
  forall H p g salt1 salt2 v b g_a s_a,
    0 <= s_a < 2 ^ 2048 -> 0 <= g_a < 2 ^ 2048 ->
    let g_b := spec_server_B H p g v b in
    let u := spec_u H g_a g_b in
    let s_b := spec_s_b p v g_a u b in
    0 <= s_b < 2 ^ 2048 ->
    let prefix := SrpSpec.XOR (H (num2048 p)) (H (num2048 g)) ++ H salt1 ++ H salt2 ++ num2048 g_a ++ num2048 g_b in
    (H (num2048 s_a) = H (num2048 s_b) -> num2048 s_a = num2048 s_b) ->
    (H (prefix ++ H (num2048 s_a)) = H (prefix ++ H (num2048 s_b)) ->
     prefix ++ H (num2048 s_a) = prefix ++ H (num2048 s_b)) ->
    (spec_server_accepts H p g salt1 salt2 v b (num2048 g_a) (spec_M1 H p g salt1 salt2 g_a g_b s_a)
     <-> s_a = s_b).
Proof. exact verifier_accepts_iff. Qed.
Print Assumptions C15_accept_iff_same_secret.

(* End to end, code model: the verifier made from the same password (v = g^x mod p) accepts the
   answer SRP.Hash computes for its B = (k*v + g^b) mod p, in any byte encoding of B. *)
Theorem C15_verifier_code :
  forall H pbkdf2 modexp check_dh,
    hash_wf H -> exp_is_pow modexp -> check_dh_bounds check_dh ->
    forall password srpB random salt1 salt2 g P b,
      bytes_ok P -> bytes_ok srpB -> bytes_ok random -> check_dh g (be_dec P) = true -> 0 <= b ->
      let p := be_dec P in
      let v := spec_v p g (spec_x H pbkdf2 password salt1 salt2) in
      be_dec srpB = spec_server_B H p g v b ->
      exists A M1, srp_hash H pbkdf2 modexp check_dh password srpB random salt1 salt2 g P = Ok (A, M1) /\
                   spec_server_accepts H p g salt1 salt2 v b A M1.
Proof. exact code_verifier. Qed.
Print Assumptions C15_verifier_code.

(* "Only the right password": the answer SRP.Hash computes from ANY password, presented to a verifier
   holding ANY v (e.g. made from another password), is accepted iff the client secret derived from
   that password equals the server's secret -- under the two explicit SHA-256 no-collision premises
   [no_collision] (Proof/Srp.v) for this login attempt.  With v made from the same x the secrets agree
   (C15_secret_agree); that s_a <> s_b whenever g^x differs is the one computational assumption left,
   exercised by the harness (bit-flipped, truncated, extended, unrelated passwords, foreign salts). *)
Theorem C15_code_answer_accept_iff :
  forall H pbkdf2 modexp check_dh,
    hash_wf H -> exp_is_pow modexp -> check_dh_bounds check_dh ->
    forall password srpB random salt1 salt2 g P v b,
      bytes_ok P -> bytes_ok srpB -> bytes_ok random -> check_dh g (be_dec P) = true ->
      let p := be_dec P in
      let a := be_dec random in
      be_dec srpB = spec_server_B H p g v b ->
      let B := spec_server_B H p g v b in
      let g_a := spec_g_a p g a in
      let u := spec_u H g_a B in
      let s_a := spec_s_a H p g B a u (spec_x H pbkdf2 password salt1 salt2) in
      let s_b := spec_s_b p v g_a u b in
      no_collision H p g salt1 salt2 g_a B s_a s_b ->
      exists A M1, srp_hash H pbkdf2 modexp check_dh password srpB random salt1 salt2 g P = Ok (A, M1) /\
                   (spec_server_accepts H p g salt1 salt2 v b A M1 <-> s_a = s_b).
Proof. exact code_answer_accept_iff. Qed.
Print Assumptions C15_code_answer_accept_iff.

(* the same on the specification side *)
Theorem C15_answer_accept_iff :
  forall H pbkdf2 password salt1 salt2 p g v a b,
    0 < p <= 2 ^ 2048 ->
    let B := spec_server_B H p g v b in
    let g_a := spec_g_a p g a in
    let u := spec_u H g_a B in
    let s_a := spec_s_a H p g B a u (spec_x H pbkdf2 password salt1 salt2) in
    let s_b := spec_s_b p v g_a u b in
    no_collision H p g salt1 salt2 g_a B s_a s_b ->
    let '(A, M1) := spec_answer H pbkdf2 password salt1 salt2 p g B a in
    (spec_server_accepts H p g salt1 salt2 v b A M1 <-> s_a = s_b).
Proof. exact answer_accept_iff. Qed.
Print Assumptions C15_answer_accept_iff.

(* non-vacuity of [no_collision]: it holds whenever the two secrets coincide *)
Example C15_no_collision_satisfiable :
  forall H p g salt1 salt2 g_a g_b s, no_collision H p g salt1 salt2 g_a g_b s s.
Proof. intros; split; intros _; reflexivity. Qed.

(* non-vacuity: the hypotheses are satisfiable and an accepted group with byte inputs exists *)
Example C15_hypotheses_satisfiable :
  exists H modexp check_dh, hash_wf H /\ exp_is_pow modexp /\ check_dh_bounds check_dh /\
    exists g P srpB, bytes_ok P /\ bytes_ok srpB /\ check_dh g (be_dec P) = true /\ be_dec srpB < 2 ^ 2048 /\
                     spec_valid_B (be_dec P) (be_dec srpB).
Proof.
  exists nv_H, modexp_sm, nv_check. destruct nv_srp_hyps as [H1 [H2 H3]].
  split; [exact H1|split; [exact H2|split; [exact H3|]]].
  exists 3, (128 :: repeat 0 255), [5].
  split; [apply bytes_okb_spec; vm_compute; reflexivity|].
  split; [apply bytes_okb_spec; vm_compute; reflexivity|].
  split; [vm_compute; reflexivity|].
  split; [vm_compute; reflexivity|].
  split; vm_compute; reflexivity.
Qed.
