(* C13 -- DH and factorisation checks accept exactly the specification's inputs.
   Only statements; proofs live in Proof/DhCheck.v.  check_gp / check_dh / check_dh_params /
   in_range are GENERATED from crypto/check_gp.go, check_dh.go, dh.go on every run
   (Gen/DhCheck.v); result 0 = nil error, other values number the error returns. *)
From Coq Require Import ZArith List Bool Znumtheory.
From TD Require Import Lib.GoSem Lib.BigIntSem Gen.DhCheck Model.DhCheck Proof.DhCheck.
Import ListNotations.
Open Scope Z_scope.

(* The generated residue table is the specification's table, for every g and every p >= 0
   (big.Int values decoded from bytes are non-negative). *)
Theorem C13_checkgp : forall g p, 0 <= p -> (check_gp g p = 0 <-> gp_table g p).
Proof. exact check_gp_spec. Qed.
Print Assumptions C13_checkgp.

Theorem C13_checkgp_errors : forall g p, 0 <= p ->
  (check_gp g p = 11 <-> ~ (2 <= g <= 7)) /\
  (check_gp g p = 12 <-> 2 <= g <= 7 /\ ~ gp_table g p) /\
  (check_gp g p = 0 \/ check_gp g p = 11 \/ check_gp g p = 12).
Proof. exact check_gp_codes. Qed.
Print Assumptions C13_checkgp_errors.

(* CheckDH accepts exactly: bit length 2048, table, prime p, prime (p-1)/2; [prime] is the
   primality oracle (big.Int.ProbablyPrime(64) in the code: trusted base). *)
(* (check_dh calls the oracle on Z.quot (p-1) 2; it equals (p-1)/2 because bitlen p = 2048 with
   0 <= p forces 0 < p) *)
Theorem C13_checkdh : forall (prime : Z -> bool) g p, 0 <= p ->
  (check_dh prime g p = 0 <->
   bitlen p = 2048 /\ gp_table g p /\ prime p = true /\ prime ((p - 1) / 2) = true).
Proof. exact check_dh_spec. Qed.
Print Assumptions C13_checkdh.

(* ... i.e. with a sound and complete oracle: p is a 2048-bit safe prime and g obeys the table *)
Theorem C13_checkdh_safe_prime : forall (primeo : Z -> bool) g p,
  (forall n, primeo n = true <-> prime n) -> 0 <= p ->
  (check_dh primeo g p = 0 <->
   2 ^ 2047 <= p < 2 ^ 2048 /\ prime p /\ prime ((p - 1) / 2) /\ gp_table g p).
Proof. exact check_dh_safe_prime. Qed.
Print Assumptions C13_checkdh_safe_prime.

(* The residue rule is "g is a quadratic residue" (Euler's criterion), for EVERY safe prime
   7 <= p < 8000 and every g in 2..7: bounded statement, the bound is part of it (the rule
   depends only on p mod 840 and p mod 4).  p = 5 is the one safe prime = 1 mod 4, where the
   reciprocity argument does not apply; it is not a 2048-bit number. *)
Theorem C13_residue_is_qr_bounded : forall p g,
  6 < p < 8000 -> safe_primeb p = true -> 2 <= g <= 7 ->
  (gp_table g p <-> g ^ ((p - 1) / 2) mod p = 1).
Proof. exact residue_is_qr_bounded. Qed.
Print Assumptions C13_residue_is_qr_bounded.

Theorem C13_residue_is_qr_bounded_prime : forall p g,
  6 < p < 8000 -> prime p -> prime ((p - 1) / 2) -> 2 <= g <= 7 ->
  (gp_table g p <-> g ^ ((p - 1) / 2) mod p = 1).
Proof. exact residue_is_qr_bounded_prime. Qed.
Print Assumptions C13_residue_is_qr_bounded_prime.

(* The rule looks only at p mod 840, and every residue class modulo 840 that a safe prime > 11 can
   occupy contains a safe prime below the bound (and conversely): so the verdict of the table on a
   2048-bit safe prime is its verdict on a small safe prime of the same class, where it IS Euler's
   criterion by the theorem above -- this is what "independent of size" means. *)
Theorem C13_table_depends_on_class : forall g p, 0 <= p -> check_gp g p = check_gp g (p mod 840).
Proof. exact check_gp_mod840. Qed.
Print Assumptions C13_table_depends_on_class.
Theorem C13_classes_covered : classes_covered = true.
Proof. exact classes_covered_true. Qed.
Print Assumptions C13_classes_covered.

Theorem C13_inrange_fn : forall x lo hi, in_range x lo hi = true <-> lo < x < hi.
Proof. exact in_range_spec. Qed.
Print Assumptions C13_inrange_fn.

(* CheckDHParams accepts exactly 1 < g, g_a, g_b < p-1 and 2^1984 < g_a, g_b < p - 2^1984 *)
Theorem C13_inrange : forall p g ga gb,
  check_dh_params p g ga gb = 0 <->
  1 < g < p - 1 /\ 1 < ga < p - 1 /\ 1 < gb < p - 1 /\
  2 ^ 1984 < ga < p - 2 ^ 1984 /\ 2 ^ 1984 < gb < p - 2 ^ 1984.
Proof. exact check_dh_params_spec. Qed.
Print Assumptions C13_inrange.

(* DecomposePQ, PARTIAL correctness: whenever the (fuelled) model returns, for ANY random
   stream, any fuel and any pq, the result is a factorisation in ascending order ... *)
Theorem C13_pq_partial : forall pq_is_prime rounds fuel pq rnd p q,
  decompose_pq pq_is_prime rounds fuel pq rnd = Ok (p, q) -> p * q = pq /\ 1 < p <= q.
Proof. exact decompose_pq_partial. Qed.
Print Assumptions C13_pq_partial.

(* ... hence for a product of two primes exactly the two primes, ascending. *)
Theorem C13_pq_semiprime : forall pq_is_prime rounds fuel a b rnd p q,
  prime a -> prime b -> a <= b ->
  decompose_pq pq_is_prime rounds fuel (a * b) rnd = Ok (p, q) -> p = a /\ q = b.
Proof. exact decompose_pq_semiprime. Qed.
Print Assumptions C13_pq_semiprime.

(* pq comes from the not yet authenticated server: after the repair (values below 4 and primes
   are rejected up front) no input makes the factor search panic (division by zero in
   big.Int.Mod for pq = 0, 1 before the repair). *)
Theorem C13_pq_no_panic : forall pq_is_prime rounds fuel pq rnd,
  decompose_pq pq_is_prime rounds fuel pq rnd <> Panic.
Proof. exact decompose_pq_no_panic. Qed.
Print Assumptions C13_pq_no_panic.

(* a product of two primes is never refused by the up-front guard *)
Theorem C13_pq_semiprime_not_rejected : forall pq_is_prime rounds fuel a b rnd,
  prime a -> prime b -> (pq_is_prime = true -> prime (a * b)) ->
  decompose_pq pq_is_prime rounds fuel (a * b) rnd <> Err EReject.
Proof. exact semiprime_not_rejected. Qed.
Print Assumptions C13_pq_semiprime_not_rejected.

(* fuel adequacy: the inner loop makes at most lim - j iterations, so with that much fuel the only
   non-results are "rounds exhausted" and "random source failed" *)
Theorem C13_pq_inner_fuel_adequate : forall fuel what v x y j lim g,
  lim - j <= Z.of_nat fuel -> pq_inner fuel what v x y j lim g <> None.
Proof. exact pq_inner_fuel_ok. Qed.
Print Assumptions C13_pq_inner_fuel_adequate.

(* NOT proved (and not provable): that the algorithm returns for every semiprime below 2^63.
   It is a randomised Brent/Pollard search: termination depends on the random stream (a
   stream that keeps producing a cycle without a non-trivial gcd never returns), so the
   property's "returns the two prime factors for every product" is claimed only in the
   partial form above (moreover lim = 1 << (i+18) wraps to a non-positive int from round 45 on:
   pq_lim i <= 0 for i >= 45, so from then on the Go loop makes no progress and only consumes
   the random source -- unreachable in practice, but it rules out a termination proof even for
   an ideal stream) and supported by exhaustive runs of the real code (harness). *)

(* non-vacuity *)
Example C13_safe_prime_exists : 6 < 23 < 4000 /\ safe_primeb 23 = true /\ gp_table 2 23.
Proof. repeat split; try reflexivity. left. split; reflexivity. Qed.
Example C13_pq_returns : decompose_pq false 5 1000 (11 * 13) [5; 7] = Ok (11, 13).
Proof. vm_compute. reflexivity. Qed.
Example C13_inrange_satisfiable :
  check_dh_params (2 ^ 2048 - 1) 3 (2 ^ 2000) (2 ^ 2001) = 0.
Proof. vm_compute. reflexivity. Qed.
