(* C43 -- Pings succeed only on the matching pong and a missed pong kills the link.
   Only statements; proofs live in Proof/Ping.v.  The model (Model/Ping.v) is a labelled
   transition system of the ping map, Ping/pingDelayDisconnect, handlePong and pingLoop; the
   theorems quantify over ALL event sequences: any number of concurrent pings (equal ids
   included), pongs with matching, foreign and duplicated ids at any time relative to the ping,
   contexts ending at any time, either branch of the final select when both are ready. *)
From Coq Require Import ZArith List Bool.
From TD Require Import Model.Ping Proof.Ping.
Import ListNotations.
Open Scope Z_scope.

(* A ping that returned nil had its own channel closed, and that was done by (at least) one
   pong event carrying its own id, processed after the ping registered (cown counts exactly
   those events: C43_closed_only_by_own_pong). *)
Theorem C43_nil_needs_own_pong : forall tr s k c,
  prun pinit tr = Some s -> nth_error (calls s) k = Some c -> cstage c = RetNil ->
  cclosed c = true /\ (1 <= cown c)%nat.
Proof. exact nil_needs_own_pong. Qed.
Print Assumptions C43_nil_needs_own_pong.

(* The only event that can close a call's channel (or count as its pong) is a pong carrying
   that call's own id. *)
Theorem C43_closed_only_by_own_pong : forall tr s e s' k c c',
  prun pinit tr = Some s -> pstep s e = Some s' ->
  nth_error (calls s) k = Some c -> nth_error (calls s') k = Some c' ->
  (cclosed c' <> cclosed c \/ cown c' <> cown c) -> e = EPong (cid c).
Proof. exact closed_only_by_own_pong. Qed.
Print Assumptions C43_closed_only_by_own_pong.

(* Foreign pongs leave a waiting ping exactly as it was; a duplicated pong is a no-op. *)
Theorem C43_foreign_pong_frame : forall tr s id s' k c,
  prun pinit tr = Some s -> pstep s (EPong id) = Some s' ->
  nth_error (calls s) k = Some c -> cid c <> id -> nth_error (calls s') k = Some c.
Proof. exact foreign_pong_frame. Qed.
Print Assumptions C43_foreign_pong_frame.
Theorem C43_duplicate_pong_noop : forall s id s',
  pstep s (EPong id) = Some s' -> pstep s' (EPong id) = Some s'.
Proof. exact duplicate_pong_noop. Qed.
Print Assumptions C43_duplicate_pong_noop.

(* A waiting ping whose channel is not closed cannot return nil; it returns (the context's
   error) exactly when its context has ended; and if it is the keep-alive loop's ping, that
   return ends the loop with an error. *)
Theorem C43_missed_pong_kills_loop : forall s k c,
  nth_error (calls s) k = Some c -> cstage c = Sent -> cclosed c = false ->
  pstep s (ERet k true) = None /\
  (cctx c = true -> exists s', pstep s (ERet k false) = Some s' /\
                    (loop_cur s = Some k -> loop_dead s' = true /\ loop_cur s' = None)) /\
  (cctx c = false -> pstep s (ERet k false) = None).
Proof. exact missed_pong_kills_loop. Qed.
Print Assumptions C43_missed_pong_kills_loop.

(* Over all event sequences: the loop is dead only if one of its own pings returned an error,
   and while it is inside a ping that ping has not returned. *)
Theorem C43_loop_dead_only_after_failed_ping : forall tr s,
  prun pinit tr = Some s ->
  (loop_dead s = true -> exists k c, nth_error (calls s) k = Some c /\ cloop c = true /\ cstage c = RetErr) /\
  (forall k, loop_cur s = Some k -> exists c, nth_error (calls s) k = Some c /\ cloop c = true /\
                                     (cstage c = Reg \/ cstage c = Sent)).
Proof. exact loop_dead_iff_ping_failed. Qed.
Print Assumptions C43_loop_dead_only_after_failed_ping.

(* handlePong closes a call's channel at most once over all event sequences (a second close of
   the same channel would panic the read path). *)
Theorem C43_no_double_close : forall tr s k c,
  prun pinit tr = Some s -> nth_error (calls s) k = Some c -> (cown c <= 1)%nat.
Proof. exact no_double_close. Qed.
Print Assumptions C43_no_double_close.

(* Documented consequence of drawing ping ids at random without a collision check (the code
   says "Probably we should check for collisions here"): with EQUAL ids, call 0's return
   (removePong deletes by id) removes the entry call 1 registered, so call 1's own pong no longer
   reaches it and it can only end with its context.  The safety statements above are unaffected
   (nil still needs an own pong); this is a liveness loss, outside the property as stated, with
   probability 2^-64 per pair of concurrent pings. *)
Example C43_equal_ids_strand_second_call :
  exists s c, prun pinit [EStart 7 false; EStart 7 false; EWrite 0 true; EWrite 1 true; ECtx 0; ERet 0 false; EPong 7] = Some s /\
              pmap s = [] /\ nth_error (calls s) 1 = Some c /\ cstage c = Sent /\ cclosed c = false.
Proof. exact equal_ids_strand. Qed.

(* non-vacuity: a ping completed by its own pong after a foreign and before a duplicated one;
   a loop killed by a missed pong *)
Example C43_nil_reachable :
  exists s c, prun pinit [EStart 7 false; EWrite 0 true; EPong 8; EPong 7; EPong 7; ERet 0 true] = Some s /\
              nth_error (calls s) 0 = Some c /\ cstage c = RetNil /\ cown c = 1%nat.
Proof. eexists. eexists. split; [vm_compute; reflexivity|]. repeat split. Qed.
Example C43_loop_killed :
  exists s, prun pinit [EStart 7 true; EWrite 0 true; EPong 8; ECtx 0; ERet 0 false] = Some s /\ loop_dead s = true.
Proof. eexists. split; [vm_compute; reflexivity|reflexivity]. Qed.
