(* C14 -- RSA padding schemes round-trip and follow the specification.
   Only statements; proofs live in Proof/RsaPad.v.  SHA-256, SHA-1, the AES-256 block functions and
   big.Int.Exp are abstract (universally quantified); what is assumed about them is written in each
   statement: sha256_wf / sha1_wf (output length and byte-ness), aes_wf / aes_inverse (16-byte blocks,
   decryption undoes encryption), modexp_is_pow (Exp b x N = b^x mod N), rsa_key_pair (matching key
   pair: (m^e mod N)^d mod N = m below N) -- all defined at the end of Model/RsaPad.v.
   The random source is any byte stream r; size limits (144, 192, 224, 32, 235, 255, 256) enter the
   model through Gen/RsaConsts.v, regenerated from crypto/rsa_pad.go, crypto/rsa.go on every run. *)
From Coq Require Import ZArith List Bool Lia.
From TD Require Import Lib.Bytes Lib.GoSem Lib.BeBytes Gen.RsaConsts Model.RsaPad Model.RsaPadSpec Proof.RsaPad Proof.RsaPadNV.
Import ListNotations.
Open Scope Z_scope.

(* RSA_PAD round trip: whatever RSAPad returns for data of at most 144 bytes decodes, with the
   matching private key, to the data followed by its random padding (the first 192-len bytes drawn).
   The temp key used is the first accepted one (C14_pad_first_accepted). *)
Theorem C14_pad_roundtrip :
  forall sha256 aes_enc aes_dec modexp N e d,
    sha256_wf sha256 -> aes_wf aes_enc -> aes_inverse aes_enc aes_dec ->
    modexp_is_pow modexp N -> rsa_key_pair N e d -> 0 < N <= 256 ^ 256 ->
    forall data r c, bytes_ok data -> bytes_ok r -> (length data <= 144)%nat ->
      rsa_pad sha256 aes_enc modexp N e data r = Ok c ->
      decode_rsa_pad sha256 aes_dec modexp N d c = Ok (data ++ firstn (192 - length data) r).
Proof. exact pad_roundtrip. Qed.
Print Assumptions C14_pad_roundtrip.

(* RSAPad never panics or loops: a 256-byte ciphertext, "too big" exactly above 144 bytes, or a
   random-source error. *)
Theorem C14_pad_total :
  forall sha256 aes_enc modexp N e,
    sha256_wf sha256 -> modexp_is_pow modexp N -> 0 <= e -> 0 < N <= 256 ^ 256 ->
    forall data r, match rsa_pad sha256 aes_enc modexp N e data r with
                   | Ok c => length c = 256%nat /\ bytes_ok c
                   | Err ETooBig => (144 < length data)%nat
                   | Err ERand => (length data <= 144)%nat
                   | _ => False
                   end.
Proof. exact pad_total. Qed.
Print Assumptions C14_pad_total.

(* The retry loop: temp keys are the consecutive 32-byte chunks of the stream after the padding;
   if the keys in [pre] are all rejected by step 8 and [tk] is accepted, the result is the RSA
   encryption of tk's block. *)
Theorem C14_pad_first_accepted :
  forall sha256 aes_enc modexp N e,
    sha256_wf sha256 -> modexp_is_pow modexp N -> 0 <= e -> 0 < N <= 256 ^ 256 ->
    forall data r, (length data <= 144)%nat -> (192 - length data <= length r)%nat ->
    let dwp := data ++ firstn (192 - length data) r in
    forall pre tk post blk, chunks 32 (skipn (192 - length data) r) = pre ++ tk :: post ->
      (forall k, In k pre -> exists b, pad_key_aes_encrypted sha256 aes_enc k dwp = Ok b /\ N <= be_dec b) ->
      pad_key_aes_encrypted sha256 aes_enc tk dwp = Ok blk -> be_dec blk < N ->
      rsa_pad sha256 aes_enc modexp N e data r = Ok (be_enc 256 (be_dec blk ^ e mod N)).
Proof. exact pad_first_accepted_model. Qed.
Print Assumptions C14_pad_first_accepted.

(* The encryption is exactly the 9-step RSA_PAD construction transcribed in Model/RsaPadSpec.v. *)
Theorem C14_pad_is_spec :
  forall sha256 aes_enc modexp N e,
    sha256_wf sha256 -> modexp_is_pow modexp N -> 0 <= e -> 0 < N <= 256 ^ 256 ->
    forall data r c, (length data <= 144)%nat ->
      (rsa_pad sha256 aes_enc modexp N e data r = Ok c <->
       (192 - length data <= length r)%nat /\
       spec_rsa_pad sha256 aes_enc N e data (firstn (192 - length data) r)
                    (chunks 32 (skipn (192 - length data) r)) c).
Proof. exact pad_is_spec. Qed.
Print Assumptions C14_pad_is_spec.

(* Acceptance characterisation (any ciphertext, any key -- in particular altered ciphertexts and
   ciphertexts made under another key): DecodeRSAPad returns x iff the RSA plaintext under THIS key is
   the steps-4-7 block of some 32-byte temp key and the 192 bytes x.  Otherwise it fails with
   "invalid encrypted_data" or "hash mismatch" (C14_pad_reject); it never panics. *)
Theorem C14_pad_accept_iff :
  forall sha256 aes_enc aes_dec modexp N d,
    sha256_wf sha256 -> aes_wf aes_enc -> aes_inverse aes_enc aes_dec ->
    aes_dec_wf aes_dec -> aes_inverse_r aes_enc aes_dec ->
    forall c x, decode_rsa_pad sha256 aes_dec modexp N d c = Ok x <->
      exists tk blk, length tk = 32%nat /\ length x = 192%nat /\ bytes_ok x /\
                     pad_key_aes_encrypted sha256 aes_enc tk x = Ok blk /\
                     rsa_decrypt modexp N d c 256 = Some blk.
Proof. exact pad_accept_iff_model. Qed.
Print Assumptions C14_pad_accept_iff.

Theorem C14_pad_reject :
  forall sha256 aes_enc aes_dec modexp N d,
    sha256_wf sha256 -> aes_wf aes_enc -> aes_inverse aes_enc aes_dec ->
    aes_dec_wf aes_dec -> aes_inverse_r aes_enc aes_dec ->
    forall c,
      (forall tk x blk, length tk = 32%nat -> length x = 192%nat -> bytes_ok x ->
                        pad_key_aes_encrypted sha256 aes_enc tk x = Ok blk ->
                        rsa_decrypt modexp N d c 256 <> Some blk) ->
      decode_rsa_pad sha256 aes_dec modexp N d c = Err EInvalid \/
      decode_rsa_pad sha256 aes_dec modexp N d c = Err EHashMismatch.
Proof. exact pad_reject. Qed.
Print Assumptions C14_pad_reject.

(* Foreign key, as a named statement: a ciphertext that RSAPad produced under another public key
   (N', e') is rejected by DecodeRSAPad under (N, d) unless its RSA plaintext under (N, d) happens to
   be a well-formed RSA_PAD block (the 2^-256 event of the note in props/C14.json). *)
Theorem C14_pad_foreign_key :
  forall sha256 aes_enc aes_dec modexp N d,
    sha256_wf sha256 -> aes_wf aes_enc -> aes_inverse aes_enc aes_dec ->
    aes_dec_wf aes_dec -> aes_inverse_r aes_enc aes_dec ->
    forall modexp' N' e' data r c,
      rsa_pad sha256 aes_enc modexp' N' e' data r = Ok c ->
      (forall tk x blk, length tk = 32%nat -> length x = 192%nat -> bytes_ok x ->
                        pad_key_aes_encrypted sha256 aes_enc tk x = Ok blk ->
                        rsa_decrypt modexp N d c 256 <> Some blk) ->
      decode_rsa_pad sha256 aes_dec modexp N d c = Err EInvalid \/
      decode_rsa_pad sha256 aes_dec modexp N d c = Err EHashMismatch.
Proof. exact pad_foreign_key. Qed.
Print Assumptions C14_pad_foreign_key.

(* Altered ciphertexts.  Before the repair "fix: reject non-canonical RSA ciphertexts" rsaDecrypt
   took any byte string, so c + k*N (while it fits 256 bytes) and 0x00||c were ALTERED ciphertexts
   decrypting to the same plaintext under both schemes (the old witness is kept as a corpus case
   of harness/cmd/c14: classes plus-modulus, zero-prefixed).  With the range check:
   (a) anything that is not exactly 256 bytes with value below N is rejected by both decoders; *)
Theorem C14_noncanonical_rejected :
  forall sha256 sha1 aes_dec modexp N d c,
    length c <> 256%nat \/ N <= be_dec c ->
    decode_rsa_pad sha256 aes_dec modexp N d c = Err EInvalid /\
    rsa_decrypt_hashed sha1 modexp N d c = Err EInvalid.
Proof. exact noncanonical_rejected. Qed.
Print Assumptions C14_noncanonical_rejected.

(* (b) two different byte strings never decrypt to the same RSA plaintext block (rsa_key_pair_r:
   encryption undoes decryption below N) -- for both schemes, since both go through rsa_decrypt; *)
Theorem C14_rsa_decrypt_injective :
  forall modexp N e d,
    modexp_is_pow modexp N -> rsa_key_pair_r N e d -> 0 <= d -> 0 < N ->
    forall c c' n blk blk', bytes_ok c -> bytes_ok c' -> c <> c' ->
      rsa_decrypt modexp N d c n = Some blk -> rsa_decrypt modexp N d c' n = Some blk' -> blk <> blk'.
Proof. exact rsa_decrypt_injective. Qed.
Print Assumptions C14_rsa_decrypt_injective.

(* (c) hence a ciphertext c' different from an accepted c is accepted by DecodeRSAPad only if it is
   canonical and its own plaintext is a different well-formed RSA_PAD block. *)
Theorem C14_pad_altered :
  forall sha256 aes_enc aes_dec modexp N e d,
    sha256_wf sha256 -> aes_wf aes_enc -> aes_inverse aes_enc aes_dec ->
    aes_dec_wf aes_dec -> aes_inverse_r aes_enc aes_dec ->
    modexp_is_pow modexp N -> rsa_key_pair_r N e d -> 0 <= d -> 0 < N ->
    forall c c' x x', bytes_ok c -> bytes_ok c' -> c <> c' ->
      decode_rsa_pad sha256 aes_dec modexp N d c = Ok x ->
      decode_rsa_pad sha256 aes_dec modexp N d c' = Ok x' ->
      exists tk tk' blk blk',
        pad_key_aes_encrypted sha256 aes_enc tk x = Ok blk /\
        pad_key_aes_encrypted sha256 aes_enc tk' x' = Ok blk' /\
        rsa_decrypt modexp N d c 256 = Some blk /\ rsa_decrypt modexp N d c' 256 = Some blk' /\
        blk <> blk' /\ length c' = 256%nat /\ be_dec c' < N.
Proof. exact pad_altered. Qed.
Print Assumptions C14_pad_altered.

(* Legacy scheme: the encryption is SHA1(data) + data + random bytes (255 bytes) under RSA ... *)
Theorem C14_hashed_is_spec :
  forall sha1 modexp N e,
    sha1_wf sha1 -> modexp_is_pow modexp N -> 0 <= e -> 0 < N <= 256 ^ 256 ->
    forall data r c, (length data <= 235)%nat ->
      (rsa_encrypt_hashed sha1 modexp N e data r = Ok c <->
       (255 <= length r)%nat /\
       spec_rsa_hashed sha1 N e data (skipn (20 + length data) (firstn 255 r)) c).
Proof. exact hashed_is_spec. Qed.
Print Assumptions C14_hashed_is_spec.

(* ... and round-trips for data of at most 235 bytes under a key of 2041..2048 bits.  The decoder
   returns the LONGEST prefix of data||padding whose SHA-1 equals the hash, so the exact statement
   needs the explicit collision hypothesis that no longer prefix collides with data. *)
Theorem C14_hashed_roundtrip :
  forall sha1 modexp N e d,
    sha1_wf sha1 -> modexp_is_pow modexp N -> rsa_key_pair N e d -> 256 ^ 255 <= N <= 256 ^ 256 ->
    forall data r c, bytes_ok data -> bytes_ok r -> (length data <= 235)%nat ->
      (forall i, (length data < i <= 235)%nat ->
                 sha1 (firstn i (data ++ skipn (20 + length data) (firstn 255 r))) <> sha1 data) ->
      rsa_encrypt_hashed sha1 modexp N e data r = Ok c ->
      rsa_decrypt_hashed sha1 modexp N d c = Ok data.
Proof. exact hashed_roundtrip. Qed.
Print Assumptions C14_hashed_roundtrip.

(* Without the collision hypothesis: the result is a prefix of data||padding that extends data and
   has the same SHA-1 (and is the longest such). *)
Theorem C14_hashed_roundtrip_weak :
  forall sha1 modexp N e d,
    sha1_wf sha1 -> modexp_is_pow modexp N -> rsa_key_pair N e d -> 256 ^ 255 <= N <= 256 ^ 256 ->
    forall data r c, bytes_ok data -> bytes_ok r -> (length data <= 235)%nat ->
      rsa_encrypt_hashed sha1 modexp N e data r = Ok c ->
      exists j, (length data <= j <= 235)%nat /\
        rsa_decrypt_hashed sha1 modexp N d c = Ok (firstn j (data ++ skipn (20 + length data) (firstn 255 r))) /\
        sha1 (firstn j (data ++ skipn (20 + length data) (firstn 255 r))) = sha1 data /\
        forall i, (j < i <= 235)%nat -> sha1 (firstn i (data ++ skipn (20 + length data) (firstn 255 r))) <> sha1 data.
Proof. exact hashed_roundtrip_weak. Qed.
Print Assumptions C14_hashed_roundtrip_weak.

Theorem C14_hashed_total :
  forall sha1 modexp N e,
    sha1_wf sha1 -> modexp_is_pow modexp N -> 0 <= e -> 0 < N <= 256 ^ 256 ->
    forall data r, match rsa_encrypt_hashed sha1 modexp N e data r with
                   | Ok c => length c = 256%nat /\ bytes_ok c
                   | Err ETooBig => (235 < length data)%nat
                   | Err ERand => (length data <= 235)%nat /\ (length r < 255)%nat
                   | _ => False
                   end.
Proof. exact hashed_total. Qed.
Print Assumptions C14_hashed_total.

(* Acceptance characterisation of RSADecryptHashed for ANY ciphertext and key: it returns x iff the
   255-byte RSA plaintext exists and x is the longest prefix of its last 235 bytes whose SHA-1 is its
   first 20 bytes; "invalid" iff the plaintext does not fit 255 bytes; "hash mismatch" iff no prefix
   matches.  Altered / foreign-key ciphertexts therefore fail unless they hit such a prefix. *)
Theorem C14_hashed_accept_iff :
  forall sha1 modexp N d c x,
    rsa_decrypt_hashed sha1 modexp N d c = Ok x <->
    exists dwh, rsa_decrypt modexp N d c 255 = Some dwh /\
      exists j, (j <= 235)%nat /\ x = firstn j (skipn 20 dwh) /\ sha1 x = firstn 20 dwh /\
                forall i, (j < i <= 235)%nat -> sha1 (firstn i (skipn 20 dwh)) <> firstn 20 dwh.
Proof. exact hashed_accept_iff. Qed.
Print Assumptions C14_hashed_accept_iff.

Theorem C14_hashed_reject_iff :
  forall sha1 modexp N d c,
    (rsa_decrypt_hashed sha1 modexp N d c = Err EInvalid <-> rsa_decrypt modexp N d c 255 = None) /\
    (rsa_decrypt_hashed sha1 modexp N d c = Err EHashMismatch <->
       exists dwh, rsa_decrypt modexp N d c 255 = Some dwh /\
         forall j, (j <= 235)%nat -> sha1 (firstn j (skipn 20 dwh)) <> firstn 20 dwh) /\
    match rsa_decrypt_hashed sha1 modexp N d c with
    | Ok _ => True | Err EInvalid => True | Err EHashMismatch => True | _ => False end.
Proof. exact hashed_reject_iff. Qed.
Print Assumptions C14_hashed_reject_iff.

(* non-vacuity: all hypothesis sets above are simultaneously satisfiable ... *)
Example C14_hypotheses_satisfiable :
  exists sha256 sha1 aes_enc aes_dec modexp N e d,
    sha256_wf sha256 /\ sha1_wf sha1 /\ aes_wf aes_enc /\ aes_inverse aes_enc aes_dec /\
    aes_dec_wf aes_dec /\ aes_inverse_r aes_enc aes_dec /\ modexp_is_pow modexp N /\
    rsa_key_pair N e d /\ 256 ^ 255 <= N <= 256 ^ 256 /\ 0 < N /\ rsa_key_pair_r N e d.
Proof. exists nv_sha256, nv_sha1, nv_aes, nv_aes, modexp_sm, nv_N, 1, 1. exact nv_hyps. Qed.

(* ... and the conclusions are reached: in that instance RSAPad accepts and the round trip runs *)
Example C14_roundtrip_runs :
  match rsa_pad nv_sha256 nv_aes modexp_sm nv_N 1 [1; 2; 3] (repeat 7 189 ++ repeat 0 32) with
  | Ok c => decode_rsa_pad nv_sha256 nv_aes modexp_sm nv_N 1 c
  | _ => Panic
  end = Ok ([1; 2; 3] ++ repeat 7 189).
Proof. vm_compute. reflexivity. Qed.

(* non-degenerate non-vacuity of C14_hashed_roundtrip: with a real SHA-1 (coq/Impl, Proof/RsaPadNV.v)
   and 220 bytes of data the collision premise has 15 genuine instances, all hypotheses hold and the
   conclusion is reached *)
Example C14_hashed_roundtrip_nonvacuous :
  sha1_wf nv_sha1r /\ modexp_is_pow modexp_sm nv_N /\ rsa_key_pair nv_N 1 1 /\
  (forall i, (length nv_data < i <= 235)%nat ->
     nv_sha1r (firstn i (nv_data ++ skipn (20 + length nv_data) (firstn 255 nv_stream))) <> nv_sha1r nv_data) /\
  exists c, rsa_encrypt_hashed nv_sha1r modexp_sm nv_N 1 nv_data nv_stream = Ok c /\
            rsa_decrypt_hashed nv_sha1r modexp_sm nv_N 1 c = Ok nv_data.
Proof. exact hashed_roundtrip_nonvacuous. Qed.
