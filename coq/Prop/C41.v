(* C41 -- The client only uses valid server salts and retries once on a bad salt.
   Only statements; proofs live in Proof/Salts.v.  The comparisons `ValidUntil > date`, the
   5-minute lookahead, saltSlice.Less and the retry condition (bad message error with code 48)
   are regenerated from /repo by xlate on every run (Gen/SaltConsts.v). *)
From Coq Require Import ZArith List Bool.
From TD Require Import Gen.SaltConsts Model.Salts Proof.Salts.
Import ListNotations.
Open Scope Z_scope.

(* Salts.Get, for EVERY store content (sorted or not, duplicates, expired entries) and every
   deadline: the `goto check` loop terminates within the fuel 2 + len ... *)
Theorem C41_get_terminates : forall l d, get l d <> None.
Proof. exact get_total. Qed.
Print Assumptions C41_get_terminates.

(* ... a returned salt is a stored one whose valid_until is after the deadline; afterwards the
   store holds only salts it held before and still holds every salt valid beyond the deadline *)
Theorem C41_get_valid : forall l d s l',
  get l d = Some (Some s, l') ->
  (exists v, In (v, s) l /\ v > d /\ last_opt l' = Some (v, s)) /\
  (forall x, In x l' -> In x l) /\ (forall x, In x l -> vu x > d -> In x l').
Proof. exact get_some. Qed.
Print Assumptions C41_get_valid.

(* ... and "no salt" is answered only when no stored salt is valid beyond the deadline. *)
Theorem C41_get_none : forall l d l',
  get l d = Some (None, l') -> l' = [] /\ Forall (fun x => vu x <= d) l.
Proof. exact get_none. Qed.
Print Assumptions C41_get_none.

(* FULL STATEMENT of clause 1 (the property's wording), kept visible:
     forall s0 pre now, let st' := fst (step (run_state (init s0) pre) (OAttach now)) in
       match cur_src st' with
       | Future v => v > deadline now        (* a future salt valid beyond the lookahead *)
       | Told | Initial => True              (* the last salt the server told *)
       end
   It does NOT hold for the code: once the store holds no salt valid beyond the lookahead,
   updateSalt leaves the previously selected future salt in place whatever its age.  Witness:
   salt 11 valid until t = 1000 s, selected at t = 100 s, still attached at t = 1100 s.
   Known finding C41 `expired-future-salt-kept`; not repaired: the client has no valid salt to
   attach instead, and the server's bad_server_salt + the single retry (below) is the
   protocol's recovery for exactly this situation. *)
Theorem C41_refuted :
  let pre := [OStore [(1000, 11)]; OAttach 100000000000; OAttach 900000000000] in
  let now := 1100000000000 in
  let st' := fst (step (run_state (init 5) pre) (OAttach now)) in
  snd (step (run_state (init 5) pre) (OAttach now)) = Some 11 /\ cur_src st' = Future 1000 /\ 1000 * 1000000000 <= now.
Proof. exact expired_salt_kept. Qed.
Print Assumptions C41_refuted.

(* What does hold, over ALL histories of future-salt announcements (overlapping, duplicated,
   expired), server-told salts, resets and clock readings `pre`, performed by any goroutines
   (each op is one mutex-protected step, Model/Salts.v), followed by an attach at clock
   reading `now` (session() -> updateSalt -> salt field):
   (A) the attached salt is a salt of the store -- hence announced by the server in an earlier
       future_salts answer -- whose valid_until is after now + lookahead, or
   (B) the store holds NO salt valid beyond now + lookahead, and the previously held salt is
       kept unchanged; by C41_provenance that salt is the initial one, the last server-told
       one, or one selected earlier under (A).
   So an expired future salt is never SELECTED, and is kept only when nothing valid is known. *)
Theorem C41_partial : forall s0 pre now,
  let st := run_state (init s0) pre in
  let st' := fst (step st (OAttach now)) in
  snd (step st (OAttach now)) = Some (cur st') /\
  attach_ok st now st' /\
  (forall x, In x (salts st) -> announced pre x).
Proof. exact attach_history. Qed.
Print Assumptions C41_partial.

(* the lookahead window is 5 minutes: the deadline handed to Get is floor((now + 300 s) / 1 s) *)
Theorem C41_lookahead : forall now, deadline now = (now + 300 * 1000000000) / 1000000000.
Proof. exact deadline_5min. Qed.
Print Assumptions C41_lookahead.

Theorem C41_provenance : forall s0 ops,
  prov_ok s0 (last_told ops None) (run_state (init s0) ops).
Proof. exact provenance. Qed.
Print Assumptions C41_provenance.

(* Invoke: whatever the state and the clock, the request is sent once; it is sent a second
   time exactly when the first attempt failed with bad_server_salt (code 48), that second
   send carries the new salt from the notification, and the result of the second attempt --
   success or any failure, including another bad_server_salt -- is returned to the caller
   without a third send. *)
Theorem C41_invoke_retry : forall st now1 now2 r1 r2,
  let '(sends, out, st') := invoke st now1 now2 r1 r2 in
  match r1 with
  | DoBad code ns =>
      if code =? c_codeIncorrectServerSalt
      then sends = [cur (update_salt now1 st); ns] /\ out = ret_of r2 /\ cur st' = ns /\ cur_src st' = Told
      else sends = [cur (update_salt now1 st)] /\ out = RetBad code
  | _ => sends = [cur (update_salt now1 st)] /\ out = ret_of r1
  end.
Proof. exact invoke_retry. Qed.
Print Assumptions C41_invoke_retry.

(* ... and with ANY environment between the bad-salt handling and the second send (other
   goroutines' updateSalt calls at any clock readings, future_salts answers, further told
   salts, resets): still exactly two sends and the second result returned; the second send
   carries a salt satisfying (A)/(B) w.r.t. the state the environment produced, every stored
   salt was announced within env, and if the environment brings no salt (only updateSalt calls
   and resets -- in particular the concurrent read path) the second send carries exactly the
   salt the server told.  Retransmissions INSIDE one rpc.Engine.Do (several frames per Do,
   each encoded with the salt current at that moment) are C25's subject; here one Do = one send. *)
Theorem C41_invoke_retry_env : forall st now1 ns env now2 r2,
  let st2 := {| cur := ns; cur_src := Told; salts := [] |} in
  let '(sends, out, st') := invoke_env st now1 (DoBad c_codeIncorrectServerSalt ns) env now2 r2 in
  exists s2, sends = [cur (update_salt now1 st); s2] /\ out = ret_of r2 /\ s2 = cur st' /\
    attach_ok (run_state st2 env) now2 st' /\
    (forall x, In x (salts (run_state st2 env)) -> announced env x) /\
    (forallb quiet env = true -> s2 = ns /\ cur_src st' = Told).
Proof. exact invoke_retry_env. Qed.
Print Assumptions C41_invoke_retry_env.

(* bind.go (bindTempAuthKeyAttempt) carries a second copy of the retry; its condition, translated
   from that file, is the same decision, and both sites call resetSalt. *)
Theorem C41_bind_same_condition : forall b code, bind_retries_go b code = invoke_retries_go b code.
Proof. exact bind_same_condition. Qed.
Print Assumptions C41_bind_same_condition.

(* non-vacuity: both disjuncts of attach_ok occur, and a double bad salt is returned *)
Example C41_case_A :
  snd (step (run_state (init 5) [OStore [(1000, 11); (2000, 12)]]) (OAttach 100000000000)) = Some 11.
Proof. vm_compute. reflexivity. Qed.
Example C41_case_B :
  snd (step (run_state (init 5) [OStore [(1000, 11)]; OAttach 100000000000]) (OAttach 900000000000)) = Some 11
  /\ salts (run_state (init 5) [OStore [(1000, 11)]; OAttach 100000000000; OAttach 900000000000]) = [].
Proof. vm_compute. split; reflexivity. Qed.
Example C41_double_bad_salt :
  invoke (init 5) 0 0 (DoBad 48 77) (DoBad 48 88) = ([5; 77], RetBad 48, {| cur := 77; cur_src := Told; salts := [] |}).
Proof. vm_compute. reflexivity. Qed.
