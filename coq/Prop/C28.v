(* C28 -- The connection pool never loses capacity:
   "Every connection the pool creates is at all times either serving exactly one caller, idle and
   available, being handed to a waiting caller, or dead, even when callers give up (cancel or time
   out) while a connection is being created or handed over. Consequently a caller waiting for a
   connection is served whenever a live connection becomes idle or a slot becomes free."
   Statements only; model Model/Pool.v (pool.DC after the `fix: pool: ...` repairs), proofs in
   Proof/Pool.v, Proof/PoolThm.v.  On the unrepaired code the statement was refuted three times on the
   real implementation (known_findings.jsonl: slot-leaked:cancel-during-creation,
   conn-stranded:giveup-between-select-and-send, waiter-starved:missed-stuck-pulse); the refuting
   schedules are kept as corpus cases a, b, b2, c of harness/poolsim and run first on every check. *)
From Coq Require Import ZArith List Bool.
From TD Require Import Gen.PoolDecide Model.Pool Proof.PoolTac Proof.Pool Proof.PoolThm.
Import ListNotations.
Open Scope Z_scope.

(* In every reachable state of a pool that is not closed, every created connection whose death is not
   being recorded (deleted.Swap not won yet) is in exactly one place: the free list (once), one request
   channel whose unique waiter has not done its final receive yet, or one holding caller. *)
Theorem C28_accounting : forall max st, reachable max st -> s_ctxdone st = false ->
  forall c r, s_conns st c = Some r -> c_deleted r = false ->
    place st c
    /\ NoDup (s_free st)
    /\ (In c (s_free st) -> (forall k, s_chan st k <> Some c) /\ forall x, held_conn (s_pc st x) <> Some c)
    /\ (forall k, s_chan st k = Some c ->
          (forall x, held_conn (s_pc st x) <> Some c) /\ (forall k', s_chan st k' = Some c -> k' = k)
          /\ exists x, wait_key (s_pc st x) = Some k /\ forall y, wait_key (s_pc st y) = Some k -> y = x)
    /\ (forall x y, held_conn (s_pc st x) = Some c -> held_conn (s_pc st y) = Some c -> x = y).
Proof. exact accounting. Qed.
Print Assumptions C28_accounting.

(* the counter counts exactly these connections plus the slots of callers about to create one *)
Theorem C28_counter : forall max st, reachable max st ->
  s_total st = counted st /\ (1 <= max -> s_total st <= max) /\ s_panicked st = false.
Proof. exact limit. Qed.
Print Assumptions C28_counter.

(* a connection the Run goroutine has given up gets its death recorded: the dead() region is enabled *)
Theorem C28_dying_progress : forall max st, reachable max st ->
  forall c r, s_conns st c = Some r -> c_deleted r = true -> c_dead r = false ->
    exists st', step st (ERunDead c) = Some st'.
Proof. exact dying_progress. Qed.
Print Assumptions C28_dying_progress.

(* "Consequently": a caller waiting in the third acquire case either can take a step (its channel holds a
   connection, or a death after its registration signalled its stuck channel) or no connection is idle and
   no slot is free (the decision `c.max < 1 || c.total < c.max` of the current source is false). *)
Theorem C28_consequently : forall max st, reachable max st ->
  forall x k g, s_pc st x = PWaiting k g ->
    (exists c st', step st (EWaitGot x c) = Some st') \/ (exists st', step st (EWaitStuck x) = Some st')
    \/ (s_free st = [] /\ can_create_go (s_max st) (s_total st) = false).
Proof. exact consequently. Qed.
Print Assumptions C28_consequently.

(* non-vacuity and the old witnesses on the repaired model *)
(* (a) cancel during creation: the connection is released, not leaked *)
Definition C28_trace_a : list event := [EStart 0; ENew 0 1; ECreate 0 1; ECancel 0; ENewCancel 0; ERelease 0 1 Freed].
Example C28_cancel_during_creation :
  exists st, run (init 1) C28_trace_a = Some st /\ reachable 1 st /\ s_free st = [1] /\ s_total st = 1 /\ s_ctxdone st = false.
Proof.
  destruct (run (init 1) C28_trace_a) as [st|] eqn:E; [|vm_compute in E; discriminate].
  exists st. split; [reflexivity|]. split; [exists C28_trace_a; exact E|].
  vm_compute in E. injection E as <-. repeat split; reflexivity.
Qed.
(* (b) the give-up cannot slip between select and send any more: after the transfer the waiter's
   non-blocking receive finds the connection, `EGiveEmpty` is not enabled *)
Example C28_giveup_after_transfer :
  exists st, run (init 1) [EStart 0; ENew 0 1; ECreate 0 1; EReady 1; ENewReady 0; ECheck 0 true; EStart 1; EReg 1 1;
                           EInvRet 0 ROk false; ECancel 1; EWaitCancel 1; ERelease 0 1 (Transferred 1); EGiveDel 1] = Some st /\
             step st (EGiveEmpty 1) = None /\ (exists st', step st (EGiveGot 1 1) = Some st').
Proof. eexists. split; [vm_compute; reflexivity|]. split; [vm_compute; reflexivity | eexists; vm_compute; reflexivity]. Qed.
(* (c) a death right after the registration wakes the waiter: EWaitStuck is enabled *)
Example C28_pulse_not_missed :
  exists st, run (init 1) [EStart 0; ENew 0 1; ECreate 0 1; EReady 1; ENewReady 0; ECheck 0 true; EStart 1; EReg 1 1;
                           ERunExit 1; ESwapRun 1; ERunDead 1] = Some st /\
             s_total st = 0 /\ (exists st', step st (EWaitStuck 1) = Some st').
Proof. eexists. split; [vm_compute; reflexivity|]. split; [reflexivity | eexists; vm_compute; reflexivity]. Qed.
