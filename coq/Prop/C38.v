(* C38 -- Bot-API file ids round-trip for every file id value; decoding any string never
   panics.  Only statements; proofs live in Proof/FileId.v.  The model (Model/FileId.v)
   mirrors fileid/{rle,encode,decode,file_id,photo_size_source}.go after the fix of the
   RLE zero-run counter, uses the TL primitives of C20 and the constants generated from
   /repo/fileid (Gen/FileIdConsts.v). *)
From Coq Require Import ZArith List Bool.
From TD Require Import Lib.Bytes Lib.GoSem Lib.GoSlice Gen.FileIdConsts Model.TlPrim Model.FileId Proof.FileId.
Import ListNotations.
Open Scope Z_scope.

(* RLE layer: every byte list, any content, zero runs of any length. *)
Theorem C38_rle : forall s, rle_decode (rle_encode s) = s.
Proof. exact rle_roundtrip. Qed.
Print Assumptions C38_rle.

(* base64.RawURLEncoding layer, every byte list. *)
Theorem C38_base64 : forall s, bytes_ok s -> b64_decode (b64_encode s) = Some s.
Proof. exact b64_roundtrip. Qed.
Print Assumptions C38_base64.

(* Whole file id. The Go struct holds more than the format stores, so "an equal file id" can
   only be claimed for the values the format carries; valid_file_id f says exactly that:
   - Type below lastType; DC a signed 32-bit value (dc_id is a 4-byte field; since fix
     8a38e48f8 it is read back signed, before that a negative DC came back as DC + 2^32);
     id / access hash int64; file reference and URL byte strings shorter than 2^24 of any
     content (nil and empty reference are identified);
   - either a web location (URL set; id, hash and photo size source are not written at all,
     so they must be zero) or an ordinary file whose photo size source is present exactly
     for Thumbnail/Photo/ProfilePhoto and carries the fields of its kind in range (LocalID
     and the type are 32-bit fields, FileType an unsigned 32-bit field) with all other
     fields zero;
   - PhotoSizeSource.PhotoSize is never written by the encoder and is therefore not a field
     of the model record: the equality below is equality on the projection of fileid.FileID
     without PhotoSize.
   Ids outside this set come back as their canonical projection (harness oracle
   canonical(), checked on the implementation; C38_dc_outside_32bit shows the boundary). *)
Theorem C38_roundtrip : forall f, valid_file_id f -> decode_file_id (encode_file_id f) = Ok f.
Proof. exact file_id_roundtrip. Qed.
Print Assumptions C38_roundtrip.

(* The binary layer alone (before version byte, RLE and base64). *)
Theorem C38_layout_roundtrip : forall f, valid_file_id f -> decode_latest (encode_latest f) = Ok f.
Proof. exact decode_latest_rt. Qed.
Print Assumptions C38_layout_roundtrip.

(* Decoding ANY string never panics. *)
Theorem C38_total : forall s, decode_file_id s <> Panic.
Proof. exact decode_file_id_no_panic. Qed.
Print Assumptions C38_total.

(* Regression witness of the repaired defect: the encoder as it was before the fix (byte
   counter without flush) loses a run of 256 zero bytes. *)
Theorem C38_old_encoder_refuted : rle_dec (rle_enc_old (repeat 0 256) 0) None <> repeat 0 256.
Proof. vm_compute. discriminate. Qed.
Print Assumptions C38_old_encoder_refuted.

(* boundary of the canonical domain: a DC that does not fit the 4-byte field is truncated *)
Example C38_dc_outside_32bit :
  decode_file_id (encode_file_id (mkFileId 5 (2 ^ 31) 1 2 [] [] pss0)) = Ok (mkFileId 5 (- 2 ^ 31) 1 2 [] [] pss0).
Proof. vm_compute. reflexivity. Qed.
(* negative DCs are canonical (repaired defect, sig negative-dc-unsigned-readback) *)
Example C38_negative_dc :
  valid_file_id (mkFileId 5 (-1) 1 2 [] [] pss0) /\
  decode_file_id (encode_file_id (mkFileId 5 (-1) 1 2 [] [] pss0)) = Ok (mkFileId 5 (-1) 1 2 [] [] pss0).
Proof.
  split; [|vm_compute; reflexivity].
  repeat split; try (vm_compute; congruence); try (vm_compute; reflexivity); constructor.
Qed.

(* non-vacuity: valid file ids of each shape exist, and the round trip computes on them *)
Definition C38_ex_doc : file_id := mkFileId 5 2 (-77) 123456789012 (repeat 0 300 ++ [1; 2; 0]) [] pss0.
Definition C38_ex_photo : file_id :=
  mkFileId 2 4 99 (-5) [7; 0; 0; 9] [] (mkPss 7 11 (-3) 0 0 0 (-1001234567890) 42 0 0 0).
Definition C38_ex_web : file_id := mkFileId 5 1 0 0 [] [104; 116; 116; 112] pss0.
Example C38_nonvacuous :
  valid_file_id C38_ex_doc /\ valid_file_id C38_ex_photo /\ valid_file_id C38_ex_web /\
  decode_file_id (encode_file_id C38_ex_doc) = Ok C38_ex_doc /\
  decode_file_id (encode_file_id C38_ex_photo) = Ok C38_ex_photo /\
  decode_file_id (encode_file_id C38_ex_web) = Ok C38_ex_web.
Proof.
  assert (B : forall l, bytes_okb l = true -> bytes_ok l) by (intros l; apply bytes_okb_spec).
  repeat split; try (apply B; vm_compute; reflexivity); try (vm_compute; congruence); try (vm_compute; reflexivity).
  - apply (VDialogLegacy 7); unfold i64, i32; try (right; reflexivity); split; vm_compute; congruence.
Qed.
