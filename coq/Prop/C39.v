(* C39 -- History and dialog iterators yield every item once, in server order, and stop.
   Only statements; proofs live in Proof/Iter.v. *)
From Coq Require Import ZArith List Bool Permutation Sorted.
From TD Require Import Model.Iter Proof.Iter.
Import ListNotations.
Open Scope Z_scope.

(* Messages (telegram/query/messages/iter.go).  For EVERY server [srv] that serves the
   history [h] (strictly descending positive ids, any length) page by page -- the page of a
   query in any order, with any response kind at every single query (messages.messages
   only when the answer is the complete remainder, which is that constructor's meaning),
   with any [count] -- and every page size [limit >= 1]:
   the sequence of values between successive true results of Next is exactly [h], the
   next call of Next returns false (within length h + 1 calls), and every later call
   returns false as well.  The exact-multiple case (length h = k * limit, where the
   iterator needs one more, empty, page to learn that it is done) is covered: nothing in
   the statement restricts length h. *)
Theorem C39_messages :
  forall (srv : mserver) (limit : Z) (h : list Z),
    m_hist_ok h -> 1 <= limit -> m_honest h limit srv ->
    forall fuel, (length h + 1 <= fuel)%nat ->
      m_yield (m_iterate srv limit fuel m_init) = h /\
      m_fin (m_iterate srv limit fuel m_init) = true /\
      forall n, m_all_false srv limit n (m_final (m_iterate srv limit fuel m_init)) = true.
Proof. exact m_iterate_correct. Qed.
Print Assumptions C39_messages.

(* Dialogs (telegram/query/dialogs/iter.go), server order = (date, top message id, peer)
   descending, offsets (offset_date, offset_id, offset_peer).  Full statement for histories
   in which every dialog comes with its top message. *)
Theorem C39_dialogs :
  forall (srv : dserver) (limit : Z) (h : list dlg),
    d_hist_ok h -> 1 <= limit -> d_honest h limit srv ->
    Forall (fun d => d_has d = true) h ->
    forall fuel, (length h + 1 <= fuel)%nat ->
      d_yield (d_iterate srv limit fuel d_init) = h /\
      d_fin (d_iterate srv limit fuel d_init) = true /\
      forall n, d_all_false srv limit n (d_final (d_iterate srv limit fuel d_init)) = true.
Proof.
  intros srv limit h Hh Hl Hs Hall. apply d_iterate_correct; auto. apply d_all_has_ends_ok; exact Hall.
Qed.
Print Assumptions C39_dialogs.

(* The statement one would want for dialogs is C39_dialogs WITHOUT the hypothesis
   [Forall d_has h]:

     forall srv limit h, d_hist_ok h -> 1 <= limit -> d_honest h limit srv ->
       forall fuel, length h + 1 <= fuel -> d_yield (d_iterate ...) = h /\ d_fin (...) = true /\ ...

   It does not hold for the code as it is: when the LAST dialog of a page has no top
   message in the response, apply keeps offset_date/offset_id of the previous page and
   only advances offset_peer, so the same page is requested and yielded again, for ever. *)
Theorem C39_dialogs_refuted :
  exists (srv : dserver) (limit : Z) (h : list dlg),
    d_hist_ok h /\ 1 <= limit /\ d_honest h limit srv /\
    exists fuel i j, i <> j /\
      nth_error (d_yield (d_iterate srv limit fuel d_init)) i <> None /\
      nth_error (d_yield (d_iterate srv limit fuel d_init)) i =
      nth_error (d_yield (d_iterate srv limit fuel d_init)) j.
Proof.
  exists (d_policy_server d_witness 0 4), 2, d_witness.
  split; [exact d_witness_ok|]. split; [discriminate|].
  split; [apply d_policy_honest; split; discriminate|].
  exists 8%nat, 2%nat, 4%nat. split; [discriminate|]. split; vm_compute; [discriminate|reflexivity].
Qed.
Print Assumptions C39_dialogs_refuted.

(* What does hold for dialogs in general: it suffices that the last dialog of every page
   (positions limit-1, 2*limit-1, ... and the final one) carries its top message. *)
Theorem C39_dialogs_partial :
  forall (srv : dserver) (limit : Z) (h : list dlg),
    d_hist_ok h -> 1 <= limit -> d_honest h limit srv -> d_ends_ok limit h ->
    forall fuel, (length h + 1 <= fuel)%nat ->
      d_yield (d_iterate srv limit fuel d_init) = h /\
      d_fin (d_iterate srv limit fuel d_init) = true /\
      forall n, d_all_false srv limit n (d_final (d_iterate srv limit fuel d_init)) = true.
Proof. exact d_iterate_correct. Qed.
Print Assumptions C39_dialogs_partial.

(* Total() / FetchTotal() (the limit-1 count probe, also issued by the generated Collect()/Count()) may be
   called at any points before, between and after the Next calls -- any schedule [calls] -- without
   changing what is iterated: same values, same end. With C39_messages: still exactly the history. *)
Theorem C39_messages_total_frame :
  forall (srv : mserver) (limit : Z) (calls : list (nat * Z)) (fuel : nat),
    let '(ys, _, _, _, fin) := m_iterate_t srv limit calls fuel 0 m_init in
    ys = m_yield (m_iterate srv limit fuel m_init) /\ fin = m_fin (m_iterate srv limit fuel m_init).
Proof. intros srv limit calls fuel. exact (m_iterate_t_yields srv limit calls fuel 0 m_init m_init eq_refl). Qed.
Print Assumptions C39_messages_total_frame.

(* Value() indexes buf[bufCur]: after every true Next the cursor is inside the buffer (from the initial
   state the premise -1 <= cursor holds and is preserved), so Value never panics *)
Theorem C39_value_in_range :
  (forall srv limit s s' q, -1 <= m_cur s -> m_next srv limit s = (true, s', q) ->
     0 <= m_cur s' < Model.Iter.zlen (m_buf s') /\ -1 <= m_cur s') /\
  (forall srv limit s s' q, -1 <= x_cur s -> d_next srv limit s = (true, s', q) ->
     0 <= x_cur s' < Model.Iter.zlen (x_buf s') /\ -1 <= x_cur s').
Proof. split; [exact m_next_true_in_range|exact d_next_true_in_range]. Qed.
Print Assumptions C39_value_in_range.

(* non-vacuity: for every history the concrete paginating servers used by the differential
   run satisfy the contract, for each of the response kinds *)
Example C39_messages_servers_exist :
  forall h limit pol cnt rv, 0 <= pol <= 3 -> m_honest h limit (m_policy_server h pol cnt rv).
Proof. exact m_policy_honest. Qed.
Example C39_dialogs_servers_exist :
  forall h limit pol cnt, 0 <= pol <= 1 -> d_honest h limit (d_policy_server h pol cnt).
Proof. exact d_policy_honest. Qed.
Example C39_history_exists : m_hist_ok [30; 20; 10] /\ d_hist_ok d_witness.
Proof. split; [split; repeat constructor|exact d_witness_ok]. Qed.
(* exact multiple: 4 items, pages of 2, slice kind: two full pages and one empty page *)
Example C39_exact_multiple :
  m_iterate (m_policy_server [40; 30; 20; 10] 0 4 false) 2 5 m_init =
  ([40; 30; 20; 10], [0; 30; 10],
   {| m_buf := [20; 10]; m_cur := 1; m_last := true; m_off := 10; m_count := 4; m_got := true |}, true).
Proof. vm_compute. reflexivity. Qed.
