(* C34 -- Verified and CDN downloads never deliver bytes that fail verification.
   Only statements; proofs live in Proof/Cdn.v.  The constants and the decision pieces of
   buildCDNRequestPlan / largestCDNValidLimit and the counter expression of cdn.decrypt are
   regenerated from the source on every run (Gen/CdnPlan.v). *)
From Coq Require Import ZArith List Bool.
From TD Require Import Gen.CdnPlan Model.Cdn Proof.Cdn Proof.CdnQueue.
Import ListNotations.
Open Scope Z_scope.

(* Request plan, for ALL 4 KiB-aligned (offset, limit) (unbounded): the plan exists, is
   contiguous from [offset], covers exactly [offset, offset+limit), every step is a multiple of
   4 KiB that divides 1 MiB, and no step crosses a 1 MiB boundary. *)
Theorem C34_plan :
  forall offset limit, 0 <= offset -> 0 < limit ->
    offset mod c_cdnMinChunk = 0 -> limit mod c_cdnMinChunk = 0 ->
    exists steps, build_plan offset limit = PlanOk steps /\ steps_ok offset steps /\ steps_total steps = limit.
Proof. exact build_plan_spec. Qed.
Print Assumptions C34_plan.

Theorem C34_plan_rejects :
  forall offset limit,
    limit <= 0 \/ offset < 0 \/ Z.rem offset c_cdnMinChunk <> 0 \/ Z.rem limit c_cdnMinChunk <> 0 ->
    exists code, build_plan offset limit = PlanErr code.
Proof. exact build_plan_rejects. Qed.
Print Assumptions C34_plan_rejects.

Theorem C34_plan_aligned :
  forall offset steps, offset mod c_cdnMinChunk = 0 ->
    steps_ok offset steps -> Forall (fun s => fst s mod c_cdnMinChunk = 0) steps.
Proof. intros offset steps. exact (steps_aligned steps offset). Qed.
Print Assumptions C34_plan_aligned.

(* CTR: block k of a chunk at [offset] is encrypted with the counter the CDN documentation
   prescribes for block offset/16 + k of the file (IV with its low 32 bits = that number), as
   long as the block number fits 32 bits (files below 64 GiB) ... *)
Theorem C34_ctr :
  forall ivz offset k, 0 <= ivz < two128 -> 0 <= offset -> 0 <= k -> offset / 16 + k < two32 ->
    code_counter ivz offset k = spec_counter ivz (offset / 16 + k).
Proof. exact ctr_matches_spec. Qed.
Print Assumptions C34_ctr.
(* ... and the behaviour the code has beyond: a carry out of the low 32 bits propagates into the
   upper 96 bits of the IV (Go's CTR increments the whole block), and uint32(offset/16) wraps *)
Theorem C34_ctr_carry :
  forall ivz offset k, 0 <= ivz < two128 -> 0 <= offset -> offset / 16 < two32 -> 0 <= k ->
    two32 <= offset / 16 + k < 2 * two32 ->
    code_counter ivz offset k = ((ivz / two32 + 1) * two32 + (offset / 16 + k - two32)) mod two128.
Proof. exact ctr_carry. Qed.
Print Assumptions C34_ctr_carry.

Section WithSHA.
Variable sha : list Z -> list Z.                (* abstract SHA-256 *)
Variable hash_for : Z -> option hwin.           (* the hash window the client holds for an offset *)
Variable fetch : hwin -> list Z.                (* the CDN's answer to a whole-window request: anything *)
Hypothesis hash_for_contains : forall o w, hash_for o = Some w -> w_off w <= o.

(* Soundness, for ALL chunks, offsets, limits, hash lists and CDN behaviours: if verifyChunk
   accepts, every byte of the returned chunk lies in a window of the hash list together with data
   V whose SHA-256 is the server's hash, and equals the corresponding byte of V. *)
Theorem C34_verify :
  forall offset lim data data',
    verify_chunk sha hash_for fetch offset lim data = Some data' ->
    zlen data' = zlen data /\
    forall x, offset <= x < offset + zlen data -> cov sha hash_for data' offset x.
Proof. exact (verify_chunk_sound sha hash_for fetch hash_for_contains). Qed.

Variable file : list Z.                         (* the genuine file *)
Hypothesis hashes_honest : forall o w, hash_for o = Some w ->
  0 <= w_off w < zlen file /\ 0 < w_limit w /\ w_hash w = sha (gen file w).
Hypothesis no_collision : forall o w V, hash_for o = Some w -> sha V = sha (gen file w) -> V = gen file w.

(* Under the collision hypothesis an accepted chunk is the genuine slice of the file and does
   not reach beyond its end (corrupted, reordered or extended data is never returned). *)
Theorem C34_verify_genuine :
  forall offset lim data data', 0 <= offset ->
    verify_chunk sha hash_for fetch offset lim data = Some data' ->
    (0 < zlen data' -> offset + zlen data' <= zlen file) /\
    forall x, offset <= x < offset + zlen data' -> nth (Z.to_nat (x - offset)) data' 0 = nth (Z.to_nat x) file 0.
Proof. exact (verify_chunk_genuine sha hash_for fetch hash_for_contains file hashes_honest no_collision). Qed.

(* Completeness (a completed download is the WHOLE file) needs: a short accepted chunk ends at the
   end of the file.  What holds: it ends at the end of the file OR exactly at the nominal end of a
   hash window -- C34_complete_partial.  The second alternative is real: C34_complete_refuted. *)
Theorem C34_complete_partial :
  forall offset lim data data', 0 < zlen data < lim ->
    verify_chunk sha hash_for fetch offset lim data = Some data' ->
    offset + zlen data = zlen file \/
    exists o w, hash_for o = Some w /\ offset + zlen data = w_off w + w_limit w.
Proof. exact (verify_chunk_tail sha hash_for fetch hash_for_contains file hashes_honest no_collision). Qed.
End WithSHA.
Print Assumptions C34_verify.
Print Assumptions C34_verify_genuine.
Print Assumptions C34_complete_partial.

(* ... and the EMPTY chunk, which C34_complete_partial excludes, is accepted at ANY offset (code:
   len(data) == 0 -> nil): an empty CDN answer ends the download at a part boundary, which for part
   sizes that are not multiples of the hash window is neither the end of the file nor a window end.
   So at download level an accepted incomplete download ends at: a hash-window end (short chunk) or a
   part boundary (empty chunk) -- the two shapes of the known finding. *)
Theorem C34_empty_accepted :
  forall sha hash_for fetch offset lim, verify_chunk sha hash_for fetch offset lim [] = Some [].
Proof. reflexivity. Qed.
Print Assumptions C34_empty_accepted.

(* The full completeness statement

     forall sha hash_for fetch file (honest, collision-free), offset lim data data',
       0 < zlen data < lim -> verify_chunk ... offset lim data = Some data' ->
       offset + zlen data = zlen file

   is false for the code as it is: a response cut exactly at a hash-window boundary is accepted
   (even with a "hash" that has no collisions at all); the reader then takes the short chunk for
   the last one and the download completes with a prefix of the file. *)
Theorem C34_complete_refuted :
  exists (sha : list Z -> list Z) hash_for fetch (file : list Z),
    (forall o w, hash_for o = Some w -> w_off w <= o) /\
    (forall o w, hash_for o = Some w -> 0 <= w_off w < zlen file /\ 0 < w_limit w /\ w_hash w = sha (gen file w)) /\
    (forall o w V, hash_for o = Some w -> sha V = sha (gen file w) -> V = gen file w) /\
    exists offset lim data data',
      0 < zlen data < lim /\ verify_chunk sha hash_for fetch offset lim data = Some data' /\
      offset + zlen data < zlen file.
Proof.
  exists t_sha, t_hash_for, (fun _ => []), t_file.
  assert (forall o w, t_hash_for o = Some w -> (w = tw0 /\ 0 <= o < 2) \/ (w = tw1 /\ 2 <= o < 4)) as Hc.
  { intros o w H. unfold t_hash_for in H.
    destruct (Z.ltb_spec o 0); [discriminate|]. destruct (Z.ltb_spec o 2); [inversion H; left; split; [reflexivity|Lia.lia]|].
    destruct (Z.ltb_spec o 4); [inversion H; right; split; [reflexivity|Lia.lia]|discriminate]. }
  split; [intros o w H; destruct (Hc o w H) as [[-> ?]|[-> ?]]; cbn; Lia.lia|].
  split; [intros o w H; destruct (Hc o w H) as [[-> ?]|[-> ?]]; cbn; repeat split; try Lia.lia; reflexivity|].
  split; [intros o w V H E; exact E|].
  exists 0, 4, [1; 2], [1; 2]. split; [cbn; Lia.lia|]. split; [exact truncation_witness|cbn; Lia.lia].
Qed.
Print Assumptions C34_complete_refuted.

(* Honest run of the inline CDN path (the functional half: a completed download of an honest CDN IS the
   file): the answers to the steps of the request plan -- the file's bytes for each step -- concatenate to
   the file's bytes for the whole chunk (C34_plan + C34_plan_assembles); CTR decryption undoes the CDN's
   encryption with the documented counters (C34_ctr + C34_ctr_involutive, for any 16-byte block function);
   and verifyChunk accepts the genuine chunk -- cut at the end of the file -- and returns it unchanged,
   for every offset inside the file, every limit and every layout of hash windows that covers the file
   (C34_honest_accepted).  The loop of cdn.Chunk itself: C34_chunk_honest / C34_chunk_sound below. *)
Theorem C34_plan_assembles :
  forall file steps cur, 0 <= cur -> steps_ok cur steps ->
    concat (map (fun s => slice file (fst s) (fst s + snd s)) steps) = slice file cur (cur + steps_total steps).
Proof. exact plan_assembles. Qed.
Print Assumptions C34_plan_assembles.

Theorem C34_ctr_involutive :
  forall (E : Z -> list Z) ivz offset src, (forall z, length (E z) = 16%nat) ->
    decrypt E ivz offset (decrypt E ivz offset src) = src.
Proof. exact decrypt_involutive. Qed.
Print Assumptions C34_ctr_involutive.

Theorem C34_honest_accepted :
  forall (sha : list Z -> list Z) hash_for fetch (file : list Z),
    (forall o, 0 <= o < zlen file ->
       exists w, hash_for o = Some w /\ 0 <= w_off w <= o /\ o < w_off w + w_limit w /\ w_hash w = sha (gen file w)) ->
    (forall w, fetch w = gen file w) ->
    forall offset lim, 0 <= offset < zlen file -> 0 < lim ->
      let data := slice file offset (Z.min (offset + lim) (zlen file)) in
      verify_chunk sha hash_for fetch offset lim data = Some data.
Proof. exact verify_chunk_honest. Qed.
Print Assumptions C34_honest_accepted.

(* cdn.Chunk in CDN mode, through the real loop structure (plan -> one getCdnFile per step, over-long
   answer = error, decrypt, append, stop at the first short part -> verifyChunk):
   C34_chunk_honest: with an honest CDN (the file's bytes for each step, CTR-encrypted with the documented
   counters, any 16-byte block function) and an honest hash list covering the file, the chunk returned for
   every aligned (offset inside the file, limit) is exactly file[offset, min(offset+limit, size));
   C34_chunk_sound: for ANY CDN, a returned chunk has at most [limit] bytes and every byte of it lies in a
   hash-verified window (so, with C34_verify_genuine, it is genuine; what can still go wrong is only where
   a short chunk ends: C34_complete_partial / known finding). *)
Theorem C34_chunk_honest :
  forall (E : Z -> list Z) ivz, (forall z, length (E z) = 16%nat) ->
  forall (file : list Z) sha hash_for fetch offset limit,
    (forall o, 0 <= o < zlen file ->
       exists w, hash_for o = Some w /\ 0 <= w_off w <= o /\ o < w_off w + w_limit w /\ w_hash w = sha (gen file w)) ->
    (forall w, fetch w = gen file w) ->
    0 <= offset < zlen file -> 0 < limit -> offset mod c_cdnMinChunk = 0 -> limit mod c_cdnMinChunk = 0 ->
    cdn_chunk E ivz (honest_answers E ivz file) sha hash_for fetch offset limit =
    Some (slice file offset (Z.min (offset + limit) (zlen file))).
Proof. intros E ivz E16 file sha hash_for fetch offset limit. exact (cdn_chunk_honest E ivz E16 file sha hash_for fetch offset limit). Qed.
Print Assumptions C34_chunk_honest.

Theorem C34_chunk_sound :
  forall (E : Z -> list Z) ivz sha hash_for fetch answers offset limit d,
    (forall o w, hash_for o = Some w -> w_off w <= o) ->
    cdn_chunk E ivz answers sha hash_for fetch offset limit = Some d ->
    zlen d <= limit /\ forall x, offset <= x < offset + zlen d -> cov sha hash_for d offset x.
Proof. intros E ivz sha hash_for fetch answers offset limit d. exact (cdn_chunk_sound E ivz sha hash_for fetch answers offset limit d). Qed.
Print Assumptions C34_chunk_sound.

(* The verifier's hash queue (WithVerify(true)): against a server that hands out the consecutive
   hash windows W of a file in non-empty batches (and nothing new at the end), a verifier seeded
   with the first k windows serves EVERY window of W exactly once, in offset order, without
   gaps, and then reports the end -- for ALL window lists, batch sizes and k. *)
Theorem C34_queue :
  forall (W : list hwin), contig 0 W ->
  forall (server : Z -> list hwin),
    (forall done rest, W = done ++ rest -> rest <> [] ->
       exists b more, b <> [] /\ rest = b ++ more /\ server (end_of 0 done) = b) ->
    (server (end_of 0 W) = [] \/
     exists b, server (end_of 0 W) = b /\ b <> [] /\
               let l := List.last (sort_off b) {| w_off := 0; w_limit := 0; w_hash := [] |} in
               w_off l + w_limit l = end_of 0 W) ->
    forall k fuel, (length W + 1 <= fuel)%nat ->
      v_drain server fuel (new_verifier (firstn k W)) = (W, true).
Proof. exact verifier_serves_all. Qed.
Print Assumptions C34_queue.

(* WithVerify(true) (verifier queue + verifier.verify, master or CDN data): a chunk that passes
   verify IS the genuine window -- not corrupted, not truncated, not extended -- and a download in
   which the windows of the hash list were served in queue order (C34_queue) and every chunk
   passed verify is the WHOLE file. *)
Theorem C34_verifier_chunk :
  forall (sha : list Z -> list Z) (file : list Z) (W : list hwin),
    (forall w, In w W -> w_hash w = sha (gen file w)) ->
    (forall w V, In w W -> sha V = sha (gen file w) -> V = gen file w) ->
    forall w data, In w W -> vq_verify sha w data = true -> data = gen file w.
Proof. exact verified_chunk_genuine. Qed.
Print Assumptions C34_verifier_chunk.

Theorem C34_verifier_download :
  forall (sha : list Z -> list Z) (file : list Z) (W : list hwin),
    contig 0 W -> zlen file <= end_of 0 W ->
    (forall w, In w W -> w_hash w = sha (gen file w)) ->
    (forall w V, In w W -> sha V = sha (gen file w) -> V = gen file w) ->
    forall chunks : list (hwin * list Z),
      map fst chunks = W ->
      Forall (fun c => vq_verify sha (fst c) (snd c) = true) chunks ->
      concat (map snd chunks) = file.
Proof. exact verified_download_is_file. Qed.
Print Assumptions C34_verifier_download.

(* non-vacuity of the hypotheses of C34_queue / C34_verifier_download: two windows of a 3-byte file,
   a server that hands them out one per request and repeats the last one at the end, an injective "hash" *)
Definition qw0 : hwin := {| w_off := 0; w_limit := 2; w_hash := [7; 8] |}.
Definition qw1 : hwin := {| w_off := 2; w_limit := 2; w_hash := [9] |}.
Definition q_server (o : Z) : list hwin := if o <? 2 then [qw0] else [qw1].
Example C34_queue_nonvacuous :
  contig 0 [qw0; qw1] /\
  (forall done rest, [qw0; qw1] = done ++ rest -> rest <> [] ->
     exists b more, b <> [] /\ rest = b ++ more /\ q_server (end_of 0 done) = b) /\
  v_drain q_server 3 (new_verifier []) = ([qw0; qw1], true) /\
  zlen [7; 8; 9] <= end_of 0 [qw0; qw1] /\
  (forall w, In w [qw0; qw1] -> w_hash w = (fun x => x) (gen [7; 8; 9] w)) /\
  vq_verify (fun x => x) qw1 [9] = true /\ vq_verify (fun x => x) qw1 [9; 1] = false.
Proof.
  split; [cbn; repeat split; Lia.lia|]. split.
  { intros done rest H Hne. destruct done as [|d0 [|d1 [|d2 done]]]; cbn in H.
    - subst rest. exists [qw0], [qw1]. split; [discriminate|split; reflexivity].
    - inversion H; subst. exists [qw1], []. split; [discriminate|split; reflexivity].
    - inversion H; subst. contradiction.
    - inversion H. }
  split; [vm_compute; reflexivity|]. split; [vm_compute; discriminate|].
  split; [intros w [<-|[<-|[]]]; vm_compute; reflexivity|]. split; vm_compute; reflexivity.
Qed.

(* non-vacuity of the plan theorem's hypotheses and a plan across two MiB boundaries *)
Example C34_plan_example :
  build_plan (1048576 - 8192) (1048576 + 16384) =
  PlanOk [(1040384, 8192); (1048576, 1048576); (2097152, 8192)].
Proof. vm_compute. reflexivity. Qed.
