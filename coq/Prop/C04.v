(* C04 -- Encrypted messages round-trip between client and server.
   Only statements; proofs live in Proof/MsgCrypto.v.  The model (Model/MsgCrypto.v) is
   parametrised by the hash and block-cipher functions; what is assumed of them appears as
   hypotheses of the statements:
     aes_inverse aes_enc aes_dec :=
       forall k b, length b = 16 -> aes_dec k (aes_enc k b) = b /\ length (aes_enc k b) = 16.
   Nothing is assumed of SHA-256.  countPadding, getX, Side.DecryptSide, minPadding and maxPadding are
   the definitions generated from the Go source (Gen/CipherConsts.v). *)
From Coq Require Import ZArith List Bool Lia.
From TD Require Import Lib.Bytes Lib.GoSem Gen.CipherConsts Model.MsgCrypto Proof.MsgCrypto Proof.MsgAccept.
Import ListNotations.
Open Scope Z_scope.

(* For every auth key (any 256-byte value; the id is any 8 bytes), header fields in their
   machine ranges, payload aligned to 4 (any length below 2^31), every random stream that
   holds the padding drawn by its first byte, and both sides s: what side s encrypts, the
   other side decrypts to exactly the same header and payload; the encrypted body is a
   multiple of 16; the random padding is between 12 and 267 bytes, inside the window
   [minPadding, maxPadding] = [12, 1024] that the receiver accepts. *)
Theorem C04_roundtrip :
  forall (sha256 : list Z -> list Z) (aes_enc aes_dec : list Z -> list Z -> list Z),
    aes_inverse aes_enc aes_dec ->
    forall (s : side) (k : authkey) (h : hdr) (p rnd : list Z),
      length (ak_id k) = 8%nat ->
      hdr_ok h ->
      Z.of_nat (length p) mod 4 = 0 ->
      Z.of_nat (length p) < 2 ^ 31 ->
      rnd_enough (32 + Z.of_nat (length p)) rnd ->
      exists ct pad : list Z,
        encrypt sha256 aes_enc s k h p rnd = Ok ct /\
        decrypt sha256 aes_dec (other s) k ct =
          Ok {| d_hdr := h; d_len := Z.of_nat (length p); d_body := p ++ pad |} /\
        decrypt_msg sha256 aes_dec (other s) k ct = Ok (h, p) /\
        length ct = (24 + 32 + length p + length pad)%nat /\
        (Z.of_nat (length ct) - 24) mod 16 = 0 /\
        12 <= Z.of_nat (length pad) <= 267 /\ c_minPadding <= 12 /\ 267 <= c_maxPadding.
Proof. exact encrypt_decrypt_roundtrip. Qed.
Print Assumptions C04_roundtrip.

(* 268 random bytes are always enough *)
Theorem C04_random_268_suffices :
  forall n rnd, 0 <= n -> (268 <= length rnd)%nat -> rnd_enough n rnd.
Proof. exact rnd_enough_268. Qed.
Print Assumptions C04_random_268_suffices.

(* The explicit-length path (compression threshold set, payload below the threshold:
   MessageDataLen / MessageDataWithPadding given by the caller) goes through the same
   sealing; the receiver sees exactly the encoded header, length field and body + padding. *)
Theorem C04_roundtrip_explicit_len :
  forall (sha256 : list Z -> list Z) (aes_enc aes_dec : list Z -> list Z -> list Z),
    aes_inverse aes_enc aes_dec ->
    forall (s : side) (k : authkey) (h : hdr) (mlen : Z) (body rnd : list Z),
      length (ak_id k) = 8%nat ->
      hdr_ok h ->
      rnd_enough (32 + Z.of_nat (length body)) rnd ->
      exists ct pad : list Z,
        encrypt_data sha256 aes_enc s k h mlen body rnd = Ok ct /\
        decrypt sha256 aes_dec (other s) k ct =
          (do d <- decode_data (encode_data h mlen (body ++ pad)); check_lengths d) /\
        length ct = (24 + 32 + length body + length pad)%nat /\
        (Z.of_nat (length ct) - 24) mod 16 = 0 /\
        12 <= Z.of_nat (length pad) <= 267.
Proof. exact encrypt_plain_roundtrip. Qed.
Print Assumptions C04_roundtrip_explicit_len.

(* The gzip path: the payload is wrap p (proto.GZIP encoding of the compressed bytes); for
   every wrap with a left inverse and 4-aligned output the receiver recovers p. *)
Theorem C04_roundtrip_wrapped :
  forall (sha256 : list Z -> list Z) (aes_enc aes_dec : list Z -> list Z -> list Z),
    aes_inverse aes_enc aes_dec ->
    forall (wrap : list Z -> list Z) (unwrap : list Z -> option (list Z)),
    (forall p, unwrap (wrap p) = Some p) ->
    forall (s : side) (k : authkey) (h : hdr) (p rnd : list Z),
      length (ak_id k) = 8%nat -> hdr_ok h ->
      Z.of_nat (length (wrap p)) mod 4 = 0 -> Z.of_nat (length (wrap p)) < 2 ^ 31 ->
      rnd_enough (32 + Z.of_nat (length (wrap p))) rnd ->
      exists ct, encrypt sha256 aes_enc s k h (wrap p) rnd = Ok ct /\
                 exists q, decrypt_msg sha256 aes_dec (other s) k ct = Ok (h, q) /\ unwrap q = Some p.
Proof. exact roundtrip_wrapped. Qed.
Print Assumptions C04_roundtrip_wrapped.

(* The connection layer (mtproto.Conn.newEncryptedMessage, always the client side): on each of
   its three branches -- compression disabled, payload above the threshold (gzip_packed body),
   payload at or below it (explicit length) -- the server decrypts exactly the session's salt
   and session id, the caller's msg_id and seq_no, and the body selected by the branch. *)
Theorem C04_conn_roundtrip :
  forall (sha256 : list Z -> list Z) (aes_enc aes_dec : list Z -> list Z -> list Z),
    aes_inverse aes_enc aes_dec ->
    forall (threshold : Z) (k : authkey) (salt session msg_id seq_no : Z) (payload gz rnd : list Z),
      let h := {| h_salt := salt; h_session := session; h_msg_id := msg_id; h_seq_no := seq_no |} in
      let body := conn_body threshold payload gz in
      length (ak_id k) = 8%nat -> hdr_ok h ->
      Z.of_nat (length body) mod 4 = 0 -> Z.of_nat (length body) < 2 ^ 31 ->
      rnd_enough (32 + Z.of_nat (length body)) rnd ->
      exists ct, conn_encrypt sha256 aes_enc threshold k salt session msg_id seq_no payload gz rnd = Ok ct /\
                 decrypt_msg sha256 aes_dec Server k ct = Ok (h, body).
Proof. exact conn_roundtrip. Qed.
Print Assumptions C04_conn_roundtrip.

(* ... and with gz = wrap payload (the gzip_packed encoding, any wrap with a left inverse) the
   server recovers the caller's payload itself on every branch. *)
Theorem C04_conn_roundtrip_payload :
  forall (sha256 : list Z -> list Z) (aes_enc aes_dec : list Z -> list Z -> list Z),
    aes_inverse aes_enc aes_dec ->
    forall (wrap : list Z -> list Z) (unwrap : list Z -> option (list Z))
           (threshold : Z) (k : authkey) (salt session msg_id seq_no : Z) (payload rnd : list Z),
      (forall p, unwrap (wrap p) = Some p) ->
      let h := {| h_salt := salt; h_session := session; h_msg_id := msg_id; h_seq_no := seq_no |} in
      let body := conn_body threshold payload (wrap payload) in
      length (ak_id k) = 8%nat -> hdr_ok h ->
      Z.of_nat (length body) mod 4 = 0 -> Z.of_nat (length body) < 2 ^ 31 ->
      rnd_enough (32 + Z.of_nat (length body)) rnd ->
      exists ct q,
        conn_encrypt sha256 aes_enc threshold k salt session msg_id seq_no payload (wrap payload) rnd = Ok ct /\
        decrypt_msg sha256 aes_dec Server k ct = Ok (h, q) /\
        (if (threshold <=? 0) || negb (Z.of_nat (length payload) >? threshold)
         then q = payload else unwrap q = Some payload).
Proof. exact conn_roundtrip_payload. Qed.
Print Assumptions C04_conn_roundtrip_payload.

(* Neither direction can panic, whatever the inputs (the IGE block guards always hold). *)
Theorem C04_encrypt_total :
  forall sha256 aes_enc s k h p rnd, encrypt sha256 aes_enc s k h p rnd <> Panic.
Proof. exact encrypt_no_panic. Qed.
Print Assumptions C04_encrypt_total.

(* ---- non-vacuity: the hypotheses are satisfiable, and with toy primitives the statement
   computes ---- *)
Definition toy_sha (m : list Z) : list Z := firstn 32 (skipn 32 m ++ m ++ repeat 0 32).
Definition toy_aes (k b : list Z) : list Z := b.
Example C04_aes_hypothesis_satisfiable : aes_inverse toy_aes toy_aes.
Proof. intros k b Hb; split; [reflexivity|exact Hb]. Qed.

Definition ex_key : authkey := {| ak_value := map Z.of_nat (seq 0 256); ak_id := [1; 2; 3; 4; 5; 6; 7; 8] |}.
Definition ex_hdr : hdr := {| h_salt := -1; h_session := 2 ^ 63 - 1; h_msg_id := - 2 ^ 63; h_seq_no := 7 |}.
Example C04_premises_satisfiable :
  length (ak_id ex_key) = 8%nat /\ hdr_ok ex_hdr /\
  Z.of_nat (length [10; 20; 30; 40]) mod 4 = 0 /\ Z.of_nat (length [10; 20; 30; 40]) < 2 ^ 31 /\
  rnd_enough (32 + Z.of_nat (length [10; 20; 30; 40])) (repeat 5 268).
Proof.
  split; [reflexivity|]. split; [unfold hdr_ok, ex_hdr; cbn; lia|].
  split; [reflexivity|]. split; [reflexivity|]. apply rnd_enough_268; [lia|reflexivity].
Qed.
Example C04_instance_computes :
  match encrypt toy_sha toy_aes Client ex_key ex_hdr [10; 20; 30; 40] (repeat 5 268) with
  | Ok ct => decrypt_msg toy_sha toy_aes Server ex_key ct = Ok (ex_hdr, [10; 20; 30; 40])
  | _ => False
  end.
Proof. vm_compute. reflexivity. Qed.
