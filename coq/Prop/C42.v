(* C42 -- Racing dials to a DC return one connection and close the rest:
   "When several addresses are dialed for a DC, the resolver returns exactly one established connection
   (or an error combining all failures), and every other connection that was or later becomes
   established is closed."
   Statements only; model Model/Dial.v (plain.connect, telegram/dcs/plain.go), proofs Proof/Dial.v.
   All theorems are parametric in the number n >= 1 of racing dials and quantify over all event lists
   (all completion orders, outcomes success / failure / late success / never, caller cancellation at
   any point). *)
From Coq Require Import List Arith Bool.
From TD Require Import Model.Dial Proof.Dial.
Import ListNotations.

(* exactly one result: a connection that was established by dialer i, was handed over and is still open
   (no other result was handed over), or an error naming every one of the n failed dials (no connection
   was ever established), or the caller's cancellation *)
Theorem C42_result : forall n s, 1 <= n -> reachable n s ->
  match d_main s with
  | Running _ => True
  | RetConn i => i < n /\ d_st s i = Delivered true /\ (forall j, d_st s j = Delivered true -> j = i)
  | RetErr e => NoDup e /\ (forall j, j < n -> In j e /\ d_st s j = Delivered false) /\ (forall j, ~ established s j)
  | RetCtx => d_ctx s = true
  end.
Proof. exact result. Qed.
Print Assumptions C42_result.

(* connect returns once: no later event changes the result *)
Theorem C42_return_final : forall s e s', step s e = Some s' -> returned (d_main s) -> d_main s' = d_main s.
Proof. exact return_final. Qed.
Print Assumptions C42_return_final.

(* after the return every established connection other than the returned one is closed, or its owner's
   <-ctx.Done() branch is enabled and closes it *)
Theorem C42_others_closed : forall n s, 1 <= n -> reachable n s -> returned (d_main s) ->
  forall j, established s j ->
    (d_main s = RetConn j /\ open_conn s j) \/ closed_conn s j \/
    (d_st s j = Done true /\ exists s', step s (ELeave j) = Some s' /\ closed_conn s' j).
Proof. exact others_closed. Qed.
Print Assumptions C42_others_closed.

(* no connection is closed twice, and the returned connection is never closed by the resolver *)
Theorem C42_no_double_close : forall s e s' j, step s e = Some s' -> closed_conn s j -> closed_conn s' j /\ e <> ELeave j.
Proof. exact no_double_close. Qed.
Print Assumptions C42_no_double_close.
Theorem C42_returned_never_closed : forall n s i, 1 <= n -> reachable n s -> d_main s = RetConn i -> ~ closed_conn s i.
Proof. exact returned_never_closed. Qed.
Print Assumptions C42_returned_never_closed.

(* a connection that becomes established later (dial completes after the return / the cancellation) *)
Theorem C42_late_dial_closed : forall n s j s1, 1 <= n -> reachable n s -> d_dialctx s = true ->
  step s (EDialDone j true) = Some s1 -> exists s2, step s1 (ELeave j) = Some s2 /\ closed_conn s2 j.
Proof. exact late_dial_closed. Qed.
Print Assumptions C42_late_dial_closed.

(* every fair completion: once only never-returning dials are left, exactly the returned connection is
   open (none if an error was returned), and a cancelled caller has got its answer *)
Theorem C42_quiescent : forall n s, 1 <= n -> reachable n s -> quiescent s ->
  (forall j, open_conn s j <-> d_main s = RetConn j) /\ (d_ctx s = true -> returned (d_main s)).
Proof. exact quiescent_open. Qed.
Print Assumptions C42_quiescent.

(* non-vacuity: 3 dials; 1 fails, 0 wins, 2 succeeds late and is closed; the final state is quiescent *)
Example C42_nonvacuous :
  let s := play 3 [ADial 1 false; ADial 0 true; ADial 2 true] in
  reachable 3 s /\ d_main s = RetConn 0 /\ d_st s 2 = Left true /\ d_st s 1 = Delivered false.
Proof.
  split; [|vm_compute; auto].
  exists [EDialDone 1 false; EDeliver 1; EDialDone 0 true; EDeliver 0; EDialDone 2 true; ELeave 2]. reflexivity.
Qed.
Example C42_all_fail : d_main (play 2 [ADial 1 false; ADial 0 false]) = RetErr [0; 1].
Proof. reflexivity. Qed.
