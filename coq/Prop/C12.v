(* C12 -- Each key-exchange step is bounded by the exchange timeout.
   Only statements; proofs live in Proof/ExchangeTimeout.v.  [client_steps] is GENERATED on
   every run from the AST of ClientExchange.Run (exchange/client_flow.go) and the helpers in
   exchange/proto.go: one entry per blocking transport operation, in source order, with the
   flag "reaches conn.Send/Recv only under context.WithTimeout(ctx, timeout)". *)
From Coq Require Import ZArith List Bool.
From TD Require Import Gen.ExchangeSteps Model.ExchangeTimeout Proof.ExchangeTimeout.
Import ListNotations.
Open Scope Z_scope.

(* Full statement: for EVERY configuration (PFS on/off, initial connect / key regeneration,
   caller deadline present or absent, any dial timeout), every exchange timeout, every blocking
   operation of the client flow and every start time of that operation, the operation runs
   under a finite deadline no later than start + timeout: a silent peer makes the exchange fail
   by then. *)
Theorem C12_every_step_bounded :
  forall (c : config) (timeout start : Z) (op : Z * bool),
    In op client_steps -> within (op_deadline (run_ctx c) timeout start (snd op)) (start + timeout).
Proof. exact every_step_bounded. Qed.
Print Assumptions C12_every_step_bounded.

(* Why the table matters: an operation that bypasses the helpers is unbounded exactly in the
   configurations in which Run receives a deadline-free context ... *)
Theorem C12_bare_op_unbounded :
  forall c timeout start dir, run_ctx c = Inf -> ~ step_bounded c timeout start (dir, false).
Proof. exact bare_op_unbounded. Qed.
Print Assumptions C12_bare_op_unbounded.

(* ... which are: no caller deadline and (PFS connect or key regeneration). *)
Theorem C12_deadline_free_configs :
  forall c, run_ctx c = Inf <-> cfg_caller c = Inf /\ (cfg_pfs c = true \/ cfg_regen c = true).
Proof. exact run_ctx_inf_iff. Qed.
Print Assumptions C12_deadline_free_configs.

(* The table of the code BEFORE the repair (steps 5 and 7 called conn.Recv directly), kept as
   the documented witness: PFS connect, no caller deadline, peer silent at Server_DH_Params. *)
Definition steps_before_fix : list (Z * bool) :=
  [(0, true); (1, true); (0, true); (1, false); (0, true); (1, false)].
Example C12_old_table_refuted :
  exists c op, In op steps_before_fix /\ ~ step_bounded c 150 0 op.
Proof.
  exists {| cfg_pfs := true; cfg_regen := false; cfg_caller := Inf; cfg_connect_start := 0; cfg_dial_timeout := 35000 |}, (1, false).
  split; [cbn; tauto|]. apply bare_op_unbounded. reflexivity.
Qed.

(* non-vacuity: the table is not empty and has both directions *)
Example C12_table_nonempty : nth_dir client_steps 1 3 <> None /\ nth_dir client_steps 0 3 <> None.
Proof. split; vm_compute; discriminate. Qed.
