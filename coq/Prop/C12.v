(* C12 -- Each key-exchange step is bounded by the exchange timeout.
   Only statements; proofs live in Proof/ExchangeTimeout.v.  [client_steps] is GENERATED on
   every run from the AST of ClientExchange.Run (exchange/client_flow.go) and the helpers in
   exchange/proto.go: one entry per blocking transport operation, in source order, with the
   flag "reaches conn.Send/Recv only under context.WithTimeout(ctx, timeout)". *)
From Coq Require Import ZArith List Bool Lia.
From TD Require Import Gen.ExchangeSteps Model.ExchangeTimeout Proof.ExchangeTimeout.
Import ListNotations.
Open Scope Z_scope.

(* Full statement: for EVERY configuration (PFS on/off, initial connect / key regeneration,
   caller deadline present or absent, any dial timeout), every exchange timeout, every blocking
   operation of the client flow, every start time of that STEP and every number n / spacing gap of
   frames the step skips while waiting (transport errors -404), the step runs under a finite
   deadline no later than start + timeout: a peer that stops delivering what the step needs makes
   the exchange fail by then. *)
Theorem C12_every_step_bounded :
  forall (c : config) (timeout start n gap : Z) (o : op),
    In o client_steps -> within (step_deadline (run_ctx c) timeout start n gap o) (start + timeout).
Proof. exact every_step_bounded. Qed.
Print Assumptions C12_every_step_bounded.

(* The table has exactly the shape the flow has: send, receive, send, receive, send, receive.
   A blocking call that the scanner stops listing (or a new one) breaks THIS proof; the scanner
   itself refuses sources in which ctx is handed to a call it cannot classify or the connection
   is aliased. *)
Theorem C12_table_shape : map op_dir client_steps = [0; 1; 0; 1; 0; 1].
Proof. vm_compute. reflexivity. Qed.

(* Why the table matters: an operation that bypasses the helpers is unbounded exactly in the
   configurations in which Run receives a deadline-free context ... *)
Theorem C12_bare_op_unbounded :
  forall c timeout start n gap dir r, run_ctx c = Inf -> ~ step_bounded c timeout start n gap (dir, false, r).
Proof. exact bare_op_unbounded. Qed.
Print Assumptions C12_bare_op_unbounded.

(* ... which are: no caller deadline and (PFS connect or key regeneration). *)
Theorem C12_deadline_free_configs :
  forall c, run_ctx c = Inf <-> cfg_caller c = Inf /\ (cfg_pfs c = true \/ cfg_regen c = true).
Proof. exact run_ctx_inf_iff. Qed.
Print Assumptions C12_deadline_free_configs.

(* (the temporary-key exchange of a PFS connect runs under the same context as the permanent one) *)
Theorem C12_pfs_second_exchange_same_ctx : c_ctx_pfs_temp = c_ctx_pfs_perm.
Proof. exact pfs_temp_same_ctx. Qed.

(* A step whose loop arms a fresh timeout for every skipped frame outlives the timeout by n * gap
   (second repaired defect: readUnencrypted's -404 loop). *)
Theorem C12_restart_op_late :
  forall c timeout start n gap dir, run_ctx c = Inf -> 0 < n * gap -> ~ step_bounded c timeout start n gap (dir, true, true).
Proof. exact restart_op_late. Qed.
Print Assumptions C12_restart_op_late.

(* The tables of the code BEFORE the repairs, kept as documented witnesses:
   (1) steps 5 and 7 called conn.Recv directly; (2) the ResPQ read re-armed its timeout per -404. *)
Definition steps_before_fix : list op :=
  [(0, true, false); (1, true, true); (0, true, false); (1, false, false); (0, true, false); (1, false, false)].
Example C12_old_table_refuted :
  exists c o, In o steps_before_fix /\ ~ step_bounded c 150 0 0 0 o.
Proof.
  exists {| cfg_pfs := true; cfg_regen := false; cfg_caller := Inf; cfg_connect_start := 0; cfg_dial_timeout := 35000 |}, (1, false, false).
  split; [cbn; tauto|]. apply bare_op_unbounded. reflexivity.
Qed.
Example C12_old_404_loop_refuted :
  exists c o, In o steps_before_fix /\ ~ step_bounded c 400 0 8 280 o.
Proof.
  exists {| cfg_pfs := true; cfg_regen := false; cfg_caller := Inf; cfg_connect_start := 0; cfg_dial_timeout := 35000 |}, (1, true, true).
  split; [cbn; tauto|]. apply restart_op_late; [reflexivity|lia].
Qed.

(* non-vacuity: the table is not empty and has both directions *)
Example C12_table_nonempty : nth_dir client_steps 1 3 <> None /\ nth_dir client_steps 0 3 <> None.
Proof. split; vm_compute; discriminate. Qed.
