(* C23 -- handling any decrypted server payload never crashes the connection; results are
   routed by the id they name.  Only statements; proofs live in Proof/HandleMsg.v.
   The theorems are about Model/HandleMsg.v, whose dispatch table and type ids are regenerated
   from mtproto/handle_message.go, proto/*.go and mt/*.go on every run (Gen/HandleConsts.v);
   they quantify over every DEFLATE function, every behaviour of the rpc engine's
   NotifyResult and of the user's handler, every payload, message id and nesting budget. *)
From Coq Require Import ZArith List Bool.
From TD Require Import Lib.Bytes Lib.GoSem Lib.GoSlice Gen.HandleConsts Model.TlPrim Model.HandleMsg Proof.HandleMsg.
Import ListNotations.
Open Scope Z_scope.

(* No panic, for all bytes and all budgets; and the container budget `fuel` is never exhausted
   when it is at least the payload length (each container level strips at least 24 bytes; a
   gzip level hands its decompressed content a fresh budget = its length).  The only budget
   that an input can exhaust is gz, the number of nested gzip_packed layers. *)
Theorem C23_total :
  forall gunzip notify_ok on_message_ok on_session_ok gz fuel msg_id b,
    bytes_ok b ->
    snd (handle gunzip notify_ok on_message_ok on_session_ok gz fuel msg_id b) <> SPanic /\
    (len b <= Z.of_nat fuel ->
     snd (handle gunzip notify_ok on_message_ok on_session_ok gz fuel msg_id b) <> SErr HFuel).
Proof.
  exact (fun g n m s gz fuel msg_id b OK =>
           conj (handle_np g n m s gz fuel msg_id b OK) (handle_nf g n m s gz fuel msg_id b OK)).
Qed.
Print Assumptions C23_total.

(* Routing: every NotifyResult(id, _) effect is caused by a (sub)message -- the payload, a
   container member, or the decompression of a gzip_packed (sub)message -- that is an
   rpc_result whose req_msg_id field is id; every NotifyError(id, _) by an rpc_result,
   bad_msg_notification or bad_server_salt whose req_msg_id / bad_msg_id field is id. *)
Theorem C23_routing :
  forall gunzip notify_ok on_message_ok on_session_ok gz fuel msg_id b,
    Forall (routed gunzip b) (fst (handle gunzip notify_ok on_message_ok on_session_ok gz fuel msg_id b)).
Proof. exact handle_routed. Qed.
Print Assumptions C23_routing.

(* ---- non-vacuity: a container with rpc_result(8, boolTrue), bad_msg_notification(12, code 16),
        pong(ping 3), rpc_result(20, rpc_error 420) produces exactly the four notifications;
        a gzip_packed rpc_result(24, boolFalse) is routed through the decompression ---- *)
Definition ex_container : list Z :=
  [220; 248; 241; 115; 4; 0; 0; 0; 100; 0; 0; 0; 0; 0; 0; 0; 0; 0; 0; 0; 16; 0; 0; 0; 1; 109; 92; 243; 8; 0; 0; 0; 0; 0; 0; 0; 181; 117; 114; 153; 101; 0; 0; 0; 0; 0; 0; 0; 1; 0; 0; 0; 20; 0; 0; 0; 17; 248; 239; 167; 12; 0; 0; 0; 0; 0; 0; 0; 1; 0; 0; 0; 16; 0; 0; 0; 102; 0; 0; 0; 0; 0; 0; 0; 2; 0; 0; 0; 20; 0; 0; 0; 197; 115; 119; 52; 4; 0; 0; 0; 0; 0; 0; 0; 3; 0; 0; 0; 0; 0; 0; 0; 103; 0; 0; 0; 0; 0; 0; 0; 3; 0; 0; 0; 28; 0; 0; 0; 1; 109; 92; 243; 20; 0; 0; 0; 0; 0; 0; 0; 25; 202; 68; 33; 164; 1; 0; 0; 5; 70; 76; 79; 79; 68; 0; 0].
Example C23_nonvacuous_container :
  handle (fun _ => None) (fun _ _ => true) (fun _ => true) (fun _ => true) 0 (length ex_container) 7 ex_container
  = ([ENotifyResult 8 [181; 117; 114; 153]; ENotifyError 12 16; EPong 3; ENotifyError 20 420], SOk).
Proof. vm_compute. reflexivity. Qed.
Definition ex_inner : list Z := [1; 109; 92; 243; 24; 0; 0; 0; 0; 0; 0; 0; 55; 151; 121; 188].
Example C23_nonvacuous_gzip :
  handle (fun z => match z with [1; 2; 3] => Some ex_inner | _ => None end) (fun _ _ => true) (fun _ => true) (fun _ => true)
         1 8 7 [161; 207; 114; 48; 3; 1; 2; 3]
  = ([ENotifyResult 24 [55; 151; 121; 188]], SOk).
Proof. vm_compute. reflexivity. Qed.
(* the gzip budget is the one an input can exhaust: the same payload with gz = 0 *)
Example C23_gzip_budget :
  snd (handle (fun z => match z with [1; 2; 3] => Some ex_inner | _ => None end) (fun _ _ => true) (fun _ => true) (fun _ => true)
              0 8 7 [161; 207; 114; 48; 3; 1; 2; 3]) = SErr HGz.
Proof. vm_compute. reflexivity. Qed.
