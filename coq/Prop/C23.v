(* C23 -- handling any decrypted server payload never crashes the connection; results are
   routed by the id they name.  Only statements; proofs live in Proof/HandleMsg.v.
   The theorems are about Model/HandleMsg.v, whose dispatch table and type ids are regenerated
   from mtproto/handle_message.go, proto/*.go and mt/*.go on every run (Gen/HandleConsts.v);
   they quantify over every DEFLATE function, every behaviour of the rpc engine's
   NotifyResult and of the user's handler, every payload, message id and nesting budget. *)
From Coq Require Import ZArith List Bool.
From TD Require Import Lib.Bytes Lib.GoSem Lib.GoSlice Gen.HandleConsts Model.TlPrim Model.HandleMsg Proof.HandleMsg.
Import ListNotations.
Open Scope Z_scope.

(* No panic, for all bytes and every remaining nesting budget; and the deepest container / gzip
   level the handler enters never exceeds the budget.  Conn.handleMessage starts with the
   budget maxMessageNesting (generated from mtproto/handle_message.go), so at most that many
   decoded containers (each no longer than its input) and decompressed contents (each shorter
   than proto.GZIP's 10 MiB limit, C23_gzip_bound) are alive at once, whatever the payload and
   whatever DEFLATE does (a gzip quine included). *)
Theorem C23_total :
  forall gunzip notify_ok on_message_ok on_session_ok budget msg_id b,
    bytes_ok b ->
    snd (fst (handle gunzip notify_ok on_message_ok on_session_ok budget msg_id b)) <> SPanic.
Proof. exact handle_np. Qed.
Print Assumptions C23_total.
Theorem C23_depth :
  forall gunzip notify_ok on_message_ok on_session_ok msg_id b,
    (forall budget, (snd (handle gunzip notify_ok on_message_ok on_session_ok budget msg_id b) <= budget)%nat) /\
    Z.of_nat (snd (handle_message gunzip notify_ok on_message_ok on_session_ok msg_id b)) <= c_maxMessageNesting.
Proof.
  exact (fun g n m s msg_id b =>
           conj (fun budget => handle_depth g n m s budget msg_id b)
                (eq_ind _ (fun x => Z.of_nat (snd (handle_message g n m s msg_id b)) <= x)
                        (proj1 (Nat2Z.inj_le _ _) (handle_depth g n m s (Z.to_nat c_maxMessageNesting) msg_id b)) _
                        (Z2Nat.id c_maxMessageNesting ltac:(discriminate)))).
Qed.
Print Assumptions C23_depth.
Theorem C23_gzip_bound :
  forall gunzip b d, bytes_ok b -> dec_gzip gunzip b = Ok d -> bytes_ok d /\ len d < c_maxUncompressedSize.
Proof. exact (fun g b d OK => proj2 (dec_gzip_good g b OK) d). Qed.
Print Assumptions C23_gzip_bound.

(* Routing: every NotifyResult(id, payload) effect is caused by a (sub)message m -- the payload,
   a container member, or the decompression of a gzip_packed (sub)message -- such that m decodes
   as rpc_result with req_msg_id = id and `payload` is exactly m's body or the decompression of
   its gzip_packed body; every NotifyError(id, code) by an rpc_result for id whose (possibly
   decompressed) body is an rpc_error with that code, or by a bad_msg_notification /
   bad_server_salt carrying exactly (id, code). *)
Theorem C23_routing :
  forall gunzip notify_ok on_message_ok on_session_ok budget msg_id b,
    Forall (routed gunzip b) (fst (fst (handle gunzip notify_ok on_message_ok on_session_ok budget msg_id b))).
Proof. exact handle_routed. Qed.
Print Assumptions C23_routing.

(* The two registries of waiters (pending pings in handlePong, pending acks in
   rpc.Engine.NotifyAcks) are updated with close(ch); delete(m, id): starting from a registry of
   open channels, no sequence of notifications -- repeated ids included -- closes a channel twice. *)
Theorem C23_no_double_close :
  forall ids r, all_open r -> exists r', close_all r ids = Ok r' /\ all_open r'.
Proof. exact close_all_no_panic. Qed.
Print Assumptions C23_no_double_close.

(* ---- non-vacuity ---- *)
Definition ex_container : list Z :=
  [220; 248; 241; 115; 4; 0; 0; 0; 100; 0; 0; 0; 0; 0; 0; 0; 0; 0; 0; 0; 16; 0; 0; 0; 1; 109; 92; 243; 8; 0; 0; 0; 0; 0; 0; 0; 181; 117; 114; 153; 101; 0; 0; 0; 0; 0; 0; 0; 1; 0; 0; 0; 20; 0; 0; 0; 17; 248; 239; 167; 12; 0; 0; 0; 0; 0; 0; 0; 1; 0; 0; 0; 16; 0; 0; 0; 102; 0; 0; 0; 0; 0; 0; 0; 2; 0; 0; 0; 20; 0; 0; 0; 197; 115; 119; 52; 4; 0; 0; 0; 0; 0; 0; 0; 3; 0; 0; 0; 0; 0; 0; 0; 103; 0; 0; 0; 0; 0; 0; 0; 3; 0; 0; 0; 28; 0; 0; 0; 1; 109; 92; 243; 20; 0; 0; 0; 0; 0; 0; 0; 25; 202; 68; 33; 164; 1; 0; 0; 5; 70; 76; 79; 79; 68; 0; 0].
Example C23_nonvacuous_container :
  handle_message (fun _ => None) (fun _ _ => true) (fun _ => true) (fun _ => true) 7 ex_container
  = (([ENotifyResult 8 [181; 117; 114; 153]; ENotifyError 12 16; EPong 3; ENotifyError 20 420], SOk), 1%nat).
Proof. vm_compute. reflexivity. Qed.
Definition ex_inner : list Z := [1; 109; 92; 243; 24; 0; 0; 0; 0; 0; 0; 0; 55; 151; 121; 188].
Example C23_nonvacuous_gzip :
  handle_message (fun z => match z with [1; 2; 3] => Some ex_inner | _ => None end) (fun _ _ => true) (fun _ => true) (fun _ => true)
         7 [161; 207; 114; 48; 3; 1; 2; 3]
  = (([ENotifyResult 24 [55; 151; 121; 188]], SOk), 1%nat).
Proof. vm_compute. reflexivity. Qed.
(* a DEFLATE "quine" (content = the packed message itself) is cut off at the nesting limit *)
Example C23_gzip_quine :
  handle_message (fun _ => Some [161; 207; 114; 48; 3; 1; 2; 3]) (fun _ _ => true) (fun _ => true) (fun _ => true)
         7 [161; 207; 114; 48; 3; 1; 2; 3]
  = (([], SErr HDepth), Z.to_nat c_maxMessageNesting).
Proof. vm_compute. reflexivity. Qed.
(* a repeated pong id is harmless for a registry of open channels, and would panic otherwise *)
Example C23_double_close_needs_delete :
  close_all [(3, ChOpen)] [3; 3] = Ok [] /\ close_all [(3, ChClosed)] [3] = Panic.
Proof. vm_compute. split; reflexivity. Qed.
