(* C02 -- No update is lost once recovery completes.
   Only statements; model in Model/UpdMgr.v (the Manager routing AS REPAIRED by the fix:
   commits 6065f08e5 / 1f8c800bf), proofs in Proof/UpdMgr.v.  The sequence boxes inside the
   model are those of C01 (checkGap regenerated from gap_check.go on every run).

   Vocabulary:
     wf_log log      every sequenced entry has count >= 1 (qts: exactly 1) and a non-zero
                     position; distinct entries of one sequence occupy disjoint ranges
     mrun c log ops  the manager after ANY list of operations (update containers with arbitrary
                     subsets of the log in any order / grouping / multiplicity, unnumbered or
                     numbered (seq box, applySeq), with or without updatePtsChanged; recoveries,
                     timer firings, startup; channels tracked from the start or by their first
                     pushed update), each carrying the server's visible horizon
     MAffected vis id  (an operation like any other in ops) Manager.HandleAffected for log entry
                     id, our own action: a count-only marker goes through the pts box (or the
                     channel's box); when the box passes it the trace gets Skip s id instead of
                     Deliver s id (nothing is dispatched, the position is stored)
     accounted s e tr := Deliver s (eid e) or Skip s (eid e) is in tr, or some TooLong s from to with
                     from < pos e <= to is in tr (the callback reports the range it skips)
     server_ok c     the contract assumed of the server's policy, which is otherwise ARBITRARY
                     (any function of log, horizon and request choosing intermediate states,
                     slicing and too-long answers): a final answer brings the client to the
                     horizon, cuts lie between request and horizon, a non-final answer makes
                     progress, too-long is not answered at the horizon nor after having been
                     refused for a lower request.  Every answer carries exactly the log entries
                     in (request, cut].  std_server_ok: the harness's fake server satisfies it.
     (the difference recursion of the model carries a fuel of |log|+2 fetches; it is proved
      sufficient: never_out_of_fuel, so the statements below are unconditional)

   Full-strength statement (all finite logs, all delivery histories, differences whole,
   sliced or too long): after a difference fetch that completes, every log entry up to the
   horizon has reached the handler, unless its gap was reported through the too-long callback. *)
From Coq Require Import ZArith List Bool Lia.
From TD Require Import Gen.GapCheck Model.SeqBox Model.UpdMgr Model.UpdMgrOld Proof.SeqBox Proof.UpdMgr Proof.SeqBoxZero.
Import ListNotations.
Open Scope Z_scope.

Theorem C02_no_loss_common : forall c log ops vis,
  wf_log log -> server_ok c ->
  forall s e, (s = 0 \/ s = 1) -> In e log -> eseq e = s -> base c s < epos e <= vis s ->
              accounted s e (mtr (mrun c log (ops ++ [MTooLong vis]))).
Proof. exact no_loss_common_total. Qed.
Print Assumptions C02_no_loss_common.

Theorem C02_no_loss_channel : forall c log ops vis s,
  wf_log log -> server_ok c -> 2 <= s < nseq c -> mtracked (mrun c log ops) s = true ->
  forall e, In e log -> eseq e = s -> base c s < epos e <= vis s ->
            accounted s e (mtr (mrun c log (ops ++ [MChanTooLong vis s]))).
Proof. exact no_loss_channel_total. Qed.

(* the recursion getDifference -> slice -> getDifference ... always ends within |log|+2 fetches *)
Theorem C02_recovery_terminates : forall c log ops, server_ok c -> moof (mrun c log ops) = false.
Proof. exact never_out_of_fuel. Qed.
Print Assumptions C02_recovery_terminates.
Print Assumptions C02_no_loss_channel.

(* the explicit recovery signal updatePtsChanged: an unnumbered container carrying it always
   ends with a completed difference fetch; numbered containers: whenever applySeq applies a
   batch in which ANY container carries it (not only the last one) *)
Theorem C02_no_loss_pts_changed : forall c log ops vis cid ids,
  wf_log log -> server_ok c ->
  forall s e, (s = 0 \/ s = 1) -> In e log -> eseq e = s -> base c s < epos e <= vis s ->
              accounted s e (mtr (mrun c log (ops ++ [MPushC vis cid 0 ids true]))).
Proof. exact no_loss_pts_changed. Qed.
Print Assumptions C02_no_loss_pts_changed.
Theorem C02_no_loss_pts_changed_seq : forall c log ops vis cid sq ids p,
  wf_log log -> server_ok c -> sq <> 0 ->
  snd (fst (pushc_apply c log vis (mrun c log ops) cid sq ids p)) = true ->
  forall s e, (s = 0 \/ s = 1) -> In e log -> eseq e = s -> base c s < epos e <= vis s ->
              accounted s e (mtr (mrun c log (ops ++ [MPushC vis cid sq ids p]))).
Proof. exact no_loss_pts_changed_seq. Qed.
Print Assumptions C02_no_loss_pts_changed_seq.

(* the other recovery triggers of the statement: gap / idle timeout (same code path), startup *)
Theorem C02_no_loss_timer_common : forall c log ops vis,
  wf_log log -> server_ok c ->
  forall s e, (s = 0 \/ s = 1) -> In e log -> eseq e = s -> base c s < epos e <= vis s ->
              accounted s e (mtr (mrun c log (ops ++ [MTimerCommon vis]))).
Proof. exact no_loss_timer_common. Qed.
Print Assumptions C02_no_loss_timer_common.
Theorem C02_no_loss_timer_channel : forall c log ops vis s,
  wf_log log -> server_ok c -> 2 <= s < nseq c -> mtracked (mrun c log ops) s = true ->
  forall e, In e log -> eseq e = s -> base c s < epos e <= vis s ->
            accounted s e (mtr (mrun c log (ops ++ [MTimerChan vis s]))).
Proof. exact no_loss_timer_channel. Qed.
Print Assumptions C02_no_loss_timer_channel.
Theorem C02_no_loss_startup_common : forall c log ops vis,
  wf_log log -> server_ok c ->
  forall s e, (s = 0 \/ s = 1) -> In e log -> eseq e = s -> base c s < epos e <= vis s ->
              accounted s e (mtr (mrun c log (ops ++ [MStartup vis]))).
Proof. exact no_loss_startup_common. Qed.
Print Assumptions C02_no_loss_startup_common.

(* the fake server of the harness is one instance of the contract *)
Theorem C02_std_server_ok : forall n b tr dm sl tl csl ctl, server_ok (std_config n b tr dm sl tl csl ctl).
Proof. exact std_server_ok. Qed.
Print Assumptions C02_std_server_ok.

(* At every moment, recovery or not: whatever a local position has moved past (by pushed
   updates, by gaps filled later, by differences) has been delivered or reported. *)
Theorem C02_no_loss_position : forall c log ops s e,
  wf_log log -> In e log -> eseq e = s -> 0 <= s ->
  base c s < epos e <= bstate (mbox (mrun c log ops) s) -> accounted s e (mtr (mrun c log ops)).
Proof. exact no_loss_position. Qed.
Print Assumptions C02_no_loss_position.

(* Manager-level C01 "at most once": if the server's horizon is never behind the client
   (vis_ok) and ids are unique, no sequenced update reaches the handler twice.  After the
   repair a fetched difference never moves a box backwards (it no longer passes through the
   boxes before setState), which is exactly the hypothesis mono_ops of C01_at_most_once that
   the unrepaired code violated (C01_manager_dup_before_repair below). *)
Theorem C01_manager_at_most_once : forall c log ops,
  wf_log log -> NoDup (map eid log) -> server_ok c -> vis_ok c log (mgr_init c) ops ->
  NoDup (seq_delivers (mtr (mrun c log ops))).
Proof. exact manager_at_most_once. Qed.
Print Assumptions C01_manager_at_most_once.

(* Manager-level C01 ordering, at every quiescent point (after any operation list): the
   delivered set of each sequence is downward closed, i.e. an update has reached the handler
   only if everything of its sequence below its start has too (or was reported too long).
   INSIDE one fetched difference the handler receives other_updates before new_messages
   (C02_witness_repaired: [Deliver 0 2; Deliver 0 1]); the positions in between are "covered
   by a fetched difference" in the words of the statement - that very difference - and this
   is accepted, not a finding; the Go oracle (updsim.CheckInOrder) checks exactly this clause
   on every prefix of the real trace. *)
Theorem C01_manager_in_order : forall c log ops,
  wf_log log -> NoDup (map eid log) -> server_ok c -> vis_ok c log (mgr_init c) ops ->
  forall s e e', 0 <= s -> In e log -> eseq e = s -> In (Deliver s (eid e)) (mtr (mrun c log ops)) ->
                 In e' log -> eseq e' = s -> base c s < epos e' <= epos e - ecnt e ->
                 accounted s e' (mtr (mrun c log ops)).
Proof. exact manager_in_order. Qed.
Print Assumptions C01_manager_in_order.

(* ---- the findings, as witnesses on the routing BEFORE the repair (Model/UpdMgrOld.v) ---- *)
Definition E (i k s p n : Z) : entry := {| eid := i; ekind := k; eseq := s; epos := p; ecnt := n |}.
Definition cfg0 (n : Z) (b : Z -> Z) (sl : Z) : config := std_config n b (fun _ => true) (fun _ => false) sl 0 0 0.
Definition vis_of (l : list Z) : Z -> Z := fun s => nth (Z.to_nat s) l 0.

(* log [Msg@1; Other@2], nothing pushed, one completed recovery: the other update is lost *)
Definition w_log : list entry := [E 1 0 0 1 1; E 2 1 0 2 1].
Theorem C02_refuted_before_repair :
  let m := mrun_old (cfg0 2 (fun _ => 0) 0) w_log [MStartup (vis_of [0; 0]); MTooLong (vis_of [2; 0])] in
  moof m = false /\ deliveredb 0 1 (mtr m) = true /\ deliveredb 0 2 (mtr m) = false /\ toolongb 0 2 (mtr m) = false.
Proof. vm_compute. repeat split; reflexivity. Qed.
Print Assumptions C02_refuted_before_repair.
(* the same history on the repaired routing *)
Example C02_witness_repaired :
  let m := mrun (cfg0 2 (fun _ => 0) 0) w_log [MStartup (vis_of [0; 0]); MTooLong (vis_of [2; 0])] in
  mtr m = [Deliver 0 2; Deliver 0 1; Persist 0 2; Persist 1 0].
Proof. vm_compute. reflexivity. Qed.

(* channel difference {new_messages:[1,2], other_updates:[3]}: the other update is lost *)
Definition w_clog : list entry := [E 1 4 2 1 1; E 2 4 2 2 1; E 3 5 2 3 1].
Theorem C02_channel_refuted_before_repair :
  let m := mrun_old (cfg0 3 (fun _ => 0) 0) w_clog [MStartup (vis_of [0; 0; 0]); MChanTooLong (vis_of [0; 0; 3]) 2] in
  moof m = false /\ deliveredb 2 3 (mtr m) = false /\ toolongb 2 3 (mtr m) = false /\
  persisted (cfg0 3 (fun _ => 0) 0) 2 (mtr m) = 3.
Proof. vm_compute. repeat split; reflexivity. Qed.
Print Assumptions C02_channel_refuted_before_repair.

(* the orchestrator's finding: pts 103 buffered, differenceSlice{others:[101,102], pts 102}
   flushes it through the box, setState moves back to 102, the next difference delivers 103
   again: [101 102 103 103] *)
Definition w_dlog : list entry := [E 1 1 0 101 1; E 2 1 0 102 1; E 3 1 0 103 1].
Definition w_dcfg : config := cfg0 2 (fun s => if s =? 0 then 100 else 0) 2.
Definition w_dops : list mop :=
  [MStartup (vis_of [100; 0]); MPushC (vis_of [103; 0]) 1 0 [3] false; MTimerCommon (vis_of [103; 0])].
Theorem C01_manager_dup_before_repair :
  seq_delivers (mtr (mrun_old w_dcfg w_dlog w_dops)) = [(0, 1); (0, 2); (0, 3); (0, 3)].
Proof. vm_compute. reflexivity. Qed.
Print Assumptions C01_manager_dup_before_repair.
Example C01_manager_dup_repaired :
  seq_delivers (mtr (mrun w_dcfg w_dlog w_dops)) = [(0, 1); (0, 2); (0, 3)].
Proof. vm_compute. reflexivity. Qed.

(* results of our own actions (HandleAffected) are inside every theorem above; the scenario of
   a marker overtaking the update before it (channel box at 0, marker for pts 2 first, then
   the update at pts 1, then pts 3): the marker waits in the box, nothing is skipped *)
Example C01_affected_marker_does_not_skip :
  mtr (mrun (cfg0 3 (fun _ => 0) 0) [E 1 4 2 1 1; E 2 5 2 2 1; E 3 4 2 3 1]
            [MStartup (vis_of [0; 0; 0]); MAffected (vis_of [0; 0; 3]) 2;
             MPushC (vis_of [0; 0; 3]) 1 0 [1] false; MPushC (vis_of [0; 0; 3]) 2 0 [3] false])
  = [Persist 2 0; Deliver 2 1; Skip 2 2; Persist 2 2; Deliver 2 3; Persist 2 3].
Proof. vm_compute. reflexivity. Qed.

(* non-vacuity: a well-formed log with unique ids, a history satisfying vis_ok: numbered
   containers arriving reordered (seq 2 buffered, then seq 1 carrying updatePtsChanged and a
   duplicate), loss, a channel that becomes tracked by its first pushed update, sliced
   recoveries; everything is delivered exactly once *)
Definition nv_log : list entry := [E 1 0 0 1 1; E 2 1 0 3 2; E 3 0 0 4 1; E 4 2 1 1 1; E 5 3 1 2 1; E 6 4 2 1 1; E 7 5 2 2 1].
Definition nv_cfg : config := std_config 3 (fun _ => 0) (fun s => negb (s =? 2)) (fun _ => false) 1 0 1 0.
Definition nv_vis := vis_of [4; 2; 2; 2].
Definition nv_ops : list mop :=
  [MStartup (vis_of [0; 0; 0; 0]); MPushC nv_vis 1 2 [3; 5; 6] false; MPushC nv_vis 2 1 [1; 1] true; MChanTooLong nv_vis 2].
Lemma nv_wf : wf_log nv_log.
Proof.
  split.
  - intros e He. simpl in He. repeat (destruct He as [<-|He]; [unfold wf_entry; simpl; intros; repeat split; try lia; intros; lia|]). destruct He.
  - intros e1 e2 H1 H2. simpl in H1, H2.
    repeat (destruct H1 as [<-|H1]; [repeat (destruct H2 as [<-|H2]; [simpl; intros; try lia; auto|]); try destruct H2|]); try destruct H1.
Qed.
Example C02_nonvacuous :
  wf_log nv_log /\ NoDup (map eid nv_log) /\ server_ok nv_cfg /\ vis_ok nv_cfg nv_log (mgr_init nv_cfg) nv_ops /\
  moof (mrun nv_cfg nv_log nv_ops) = false /\
  seq_delivers (mtr (mrun nv_cfg nv_log nv_ops)) = [(0, 1); (2, 6); (2, 7); (0, 2); (0, 3); (1, 4); (1, 5)].
Proof.
  split; [exact nv_wf|]. split.
  - simpl. repeat constructor; simpl; intuition lia.
  - split; [apply std_server_ok|]. split; [|split; vm_compute; reflexivity].
    assert (H3 : forall (P : Z -> Prop), P 0 -> P 1 -> P 2 -> forall s, 0 <= s < Z.max 2 (nseq nv_cfg) -> P s).
    { intros P H0 H1 H2 s Hs. simpl in Hs.
      assert (s = 0 \/ s = 1 \/ s = 2) as [->|[->| ->]] by lia; auto. }
    cbn [vis_ok nv_ops mid_ok]. repeat split; try (apply H3; vm_compute; discriminate);
      try (vm_compute; discriminate); try (intros _; vm_compute; split; discriminate).
Qed.

(* Updates that consume no position (pts_count = 0 at the current pts: web page / read mark
   style).  wf_log above speaks about entries with a positive count, which a difference can
   return; a zero-count update is returned by no difference, so its push is its only delivery:
   a sequence box that is in sync applies it (delivered alone, position unchanged), and
   checkGap never classifies it as outdated or as a gap.  (Seeded change C02-4 breaks exactly
   this; harness corpus: the zero-count in-sync histories.) *)
Theorem C02_zero_count_in_sync_delivered : forall st u,
  ucnt u = 0 -> ust u = st ->
  handle (box_init st) u = (box_init st, [Dlv st [u]]).
Proof. exact handle_zero_count_in_sync. Qed.
Print Assumptions C02_zero_count_in_sync_delivered.

Theorem C02_zero_count_never_outdated : forall st,
  check_gap_go st st 0 <> c_gapIgnore /\ check_gap_go st st 0 <> c_gapRefetch.
Proof. exact zero_count_at_position_not_ignored. Qed.
Print Assumptions C02_zero_count_never_outdated.

Example C02_zero_count_nonvacuous :
  handle (box_init 7) {| uid := 2; ust := 7; ucnt := 0 |} = (box_init 7, [Dlv 7 [{| uid := 2; ust := 7; ucnt := 0 |}]]).
Proof. vm_compute. reflexivity. Qed.
