(* C09 -- Key exchange with an honest server yields the same key on both sides.
   Only statements; proofs live in Proof/Exchange.v.  The theorems quantify over EVERY
   instantiation of the abstract cryptography (types of keys / ciphertexts included) that
   satisfies the hypotheses written in the statement. *)
From Coq Require Import ZArith List Bool Znumtheory.
From TD Require Import Lib.GoSem Lib.BigIntSem Gen.DhCheck Model.Exchange Proof.Exchange.
Import ListNotations.
Open Scope Z_scope.

(* For all random inputs of both sides (nonces, new_nonce, b; server_nonce, pq, the server's
   candidates for a), both modes (cc_expires = None / Some ttl) and any dc: if
     - RSA_PAD and the two encrypted answers decrypt what was encrypted (C14, C11),
     - exponentiation is g^e mod p (math/big),
     - the server's RSA key is one the client trusts and fingerprints identify keys in the
       client's list, both sides use the same dc, pq <= 2^63 and DecomposePQ returns,
     - the server's DH group passes the client's CheckDH, the server found an a with g^a in the
       safe range, and the client's g^b is in the safe range (otherwise the client aborts
       WITHOUT a key: probability about 2^-63, see C09_abort_is_safe),
   then both sides complete, with the same 256-byte key = big-endian(g^(ab) mod p), the same
   key id and the same salt = new_nonce[0..8) xor server_nonce[0..8). *)
Theorem C09_agree :
  forall (pubkey privkey cipher1 cipher2 cipher3 : Type)
         (pub_of : privkey -> pubkey) (fp : pubkey -> Z)
         (rsa_enc : pubkey -> pq_inner -> cipher1) (rsa_dec : privkey -> cipher1 -> option pq_inner)
         (ans_enc : nonce -> nonce -> sdh_inner -> cipher2) (ans_dec : nonce -> nonce -> cipher2 -> option sdh_inner)
         (cin_enc : nonce -> nonce -> cdh_inner -> cipher3) (cin_dec : nonce -> nonce -> cipher3 -> option cdh_inner)
         (powmod : Z -> Z -> Z -> Z) (prime : Z -> bool) (factor : Z -> option (Z * Z))
         (nonce_hash1 : nonce -> list Z -> list Z) (key_id : list Z -> list Z),
    (forall sk x, rsa_dec sk (rsa_enc (pub_of sk) x) = Some x) ->
    (forall nn sn x, ans_dec nn sn (ans_enc nn sn x) = Some x) ->
    (forall nn sn x, cin_dec nn sn (cin_enc nn sn x) = Some x) ->
    (forall g e p, powmod g e p = g ^ e mod p) ->
    forall (ccf : cconf pubkey) (cr : crand) (scf : sconf privkey) (sr : srand) a ga,
      let pk := pub_of (sc_key privkey scf) in
      let p := sr_p sr in
      In pk (cc_keys pubkey ccf) ->
      (forall k, In k (cc_keys pubkey ccf) -> fp k = fp pk -> k = pk) ->
      sr_pq sr <= 2 ^ 63 -> factor (sr_pq sr) <> None ->
      cc_dc pubkey ccf = sc_dc privkey scf ->
      0 <= p -> check_dh prime server_g p = 0 ->
      pick_a powmod p (sr_as sr) = Some (a, ga) -> 0 <= a ->
      0 <= cr_b cr -> ga_ok p (server_g ^ cr_b cr mod p) = true ->
      exists cres sres,
        honest_run pubkey privkey cipher1 cipher2 cipher3 pub_of fp rsa_enc rsa_dec ans_enc ans_dec
                   cin_enc cin_dec powmod prime factor nonce_hash1 key_id ccf cr scf sr = Done cres sres /\
        kr_key cres = kr_key sres /\
        kr_key cres = be_enc 256 (server_g ^ (a * cr_b cr) mod p) /\
        kr_id cres = kr_id sres /\
        kr_salt cres = kr_salt sres /\
        kr_salt cres = server_salt (cr_new_nonce cr) (sr_server_nonce sr).
Proof. exact honest_agree. Qed.
Print Assumptions C09_agree.

(* The client never returns a zero key on success -- against ANY peer, honest or not
   (primality oracle sound: ProbablyPrime(64) has no false positives up to 2^-128). *)
Theorem C09_nonzero :
  forall (pubkey cipher1 cipher2 cipher3 : Type) (fp : pubkey -> Z)
         (rsa_enc : pubkey -> pq_inner -> cipher1)
         (ans_dec : nonce -> nonce -> cipher2 -> option sdh_inner)
         (cin_enc : nonce -> nonce -> cdh_inner -> cipher3)
         (powmod : Z -> Z -> Z -> Z) (primeo : Z -> bool) (factor : Z -> option (Z * Z))
         (nonce_hash1 : nonce -> list Z -> list Z) (key_id : list Z -> list Z)
         ccf cr m2 m5 m7 r,
    (forall g e p, powmod g e p = g ^ e mod p) ->
    (forall n, primeo n = true -> prime n) ->
    0 <= cr_b cr ->
    client_run pubkey cipher1 cipher2 cipher3 fp rsa_enc ans_dec cin_enc powmod primeo factor nonce_hash1 key_id
               ccf cr m2 m5 m7 = Ok r ->
    kr_key r <> repeat 0 256.
Proof. exact client_key_nonzero. Qed.
Print Assumptions C09_nonzero.

(* the client's FillBytes cannot panic *)
Theorem C09_client_no_panic :
  forall (pubkey cipher1 cipher2 cipher3 : Type) (fp : pubkey -> Z)
         (rsa_enc : pubkey -> pq_inner -> cipher1)
         (ans_dec : nonce -> nonce -> cipher2 -> option sdh_inner)
         (cin_enc : nonce -> nonce -> cdh_inner -> cipher3)
         (powmod : Z -> Z -> Z -> Z) (primeo : Z -> bool) (factor : Z -> option (Z * Z))
         (nonce_hash1 : nonce -> list Z -> list Z) (key_id : list Z -> list Z)
         ccf cr m2 m5 m7,
    (forall g e p, 0 < p -> 0 <= powmod g e p < p) ->
    client_run pubkey cipher1 cipher2 cipher3 fp rsa_enc ans_dec cin_enc powmod primeo factor nonce_hash1 key_id
               ccf cr m2 m5 m7 <> Panic.
Proof. exact client_no_panic. Qed.
Print Assumptions C09_client_no_panic.

(* Interleavings: the protocol is strictly alternating -- every step function above consumes
   exactly the one message the other side produced last, so over a FIFO transport each side has
   at most one enabled action and the run is the composition [honest_run]; chunking of reads and
   writes below message level is the transport codec's concern (C16). *)

(* non-vacuity: the hypotheses are satisfiable (identity "encryption", real exponentiation) *)
Example C09_hyps_satisfiable :
  exists (rsa_enc : Z -> pq_inner -> pq_inner) (rsa_dec : Z -> pq_inner -> option pq_inner),
    forall sk x, rsa_dec sk (rsa_enc (id sk) x) = Some x.
Proof. exists (fun _ x => x), (fun _ x => Some x). reflexivity. Qed.
