(* C09 -- Key exchange with an honest server yields the same key on both sides.
   Only statements; proofs live in Proof/Exchange.v.  The theorems quantify over EVERY
   instantiation of the abstract cryptography (types of keys / ciphertexts included) that
   satisfies the hypotheses written in the statement. *)
From Coq Require Import ZArith List Bool Znumtheory.
From TD Require Import Lib.GoSem Lib.RunLib Lib.BigIntSem Gen.DhCheck Model.DhCheck Model.Exchange Model.ExchangeDemo Model.Alternation Model.TlSchema Gen.SchemaMt Model.ProtoMsg Proof.ProtoMsg Model.ExchangeWire Proof.Exchange Proof.Alternation Proof.ExchangeWire.
Import ListNotations.
Open Scope Z_scope.

(* For all random inputs of both sides (nonces, new_nonce, b; server_nonce, pq, the server's
   candidates for a), both modes (cc_expires = None / Some ttl) and any dc: if
     - RSA_PAD and the two encrypted answers decrypt what was encrypted (C14, C11),
     - exponentiation is g^e mod p (math/big),
     - the server's RSA key is one the client trusts and fingerprints identify keys in the
       client's list, both sides use the same dc, pq <= 2^63 and DecomposePQ returns,
     - the server's DH group passes the client's CheckDH, the server found an a with g^a in the
       safe range, and the client's g^b is in the safe range (otherwise the client aborts
       WITHOUT a key: probability about 2^-63, see C09_abort_is_safe below),
   then both sides complete, with the same 256-byte key = big-endian(g^(ab) mod p), the same
   key id and the same salt = new_nonce[0..8) xor server_nonce[0..8). *)
Theorem C09_agree :
  forall (pubkey privkey cipher1 cipher2 cipher3 : Type)
         (pub_of : privkey -> pubkey) (fp : pubkey -> Z)
         (rsa_enc : pubkey -> pq_inner -> cipher1) (rsa_dec : privkey -> cipher1 -> option pq_inner)
         (ans_enc : nonce -> nonce -> sdh_inner -> cipher2) (ans_dec : nonce -> nonce -> cipher2 -> option sdh_inner)
         (cin_enc : nonce -> nonce -> cdh_inner -> cipher3) (cin_dec : nonce -> nonce -> cipher3 -> option cdh_inner)
         (powmod : Z -> Z -> Z -> Z) (prime : Z -> bool) (factor : Z -> option (Z * Z))
         (nonce_hash1 : nonce -> list Z -> list Z) (key_id : list Z -> list Z),
    (forall sk x, rsa_dec sk (rsa_enc (pub_of sk) x) = Some x) ->
    (forall nn sn x, ans_dec nn sn (ans_enc nn sn x) = Some x) ->
    (forall nn sn x, cin_dec nn sn (cin_enc nn sn x) = Some x) ->
    (forall g e p, powmod g e p = g ^ e mod p) ->
    forall (ccf : cconf pubkey) (cr : crand) (scf : sconf privkey) (sr : srand) a ga,
      let pk := pub_of (sc_key privkey scf) in
      let p := sr_p sr in
      In pk (cc_keys pubkey ccf) ->
      (forall k, In k (cc_keys pubkey ccf) -> fp k = fp pk -> k = pk) ->
      sr_pq sr <= 2 ^ 63 -> factor (sr_pq sr) <> None ->
      cc_dc pubkey ccf = sc_dc privkey scf ->
      0 <= p -> check_dh prime server_g p = 0 ->
      pick_a powmod p (sr_as sr) = Some (a, ga) -> 0 <= a ->
      0 <= cr_b cr -> ga_ok p (server_g ^ cr_b cr mod p) = true ->
      exists cres sres,
        honest_run pubkey privkey cipher1 cipher2 cipher3 pub_of fp rsa_enc rsa_dec ans_enc ans_dec
                   cin_enc cin_dec powmod prime factor nonce_hash1 key_id ccf cr scf sr = Done cres sres /\
        kr_key cres = kr_key sres /\
        kr_key cres = be_enc 256 (server_g ^ (a * cr_b cr) mod p) /\
        kr_id cres = kr_id sres /\
        kr_salt cres = kr_salt sres /\
        kr_salt cres = server_salt (cr_new_nonce cr) (sr_server_nonce sr).
Proof. exact honest_agree. Qed.
Print Assumptions C09_agree.

(* The client never returns a zero key on success -- against ANY peer, honest or not
   (primality oracle sound: ProbablyPrime(64) has no false positives up to 2^-128). *)
Theorem C09_nonzero :
  forall (pubkey cipher1 cipher2 cipher3 : Type) (fp : pubkey -> Z)
         (rsa_enc : pubkey -> pq_inner -> cipher1)
         (ans_dec : nonce -> nonce -> cipher2 -> option sdh_inner)
         (cin_enc : nonce -> nonce -> cdh_inner -> cipher3)
         (powmod : Z -> Z -> Z -> Z) (primeo : Z -> bool) (factor : Z -> option (Z * Z))
         (nonce_hash1 : nonce -> list Z -> list Z) (key_id : list Z -> list Z)
         ccf cr m2 m5 m7 r,
    (forall g e p, powmod g e p = g ^ e mod p) ->
    (forall n, primeo n = true -> prime n) ->
    0 <= cr_b cr ->
    client_run pubkey cipher1 cipher2 cipher3 fp rsa_enc ans_dec cin_enc powmod primeo factor nonce_hash1 key_id
               ccf cr m2 m5 m7 = Ok r ->
    kr_key r <> repeat 0 256.
Proof. exact client_key_nonzero. Qed.
Print Assumptions C09_nonzero.

(* the client's FillBytes cannot panic *)
Theorem C09_client_no_panic :
  forall (pubkey cipher1 cipher2 cipher3 : Type) (fp : pubkey -> Z)
         (rsa_enc : pubkey -> pq_inner -> cipher1)
         (ans_dec : nonce -> nonce -> cipher2 -> option sdh_inner)
         (cin_enc : nonce -> nonce -> cdh_inner -> cipher3)
         (powmod : Z -> Z -> Z -> Z) (primeo : Z -> bool) (factor : Z -> option (Z * Z))
         (nonce_hash1 : nonce -> list Z -> list Z) (key_id : list Z -> list Z)
         ccf cr m2 m5 m7,
    (forall g e p, 0 < p -> 0 <= powmod g e p < p) ->
    client_run pubkey cipher1 cipher2 cipher3 fp rsa_enc ans_dec cin_enc powmod primeo factor nonce_hash1 key_id
               ccf cr m2 m5 m7 <> Panic.
Proof. exact client_no_panic. Qed.
Print Assumptions C09_client_no_panic.

(* "All read/write interleavings over the in-memory transport": client and server as sequential
   programs of sends and receives over two unbounded FIFO queues (Model/Alternation.v; message
   contents abstracted -- they are what honest_run composes).  For EVERY schedule, in every
   reachable state at most one action of either side is enabled, so any two schedules of equal
   length coincide and the only complete one is the strict alternation c1 s2 c3 s5 c6 s8 c8 that
   [honest_run] composes.  (Chunking below message level belongs to the transport codecs: C16.) *)
Theorem C09_one_enabled_action :
  forall tr s, arun ainit tr = Some s -> (length (enabled_events s) <= 1)%nat.
Proof. exact at_most_one_enabled. Qed.
Print Assumptions C09_one_enabled_action.
Theorem C09_schedule_unique :
  forall tr1 tr2 s1 s2, length tr1 = length tr2 -> arun ainit tr1 = Some s1 -> arun ainit tr2 = Some s2 -> tr1 = tr2.
Proof. exact schedule_unique. Qed.
Print Assumptions C09_schedule_unique.
Theorem C09_alternating_schedule_completes :
  exists s, arun ainit the_schedule = Some s /\ cpc s = prog_len /\ spc s = prog_len /\ enabled_events s = [].
Proof. exact the_schedule_runs. Qed.
Print Assumptions C09_alternating_schedule_completes.

(* If g^b falls outside the safety range the client aborts at CheckDHParams (error 43 / 45):
   no key on the client side, and the server never produces its result. *)
Theorem C09_abort_is_safe :
  forall (pubkey privkey cipher1 cipher2 cipher3 : Type)
         (pub_of : privkey -> pubkey) (fp : pubkey -> Z)
         (rsa_enc : pubkey -> pq_inner -> cipher1) (rsa_dec : privkey -> cipher1 -> option pq_inner)
         (ans_enc : nonce -> nonce -> sdh_inner -> cipher2) (ans_dec : nonce -> nonce -> cipher2 -> option sdh_inner)
         (cin_enc : nonce -> nonce -> cdh_inner -> cipher3) (cin_dec : nonce -> nonce -> cipher3 -> option cdh_inner)
         (powmod : Z -> Z -> Z -> Z) (prime : Z -> bool) (factor : Z -> option (Z * Z))
         (nonce_hash1 : nonce -> list Z -> list Z) (key_id : list Z -> list Z),
    (forall sk x, rsa_dec sk (rsa_enc (pub_of sk) x) = Some x) ->
    (forall nn sn x, ans_dec nn sn (ans_enc nn sn x) = Some x) ->
    (forall g e p, powmod g e p = g ^ e mod p) ->
    forall (ccf : cconf pubkey) (cr : crand) (scf : sconf privkey) (sr : srand) a ga,
      let pk := pub_of (sc_key privkey scf) in
      let p := sr_p sr in
      In pk (cc_keys pubkey ccf) ->
      (forall k, In k (cc_keys pubkey ccf) -> fp k = fp pk -> k = pk) ->
      sr_pq sr <= 2 ^ 63 -> factor (sr_pq sr) <> None ->
      cc_dc pubkey ccf = sc_dc privkey scf ->
      0 <= p -> check_dh prime server_g p = 0 ->
      pick_a powmod p (sr_as sr) = Some (a, ga) ->
      ga_ok p (server_g ^ cr_b cr mod p) = false ->
      exists c, (c = 43 \/ c = 45) /\
        honest_run pubkey privkey cipher1 cipher2 cipher3 pub_of fp rsa_enc rsa_dec ans_enc ans_dec
                   cin_enc cin_dec powmod prime factor nonce_hash1 key_id ccf cr scf sr = ClientErr (EDHParams c).
Proof. exact honest_abort. Qed.
Print Assumptions C09_abort_is_safe.

(* non-vacuity: the JOINT hypothesis set of C09_agree is satisfiable (Model/ExchangeDemo.v:
   identity encryption, real square-and-multiply exponentiation, p = 2^2047 + 3003, a = 1500,
   b = 1700), and in that instance the run completes with equal keys, ids and salts. *)
Example C09_hyps_satisfiable :
  (forall sk x, d_rsa_dec sk (d_rsa_enc sk x) = Some x) /\
  (forall nn sn x, d_ans_dec nn sn (d_ans_enc nn sn x) = Some x) /\
  (forall nn sn x, d_cin_dec nn sn (d_cin_enc nn sn x) = Some x) /\
  In 7 (cc_keys Z d_ccf) /\ sr_pq d_sr <= 2 ^ 63 /\ d_factor (sr_pq d_sr) <> None /\
  cc_dc Z d_ccf = sc_dc Z d_scf /\ 0 <= d_p /\
  check_dh d_prime server_g d_p = 0 /\
  pick_a modpow d_p (sr_as d_sr) = Some (1500, d_ga) /\
  ga_ok d_p (modpow server_g (cr_b d_cr) d_p) = true.
Proof.
  repeat split; try reflexivity; try discriminate; try (cbn; tauto); try (vm_compute; reflexivity).
Qed.
Example C09_instance_completes :
  match d_honest with
  | Done c s => zlist_eqb (kr_key c) (kr_key s) && zlist_eqb (kr_id c) (kr_id s) && (kr_salt c =? kr_salt s) = true
  | _ => False
  end.
Proof. vm_compute. reflexivity. Qed.
(* modpow is exponentiation: Proof/DhCheck.v modpow_spec, so [d_*] instantiates pow_ok as well *)

(* ---------- byte level (Model/ExchangeWire.v) ----------
   The plaintext exchange messages are TL values of the GENERATED mt schema (Gen/SchemaMt.v from
   _schema/mt.tl) encoded by the generic interpreter of C21 inside the unencrypted_message framing
   of C22.  The constructor positions the model uses are the constructors of mt.tl ... *)
Theorem C09_wire_constructors :
  map id_of [ci_respq; ci_sdh_fail; ci_sdh_ok; ci_gen_ok; ci_gen_retry; ci_gen_fail; ci_req_pq_multi; ci_req_dh; ci_set_dh]
  = [0x05162463; 0x79cb045d; 0xd0e8075c; 0x3bcbf734; 0x46dc1fb9; 0xa69dae02; 0xbe7e8ef1; 0xd712e4be; 0xf5045f1f]
  /\ cls_of ci_sdh_fail = cls_of ci_sdh_ok /\ cls_of ci_gen_retry = cls_of ci_gen_ok /\ cls_of ci_gen_fail = cls_of ci_gen_ok.
Proof. exact wire_ctor_ids. Qed.
Print Assumptions C09_wire_constructors.

(* ... and every well-typed message survives the wire: what one side sends (TL body in an
   unencrypted_message) decodes on the other side to the same value, so the record-level run
   [honest_run] is what the byte-level run computes. *)
Theorem C09_wire_roundtrip : forall id t v,
  wt mt_schema (depth v) t v = true -> i64 id ->
  (forall bs, body_of t v = Ok bs -> Lib.GoSlice.len bs < 2 ^ 31) ->
  exists w, wire_of id t v = Ok w /\ value_of_wire t w = Some v.
Proof. exact wire_roundtrip. Qed.
Print Assumptions C09_wire_roundtrip.
Theorem C09_respq_record_roundtrip : forall m, 0 <= rp_pq m -> of_v_respq (v_respq m) = Some m.
Proof. exact of_v_respq_v. Qed.
Print Assumptions C09_respq_record_roundtrip.
(* non-vacuity: the demo instance's ResPQ is well-typed and round-trips *)
Example C09_wire_instance :
  wt mt_schema (depth (v_respq d_m2)) (TBoxed ci_respq) (v_respq d_m2) = true /\
  match body_of (TBoxed ci_respq) (v_respq d_m2) with Ok b => option_map of_v_respq (value_of_body (TBoxed ci_respq) b) = Some (Some d_m2) | _ => False end.
Proof. split; vm_compute; reflexivity. Qed.
