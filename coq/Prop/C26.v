(* C26 -- Closing or cancelling never strands callers and classifies retryability.
   Only statements; model Model/Rpc.v, proofs Proof/Rpc.v. The two classification
   functions errRetryableOnNewConn (pool, telegram) are regenerated from the source into
   Gen/RpcClass.v on every run and used by the model (retryable, retryable_tg). *)
From Coq Require Import ZArith List Bool.
From TD Require Import Gen.RpcClass Model.Rpc Proof.Rpc Proof.RpcEnv Proof.RpcClass.
Import ListNotations.
Open Scope Z_scope.

(* Progress is POSSIBILITY (exists es): some own step always decreases the measure; a scheduler
   could in principle prefer the timer branch, but every such detour consumes one XTimerFire, an
   environment event, so without further environment events every maximal run of own steps is
   finite and ends in the return (fairness of the Go scheduler is assumed, not modelled). The
   caller of ForceClose itself: see C26_close_waits_and_rejects (it returns exactly when every Do
   has returned; a Do blocked inside the injected drop handler keeps it waiting).
   Progress: in every reachable state in which the engine has been force-closed, every
   pending call (entered, not yet returned) can reach its return within 56 steps none of
   which is an environment event: only its own steps and the completion of a handler
   invocation that had already claimed it. (The premise about the ack map is the
   distinct-msg-id assumption for a call that has not yet registered its ack channel.) *)
Theorem C26_progress_after_close : forall mx s c, 1 <= mx -> reach mx s -> fclosed s = true ->
  pending (pc (calls s c)) = true ->
  (pre_ack (pc (calls s c)) = true -> ackm s (mid (calls s c)) = None) ->
  exists es s', Forall (fun e => is_env e = false) es /\ run s es = Some s' /\
                is_returned (pc (calls s' c)) = true /\ (length es <= 56)%nat.
Proof. exact c26_progress. Qed.
Print Assumptions C26_progress_after_close.

(* Graceful Close (Engine.Close; ForceClose = reqCancel then Close): Close marks the engine
   closed under the mutex (XCloseMark) and waits on the WaitGroup that Do joins in its entry
   region (CEntered = closed check + wg.Add in one mutex region) and leaves with its last
   deferred call (wg.Done, part of the return step). Once a Close / ForceClose call has
   returned (XCloseReturned, enabled only on an empty wait group) no call is pending -- in that
   state and in every later one; every Do that starts after the engine was marked closed is
   rejected in its entry region (CEntered is disabled), and a rejected call has transmitted
   nothing and dropped nothing. *)
Theorem C26_close_waits_and_rejects : forall mx s, 1 <= mx -> reach mx s ->
  (closeret s = true ->
     eclosed s = true /\ wgl s = [] /\
     forall c, entered (calls s c) = true -> is_returned (pc (calls s c)) = true) /\
  (eclosed s = true -> forall c m q b, step s (CEntered c m q b) = None) /\
  (forall c, pc (calls s c) = PReturned RRejected ->
     entered (calls s c) = false /\ nsends (calls s c) = 0 /\ ndrops (calls s c) = 0).
Proof. exact c26_close. Qed.
Print Assumptions C26_close_waits_and_rejects.

(* Non-vacuity: a graceful Close with one call pending; the result arrives, Do returns, Close
   returns, a later Do is rejected. Close cannot return while the call is pending. *)
Definition C26_close_trace : list ev :=
  [CEntered 0 5 1 7; CRegistered 0; CAckWait 0; CSend 0 5 1 7 0; CSelect 0; XCloseMark].
Definition C26_close_rest : list ev :=
  [NLookup 0 5 0 9; NEnter 0 0; NClaimed 0 0; NDecode 0 0 true 9; NDoneClosed 0 0; NRetryClosed 0 0; NFinish 0 0;
   CSelCtx 0; CRetried 0; CWait 0; CWaitDone 0; CUnregistered 0; CAwait 0; CSettled 0; CReturn 0 0 0 false false;
   XCloseReturned; CReturn 1 6 0 true true].
Example C26_close_nonvacuous :
  run (init 3) (C26_close_trace ++ [XCloseReturned]) = None /\
  exists s, run (init 3) (C26_close_trace ++ C26_close_rest) = Some s /\ closeret s = true /\
            pc (calls s 0) = PReturned RNil /\ pc (calls s 1) = PReturned RRejected /\ nsends (calls s 1) = 0.
Proof. vm_compute. split; [reflexivity | eexists; repeat split]. Qed.

(* Classification. snap26 = "ack delivered, result/error handler completed, or caller
   cancelled" at the moment the close branch of the retry loop polled. The retryable
   engine-closed error is returned only with a clear snapshot AND only if no result / error
   handler ever claimed the call (Do claimed it itself on return: selfclaim): the Output was
   never written and no outcome was received -- resending cannot duplicate an answered request.
   The non-retryable close error is returned only if the ack was delivered, a handler
   completed or the caller cancelled (deliv). (A send reports context.Canceled only when the
   retry context is cancelled -- guard of the o = 2 transmissions, environment assumption
   validated by the replay.) With C25_quiet_after_env_ack: once the environment delivered the
   ack to a waiting request, CClosedUnacked is disabled, so that request cannot fail retryably. *)
Theorem C26_class : forall mx s c, 1 <= mx -> reach mx s ->
  viol26 (calls s c) = false /\
  (pc (calls s c) = PReturned RClosedRetryable ->
     snap26 (calls s c) = false /\ selfclaim (calls s c) = true /\ writer (calls s c) = None /\
     nwrites (calls s c) = 0 /\ done (calls s c) = false) /\
  (pc (calls s c) = PReturned RClosedAcked -> deliv (calls s c) = true).
Proof. exact c26_class. Qed.
Print Assumptions C26_class.

(* Both errRetryableOnNewConn functions say "retry on a new connection" exactly for the
   errors that are ErrEngineClosed: Do on a closed engine and the unacknowledged-close error. *)
Theorem C26_class_functions : forall r,
  retryable r = is_engine_closed r /\ retryable_tg r = is_engine_closed r.
Proof. exact c26_functions. Qed.
Print Assumptions C26_class_functions.

Theorem C26_acked_not_retryable :
  retryable RClosedAcked = false /\ retryable_tg RClosedAcked = false /\
  retryable RCtx = false /\ retryable_tg RCtx = false.
Proof. exact c26_acked_not_retryable. Qed.
Print Assumptions C26_acked_not_retryable.

(* Drop: a returned call has issued exactly one drop request if it returned the context
   error and its request had been sent (the code's variable "sent"), none otherwise. *)
Theorem C26_drop : forall mx s c r, 1 <= mx -> reach mx s -> pc (calls s c) = PReturned r ->
  ndrops (calls s c) = match r with RCtx => if sent (calls s c) then 1 else 0 | _ => 0 end.
Proof. exact c26_drop. Qed.
Print Assumptions C26_drop.

(* Non-vacuity: cancel after the first transmission -> one drop; force close of an
   unacknowledged call -> retryable. *)
Definition C26_trace : list ev :=
  [CEntered 0 5 1 7; CEntered 1 6 3 8; CRegistered 0; CRegistered 1; CAckWait 0; CAckWait 1; CSend 0 5 1 7 0;
   CSend 1 6 3 8 0; CSelect 0; CSelect 1; XCancel 0; CSelCtx 0; CRetried 0; CWait 0; CWaitCtx 0; CNop 0;
   CDrop 0 5 0; CUnregistered 0; CSettled 0; CReturn 0 3 0 false false;
   XForceCancel; CSelClosed 1; CClosedUnacked 1; CRetried 1; CRetryErr 1; CUnregistered 1; CSettled 1;
   CReturn 1 4 0 true true].
Example C26_nonvacuous :
  exists s, run (init 3) C26_trace = Some s /\ ndrops (calls s 0) = 1 /\ pc (calls s 1) = PReturned RClosedRetryable
            /\ fclosed s = true.
Proof. vm_compute. eexists. repeat split. Qed.

(* Regression witness of the defect repaired by /repo commit df56df347: the result handler
   has completed and the engine is force-closed before the retry loop's select runs; select
   picks the close branch. Reporting "unacknowledged" is not enabled any more. *)
Definition C26_old_witness_prefix : list ev :=
  [CEntered 0 5 1 7; CRegistered 0; CAckWait 0; CSend 0 5 1 7 0; CSelect 0; NLookup 0 5 0 783; NEnter 0 0;
   NClaimed 0 0; NDecode 0 0 true 783; NDoneClosed 0 0; NRetryClosed 0 0; NFinish 0 0; XForceCancel; CSelClosed 0].
Example C26_old_witness_blocked :
  run (init 3) (C26_old_witness_prefix ++ [CClosedUnacked 0]) = None /\
  exists s, run (init 3) (C26_old_witness_prefix ++
      [CClosedCtx 0; CRetried 0; CWait 0; CWaitDone 0; CUnregistered 0; CAwait 0; CSettled 0; CReturn 0 0 0 false false]) = Some s
    /\ pc (calls s 0) = PReturned RNil.
Proof. vm_compute. split; [reflexivity | eexists; split; reflexivity]. Qed.

(* Regression witness of the defect repaired by /repo commit 459a12526 (formerly filed here as
   "residual window"): a handler has claimed the call but not finished when the close branch
   polls; Do waits for it (Output written) -- and used to return the retryable error, so the
   answered request was executed twice. Returning the retryable class is not enabled any more;
   Do returns the handler's outcome. *)
Definition C26_claimed_prefix : list ev :=
  [CEntered 0 5 1 7; CRegistered 0; CAckWait 0; CSend 0 5 1 7 0; CSelect 0; NLookup 0 5 0 42; NEnter 0 0; NClaimed 0 0;
   XForceCancel; CSelClosed 0; CClosedUnacked 0; CRetried 0; CRetryErr 0; CUnregistered 0; CAwait 0;
   NDecode 0 0 true 42; NDoneClosed 0 0; CSettled 0].
Example C26_old_residual_blocked :
  run (init 3) (C26_claimed_prefix ++ [CReturn 0 4 0 true true]) = None /\
  exists s, run (init 3) (C26_claimed_prefix ++ [CReturn 0 0 0 false false]) = Some s /\
            pc (calls s 0) = PReturned RNil /\ out (calls s 0) = 42.
Proof. vm_compute. split; [reflexivity | eexists; repeat split]. Qed.
