(* C35 -- Message entity offsets and lengths are correct UTF-16 ranges.
   Only statements; proofs live in Proof/Entity.v and Lib/Utf.v.

   History: on the tree before fix commit 5d0e7a40a the model refuted the statement
   (witness: Token; Plain "abc "; Format "def " [italic]; token.Apply [bold]; ShrinkPreCode;
   Complete gave bold 0+8, italic 4+7 in the 7-unit text "abc def").  fixEntities now clamps
   every entity to the trimmed text, the model mirrors that, and the witness is a corpus case of
   the harness and the non-vacuity example below. *)
From Coq Require Import ZArith List Bool Permutation Lia.
From TD Require Import Lib.GoSem Lib.Utf Gen.EntityLess Gen.EntityUtf Model.EntitySort Model.Entity Proof.Entity.
Import ListNotations.
Open Scope Z_scope.

(* Full-strength statement for one build, i.e. ANY sequence of Plain / Format / Write / WriteByte /
   WriteRune / Token / Token.Apply / ShrinkPreCode over valid Unicode (build_ok: code points are
   valid, WriteByte is ASCII, applied tokens were created in this build), on a builder in any
   state a previous Complete/Raw may have left (stale lengths/lastFormatIndex, stale tokens),
   followed by Complete:  no panic; the text is the first nT code points of what was written and
   only white space was cut (complete_spec);  every returned entity has the UTF-16 offset/length of
   the piece it formatted, cut at the end of the final text (expected), nothing is lost or invented
   unless ShrinkPreCode was called (Permutation), and every entity lies within the text. *)
Theorem C35_ranges :
  forall (m : mstate) (ops : list uop),
    fresh (m_b m) -> build_ok s_init ops ->
    exists m' nT es,
      exec m (map (enc_uop (length (m_toks m))) ops ++ [OComplete])
        = (m', [Ok (utf8_encode (firstn nT (s_text (srun ops))), es)]) /\
      fresh (m_b m') /\ complete_spec (srun ops) nT es.
Proof. exact build_complete. Qed.
Print Assumptions C35_ranges.

(* ... hence for every sequence of well-formed builds on one builder (all operation sequences). *)
Theorem C35_all_sequences :
  forall (builds : list (list uop)) (m : mstate),
    fresh (m_b m) -> Forall (build_ok s_init) builds ->
    Forall2 (fun ops o => exists nT es,
               o = Ok (utf8_encode (firstn nT (s_text (srun ops))), es) /\ complete_spec (srun ops) nT es)
            builds (run_builds m builds).
Proof. exact all_builds. Qed.
Print Assumptions C35_all_sequences.

(* WHEN Complete trims (complete_spec only says that nothing but trailing white space is cut):
   a build whose last operation is Format x tags (x and tags non-empty) returns everything written
   before x followed by x without its trailing white space; a build whose last operation is Plain x
   returns the whole text. *)
Theorem C35_trims_when_last_block_formatted :
  forall (m : mstate) (ops : list uop) (x tags : list Z),
    fresh (m_b m) -> build_ok s_init ops -> Forall cp_valid x -> x <> [] -> tags <> [] ->
    exists es, snd (exec m (map (enc_uop (length (m_toks m))) (ops ++ [UFormat x tags]) ++ [OComplete]))
               = [Ok (utf8_encode (s_text (srun ops) ++ trim_cps x), es)].
Proof. exact build_trims_after_format. Qed.
Print Assumptions C35_trims_when_last_block_formatted.

Theorem C35_no_trim_after_plain :
  forall (m : mstate) (ops : list uop) (x : list Z),
    fresh (m_b m) -> build_ok s_init ops -> Forall cp_valid x ->
    exists es, snd (exec m (map (enc_uop (length (m_toks m))) (ops ++ [UPlain x]) ++ [OComplete]))
               = [Ok (utf8_encode (s_text (srun ops) ++ x), es)].
Proof. exact build_keeps_after_plain. Qed.
Print Assumptions C35_no_trim_after_plain.

(* The length function generated from utf16RuneLen, summed over Go's decoding of a valid string,
   is the UTF-16 length of its code points; Go's byte-level trimming is Unicode trimming. *)
Theorem C35_compute_length :
  forall x, Forall cp_valid x -> compute_length (utf8_encode x) = u16c x.
Proof. exact compute_length_encode. Qed.
Print Assumptions C35_compute_length.

Theorem C35_trim_is_unicode_trim :
  forall s, Forall cp_valid s -> trim_bytes (utf8_encode s) = utf8_encode (trim_cps s).
Proof. exact trim_bytes_encode. Qed.
Print Assumptions C35_trim_is_unicode_trim.

Theorem C35_utf8_roundtrip :
  forall s, Forall cp_valid s -> go_decode (utf8_encode s) = s.
Proof. exact go_decode_encode. Qed.
Print Assumptions C35_utf8_roundtrip.

(* non-vacuity: the old witness is a well-formed build, and the model now yields bold 0+7 and
   italic 4+3 in "abc def" (tags: 0 = bold, 3 = italic, uid in bits 7..) *)
Definition C35_witness : list uop :=
  [UToken; UPlain [97; 98; 99; 32]; UFormat [100; 101; 102; 32] [131]; UApply 0 [256]; UShrink].
Example C35_witness_ok : build_ok s_init C35_witness.
Proof. cbn; repeat split; try lia; repeat constructor. Qed.
Example C35_witness_result :
  snd (exec m_init (map (enc_uop 0) C35_witness ++ [OComplete]))
  = [Ok ([97; 98; 99; 32; 100; 101; 102], [mk_ent 0 7 256; mk_ent 4 3 131])].
Proof. vm_compute. reflexivity. Qed.
Example C35_fresh_exists : fresh (m_b m_init).
Proof. exact fresh_init. Qed.
