(* C03 -- Persisted update state never runs ahead of delivered updates.
   Only statements; model in Model/UpdMgr.v (routing AS REPAIRED by the fix: commits
   6065f08e5, 1f8c800bf, 3ce78403e), proofs in Proof/UpdMgr.v.

   The trace of a run is the program-order sequence of Deliver seq id (handler calls),
   Persist seq v (storage writes) and TooLong seq (too-long callbacks); a crash point is a
   prefix of it.  safe_at c log pre := for every sequence s and log entry e of s with
   base s < pos e <= (last value persisted for s within pre, or base s):
   Deliver s (eid e) is in pre, or a TooLong s from to with from < pos e <= to is in pre
   (the gap THAT callback reported). *)
From Coq Require Import ZArith List Bool Lia.
From TD Require Import Gen.GapCheck Model.SeqBox Model.UpdMgr Model.UpdMgrOld Proof.SeqBox Proof.UpdMgr.
Import ListNotations.
Open Scope Z_scope.

(* every reachable trace (any log, any history of pushes / gaps / timers / differences whole,
   sliced or too long / channel differences), EVERY prefix *)
Theorem C03_prefix_safe : forall c log ops pre post,
  wf_log log -> mtr (mrun c log ops) = pre ++ post -> safe_at c log pre.
Proof. exact prefix_safe. Qed.
Print Assumptions C03_prefix_safe.

(* The model's trace is in program order of the goroutine owning each sequence; the real trace
   interleaves the main loop and the channel workers.  safe_at is a conjunction over the
   sequences of a predicate of the per-sequence projection, so every prefix of ANY trace with
   the same per-sequence projections (any interleaving) is safe. *)
Theorem C03_prefix_safe_interleaved : forall c log ops tr',
  wf_log log ->
  (forall s, 0 <= s -> proj s tr' = proj s (mtr (mrun c log ops))) ->
  forall pre' post', tr' = pre' ++ post' -> safe_at c log pre'.
Proof. exact prefix_safe_interleaved. Qed.
Print Assumptions C03_prefix_safe_interleaved.

(* crash after any prefix, restart from the positions persisted in that prefix (any further
   history ops2), recover: nothing of the log up to the horizon is missing across both runs *)
Theorem C03_restart_common : forall c log ops pre post ops2 vis,
  wf_log log -> server_ok c -> mtr (mrun c log ops) = pre ++ post ->
  forall s e, (s = 0 \/ s = 1) -> In e log -> eseq e = s -> base c s < epos e <= vis s ->
              accounted s e pre \/
              accounted s e (mtr (mrun (rebase c (fun s => persisted c s pre)) log (ops2 ++ [MTooLong vis]))).
Proof. exact restart_common_total. Qed.
Print Assumptions C03_restart_common.

Theorem C03_restart_channel : forall c log ops pre post ops2 vis s,
  wf_log log -> server_ok c -> 2 <= s < nseq c -> mtr (mrun c log ops) = pre ++ post ->
  mtracked (mrun (rebase c (fun s => persisted c s pre)) log ops2) s = true ->
  forall e, In e log -> eseq e = s -> base c s < epos e <= vis s ->
            accounted s e pre \/
            accounted s e (mtr (mrun (rebase c (fun s => persisted c s pre)) log (ops2 ++ [MChanTooLong vis s]))).
Proof. exact restart_channel_total. Qed.
Print Assumptions C03_restart_channel.

(* ---- the findings, as witnesses on the routing BEFORE the repair ---- *)
Definition E (i k s p n : Z) : entry := {| eid := i; ekind := k; eseq := s; epos := p; ecnt := n |}.
Definition vis_of (l : list Z) : Z -> Z := fun s => nth (Z.to_nat s) l 0.

(* too long: [.. Persist pts 4] is a prefix in which 4 messages are covered, undelivered and
   unreported (the callback came one step later) *)
Definition tl_cfg : config := std_config 2 (fun _ => 0) (fun _ => true) (fun _ => false) 0 2 0 0.
Definition tl_log : list entry := [E 1 0 0 1 1; E 2 0 0 2 1; E 3 0 0 3 1; E 4 0 0 4 1].
Definition tl_ops : list mop := [MStartup (vis_of [0; 0]); MTooLong (vis_of [4; 0])].
Theorem C03_toolong_refuted_before_repair :
  mtr (mrun_old tl_cfg tl_log tl_ops) = [Persist 0 4; TooLong 0 0 4] /\
  unsafe_atb tl_cfg tl_log [Persist 0 4] = true.
Proof. vm_compute. split; reflexivity. Qed.
Print Assumptions C03_toolong_refuted_before_repair.
Example C03_toolong_repaired : mtr (mrun tl_cfg tl_log tl_ops) = [TooLong 0 0 4; Persist 0 4].
Proof. vm_compute. reflexivity. Qed.

(* difference {new_messages:[1], other_updates:[2]}: pts 2 persisted, update 2 never delivered *)
Definition w_cfg : config := std_config 2 (fun _ => 0) (fun _ => true) (fun _ => false) 0 0 0 0.
Definition w_log : list entry := [E 1 0 0 1 1; E 2 1 0 2 1].
Theorem C03_refuted_before_repair :
  let tr := mtr (mrun_old w_cfg w_log [MStartup (vis_of [0; 0]); MTooLong (vis_of [2; 0])]) in
  unsafe_atb w_cfg w_log tr = true.
Proof. vm_compute. reflexivity. Qed.
Print Assumptions C03_refuted_before_repair.

(* non-vacuity: a run with several storage writes, all of whose prefixes are safe *)
Example C03_nonvacuous :
  mtr (mrun w_cfg w_log [MStartup (vis_of [0; 0]); MPushC (vis_of [2; 0]) 1 0 [2] false; MPushC (vis_of [2; 0]) 2 0 [1] false; MTooLong (vis_of [2; 0])])
  = [Deliver 0 1; Deliver 0 2; Persist 0 2].
Proof. vm_compute. reflexivity. Qed.
