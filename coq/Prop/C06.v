(* C06 -- Key derivation matches the MTProto 2.0 and 1.0 specifications.
   Only statements; proofs live in Proof/Kdf.v.
   Left-hand sides: the model of the Go code (Model/MsgCrypto.v: slice expressions
   authKey[88+x : 32+88+x], copy(v[8:], b[8:16+8]) into zeroed fixed-size arrays, getX
   generated from the source).  Right-hand sides: Model/MTProtoSpec.v, the formulas of the
   public specification written with substr(s, off, len) and "+", independently of the code.
   xdir Client = 0 (client -> server), xdir Server = 8 (server -> client). *)
From Coq Require Import ZArith List Bool Lia.
From TD Require Import Lib.Bytes Lib.GoSem Gen.CipherConsts Model.MsgCrypto Model.MTProtoSpec Proof.MsgCrypto Proof.Kdf.
Import ListNotations.
Open Scope Z_scope.

Theorem C06_msg_key_spec :
  forall sha256 : list Z -> list Z, (forall m, length (sha256 m) = 32%nat) ->
  forall (key pt : list Z) (s : side),
    message_key sha256 key pt s = Spec.msg_key sha256 key pt (xdir s).
Proof. exact message_key_eq_spec. Qed.
Print Assumptions C06_msg_key_spec.

Theorem C06_keys_spec :
  forall sha256 : list Z -> list Z, (forall m, length (sha256 m) = 32%nat) ->
  forall (key mk : list Z) (s : side),
    keys sha256 key mk s = (Spec.aes_key sha256 key mk (xdir s), Spec.aes_iv sha256 key mk (xdir s)).
Proof. exact keys_eq_spec. Qed.
Print Assumptions C06_keys_spec.

Theorem C06_v1_msg_key_spec :
  forall sha1 : list Z -> list Z, (forall m, length (sha1 m) = 20%nat) ->
  forall pt : list Z, message_key_v1 sha1 pt = Spec.msg_key_v1 sha1 pt.
Proof. exact message_key_v1_eq_spec. Qed.
Print Assumptions C06_v1_msg_key_spec.

Theorem C06_v1_spec :
  forall sha1 : list Z -> list Z, (forall m, length (sha1 m) = 20%nat) ->
  forall key mk : list Z,
    keys_v1 sha1 key mk = (Spec.aes_key_v1 sha1 key mk 0, Spec.aes_iv_v1 sha1 key mk 0).
Proof. exact keys_v1_eq_spec. Qed.
Print Assumptions C06_v1_spec.

Theorem C06_old_keys_spec :
  forall sha1 : list Z -> list Z, (forall m, length (sha1 m) = 20%nat) ->
  forall (key mk : list Z) (s : side),
    old_keys sha1 key mk s = (Spec.aes_key_v1 sha1 key mk (xdir s), Spec.aes_iv_v1 sha1 key mk (xdir s)).
Proof. exact old_keys_eq_spec. Qed.
Print Assumptions C06_old_keys_spec.

(* The bind message produced by EncryptBindMessage, opened by a receiver written from the
   specification (permanent key, MTProto 1.0 KDF with x = 0, msg_key = SHA1(message_data)[4..20]
   over the data WITHOUT padding), yields exactly the bound fields. *)
Theorem C06_bind_decrypts :
  forall sha1 : list Z -> list Z, (forall m, length (sha1 m) = 20%nat) ->
  forall aes_enc aes_dec : list Z -> list Z -> list Z, aes_inverse aes_enc aes_dec ->
  forall (rnd : list Z) (k : authkey) (msg_id : Z) (b : bind_inner),
    length (ak_id k) = 8%nat -> authkey_zero k = false -> (24 <= length rnd)%nat ->
    - 2 ^ 63 <= msg_id < 2 ^ 63 -> bind_inner_ok b ->
    exists ct : list Z,
      encrypt_bind sha1 aes_enc rnd k msg_id b = Ok ct /\ length ct = 104%nat /\
      Spec.open_bind sha1 aes_dec (ak_value k) (ak_id k) ct =
      Ok {| Spec.bd_msg_id := msg_id; Spec.bd_seq_no := 0; Spec.bd_nonce := b_nonce b;
            Spec.bd_temp_key_id := b_temp_key_id b; Spec.bd_perm_key_id := b_perm_key_id b;
            Spec.bd_temp_session := b_temp_session b; Spec.bd_expires := b_expires b |}.
Proof. exact bind_decrypts. Qed.
Print Assumptions C06_bind_decrypts.

(* The receiver above uses the specification's own AES-IGE pass (p_i = D (c_i xor p_(i-1)) xor c_(i-1),
   iv = c_0 + p_0); it coincides with the model of github.com/gotd/ige's DecryptBlocks on all inputs. *)
Theorem C06_spec_ige_is_library_ige :
  forall (D : list Z -> list Z) (iv data : list Z), Spec.ige_decrypt D iv data = ige_dec_raw D iv data.
Proof. exact spec_ige_eq. Qed.
Print Assumptions C06_spec_ige_is_library_ige.

(* ---- non-vacuity ---- *)
Definition toy_hash (n : nat) (m : list Z) : list Z := firstn n (m ++ repeat 0 n).
Example C06_hash_hypotheses_satisfiable :
  (forall m, length (toy_hash 32 m) = 32%nat) /\ (forall m, length (toy_hash 20 m) = 20%nat) /\
  aes_inverse (fun _ b => b) (fun _ b => b).
Proof.
  split; [|split].
  - intros m. unfold toy_hash. rewrite firstn_length, app_length, repeat_length. lia.
  - intros m. unfold toy_hash. rewrite firstn_length, app_length, repeat_length. lia.
  - intros k b Hb. split; [reflexivity|exact Hb].
Qed.
Example C06_bind_premises_satisfiable :
  let k := {| ak_value := repeat 1 256; ak_id := repeat 2 8 |} in
  let b := {| b_nonce := -1; b_temp_key_id := 2 ^ 63 - 1; b_perm_key_id := - 2 ^ 63; b_temp_session := 0; b_expires := 2 ^ 31 - 1 |} in
  length (ak_id k) = 8%nat /\ authkey_zero k = false /\ (24 <= length (repeat 9 24))%nat /\
  - 2 ^ 63 <= 77 < 2 ^ 63 /\ bind_inner_ok b /\
  exists bd, Spec.open_bind (toy_hash 20) (fun _ x => x) (ak_value k) (ak_id k)
               match encrypt_bind (toy_hash 20) (fun _ x => x) (repeat 9 24) k 77 b with Ok ct => ct | _ => [] end
             = Ok bd /\ Spec.bd_msg_id bd = 77 /\ Spec.bd_expires bd = 2 ^ 31 - 1.
Proof.
  cbv zeta. split; [reflexivity|]. split; [reflexivity|]. split; [cbn; lia|]. split; [lia|].
  split; [unfold bind_inner_ok; cbn; lia|].
  eexists. split; [vm_compute; reflexivity|]. split; reflexivity.
Qed.
