(* C30 -- Saved sessions hold the key confirmed for the primary DC.
   Only statements; proofs live in Proof/Session.v, the model in Model/Session.v.  The
   guards [ignore_non_primary], [save_uses_perm], [restore_dc_missing] are regenerated
   from /repo/telegram/session.go on every run (Gen/SessionGuard.v).  Keys are abstract
   (any type K with a zero test, a validity test and a zero value): every theorem holds
   for all key types, all histories of any length. *)
From Coq Require Import List ZArith Bool.
From TD Require Import Lib.GoSem Gen.SessionGuard Model.Session Proof.Session.
Import ListNotations.
Open Scope Z_scope.

(* For ALL histories of notifications (primary, non-primary, CDN, PFS on/off; a notification
   may have a concurrent Migrate land inside it, between onSession's store and saveSession's
   write: event ENotifyMig, [ev_notif] gives the notification of either kind),
   migrations and restores: every record written to the storage is exactly
   (ThisDC, key to persist, salt) of the notification delivered at that step, that
   notification came through the regular handler (never the CDN handler), and the guard was
   open: ThisDC is the primary DC at that time -- or ThisDC = 0, or the primary DC = 0,
   the two cases in which the code lets any DC through. *)
Theorem C30_saved_from_primary_notification :
  forall (K : Type) (kzero kvalid : K -> bool) (k0 : K)
         (h : list (@event K)) (st : @state K) (i : nat) (sv : @sess K),
    nth_error (snd (run kzero kvalid k0 st h)) i = Some (Some sv) ->
    exists e n, nth_error h i = Some e /\ ev_notif e = Some n /\ n_h n = HRegular /\
              sv = mkSess (n_dc n) (save_key kzero n) (n_salt n) /\
              (n_dc n = 0 \/ s_dc (cur (state_at kzero kvalid k0 st h i)) = 0 \/
               s_dc (cur (state_at kzero kvalid k0 st h i)) = n_dc n).
Proof. exact (@saved_in_history). Qed.
Print Assumptions C30_saved_from_primary_notification.

(* Full strength when no DC id is 0 (initial DC, every reported ThisDC on the regular
   handler, every migration target): the DC of every saved record IS the primary DC at
   the time of the save. *)
Theorem C30_saved_dc_is_primary :
  forall (K : Type) (kzero kvalid : K -> bool) (k0 : K) (h : list (@event K)) (st : @state K) i sv,
    s_dc (cur st) <> 0 -> Forall nz_event h ->
    nth_error (snd (run kzero kvalid k0 st h)) i = Some (Some sv) ->
    s_dc sv = s_dc (cur (state_at kzero kvalid k0 st h i)) /\ s_dc sv <> 0.
Proof. exact (@saved_dc_is_primary). Qed.
Print Assumptions C30_saved_dc_is_primary.

(* "... the auth key and salt of a connection to that same DC": the model separates what the
   server reported (n_dc, all the code sees) from the DC of the connection the notification
   came from (ghost n_conn).  When the server reports its own DC (honest n) the saved DC IS the
   connection's DC; the refutation below is the dishonest case ThisDC = 0.  Each notification
   is handled atomically in the model: onSession reads the primary DC and stores the session
   in two critical sections and saveSession is load-modify-save; every Save is internally
   consistent, and "primary at that time" is the value onSession read.  A Migrate landing
   between onSession's store and saveSession's write IS modelled (ENotifyMig) and forced in
   the run through the storage's LoadSession: the record still comes from the notification
   (cfg, s), never from the in-memory session that has moved on.  Other interleavings inside a
   notification are not modelled. *)
Theorem C30_saved_is_connection_dc :
  forall (K : Type) (kzero kvalid : K -> bool) (k0 : K)
         (h : list (@event K)) (st : @state K) (i : nat) (sv : @sess K),
    nth_error (snd (run kzero kvalid k0 st h)) i = Some (Some sv) ->
    exists e n, nth_error h i = Some e /\ ev_notif e = Some n /\ n_h n = HRegular /\
              s_key sv = save_key kzero n /\ s_salt sv = n_salt n /\
              (honest n -> s_dc sv = n_conn n).
Proof. exact (@saved_is_connection_dc). Qed.
Print Assumptions C30_saved_is_connection_dc.

(* "permanent key under PFS", PFS meaning the connection runs with PFS (ghost n_pfs), under the
   environment fact that such a connection notifies with a non-zero PermKey *)
Theorem C30_perm_key_when_pfs_enabled :
  forall (K : Type) (kzero : K -> bool) (n : @notif K),
    n_pfs n = true -> pfs_has_perm kzero n -> save_key kzero n = n_perm n.
Proof. exact (@save_key_under_pfs). Qed.
Print Assumptions C30_perm_key_when_pfs_enabled.

(* the storage always holds the last such record *)
Theorem C30_storage_is_last_save :
  forall (K : Type) (kzero kvalid : K -> bool) (k0 : K) (h : list (@event K)) (st : @state K),
    stored (fst (run kzero kvalid k0 st h)) = last_save (snd (run kzero kvalid k0 st h)) (stored st).
Proof. exact (@stored_is_last_save). Qed.
Print Assumptions C30_storage_is_last_save.

(* permanent key under PFS (PermKey non-zero), the connection key otherwise *)
Theorem C30_perm_key_under_pfs :
  forall (K : Type) (kzero : K -> bool) (n : @notif K),
    (kzero (n_perm n) = false -> save_key kzero n = n_perm n) /\
    (kzero (n_perm n) = true -> save_key kzero n = n_key n).
Proof. exact (@save_key_pfs). Qed.
Print Assumptions C30_perm_key_under_pfs.

(* CDN notifications never reach the storage or the primary session *)
Theorem C30_cdn_isolated :
  forall (K : Type) (kzero : K -> bool) (st : @state K) (n : @notif K),
    n_h n = HCdn -> snd (on_session kzero st n) = None /\
                    stored (fst (on_session kzero st n)) = stored st /\ cur (fst (on_session kzero st n)) = cur st.
Proof. exact (@cdn_never_saved). Qed.
Print Assumptions C30_cdn_isolated.

(* restore: for every key-id function (sha1(.)[12..20] in the code), a stored record
   whose id is not the id of its key is refused; an accepted one yields exactly the stored
   key, id and salt. *)
Theorem C30_restore_refuses_mismatch :
  forall (key_id : list Z -> list Z) prev d,
    key_id (copy_into 256 (b_key d)) <> copy_into 8 (b_id d) -> restore_bytes key_id prev d = Err tt.
Proof. exact restore_bytes_refuses. Qed.
Print Assumptions C30_restore_refuses_mismatch.

Theorem C30_restore_refuses_mismatch_sized :
  forall (key_id : list Z -> list Z) prev d,
    length (b_key d) = 256%nat -> length (b_id d) = 8%nat -> key_id (b_key d) <> b_id d ->
    restore_bytes key_id prev d = Err tt.
Proof. exact restore_bytes_refuses_sized. Qed.
Print Assumptions C30_restore_refuses_mismatch_sized.

Theorem C30_restore_accepts_only_matching :
  forall (key_id : list Z -> list Z) prev d dc kv kid salt,
    restore_bytes key_id prev d = Ok (dc, kv, kid, salt) ->
    kv = copy_into 256 (b_key d) /\ kid = copy_into 8 (b_id d) /\ key_id kv = kid /\ salt = b_salt d /\
    dc = (if b_dc d =? 0 then prev else b_dc d).
Proof. exact restore_bytes_ok. Qed.
Print Assumptions C30_restore_accepts_only_matching.

(* restoring what was saved gives back the saved key, salt and DC *)
Theorem C30_restore_after_save :
  forall (K : Type) (kvalid : K -> bool) (st : @state K) (sv : @sess K),
    stored st = Some sv -> kvalid (s_key sv) = true ->
    exists st', restore kvalid st = Ok st' /\ s_key (cur st') = s_key sv /\ s_salt (cur st') = s_salt sv /\
                (s_dc sv <> 0 -> s_dc (cur st') = s_dc sv) /\ (s_dc sv = 0 -> s_dc (cur st') = s_dc (cur st)).
Proof. exact (@restore_after_save). Qed.
Print Assumptions C30_restore_after_save.

(* The DC = 0 cases are real in the model: a regular notification reporting ThisDC = 0
   (a server whose help.getConfig has this_dc = 0) is persisted whatever connection it
   came from and sets the primary DC to 0, after which a notification from DC 4 is
   persisted although the primary DC was 2 and nothing migrated (both notifications come from
   the connection to DC 4: n_conn = 4; the first is not honest).  Known finding
   "server-reports-this-dc-0" (the harness shows it on the real client). *)
Definition C30_zero_witness : list (@event Z) :=
  [ENotify (mkNotif HRegular 0 4 1 0 11 false); ENotify (mkNotif HRegular 4 4 2 0 22 false)].
Theorem C30_refuted_when_this_dc_zero :
  snd (run (fun k => k =? 0) (fun _ => true) 0 (init 0 2) C30_zero_witness)
  = [Some (mkSess 0 1 11); Some (mkSess 4 2 22)].
Proof. vm_compute. reflexivity. Qed.
Print Assumptions C30_refuted_when_this_dc_zero.
(* with ThisDC reported correctly the second notification is ignored *)
Example C30_non_primary_ignored :
  snd (run (fun k => k =? 0) (fun _ => true) 0 (init 0 2)
           [ENotify (mkNotif HRegular 2 2 1 0 11 false); ENotify (mkNotif HRegular 4 4 2 0 22 false); ENotify (mkNotif HCdn 2 2 3 0 33 false)])
  = [Some (mkSess 2 1 11); None; None].
Proof. vm_compute. reflexivity. Qed.

(* a Migrate landing inside a notification does not change what is persisted *)
Example C30_migrate_inside_notification :
  run (fun k => k =? 0) (fun _ => true) 0 (init 0 2) [ENotifyMig (mkNotif HRegular 2 2 1 0 11 false) 4]
  = (mkState (mkSess 4 0 0) (Some (mkSess 2 1 11)) [(2, mkSess 2 1 11)] [], [Some (mkSess 2 1 11)]).
Proof. vm_compute. reflexivity. Qed.

(* non-vacuity of the hypotheses of C30_saved_dc_is_primary *)
Example C30_nz_nonvacuous :
  s_dc (cur (init (0:Z) 2)) <> 0 /\
  Forall (@nz_event Z) [ENotify (mkNotif HRegular 2 2 1 0 11 false); EMigrate 4; ERestore; ENotify (mkNotif HCdn 0 0 3 0 33 false)].
Proof. split; [cbn; discriminate|repeat constructor; cbn; intros; discriminate]. Qed.
