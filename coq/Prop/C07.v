(* C07 -- Only fresh, in-session, correctly padded server messages are accepted.
   Only statements; proofs live in Proof/MsgIdBuf.v and Proof/MsgId.v.  The constants (window
   size at the NewMessageIDBuf call site, initial value of the minimum search in Consume,
   minPadding/maxPadding, maxPast/maxFuture) and MessageID.Type are regenerated from /repo by
   xlate on every run (Gen/RecvConsts.v, Gen/MsgIdGen.v). *)
From Coq Require Import ZArith List Bool.
From TD Require Import Gen.MsgIdGen Gen.RecvConsts Model.MsgId Model.MsgIdBuf Proof.MsgId Proof.MsgIdBuf.
Import ListNotations.
Open Scope Z_scope.

(* Replay window: for EVERY window size N > 0 and EVERY history of message ids (duplicates,
   old ids, any interleaving; ids positive and below the int64 maximum that initialises the
   minimum search), the accept/reject decisions of MessageIDBuf.Consume starting from
   NewMessageIDBuf(N) are those of the specification spec_consume (reject equal-to-any-stored,
   reject lower-than-all once N are stored, otherwise store and discard the lowest beyond N).
   (Before fix 13ab8d227 this was refuted by [100; 200; 100]: all three accepted.) *)
Theorem C07_buf_refines : forall N ids,
  (0 < N)%nat -> Forall (fun id => 0 < id < c_minID_init) ids ->
  consume_run (buf_init N) ids = spec_run N [] ids.
Proof. exact buf_refines. Qed.
Print Assumptions C07_buf_refines.

(* Pipeline, all histories: for every sequence of incoming frames (with the clock reading at
   which each is processed, before 2038 so that ids stay below the int64 maximum), the frames
   handed to handleMessage by decryptMessage are exactly those accepted by the specification:
   conditions `conds` and the replay rule on the set of previously accepted ids.  Histories are
   in Consume order: readLoop handles each frame in its own goroutine and MessageIDBuf.Consume
   (under its mutex) is the only step on shared state, so every concurrent execution is one of
   these histories.  Not modelled: the ids of messages INSIDE an accepted container are not
   re-checked by the code (outside this property). *)
Theorem C07_pipeline : forall N session h,
  (0 < N)%nat -> Forall (fun nm => fst nm < clock_bound) h ->
  accept_run session (buf_init N) h = spec_accept_run N session [] h.
Proof. exact pipeline_refines. Qed.
Print Assumptions C07_pipeline.

(* ... in particular for the window size used by mtproto.New (generated constant). *)
Theorem C07_pipeline_call_site : forall session h,
  Forall (fun nm => fst nm < clock_bound) h ->
  accept_run session (buf_init (Z.to_nat c_msgIDBufSize)) h =
  spec_accept_run (Z.to_nat c_msgIDBufSize) session [] h.
Proof. exact pipeline_refines_call_site. Qed.
Print Assumptions C07_pipeline_call_site.

(* Pipeline, one message: the specification accepts  <=>  the message decrypts under the
   session key /\ carries the session id /\ has a server-typed id /\ was created within
   [-300 s, +30 s] of now (library decoding of the id) /\ has 12..1024 bytes of padding /\
   a non-negative payload length divisible by 4 /\ is not a replay (not equal to a stored id,
   and not lower than all of them once N are stored). *)
Theorem C07_accept_iff : forall N session S now m,
  fst (spec_accept N session S now m) = true <->
  conds session now m /\ ~ In (d_id m) S /\
  ~ ((N <= length S)%nat /\ Forall (fun x => d_id m < x) S).
Proof. exact spec_accept_iff. Qed.
Print Assumptions C07_accept_iff.

(* The creation time in `conds` is mtproto.messageIDCreated (read.go; both parts regenerated
   from the source).  It IS the specification's reading of the id -- id / 2^32 seconds --
   rounded down to a nanosecond, for every id (scaled by 2^32 to stay in Z).
   (Before fixes ad4102cfc / bf52a6466 the window used MessageID.Time(), which reads the low
   word as int32 nanoseconds, off by -2.65 .. +1.65 s: a message 301.5 s old,
   (T-302)<<32 | 0x7FFFFFFD, was accepted.) *)
Theorem C07_time_decoding_is_spec : forall id,
  id_time_lib id * 4294967296 <= id_time_spec_scaled id < (id_time_lib id + 1) * 4294967296.
Proof. exact id_time_lib_is_spec. Qed.
Print Assumptions C07_time_decoding_is_spec.

(* Remark: proto.MessageID.Time() itself (display only: String(), log lines) still reads the low
   word as int32 nanoseconds; its distance from the specification's reading is bounded. *)
Theorem C07_time_decoding_distance : forall id,
  let d := id_time_display id * 4294967296 - id_time_spec_scaled id in
  - 2650000000 * 4294967296 < d < 1650000000 * 4294967296.
Proof. exact id_time_display_vs_spec. Qed.
Print Assumptions C07_time_decoding_distance.

(* regression witnesses of the repaired defects, on the regenerated constants / functions *)
Theorem C07_replay_of_old_id_rejected : consume_run (buf_init 100) [100; 200; 100] = [true; true; false].
Proof. exact replay_rejected. Qed.
Print Assumptions C07_replay_of_old_id_rejected.
Theorem C07_padding_below_12_rejected :
  decrypt_ok {| d_auth := true; d_session := 1; d_id := 5; d_len := 8; d_total := 16 |} = false.
Proof. exact padding_below_12_rejected. Qed.
Print Assumptions C07_padding_below_12_rejected.

Theorem C07_stale_message_rejected :   (* T = 1704067200 s, id 301.5 s old by id / 2^32 *)
  check_message_id (1704067200 * 1000000000) ((1704067200 - 302) * 4294967296 + 2147483645) = false.
Proof. exact stale_rejected. Qed.
Print Assumptions C07_stale_message_rejected.

(* non-vacuity: the hypotheses are satisfiable by histories with accepted and rejected messages *)
Example C07_buf_nonvacuous :
  exists ids, Forall (fun id => 0 < id < c_minID_init) ids /\ consume_run (buf_init 2) ids = [true; true; false; true; false].
Proof. exists [5; 9; 5; 7; 3]. split; [repeat constructor | reflexivity]. Qed.
Example C07_pipeline_nonvacuous :
  exists h, Forall (fun nm => fst nm < clock_bound) h /\
            accept_run 7 (buf_init 100) h = [true; false; false].
Proof.
  exists [ (1000000000000, {| d_auth := true; d_session := 7; d_id := 4294967296001; d_len := 4; d_total := 16 |});
           (1000000000000, {| d_auth := true; d_session := 7; d_id := 4294967296001; d_len := 4; d_total := 16 |});
           (1000000000000, {| d_auth := true; d_session := 7; d_id := 4294967296005; d_len := 4; d_total := 12 |}) ].
  split; [repeat constructor | vm_compute; reflexivity].
Qed.
