(* C20 -- TL primitive encoding round-trips and is always 4-byte aligned; decoding any
   byte sequence as any primitive never panics and reports an error on short or malformed
   input.  Only statements; proofs live in Proof/TlPrim.v.  The model (Model/TlPrim.v)
   uses the constants and nearestPaddedValueLength generated from /repo/bin. *)
From Coq Require Import ZArith List Bool.
From TD Require Import Lib.Bytes Lib.GoSem Lib.GoSlice Gen.TlConsts Model.TlPrim Proof.TlPrim.
Import ListNotations.
Open Scope Z_scope.

(* valid_prim p : p is a value its Go type can hold -- int in int32, long in int64, double
   any 64-bit pattern, int128/int256 of 16/32 bytes, string/bytes shorter than 2^24 (the
   bound of the property), vector length in [0, 2^31). *)

(* Round trip with exact consumption: whatever follows the encoding (r) is returned
   untouched as the rest, i.e. exactly len (encode_prim p) bytes are consumed. *)
Theorem C20_roundtrip : forall p r, valid_prim p ->
  decode_prim (kind_of p) (encode_prim p ++ r) = Ok (p, r).
Proof. exact decode_prim_rt. Qed.
Print Assumptions C20_roundtrip.

Theorem C20_aligned : forall p, valid_prim p -> len (encode_prim p) mod 4 = 0.
Proof. exact encode_prim_aligned. Qed.
Print Assumptions C20_aligned.

(* concatenations of values of any primitive types *)
Theorem C20_concat_roundtrip : forall ps r, Forall valid_prim ps ->
  decode_all (map kind_of ps) (encode_all ps ++ r) = Ok (ps, r).
Proof. exact decode_all_rt. Qed.
Print Assumptions C20_concat_roundtrip.

Theorem C20_concat_aligned : forall ps, Forall valid_prim ps -> len (encode_all ps) mod 4 = 0.
Proof. exact encode_all_aligned. Qed.
Print Assumptions C20_concat_aligned.

(* string / bytes specifically, every length below 2^24 (short form, long form, the
   253/254 boundary is a case split on the generated constants inside the proof) *)
Theorem C20_bytes_roundtrip : forall v r, len v < 2 ^ 24 -> decode_bytes (encode_bytes v ++ r) = Ok (v, r).
Proof. exact decode_bytes_rt. Qed.
Print Assumptions C20_bytes_roundtrip.

(* Totality: decoding ANY byte list as any primitive, or as any sequence of primitives,
   never panics. *)
Theorem C20_total : forall k b, bytes_ok b -> decode_prim k b <> Panic.
Proof. exact decode_prim_no_panic. Qed.
Print Assumptions C20_total.
Theorem C20_total_seq : forall ks b, bytes_ok b -> decode_all ks b <> Panic.
Proof. exact decode_all_no_panic. Qed.
Print Assumptions C20_total_seq.

(* Every successful decode of arbitrary bytes consumes a non-empty 4-aligned prefix. *)
Theorem C20_consumes_aligned : forall k b p r, bytes_ok b -> decode_prim k b = Ok (p, r) ->
  exists pre, b = pre ++ r /\ len pre mod 4 = 0 /\ 4 <= len pre.
Proof. exact decode_prim_consumes. Qed.
Print Assumptions C20_consumes_aligned.

(* Short input: every strict prefix of a valid encoding is rejected with EOF. *)
Theorem C20_short_input : forall p k, valid_prim p -> (k < length (encode_prim p))%nat ->
  decode_prim (kind_of p) (firstn k (encode_prim p)) = Err EEOF.
Proof. exact decode_prim_truncated. Qed.
Print Assumptions C20_short_input.

(* Malformed input: length byte 255, unknown Bool id, negative vector length. *)
Theorem C20_malformed_length : forall b, 256 <= len b -> nth 0 b 0 = 255 -> decode_bytes b = Err EInvalidLength.
Proof. exact decode_bytes_invalid. Qed.
Print Assumptions C20_malformed_length.
Theorem C20_malformed_bool : forall b, 4 <= len b ->
  le_dec (firstn 4 b) <> c_TypeTrue -> le_dec (firstn 4 b) <> c_TypeFalse -> decode_bool b = Err EUnexpectedID.
Proof. exact decode_bool_bad_id. Qed.
Print Assumptions C20_malformed_bool.
Theorem C20_malformed_vector : forall n r, - 2 ^ 31 <= n < 0 ->
  decode_vector_header (encode_vector_header n ++ r) = Err EInvalidLength.
Proof. exact decode_vector_header_negative. Qed.
Print Assumptions C20_malformed_vector.

(* Complete outcome description of string/bytes decoding on arbitrary bytes. *)
Theorem C20_bytes_outcome : forall b, bytes_ok b -> bytes_outcome b (decode_bytes b).
Proof. exact decode_bytes_outcome. Qed.
Print Assumptions C20_bytes_outcome.

(* non-vacuity: valid values exist on both sides of the 253/254 boundary and the theorems'
   conclusions are computed on them *)
Example C20_nonvacuous_253 :
  valid_prim (PBytes (repeat 7 253)) /\ len (encode_prim (PBytes (repeat 7 253))) = 256 /\
  decode_bytes (encode_bytes (repeat 7 253) ++ [1; 2]) = Ok (repeat 7 253, [1; 2]).
Proof. vm_compute. repeat split; reflexivity. Qed.
Example C20_nonvacuous_254 :
  valid_prim (PBytes (repeat 7 254)) /\ len (encode_prim (PBytes (repeat 7 254))) = 260 /\
  decode_bytes (encode_bytes (repeat 7 254) ++ [1; 2]) = Ok (repeat 7 254, [1; 2]).
Proof. vm_compute. repeat split; reflexivity. Qed.
Example C20_nonvacuous_seq :
  Forall valid_prim [PInt (-1); PBool true; PVector 3; PDouble 9221120237041090560] /\
  decode_all [KInt; KBool; KVector; KDouble]
    (encode_all [PInt (-1); PBool true; PVector 3; PDouble 9221120237041090560]) =
  Ok ([PInt (-1); PBool true; PVector 3; PDouble 9221120237041090560], []).
Proof. split; [repeat constructor; cbn; try discriminate; try reflexivity|vm_compute; reflexivity]. Qed.
