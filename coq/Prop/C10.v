(* C10 -- Key exchange never completes with an unauthenticated or tampered server.
   Only statements; proofs live in Proof/Exchange.v.  [client_run] is the client against
   ARBITRARY incoming messages m2 (ResPQ), m5 (Server_DH_Params), m7 (dh_gen answer). *)
From Coq Require Import ZArith List Bool.
From Coq Require Import Znumtheory.
From TD Require Import Lib.GoSem Lib.RunLib Lib.BigIntSem Gen.DhCheck Model.DhCheck Model.ExchangeAnswer Model.Exchange Model.ExchangeDemo Model.TlSchema Gen.SchemaMt Model.ExchangeWire Proof.Exchange Proof.ExchangeWire.
Import ListNotations.
Open Scope Z_scope.

Section C10.
  Variables pubkey cipher1 cipher2 cipher3 : Type.
  Variable fp : pubkey -> Z.
  Variable rsa_enc : pubkey -> pq_inner -> cipher1.
  Variable ans_dec : nonce -> nonce -> cipher2 -> option sdh_inner.
  Variable cin_enc : nonce -> nonce -> cdh_inner -> cipher3.
  Variable powmod : Z -> Z -> Z -> Z.
  Variable prime : Z -> bool.
  Variable factor : Z -> option (Z * Z).
  Variable nonce_hash1 : nonce -> list Z -> list Z.
  Variable key_id : list Z -> list Z.
  Notation crun := (client_run pubkey cipher1 cipher2 cipher3 fp rsa_enc ans_dec cin_enc powmod prime factor nonce_hash1 key_id).
  Notation checks := (accepted_checks pubkey cipher2 fp ans_dec powmod prime factor nonce_hash1 key_id).

  (* The client completes ONLY IF every check of client_flow.go passed: nonce echo, a trusted
     fingerprint, pq <= 2^63, both Server_DH_Params nonces, the answer authenticates under the
     keys derived from the client's secret new_nonce, inner nonces, CheckDH, CheckDHParams,
     dh_gen nonces and new_nonce_hash1; and the result is the key derived from those values. *)
  Theorem C10_accept_only_if : forall ccf cr m2 m5 m7 r,
    crun ccf cr m2 m5 m7 = Ok r -> checks ccf cr m2 m5 m7 r.
  Proof. exact (accept_only_if pubkey cipher1 cipher2 cipher3 fp rsa_enc ans_dec cin_enc powmod prime factor nonce_hash1 key_id). Qed.

  (* Each adversary move of the statement falsifies one conjunct, hence the exchange fails. *)
  Theorem C10_altered_respq_nonce : forall ccf cr m2 m5 m7,
    rp_nonce m2 <> cr_nonce cr -> is_ok (crun ccf cr m2 m5 m7) = false.
  Proof. exact (move_respq_nonce pubkey cipher1 cipher2 cipher3 fp rsa_enc ans_dec cin_enc powmod prime factor nonce_hash1 key_id). Qed.

  (* a peer that can only offer its own RSA key (no trusted fingerprint) *)
  Theorem C10_own_rsa_key : forall ccf cr m2 m5 m7,
    (forall k, In k (cc_keys pubkey ccf) -> ~ In (fp k) (rp_fps m2)) -> is_ok (crun ccf cr m2 m5 m7) = false.
  Proof. exact (move_untrusted_key pubkey cipher1 cipher2 cipher3 fp rsa_enc ans_dec cin_enc powmod prime factor nonce_hash1 key_id). Qed.

  Theorem C10_altered_dh_params_nonce : forall ccf cr m2 m5 m7 n sn enc,
    m5 = SdhOk cipher2 n sn enc -> n <> cr_nonce cr \/ sn <> rp_server_nonce m2 ->
    is_ok (crun ccf cr m2 m5 m7) = false.
  Proof. exact (move_sdh_nonce pubkey cipher1 cipher2 cipher3 fp rsa_enc ans_dec cin_enc powmod prime factor nonce_hash1 key_id). Qed.

  (* Tampered encrypted answer, or an answer made by a peer WITHOUT the private key: such a
     peer never learns new_nonce (it travels only inside RSA_PAD -- hypothesis of C14), so the
     answer cannot authenticate under the temporary keys derived from it; "does not
     authenticate" is the named hypothesis [ans_dec ... = None] (C11: every hash mismatch is an
     error; SHA-1 prefix collision-freedom is what makes a forged answer fail to decrypt). *)
  Theorem C10_bad_encrypted_answer : forall ccf cr m2 m5 m7 n sn enc,
    m5 = SdhOk cipher2 n sn enc -> ans_dec (cr_new_nonce cr) (rp_server_nonce m2) enc = None ->
    is_ok (crun ccf cr m2 m5 m7) = false.
  Proof. exact (move_bad_answer pubkey cipher1 cipher2 cipher3 fp rsa_enc ans_dec cin_enc powmod prime factor nonce_hash1 key_id). Qed.

  (* altered inner nonces, substituted prime / generator, out-of-range g_a *)
  Theorem C10_bad_inner_data : forall ccf cr m2 m5 m7 n sn enc inner,
    m5 = SdhOk cipher2 n sn enc -> ans_dec (cr_new_nonce cr) (rp_server_nonce m2) enc = Some inner ->
    si_nonce inner <> cr_nonce cr \/ si_server_nonce inner <> rp_server_nonce m2 \/
    check_dh prime (si_g inner) (si_p inner) <> 0 \/
    check_dh_params (si_p inner) (si_g inner) (si_ga inner) (powmod (si_g inner) (cr_b cr) (si_p inner)) <> 0 ->
    is_ok (crun ccf cr m2 m5 m7) = false.
  Proof. exact (move_inner pubkey cipher1 cipher2 cipher3 fp rsa_enc ans_dec cin_enc powmod prime factor nonce_hash1 key_id). Qed.

  (* unsafe DH parameters are always refused (with C13_checkdh: anything but a 2048-bit safe
     prime with a generator obeying the residue table) *)
  Theorem C10_unsafe_group_refused : forall ccf cr m2 n sn enc inner m7,
    ans_dec (cr_new_nonce cr) (rp_server_nonce m2) enc = Some inner -> 0 <= si_p inner ->
    ~ (bitlen (si_p inner) = 2048 /\ gp_table (si_g inner) (si_p inner) /\
       prime (si_p inner) = true /\ prime ((si_p inner - 1) / 2) = true) ->
    is_ok (crun ccf cr m2 (SdhOk cipher2 n sn enc) m7) = false.
  Proof. exact (unsafe_group_rejected pubkey cipher1 cipher2 cipher3 fp rsa_enc ans_dec cin_enc powmod prime factor nonce_hash1 key_id). Qed.

  Theorem C10_altered_dh_gen_nonce : forall ccf cr m2 m5 m7 n sn h,
    m7 = GenOk n sn h -> n <> cr_nonce cr \/ sn <> rp_server_nonce m2 -> is_ok (crun ccf cr m2 m5 m7) = false.
  Proof. exact (move_gen_nonce pubkey cipher1 cipher2 cipher3 fp rsa_enc ans_dec cin_enc powmod prime factor nonce_hash1 key_id). Qed.

  Theorem C10_wrong_nonce_hash : forall ccf cr m2 m5 m7 n sn h n5 sn5 enc inner,
    m7 = GenOk n sn h -> m5 = SdhOk cipher2 n5 sn5 enc ->
    ans_dec (cr_new_nonce cr) (rp_server_nonce m2) enc = Some inner ->
    h <> nonce_hash1 (cr_new_nonce cr) (be_enc 256 (powmod (si_ga inner) (cr_b cr) (si_p inner))) ->
    is_ok (crun ccf cr m2 m5 m7) = false.
  Proof. exact (move_gen_hash pubkey cipher1 cipher2 cipher3 fp rsa_enc ans_dec cin_enc powmod prime factor nonce_hash1 key_id). Qed.

  Theorem C10_not_ok_answers : forall ccf cr m2 m5 m7,
    (m5 = SdhFail cipher2 \/ m5 = SdhOther cipher2) \/ (m7 = GenRetry \/ m7 = GenFail \/ m7 = GenOther) ->
    is_ok (crun ccf cr m2 m5 m7) = false.
  Proof. exact (not_ok_answers pubkey cipher1 cipher2 cipher3 fp rsa_enc ans_dec cin_enc powmod prime factor nonce_hash1 key_id). Qed.

  (* C10_unsafe_group_refused is relative to the primality ORACLE (ProbablyPrime(64)); with a sound
     and complete oracle: anything but a 2048-bit safe prime with a table-conforming generator *)
  Theorem C10_unsafe_group_refused_prime : forall ccf cr m2 n sn enc inner m7,
    (forall x, prime x = true <-> Znumtheory.prime x) ->
    ans_dec (cr_new_nonce cr) (rp_server_nonce m2) enc = Some inner -> 0 <= si_p inner ->
    ~ (2 ^ 2047 <= si_p inner < 2 ^ 2048 /\ Znumtheory.prime (si_p inner) /\
       Znumtheory.prime ((si_p inner - 1) / 2) /\ gp_table (si_g inner) (si_p inner)) ->
    is_ok (crun ccf cr m2 (SdhOk cipher2 n sn enc) m7) = false.
  Proof. exact (unsafe_group_rejected_prime pubkey cipher1 cipher2 cipher3 fp rsa_enc ans_dec cin_enc powmod prime factor nonce_hash1 key_id). Qed.
End C10.
Print Assumptions C10_accept_only_if.
Print Assumptions C10_altered_respq_nonce.
Print Assumptions C10_own_rsa_key.
Print Assumptions C10_altered_dh_params_nonce.
Print Assumptions C10_bad_encrypted_answer.
Print Assumptions C10_bad_inner_data.
Print Assumptions C10_unsafe_group_refused.
Print Assumptions C10_altered_dh_gen_nonce.
Print Assumptions C10_wrong_nonce_hash.
Print Assumptions C10_not_ok_answers.
Print Assumptions C10_unsafe_group_refused_prime.

(* "The peer proved possession of the private key": with [ans_dec] instantiated by C11's model of
   DecryptExchangeAnswer under the temporary keys of (new_nonce, server_nonce) + TL decoding, a
   completed exchange implies C11's guarantee for the delivered ciphertext -- non-empty data whose
   SHA-1 is the embedded prefix of the AES-IGE plaintext under keys that only someone who learned
   the client's new_nonce (i.e. decrypted RSA_PAD: C14) can derive.  The chain C10 -> C11 is a Coq
   fact; that RSA_PAD hides new_nonce remains the cryptographic assumption. *)
Theorem C10_accepted_answer_authenticated :
  forall (pubkey cipher1 cipher3 : Type) (fp : pubkey -> Z) (rsa_enc : pubkey -> pq_inner -> cipher1)
         (cin_enc : nonce -> nonce -> cdh_inner -> cipher3) (powmod : Z -> Z -> Z -> Z) (prime : Z -> bool)
         (factor : Z -> option (Z * Z)) (nonce_hash1 : nonce -> list Z -> list Z) (key_id : list Z -> list Z)
         (sha1 : list Z -> list Z) (ige_dec : list Z -> list Z -> list Z -> list Z)
         (tmp_key tmp_iv : nonce -> nonce -> list Z) (decode : list Z -> option sdh_inner)
         ccf cr m2 m5 m7 r,
    client_run pubkey cipher1 (list Z) cipher3 fp rsa_enc (ans_dec_c11 sha1 ige_dec tmp_key tmp_iv decode)
               cin_enc powmod prime factor nonce_hash1 key_id ccf cr m2 m5 m7 = Ok r ->
    exists n sn enc d i inner,
      m5 = SdhOk (list Z) n sn enc /\
      let nn := cr_new_nonce cr in
      let sn2 := rp_server_nonce m2 in
      let plain := ige_dec (tmp_key nn sn2) (tmp_iv nn sn2) enc in
      d <> [] /\ (i < 16)%nat /\ d = cand plain i /\ sha1 d = firstn sha1_size plain /\
      decode d = Some inner /\ si_nonce inner = cr_nonce cr /\ si_server_nonce inner = sn2.
Proof. exact accepted_answer_authenticated. Qed.
Print Assumptions C10_accepted_answer_authenticated.

(* ---------- non-vacuity (instance of Model/ExchangeDemo.v) ---------- *)
(* the client DOES accept the honest server's messages: C10_accept_only_if is not vacuous *)
Example C10_accepting_instance : is_ok (d_client d_m2 d_m5 d_m7) = true.
Proof. vm_compute. reflexivity. Qed.
(* each move's premise is reachable with every earlier step passed, and the move is refused there *)
Example C10_move_respq_nonce :
  d_client {| rp_nonce := repeat 9 16; rp_server_nonce := rp_server_nonce d_m2; rp_pq := rp_pq d_m2; rp_fps := rp_fps d_m2 |} d_m5 d_m7 = Err ENonce2.
Proof. vm_compute. reflexivity. Qed.
Example C10_move_own_key :
  d_client {| rp_nonce := rp_nonce d_m2; rp_server_nonce := rp_server_nonce d_m2; rp_pq := rp_pq d_m2; rp_fps := [99] |} d_m5 d_m7 = Err EFingerprint.
Proof. vm_compute. reflexivity. Qed.
Example C10_move_ga_out_of_range :
  d_client d_m2 (SdhOk sdh_inner d_nonce d_server_nonce
                       {| si_nonce := d_nonce; si_server_nonce := d_server_nonce; si_g := server_g; si_p := d_p; si_ga := 1; si_time := 0 |}) d_m7
  = Err (EDHParams 42).
Proof. vm_compute. reflexivity. Qed.
Example C10_move_small_prime :
  d_client d_m2 (SdhOk sdh_inner d_nonce d_server_nonce
                       {| si_nonce := d_nonce; si_server_nonce := d_server_nonce; si_g := 2; si_p := 23; si_ga := 5; si_time := 0 |}) d_m7
  = Err (ECheckDH 31).
Proof. vm_compute. reflexivity. Qed.
Example C10_move_wrong_hash :
  d_client d_m2 d_m5 (GenOk d_nonce d_server_nonce (repeat 0 16)) = Err EHash.
Proof. vm_compute. reflexivity. Qed.

(* ---------- byte level ----------
   The client as a function of the BYTES of the three server messages (TL bodies decoded with the
   generated mt schema): completion on bytes implies that the bytes decode to records that passed
   every check -- C10_accept_only_if lifted to the wire ... *)
Theorem C10_accept_only_if_bytes :
  forall (pubkey cipher1 cipher3 : Type) (fp : pubkey -> Z) (rsa_enc : pubkey -> pq_inner -> cipher1)
         (ans_dec : nonce -> nonce -> list Z -> option sdh_inner) (cin_enc : nonce -> nonce -> cdh_inner -> cipher3)
         (powmod : Z -> Z -> Z -> Z) (prime : Z -> bool) (factor : Z -> option (Z * Z))
         (nonce_hash1 : nonce -> list Z -> list Z) (key_id : list Z -> list Z) cf r b2 b5 b7 res,
    client_run_bodies pubkey cipher1 cipher3 fp rsa_enc ans_dec cin_enc powmod prime factor nonce_hash1 key_id cf r b2 b5 b7 = Ok res ->
    exists v2 m2 m5 m7,
      value_of_body (TBoxed ci_respq) b2 = Some v2 /\ of_v_respq v2 = Some m2 /\
      m5 = match value_of_body (TClass (cls_of ci_sdh_ok)) b5 with Some v => of_v_sdh v | None => SdhOther _ end /\
      m7 = match value_of_body (TClass (cls_of ci_gen_ok)) b7 with Some v => of_v_gen v | None => GenOther end /\
      accepted_checks pubkey (list Z) fp ans_dec powmod prime factor nonce_hash1 key_id cf r m2 m5 m7 res.
Proof. exact accept_only_if_bodies. Qed.
Print Assumptions C10_accept_only_if_bytes.

(* ... and on the encodings of well-typed records the byte-level client IS the record-level
   client (refinement), so every record-level theorem above speaks about the wire. *)
Theorem C10_bytes_refine_records :
  forall (pubkey cipher1 cipher3 : Type) (fp : pubkey -> Z) (rsa_enc : pubkey -> pq_inner -> cipher1)
         (ans_dec : nonce -> nonce -> list Z -> option sdh_inner) (cin_enc : nonce -> nonce -> cdh_inner -> cipher3)
         (powmod : Z -> Z -> Z -> Z) (prime : Z -> bool) (factor : Z -> option (Z * Z))
         (nonce_hash1 : nonce -> list Z -> list Z) (key_id : list Z -> list Z)
         cf r m2 n5 sn5 e5 n7 sn7 h7 b2 b5 b7,
    0 <= rp_pq m2 ->
    wt mt_schema (depth (v_respq m2)) (TBoxed ci_respq) (v_respq m2) = true ->
    wt mt_schema (depth (v_sdh_ok n5 sn5 e5)) (TClass (cls_of ci_sdh_ok)) (v_sdh_ok n5 sn5 e5) = true ->
    wt mt_schema (depth (v_gen_ok n7 sn7 h7)) (TClass (cls_of ci_gen_ok)) (v_gen_ok n7 sn7 h7) = true ->
    body_of (TBoxed ci_respq) (v_respq m2) = Ok b2 ->
    body_of (TClass (cls_of ci_sdh_ok)) (v_sdh_ok n5 sn5 e5) = Ok b5 ->
    body_of (TClass (cls_of ci_gen_ok)) (v_gen_ok n7 sn7 h7) = Ok b7 ->
    client_run_bodies pubkey cipher1 cipher3 fp rsa_enc ans_dec cin_enc powmod prime factor nonce_hash1 key_id cf r b2 b5 b7 =
    client_run pubkey cipher1 (list Z) cipher3 fp rsa_enc ans_dec cin_enc powmod prime factor nonce_hash1 key_id cf r m2
               (SdhOk _ n5 sn5 e5) (GenOk n7 sn7 h7).
Proof. exact bodies_refine. Qed.
Print Assumptions C10_bytes_refine_records.
