(* C10 -- Key exchange never completes with an unauthenticated or tampered server.
   Only statements; proofs live in Proof/Exchange.v.  [client_run] is the client against
   ARBITRARY incoming messages m2 (ResPQ), m5 (Server_DH_Params), m7 (dh_gen answer). *)
From Coq Require Import ZArith List Bool.
From TD Require Import Lib.GoSem Lib.BigIntSem Gen.DhCheck Model.DhCheck Model.Exchange Proof.Exchange.
Import ListNotations.
Open Scope Z_scope.

Section C10.
  Variables pubkey cipher1 cipher2 cipher3 : Type.
  Variable fp : pubkey -> Z.
  Variable rsa_enc : pubkey -> pq_inner -> cipher1.
  Variable ans_dec : nonce -> nonce -> cipher2 -> option sdh_inner.
  Variable cin_enc : nonce -> nonce -> cdh_inner -> cipher3.
  Variable powmod : Z -> Z -> Z -> Z.
  Variable prime : Z -> bool.
  Variable factor : Z -> option (Z * Z).
  Variable nonce_hash1 : nonce -> list Z -> list Z.
  Variable key_id : list Z -> list Z.
  Notation crun := (client_run pubkey cipher1 cipher2 cipher3 fp rsa_enc ans_dec cin_enc powmod prime factor nonce_hash1 key_id).
  Notation checks := (accepted_checks pubkey cipher2 fp ans_dec powmod prime factor nonce_hash1 key_id).

  (* The client completes ONLY IF every check of client_flow.go passed: nonce echo, a trusted
     fingerprint, pq <= 2^63, both Server_DH_Params nonces, the answer authenticates under the
     keys derived from the client's secret new_nonce, inner nonces, CheckDH, CheckDHParams,
     dh_gen nonces and new_nonce_hash1; and the result is the key derived from those values. *)
  Theorem C10_accept_only_if : forall ccf cr m2 m5 m7 r,
    crun ccf cr m2 m5 m7 = Ok r -> checks ccf cr m2 m5 m7 r.
  Proof. exact (accept_only_if pubkey cipher1 cipher2 cipher3 fp rsa_enc ans_dec cin_enc powmod prime factor nonce_hash1 key_id). Qed.

  (* Each adversary move of the statement falsifies one conjunct, hence the exchange fails. *)
  Theorem C10_altered_respq_nonce : forall ccf cr m2 m5 m7,
    rp_nonce m2 <> cr_nonce cr -> is_ok (crun ccf cr m2 m5 m7) = false.
  Proof. exact (move_respq_nonce pubkey cipher1 cipher2 cipher3 fp rsa_enc ans_dec cin_enc powmod prime factor nonce_hash1 key_id). Qed.

  (* a peer that can only offer its own RSA key (no trusted fingerprint) *)
  Theorem C10_own_rsa_key : forall ccf cr m2 m5 m7,
    (forall k, In k (cc_keys pubkey ccf) -> ~ In (fp k) (rp_fps m2)) -> is_ok (crun ccf cr m2 m5 m7) = false.
  Proof. exact (move_untrusted_key pubkey cipher1 cipher2 cipher3 fp rsa_enc ans_dec cin_enc powmod prime factor nonce_hash1 key_id). Qed.

  Theorem C10_altered_dh_params_nonce : forall ccf cr m2 m5 m7 n sn enc,
    m5 = SdhOk cipher2 n sn enc -> n <> cr_nonce cr \/ sn <> rp_server_nonce m2 ->
    is_ok (crun ccf cr m2 m5 m7) = false.
  Proof. exact (move_sdh_nonce pubkey cipher1 cipher2 cipher3 fp rsa_enc ans_dec cin_enc powmod prime factor nonce_hash1 key_id). Qed.

  (* Tampered encrypted answer, or an answer made by a peer WITHOUT the private key: such a
     peer never learns new_nonce (it travels only inside RSA_PAD -- hypothesis of C14), so the
     answer cannot authenticate under the temporary keys derived from it; "does not
     authenticate" is the named hypothesis [ans_dec ... = None] (C11: every hash mismatch is an
     error; SHA-1 prefix collision-freedom is what makes a forged answer fail to decrypt). *)
  Theorem C10_bad_encrypted_answer : forall ccf cr m2 m5 m7 n sn enc,
    m5 = SdhOk cipher2 n sn enc -> ans_dec (cr_new_nonce cr) (rp_server_nonce m2) enc = None ->
    is_ok (crun ccf cr m2 m5 m7) = false.
  Proof. exact (move_bad_answer pubkey cipher1 cipher2 cipher3 fp rsa_enc ans_dec cin_enc powmod prime factor nonce_hash1 key_id). Qed.

  (* altered inner nonces, substituted prime / generator, out-of-range g_a *)
  Theorem C10_bad_inner_data : forall ccf cr m2 m5 m7 n sn enc inner,
    m5 = SdhOk cipher2 n sn enc -> ans_dec (cr_new_nonce cr) (rp_server_nonce m2) enc = Some inner ->
    si_nonce inner <> cr_nonce cr \/ si_server_nonce inner <> rp_server_nonce m2 \/
    check_dh prime (si_g inner) (si_p inner) <> 0 \/
    check_dh_params (si_p inner) (si_g inner) (si_ga inner) (powmod (si_g inner) (cr_b cr) (si_p inner)) <> 0 ->
    is_ok (crun ccf cr m2 m5 m7) = false.
  Proof. exact (move_inner pubkey cipher1 cipher2 cipher3 fp rsa_enc ans_dec cin_enc powmod prime factor nonce_hash1 key_id). Qed.

  (* unsafe DH parameters are always refused (with C13_checkdh: anything but a 2048-bit safe
     prime with a generator obeying the residue table) *)
  Theorem C10_unsafe_group_refused : forall ccf cr m2 n sn enc inner m7,
    ans_dec (cr_new_nonce cr) (rp_server_nonce m2) enc = Some inner -> 0 <= si_p inner ->
    ~ (bitlen (si_p inner) = 2048 /\ gp_table (si_g inner) (si_p inner) /\
       prime (si_p inner) = true /\ prime ((si_p inner - 1) / 2) = true) ->
    is_ok (crun ccf cr m2 (SdhOk cipher2 n sn enc) m7) = false.
  Proof. exact (unsafe_group_rejected pubkey cipher1 cipher2 cipher3 fp rsa_enc ans_dec cin_enc powmod prime factor nonce_hash1 key_id). Qed.

  Theorem C10_altered_dh_gen_nonce : forall ccf cr m2 m5 m7 n sn h,
    m7 = GenOk n sn h -> n <> cr_nonce cr \/ sn <> rp_server_nonce m2 -> is_ok (crun ccf cr m2 m5 m7) = false.
  Proof. exact (move_gen_nonce pubkey cipher1 cipher2 cipher3 fp rsa_enc ans_dec cin_enc powmod prime factor nonce_hash1 key_id). Qed.

  Theorem C10_wrong_nonce_hash : forall ccf cr m2 m5 m7 n sn h n5 sn5 enc inner,
    m7 = GenOk n sn h -> m5 = SdhOk cipher2 n5 sn5 enc ->
    ans_dec (cr_new_nonce cr) (rp_server_nonce m2) enc = Some inner ->
    h <> nonce_hash1 (cr_new_nonce cr) (be_enc 256 (powmod (si_ga inner) (cr_b cr) (si_p inner))) ->
    is_ok (crun ccf cr m2 m5 m7) = false.
  Proof. exact (move_gen_hash pubkey cipher1 cipher2 cipher3 fp rsa_enc ans_dec cin_enc powmod prime factor nonce_hash1 key_id). Qed.

  Theorem C10_not_ok_answers : forall ccf cr m2 m5 m7,
    (m5 = SdhFail cipher2 \/ m5 = SdhOther cipher2) \/ (m7 = GenRetry \/ m7 = GenFail \/ m7 = GenOther) ->
    is_ok (crun ccf cr m2 m5 m7) = false.
  Proof.
    intros ccf cr m2 m5 m7 [H|H].
    - exact (move_sdh_fail pubkey cipher1 cipher2 cipher3 fp rsa_enc ans_dec cin_enc powmod prime factor nonce_hash1 key_id ccf cr m2 m5 m7 H).
    - exact (move_gen_not_ok pubkey cipher1 cipher2 cipher3 fp rsa_enc ans_dec cin_enc powmod prime factor nonce_hash1 key_id ccf cr m2 m5 m7 H).
  Qed.
End C10.
Print Assumptions C10_accept_only_if.
Print Assumptions C10_altered_respq_nonce.
Print Assumptions C10_own_rsa_key.
Print Assumptions C10_altered_dh_params_nonce.
Print Assumptions C10_bad_encrypted_answer.
Print Assumptions C10_bad_inner_data.
Print Assumptions C10_unsafe_group_refused.
Print Assumptions C10_altered_dh_gen_nonce.
Print Assumptions C10_wrong_nonce_hash.
Print Assumptions C10_not_ok_answers.
