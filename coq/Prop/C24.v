(* C24 -- Each RPC call completes once with its own result and is then left alone.
   Only statements; the model is Model/Rpc.v (labelled transition system of rpc.Engine,
   one event = one atomic action), the proofs are in Proof/Rpc.v.

   [reach mx s] : s is the state after SOME event list from the initial state, of any
   length, with any number of concurrent calls c and deliveries d, any interleaving of
   send / ack / result / duplicate / foreign result / rpc error / cancel / timer /
   ForceClose.  mx = Engine.maxRetries. *)
From Coq Require Import ZArith List Bool.
From TD Require Import Model.Rpc Proof.Rpc Proof.RpcEnv.
Import ListNotations.
Open Scope Z_scope.

(* "Exactly once" is proved as AT MOST once here (safety); that a return is always reachable is
   proved for force-closed engines in C26_progress_after_close (an un-closed engine may wait for
   its answer for ever). Every Do returns at most once: the number of return events of call c never exceeds 1,
   and once it has returned no further return event of c is enabled. *)
Theorem C24_once : forall mx s c, 1 <= mx -> reach mx s ->
  nret (calls s c) <= 1 /\
  (is_returned (pc (calls s c)) = true -> forall rc rd a b, step s (CReturn c rc rd a b) = None).
Proof. exact c24_once. Qed.
Print Assumptions C24_once.

(* A nil / decode-error / rpc-error return is the outcome of exactly one handler
   invocation d, which was looked up under the call's OWN msg id; for a decoded result
   the Output holds that delivery's value and was written exactly once. (All other
   return classes are cancellation / close / transmission errors, see retv.) *)
Theorem C24_own_result : forall mx s c r, 1 <= mx -> reach mx s ->
  pc (calls s c) = PReturned r -> is_result r = true ->
  exists d, writer (calls s c) = Some d /\ dmid (dels s d) = mid (calls s c) /\
            payload_result (dpay (dels s d)) = r /\
            match dpay (dels s d) with
            | PRes v => out (calls s c) = v /\ nwrites (calls s c) = 1
            | _ => nwrites (calls s c) = 0
            end.
Proof. exact c24_return_value. Qed.
Print Assumptions C24_own_result.

(* Isolation and no late write, at the moment of ANY call of Output.Decode by a handler --
   successful (ok = true, writes v) or failing (ok = false, may have written part of the
   Output): the delivery was looked up under the msg id of the call whose Output it touches,
   it decodes its own payload, and that call has neither returned nor even passed the
   claim-or-await point of its return path (settled_pc = false: never concurrently with the
   return). Results for other ids, duplicates and late results therefore never reach the
   Output (their handler is not found, is the no-op, or loses the CAS). *)
Theorem C24_isolation_no_late_write : forall mx s1 s2 d c ok v, 1 <= mx -> reach mx s1 ->
  step s1 (NDecode d c ok v) = Some s2 ->
  dmid (dels s1 d) = mid (calls s1 c) /\ settled_pc (pc (calls s1 c)) = false /\
  is_returned (pc (calls s1 c)) = false /\
  (if ok then dpay (dels s1 d) = PRes v else dpay (dels s1 d) = PBad).
Proof. exact c24_write. Qed.
Print Assumptions C24_isolation_no_late_write.

(* Every error class has its cause: the context error needs the caller's cancellation, both
   close errors need ForceClose (reqCtx cancelled), the rejection needs Close. Together with
   C24_own_result: Do returns its own result, its own rpc / decode error, a cancellation or
   close error with that cause, or a transmission error (RSendErr, RSendCanc, RLimit: C25). *)
Theorem C24_error_provenance : forall mx s c r, 1 <= mx -> reach mx s -> pc (calls s c) = PReturned r ->
  (r = RCtx -> ucancel (calls s c) = true) /\
  (r = RClosedRetryable \/ r = RClosedAcked -> fclosed s = true) /\
  (r = RRejected -> eclosed s = true).
Proof. exact c24_provenance. Qed.
Print Assumptions C24_error_provenance.

(* The histories covered: [reach] contains exactly the histories in which the calls that
   entered Do have pairwise distinct msg ids -- the explicit guard of CEntered in Model/Rpc.v
   (environment assumption C08; a second Do with an id already used, e.g. mtproto's bad-salt
   retry or two concurrent calls sharing an id, which would share the ack channel and delete
   each other's handler, is outside the model). *)
Theorem C24_distinct_ids : forall mx s c c', 1 <= mx -> reach mx s ->
  entered (calls s c) = true -> entered (calls s c') = true -> mid (calls s c) = mid (calls s c') -> c = c'.
Proof. exact c24_distinct_ids. Qed.
Print Assumptions C24_distinct_ids.

(* The same as history variables of the final state (these are what Run/Check_C24
   evaluates on the implementation's traces). *)
Theorem C24_ghosts : forall mx s c, 1 <= mx -> reach mx s ->
  late (calls s c) = false /\ isobad (calls s c) = false.
Proof. exact c24_ghosts. Qed.
Print Assumptions C24_ghosts.

(* Non-vacuity: the hypotheses are satisfiable and the interesting states are reachable:
   a call that is acknowledged, answered (42) and returns nil, with a duplicate result
   and a foreign result in between. *)
Definition C24_trace : list ev :=
  [CEntered 0 5 1 7; CRegistered 0; CAckWait 0; CSend 0 5 1 7 0; CSelect 0; XAcks [5; 9] [5]; CSelAck 0;
   CRetried 0; CWait 0; NLookup 0 5 0 42; NLookup 1 5 0 43; NLookup 2 6 0 44; NUnknown 2; NFinish 2 0;
   NEnter 0 0; NEnter 1 0; NClaimed 0 0; NDup 1 0; NFinish 1 1; NDecode 0 0 true 42; NDoneClosed 0 0;
   NRetryClosed 0 0; NFinish 0 0; CWaitDone 0; CUnregistered 0; CAwait 0; CSettled 0; CReturn 0 0 0 false false].
Example C24_nonvacuous :
  exists s, run (init 3) C24_trace = Some s /\ pc (calls s 0) = PReturned RNil /\ out (calls s 0) = 42.
Proof. vm_compute. eexists. repeat split. Qed.

(* Regression witness of the defect repaired by /repo commit 8d7dbf1e8: the schedule
   lookup; cancel; return; invoke. In the repaired code the returning caller claims the
   handler (CSettled), so the invocation that was looked up before can only lose the CAS
   (NDup) -- claiming (NClaimed) is not enabled any more. *)
Definition C24_old_witness_prefix : list ev :=
  [CEntered 0 5 1 7; CRegistered 0; CAckWait 0; CSend 0 5 1 7 0; CSelect 0; XAcks [5] [5]; CSelAck 0;
   CRetried 0; CWait 0; NLookup 0 5 0 777; XCancel 0; CWaitCtx 0; CNop 0; CDrop 0 5 0; CUnregistered 0;
   CSettled 0; CReturn 0 3 0 false false; NEnter 0 0].
Example C24_old_witness_blocked :
  run (init 3) (C24_old_witness_prefix ++ [NClaimed 0 0]) = None /\
  exists s, run (init 3) (C24_old_witness_prefix ++ [NDup 0 0; NFinish 0 1]) = Some s /\ nwrites (calls s 0) = 0.
Proof. vm_compute. split; [reflexivity | eexists; split; reflexivity]. Qed.
