(* C16 -- Transport codecs deliver exactly the frames that were sent.
   Only statements; proofs live in Proof/CodecRT.v and Proof/CodecSend.v.

   Vocabulary (Proof/CodecRT.v):
     sendable p   := 0 < len p  /\  len p rem 4 = 0  /\  every element is a byte
     fits c p     := the frame of p on the wire is within maxMessageSize:
                     abridged/intermediate  len p <= limit;  padded  len p + pad <= limit
                     (pad = last byte rem 4, as the writer computes it);  full  len p + 12 <= limit
     frame_ok c p := sendable p /\ 8 <= len p /\ fits c p
   The byte stream is a list: io.ReadFull returns the same bytes for every split of the stream
   into reads (trusted base; the harness reads through a random-chunk reader).

   History: before fix commits a84ed25f9 and d8f4b8055 the faithful model refuted C16_stream
   (a) for full/padded payloads with  limit-12 < len <= limit  resp. len + pad > limit: the
   writer accepted them and the reader answered invalid message length; (b) for the full codec
   at frame number 2^31 (seq_no mismatch).  C16_limit and the unrestricted [seq] below are the
   repaired statements; the old witnesses are corpus cases of harness c16. *)
From Coq Require Import ZArith List Bool.
From TD Require Import Lib.Bytes Lib.GoSem Gen.CodecConsts Model.Codec Model.CodecSend
  Proof.Codec Proof.CodecRT Proof.CodecSend Lib.ReadFull Proof.ReadFullInst.
From TD Require Model.Obfs2 Model.FakeTls Proof.Obfs2 Proof.Obfs2Listen Proof.TransportStack.
Import ListNotations.
Open Scope Z_scope.

(* Every codec, every LIST of payloads (no bound on its length), every starting frame number
   (any integer: the 32-bit wire field wraps), every padding randomness: reading the
   concatenation of the writes yields the same payloads in order and then io.EOF -- nothing is
   left over and nothing is invented. *)
Theorem C16_stream :
  forall (crc : bytes -> Z), (forall x, 0 <= crc x < 2 ^ 32) ->
  forall (c : codec) (rnd : Z -> bytes), (forall i, length (rnd i) = 4%nat) ->
  forall (ps : list bytes) (seq : Z) (fuel : nat),
    Forall (frame_ok c) ps -> (length ps < fuel)%nat ->
    exists w, write_all crc c seq rnd ps = Ok w /\
              read_stream crc c seq fuel w = (ps, StopErr EEof).
Proof. intros crc Hc c rnd Hr ps seq fuel. apply stream_roundtrip; assumption. Qed.
Print Assumptions C16_stream.

(* The same with anything following on the connection: the reader resumes exactly after the
   last frame. *)
Theorem C16_stream_resume :
  forall (crc : bytes -> Z), (forall x, 0 <= crc x < 2 ^ 32) ->
  forall (c : codec) (rnd : Z -> bytes), (forall i, length (rnd i) = 4%nat) ->
  forall (ps : list bytes) (seq : Z) (rest : bytes) (fuel : nat),
    Forall (frame_ok c) ps ->
    exists w, write_all crc c seq rnd ps = Ok w /\
      read_stream crc c seq (length ps + fuel) (w ++ rest) =
      (ps ++ fst (read_stream crc c (seq + Z.of_nat (length ps)) fuel rest),
       snd (read_stream crc c (seq + Z.of_nat (length ps)) fuel rest)).
Proof. intros crc Hc c rnd Hr ps seq rest fuel. apply read_stream_frames; assumption. Qed.
Print Assumptions C16_stream_resume.

(* "Regardless of how the stream is split into reads": io.ReadFull's loop over a reader that
   hands out the stream in pieces of ANY sizes [szs] (Lib/ReadFull.v models the loop of
   io.ReadAtLeast) returns what the byte-list model's read_full returns -- so every theorem in
   this file holds for every chunking of the connection. *)
Theorem C16_chunking :
  forall (k : Z) (s : bytes) (szs : list nat),
    read_full_sched EEof EUnexpEof k s szs = read_full k s.
Proof. exact codec_read_full_chunking. Qed.
Print Assumptions C16_chunking.

(* Four-byte frames are transport error codes: the reader reports the negated int32. *)
Theorem C16_proto_err :
  forall (crc : bytes -> Z), (forall x, 0 <= crc x < 2 ^ 32) ->
  forall (c : codec) (p rest : bytes) (seq : Z) (rnd : bytes),
    bytes_ok p -> zlen p = 4 -> length rnd = 4%nat ->
    exists f, write_c crc c seq rnd p = Ok f /\
              snd (read_c crc c seq (f ++ rest)) = Err (EProto (wrap32 (- to_signed 32 (le_dec p)))).
Proof. intros crc Hc c p rest seq rnd. apply proto_err_frame; assumption. Qed.
Print Assumptions C16_proto_err.

(* The writer accepts a sendable payload exactly when its frame is within the limit the reader
   enforces: a sender is either told about the error or the frame is delivered (C16_stream). *)
Theorem C16_limit :
  forall (crc : bytes -> Z) (c : codec) (p : bytes) (seq : Z) (rnd : bytes),
    sendable p -> ((exists f, write_c crc c seq rnd p = Ok f) <-> fits c p).
Proof. exact write_ok_iff_fits. Qed.
Print Assumptions C16_limit.

(* Server-side detection returns the codec whose tag was written, and hands the codec the
   stream after the tag ... *)
Theorem C16_detect_tagged :
  forall (c : codec) (s : bytes), c <> Full -> detect (header c ++ s) = Ok (c, s).
Proof. exact detect_tagged. Qed.
Print Assumptions C16_detect_tagged.

(* ... and a full-codec frame of a sendable payload can never be taken for a tag (its first
   byte is not 0xef, its first word is neither 0xeeeeeeee nor 0xdddddddd): the listener chooses
   Full and replays the four bytes it looked at. *)
Theorem C16_detect_full :
  forall (crc : bytes -> Z) (p : bytes) (seq : Z) (rnd rest f : bytes),
    sendable p -> write_c crc Full seq rnd p = Ok f ->
    detect (f ++ rest) = Ok (Full, f ++ rest).
Proof. exact detect_full_frame. Qed.
Print Assumptions C16_detect_full.

(* "With obfuscation": the TCP obfuscated listener (transport/obfuscated.go) puts the protocol tag
   recovered from the obfuscated2 header back in front of the decrypted stream -- one byte for
   abridged, four otherwise (condition regenerated from the source, Gen/Obfs2Consts.v) -- and
   detection then returns the codec whose ObfuscatedTag the client announced.  (That the server
   recovers exactly the announced tag is C18_meta / C18_listener_session.) *)
Theorem C16_detect_obfuscated :
  forall (c : codec) (s : bytes),
    c <> Full -> detect (Obfs2.replay_tag (Obfs2Listen.obf_tag c) ++ s) = Ok (c, s).
Proof. exact Obfs2Listen.obf_listener_detect. Qed.
Print Assumptions C16_detect_obfuscated.

(* The layers stacked as transport.ObfuscatedListener / the mtproxy dialer stack them.
   Codec over obfuscated2: a client announces tagged codec c in an obfuscated2 handshake and
   writes the frames of [ps] through the obfuscated connection in any conn.Write calls [ws]; the
   ciphertext reaches the server in any deliveries [dl] (an error may accompany the last one).
   Then Accept succeeds on header ++ ciphertext, the replayed tag makes detection choose c, and
   the frames read from the decrypted stream are exactly ps, then EOF.  For every keystream, every
   SHA-256, every CRC with 32-bit range, every DC id, secret and random stream. *)
Theorem C16_stream_over_obfuscated :
  forall (crc : list Z -> Z), (forall x, 0 <= crc x < 2 ^ 32) ->
  forall (ks : list Z -> list Z -> Z -> Z) (sha256 : list Z -> list Z)
         (c : codec) (seq : Z) (rnd : Z -> list Z) (ps : list (list Z)) (W : list Z)
         (fuel_i : nat) (orand : list Z) (dc : Z) (secret hdr : list Z) (cep : Obfs2.endpoint) (orest : list Z)
         (ws : list (list Z)) (dl : list (list Z * bool)) (fuel : nat),
    c <> Full -> (forall i, length (rnd i) = 4%nat) ->
    Forall (frame_ok c) ps -> (length ps < fuel)%nat ->
    write_all crc c seq rnd ps = Ok W -> concat ws = W ->
    Obfs2.client_handshake ks sha256 fuel_i orand (Obfs2Listen.obf_tag c) dc secret = Ok (hdr, cep, orest) ->
    let X := Obfs2.send_on ks (Obfs2.enc cep) ws in
    concat (map fst dl) = X -> Proof.Obfs2.err_only_last dl ->
    exists p d sep,
      Obfs2.server_accept ks sha256 (hdr ++ X) secret = Ok ((p, d), sep, X) /\
      let plain := Obfs2.recv_on ks (Obfs2.dec sep) dl in
      detect (Obfs2.replay_tag p ++ plain) = Ok (c, plain) /\
      read_stream crc c seq fuel plain = (ps, StopErr EEof).
Proof. intros crc Hc ks sha. exact (TransportStack.stream_over_obfuscated crc Hc ks sha). Qed.
Print Assumptions C16_stream_over_obfuscated.

(* ... with FakeTLS underneath: header and ciphertext pass through FakeTLS.Write calls [xs] of any
   sizes and are read back at the far end with any positive buffer sizes [ks_read]: the records
   deliver exactly header ++ ciphertext, and the layers above deliver ps. *)
Theorem C16_stream_over_faketls :
  forall (crc : list Z -> Z), (forall x, 0 <= crc x < 2 ^ 32) ->
  forall (ks : list Z -> list Z -> Z -> Z) (sha256 : list Z -> list Z)
         (c : codec) (seq : Z) (rnd : Z -> list Z) (ps : list (list Z)) (W : list Z)
         (fuel_i : nat) (orand : list Z) (dc : Z) (secret hdr : list Z) (cep : Obfs2.endpoint) (orest : list Z)
         (ws xs : list (list Z)) (ks_read : nat -> Z) (fuel_t : nat) (dl : list (list Z * bool)) (fuel : nat),
    c <> Full -> (forall i, length (rnd i) = 4%nat) ->
    Forall (frame_ok c) ps -> (length ps < fuel)%nat ->
    write_all crc c seq rnd ps = Ok W -> concat ws = W ->
    Obfs2.client_handshake ks sha256 fuel_i orand (Obfs2Listen.obf_tag c) dc secret = Ok (hdr, cep, orest) ->
    let X := Obfs2.send_on ks (Obfs2.enc cep) ws in
    concat xs = hdr ++ X ->
    (forall j, 1 <= ks_read j) -> (length (hdr ++ X) < fuel_t)%nat ->
    concat (map fst dl) = X -> Proof.Obfs2.err_only_last dl ->
    exists T,
      FakeTls.ftls_write_all false xs = Ok T /\
      FakeTls.drain fuel_t ks_read 0 ([], T) = (hdr ++ X, FakeTls.TEof) /\
      exists p d sep,
        Obfs2.server_accept ks sha256 (hdr ++ X) secret = Ok ((p, d), sep, X) /\
        let plain := Obfs2.recv_on ks (Obfs2.dec sep) dl in
        detect (Obfs2.replay_tag p ++ plain) = Ok (c, plain) /\
        read_stream crc c seq fuel plain = (ps, StopErr EEof).
Proof. intros crc Hc ks sha. exact (TransportStack.stream_over_faketls crc Hc ks sha). Qed.
Print Assumptions C16_stream_over_faketls.

(* Concurrent senders on one connection.  Transition system of Model/CodecSend.v: Send = lock;
   codec.Write in any number of conn.Write calls, frame number taken under the lock; unlock.  A
   conn.Write may also FAIL after any number of bytes (write deadline taken from ctx, closed
   connection): Send then returns the error and unlocks, leaving a torn frame on the wire.
   For EVERY schedule [es], any number of senders and payloads:
   (a) as long as no conn.Write has failed ([intact st = None]), whenever the mutex is free the
       receiver reads exactly the payloads of the Sends, whole, in lock order, and each sender's
       payloads in its own program order (the log is an interleaving); *)
Theorem C16_senders :
  forall (crc : bytes -> Z) (c : codec) (rnd : Z -> bytes) (split : bytes -> list bytes)
         (q0 : nat -> list bytes) (seq0 : Z) (es : list event) (st : state) (fuel : nat),
    (forall x, 0 <= crc x < 2 ^ 32) ->
    (forall i, length (rnd i) = 4%nat) ->
    (forall f, concat (split f) = f) ->
    (forall i p, In p (q0 i) -> frame_ok c p) ->
    run crc c rnd split (init q0 seq0) es = Some st -> holder st = None -> intact st = None ->
    (length (log st) < fuel)%nat ->
    read_stream crc c seq0 fuel (stream st) = (map snd (log st), StopErr EEof) /\
    (forall i, sent_by i (log st) ++ queue st i = q0 i).
Proof. intros; eapply senders_delivered; eassumption. Qed.
Print Assumptions C16_senders.

(* (b) once a conn.Write has failed while frame number n of the log was being written, the n
       frames before it are still read first, whole and in lock order; nothing is claimed about
       what the receiver reads after them (the torn frame desynchronises every codec: the
       connection is dead, which is how the callers treat a Send error). *)
Theorem C16_senders_until_failure :
  forall (crc : bytes -> Z) (c : codec) (rnd : Z -> bytes) (split : bytes -> list bytes)
         (q0 : nat -> list bytes) (seq0 : Z) (es : list event) (st : state) (n fuel : nat),
    (forall x, 0 <= crc x < 2 ^ 32) ->
    (forall i, length (rnd i) = 4%nat) ->
    (forall f, concat (split f) = f) ->
    (forall i p, In p (q0 i) -> frame_ok c p) ->
    run crc c rnd split (init q0 seq0) es = Some st -> intact st = Some n ->
    exists tail,
      read_stream crc c seq0 (n + fuel) (stream st) =
      (firstn n (map snd (log st)) ++ fst (read_stream crc c (seq0 + Z.of_nat n) fuel tail),
       snd (read_stream crc c (seq0 + Z.of_nat n) fuel tail)).
Proof. intros; eapply senders_until_failure; eassumption. Qed.
Print Assumptions C16_senders_until_failure.

(* "With or without headers": a listener created with an explicit codec (ListenCodec) reads the
   protocol tag with Codec.ReadHeader -- it accepts exactly the codec's own tag and then hands
   the codec the stream after it (C16_stream applies to that stream). *)
Theorem C16_header :
  forall (c : codec) (s : bytes), read_header c (header c ++ s) = Ok s.
Proof. exact read_header_ok. Qed.
Print Assumptions C16_header.
Theorem C16_header_mismatch :
  forall (c : codec) (h s : bytes),
    c <> Full -> length h = length (header c) -> h <> header c -> read_header c (h ++ s) = Err EHeader.
Proof. exact read_header_mismatch. Qed.
Print Assumptions C16_header_mismatch.

(* The alignment precondition of C16_detect_full is necessary: Full.Write has no checkAlign, and
   the frame of a 227-byte payload starts with 0xef (length 239), which detectCodec takes for
   the abridged tag.  Payloads of the property (and of MTProto) are multiples of 4. *)
Theorem C16_detect_full_needs_alignment :
  exists f, write_c (fun _ => 0) Full 0 [] (repeat 0 227) = Ok f /\
            exists s, detect f = Ok (Abridged, s).
Proof. exact detect_full_unaligned. Qed.
Print Assumptions C16_detect_full_needs_alignment.

(* ---- non-vacuity: the hypothesis sets are satisfiable ---- *)
Example C16_crc_exists : exists crc : bytes -> Z, forall x, 0 <= crc x < 2 ^ 32.
Proof. exists (fun _ => 0). intros; split; [apply Z.le_refl|reflexivity]. Qed.
Example C16_rnd_exists : exists rnd : Z -> bytes, forall i, length (rnd i) = 4%nat.
Proof. exists (fun _ => [0; 0; 0; 0]). reflexivity. Qed.
Example C16_frame_ok_exists : forall c, frame_ok c [1; 2; 3; 4; 5; 6; 7; 8].
Proof.
  intros c. unfold frame_ok, sendable. repeat split; try (cbv; congruence).
  - repeat constructor; cbv; congruence.
  - destruct c; cbv; congruence.
Qed.
(* the stacked theorems' handshake hypothesis is satisfiable *)
Example C16_stack_handshake_exists :
  exists hdr cep rest,
    Obfs2.client_handshake (fun _ _ p => p mod 256) (fun x => x) 2 (repeat 7 64)
                           (Obfs2Listen.obf_tag Intermediate) 2 [] = Ok (hdr, cep, rest).
Proof. do 3 eexists. vm_compute. reflexivity. Qed.
(* a concrete two-sender schedule in which sender 1 overtakes sender 0 *)
Example C16_senders_run :
  let q0 := fun i => match i with 0%nat => [[1;2;3;4;5;6;7;8]] | 1%nat => [[9;9;9;9;9;9;9;9]] | _ => [] end in
  exists st, run (fun _ => 0) Intermediate (fun _ => [0;0;0;0]) (fun f => [firstn 4 f; skipn 4 f])
                 (init q0 0) [Acquire 1; WriteChunk 1; WriteChunk 1; Release 1;
                              Acquire 0; WriteChunk 0; WriteChunk 0; Release 0] = Some st
             /\ holder st = None /\ map fst (log st) = [1%nat; 0%nat].
Proof. eexists; split; [vm_compute; reflexivity|split; reflexivity]. Qed.
(* ... and one in which sender 1's second conn.Write fails after 2 bytes: frame 0 is torn *)
Example C16_senders_failure_run :
  let q0 := fun i => match i with 0%nat => [[1;2;3;4;5;6;7;8]] | 1%nat => [[9;9;9;9;9;9;9;9]] | _ => [] end in
  exists st, run (fun _ => 0) Intermediate (fun _ => [0;0;0;0]) (fun f => [firstn 4 f; skipn 4 f])
                 (init q0 0) [Acquire 1; WriteChunk 1; WriteFail 1 2;
                              Acquire 0; WriteChunk 0; WriteChunk 0; Release 0] = Some st
             /\ intact st = Some 0%nat /\ holder st = None.
Proof. eexists; split; [vm_compute; reflexivity|split; reflexivity]. Qed.
