(* Correspondence checker for C08: the ids produced by proto.MessageIDGen under a scripted
   clock, and the (msg_id, seq_no) pairs of frames written by a real mtproto.Conn (taken in
   msg_id order = order of the reqMux critical sections), must equal gen_run / seq_run. *)
From Coq Require Import List ZArith Bool.
From TD Require Import Lib.RunLib Gen.MsgIdGen Model.MsgId.
Import ListNotations.

(* (clock readings, observed ids, content?/service flags, observed seqnos) *)
Definition case := (list Z * list Z * list bool * list Z)%type.
Definition ok (c : case) : bool :=
  let '(clocks, ids, kinds, seqs) := c in
  zlist_eqb (gen_run gen_init clocks) ids && zlist_eqb (seq_run 0%Z kinds) seqs.
Definition mismatches (cs : list case) : list nat := mismatch_idx ok cs.
