(* Correspondence checker for C08: the ids produced by proto.MessageIDGen under a scripted
   clock (sequentially, or by several goroutines sharing one generator under a frozen clock:
   then the SORTED ids are compared), and the (msg_id, seq_no) pairs of frames written by a
   real mtproto.Conn (taken in msg_id order = order of the reqMux critical sections), must
   equal gen_run / seq_run.  Requests whose write failed leave no frame: they are part of the
   clock/kind streams (their id and seq_no were allocated) but masked out of the observation. *)
From Coq Require Import List ZArith Bool.
From TD Require Import Lib.RunLib Gen.MsgIdGen Model.MsgId.
Import ListNotations.

(* (clock readings, observed ids, content?/service flags, observed seqnos,
    mask: which requests left a frame ([] = all)) *)
Definition case := (list Z * list Z * list bool * list Z * list bool)%type.
Fixpoint pick {A} (l : list A) (m : list bool) : list A :=
  match l, m with
  | x :: t, b :: mt => if b then x :: pick t mt else pick t mt
  | l, [] => l
  | [], _ => []
  end.
Definition ok (c : case) : bool :=
  let '(clocks, ids, kinds, seqs, mask) := c in
  zlist_eqb (pick (gen_run gen_init clocks) mask) ids && zlist_eqb (pick (seq_run 0%Z kinds) mask) seqs.
Definition mismatches (cs : list case) : list nat := mismatch_idx ok cs.
