(* Correspondence checker for C07: (a) proto.MessageIDBuf driven directly with id histories;
   (b) frames injected into a real mtproto.Conn (verif constructor): the handler calls
   observed per frame must equal accept_run. *)
From Coq Require Import List ZArith Bool.
From TD Require Import Lib.RunLib Gen.RecvConsts Model.MsgIdBuf.
Import ListNotations.

(* one injected frame: (now, auth?, session field, msg id, data length field, bytes after header) *)
Definition frame := (Z * bool * Z * Z * Z * Z)%type.
Definition to_dmsg (f : frame) : Z * dmsg :=
  let '(now, a, s, id, n, tot) := f in
  (now, {| d_auth := a; d_session := s; d_id := id; d_len := n; d_total := tot |}).

(* (window size (0 = the Conn's own), id history, observed Consume results,
    session id, frames, observed deliveries) *)
Definition case := (Z * list Z * list bool * Z * list frame * list bool)%type.
Definition blist_eqb := list_eqb Bool.eqb.
Definition ok (c : case) : bool :=
  let '(n, ids, flags, session, frames, delivered) := c in
  blist_eqb (consume_run (buf_init (Z.to_nat n)) ids) flags &&
  blist_eqb (accept_run session (buf_init (Z.to_nat c_msgIDBufSize)) (map to_dmsg frames)) delivered.
Definition mismatches (cs : list case) : list nat := mismatch_idx ok cs.
