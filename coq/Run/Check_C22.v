(* Correspondence checker for C22.
   case = (mode, input, status, zs, bytes, msgs); msgs = list of (id, seqno, bytes, body).
   status: 0 ok, 1 EOF, 2 InvalidLength, 3 UnexpectedID, 4 message length, 5 auth_key_id,
           6 gzip header, 7 decompress, 8 bomb, 9 panic.
     0 container decode : input -> status, zs = [restlen], msgs
     1 container encode : msgs -> status, input = produced bytes
     2 result decode    : input -> status, zs = [id], bytes = body
     3 result encode    : zs = [id], bytes = body -> input = produced bytes
     4 unencrypted dec  : input -> status, zs = [id; restlen], bytes = data
     5 unencrypted enc  : zs = [id], bytes = data -> input = produced bytes
     6 gzip decode      : input -> status; zs = [head_ok; stream_len; serr; has_data; restlen];
                          oracle input: bytes = what the decompressor delivers (when has_data = 1,
                          otherwise only its length, capped at the limit); msgs = [(0,0,0,Data)]
                          observed Data on success when has_data = 1
     7 gzip encode      : bytes = data, zs = [], msgs = [(0,0,0, compressed bytes)] (oracle
                          input: output of the Go compressor) -> input = produced bytes
     8 unencrypted decode into a used value: msgs = [(0,0,0, old MessageData)];
                          zs = [id; restlen], bytes = MessageData afterwards
     9 result decode into a used value: msgs = [(0,0,0, old Result)]; zs = [id], bytes = Result
    10 container decode into a used value: zs = [restlen; n_old]; msgs = old messages ++ messages afterwards *)
From Coq Require Import List ZArith Bool.
From TD Require Import Lib.RunLib Lib.Bytes Lib.GoSem Lib.GoSlice Gen.ProtoConsts Model.TlPrim Model.ProtoMsg.
Import ListNotations.
Open Scope Z_scope.

Definition mobs := (Z * Z * Z * list Z)%type.
Definition case := (Z * list Z * Z * list Z * list Z * list mobs)%type.

Definition to_mobs (m : msg) : mobs := (m_id m, m_seqno m, m_bytes m, m_body m).
Definition of_mobs (o : mobs) : msg := let '(i, s, n, b) := o in mkMsg i s n b.
Definition mobs_eqb (a b : mobs) : bool :=
  let '(i1, s1, n1, b1) := a in let '(i2, s2, n2, b2) := b in
  (i1 =? i2) && (s1 =? s2) && (n1 =? n2) && zlist_eqb b1 b2.
Definition nthz (l : list Z) (i : nat) : Z := nth i l (-1).
Definition nz (z : Z) : bool := negb (z =? 0).

Definition ok (c : case) : bool :=
  let '(mode, input, status, zs, bytes, msgs) := c in
  if mode =? 0 then
    match decode_container input with
    | Ok (ms, r) => (status =? 0) && list_eqb mobs_eqb (map to_mobs ms) msgs && (len r =? nthz zs 0)
    | r => status =? res_code r
    end
  else if mode =? 1 then
    match encode_container (map of_mobs msgs) with
    | Ok e => (status =? 0) && zlist_eqb e input
    | r => status =? res_code r
    end
  else if mode =? 2 then
    match decode_result input with
    | Ok (id, body, rest) => (status =? 0) && (id =? nthz zs 0) && zlist_eqb body bytes && (len rest =? 0)
    | r => status =? res_code r
    end
  else if mode =? 3 then zlist_eqb (encode_result (nthz zs 0) bytes) input
  else if mode =? 4 then
    match decode_unencrypted input with
    | Ok (id, data, rest) => (status =? 0) && (id =? nthz zs 0) && zlist_eqb data bytes && (len rest =? nthz zs 1)
    | r => status =? res_code r
    end
  else if mode =? 5 then zlist_eqb (encode_unencrypted (nthz zs 0) bytes) input
  else if mode =? 6 then
    let head := nz (nthz zs 0) in let serr := nz (nthz zs 2) in
    if nz (nthz zs 3) then
      match decode_gzip (fun _ => head) (fun _ => (bytes, serr)) input with
      | Ok (data, r) =>
        (status =? 0) && (len r =? nthz zs 4) &&
        match msgs with [(_, _, _, obs)] => zlist_eqb data obs | _ => false end
      | r => status =? res_code r
      end
    else status =? decode_gzip_code head (nthz zs 1) serr input
  else if mode =? 7 then
    match msgs with
    | [(_, _, _, gz)] => zlist_eqb (encode_gzip (fun _ => gz) bytes) input
    | _ => false
    end
  else if mode =? 8 then
    match msgs with
    | [(_, _, _, old)] =>
      match decode_unencrypted_into old input with
      | Ok (id, data, rest) => (status =? 0) && (id =? nthz zs 0) && zlist_eqb data bytes && (len rest =? nthz zs 1)
      | r => status =? res_code r
      end
    | _ => false
    end
  else if mode =? 9 then
    match msgs with
    | [(_, _, _, old)] =>
      match decode_result_into old input with
      | Ok (id, body, rest) => (status =? 0) && (id =? nthz zs 0) && zlist_eqb body bytes && (len rest =? 0)
      | r => status =? res_code r
      end
    | _ => false
    end
  else
    let n_old := Z.to_nat (nthz zs 1) in
    match decode_container_into (map of_mobs (firstn n_old msgs)) input with
    | Ok (ms, r) => (status =? 0) && list_eqb mobs_eqb (map to_mobs ms) (skipn n_old msgs) && (len r =? nthz zs 0)
    | r => status =? res_code r
    end.
Definition mismatches (cs : list case) : list nat := mismatch_idx ok cs.
