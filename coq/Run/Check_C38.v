(* Correspondence checker for C38.
   case = (mode, input, status, fields, bytes)
     mode 0: fileid.DecodeFileID(input as string) -> status (0 ok, 1 empty, 2 base64,
             3 too small, 4 unsupported version, 5 unknown version, 6 EOF in body,
             7 invalid length in body, 8 unknown type, 10 unknown photo size source, 9 panic)
             and, when ok, the decoded fields + file reference/url in [bytes] as
             reference ++ url with their lengths in fields.
     mode 1: fileid.EncodeFileID of the file id given by fields/bytes produced the string [input].
     mode 2: rleEncode(input) = bytes.   mode 3: rleDecode(input) = bytes.
   fields = [type; dc; id; hash; len ref; len url; pss type; volume; local; secret; ftype;
             thumb; dialog; dialog hash; set id; set hash; version]. *)
From Coq Require Import List ZArith Bool.
From TD Require Import Lib.RunLib Lib.Bytes Lib.GoSem Lib.GoSlice Model.TlPrim Model.FileId.
Import ListNotations.
Open Scope Z_scope.

Definition case := (Z * list Z * Z * list Z * list Z)%type.

Definition fields_of (f : file_id) : list Z :=
  let p := f_pss f in
  [f_type f; f_dc f; f_id f; f_hash f; len (f_ref f); len (f_url f);
   p_type p; p_volume p; p_local p; p_secret p; p_ftype p; p_thumb p;
   p_dialog p; p_dialog_hash p; p_set_id p; p_set_hash p; p_version p].
Definition file_of (fs : list Z) (bs : list Z) : option file_id :=
  match fs with
  | [t; dc; id; h; lr; lu; pt; vol; loc; sec; ft; th; dl; dh; si; sh; ver] =>
    Some (mkFileId t dc id h (firstn (Z.to_nat lr) bs) (firstn (Z.to_nat lu) (skipn (Z.to_nat lr) bs))
            (mkPss pt vol loc sec ft th dl dh si sh ver))
  | _ => None
  end.
Definition err_code (e : fid_err) : Z :=
  match e with
  | FEmpty => 1 | FBase64 => 2 | FTooSmall => 3 | FUnsupported => 4 | FUnknownVersion => 5
  | FBody EEOF => 6 | FBody EInvalidLength => 7 | FBody EUnexpectedID => 11
  | FUnknownType => 8 | FUnknownPss => 10
  end.

Definition ok (c : case) : bool :=
  let '(mode, input, status, fields, bytes) := c in
  if mode =? 0 then
    match decode_file_id input with
    | Ok f => (status =? 0) && zlist_eqb (fields_of f) fields && zlist_eqb (f_ref f ++ f_url f) bytes
    | Err e => status =? err_code e
    | Panic => status =? 9
    end
  else if mode =? 1 then
    match file_of fields bytes with
    | Some f => zlist_eqb (encode_file_id f) input
    | None => false
    end
  else if mode =? 2 then zlist_eqb (rle_encode input) bytes
  else zlist_eqb (rle_decode input) bytes.
Definition mismatches (cs : list case) : list nat := mismatch_idx ok cs.
