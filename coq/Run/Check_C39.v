(* Correspondence checker for C39: the real iterators driven by mock query functions must
   yield exactly what the model yields, issue the same queries, and finish (or not) within
   the same number of Next calls. *)
From Coq Require Import List ZArith Bool.
From TD Require Import Lib.RunLib Model.Iter.
Import ListNotations.
Open Scope Z_scope.

Inductive case :=
| CM (h : list Z) (limit pol cnt : Z) (rv : bool) (fuel : Z)
     (yielded : list Z) (queries : list Z) (finished : bool)
| CMT (h : list Z) (limit pol cnt : Z) (fuel : Z) (calls : list (Z * Z))   (* (position, 0 Total | 1 FetchTotal) *)
      (yielded : list Z) (queries : list Z) (counts : list Z) (finished : bool)
| CD (h : list (Z * Z * Z * bool)) (limit pol cnt : Z) (fuel : Z)
     (yielded : list Z) (queries : list (Z * Z * Z)) (finished : bool).

Definition to_dlg (t : Z * Z * Z * bool) : dlg :=
  let '(d, i, p, b) := t in {| d_date := d; d_mid := i; d_peer := p; d_has := b |}.

Definition ok (c : case) : bool :=
  match c with
  | CM h limit pol cnt rv fuel ys qs fin =>
      let '(ys', qs', _, fin') := m_iterate (m_policy_server h pol cnt rv) limit (Z.to_nat fuel) m_init in
      zlist_eqb ys' ys && zlist_eqb qs' qs && Bool.eqb fin' fin
  | CMT h limit pol cnt fuel calls ys qs cs fin =>
      let '(ys', qs', cs', _, fin') :=
        m_iterate_t (m_policy_server h pol cnt false) limit (map (fun c => (Z.to_nat (fst c), snd c)) calls) (Z.to_nat fuel) 0 m_init in
      zlist_eqb ys' ys && zlist_eqb qs' qs && zlist_eqb cs' cs && Bool.eqb fin' fin
  | CD h limit pol cnt fuel ys qs fin =>
      let '(ys', qs', _, fin') := d_iterate (d_policy_server (map to_dlg h) pol cnt) limit (Z.to_nat fuel) d_init in
      zlist_eqb (map d_peer ys') ys && list_eqb z3_eqb qs' qs && Bool.eqb fin' fin
  end.
Definition mismatches (cs : list case) : list nat := mismatch_idx ok cs.
