(* Correspondence checker for C30.
   CHist: one history of handler notifications / migrations / restores driven through a real
   telegram.Client with an in-memory session.Storage; after every event the harness records
   whether the call returned an error, the in-memory primary session and the storage
   content (DC, key, salt), keys projected to pool indices (0 = zero key, 1..4 = pool keys
   with a correct id, 5 = a key whose id does not match, -1 = anything else); at the end
   the per-DC session maps.  The model must reproduce every observation.
   CRestore: one stored session (bytes) and a list of corruptions, each with what
   restoreConnection did; the model is restore_bytes with Gallina SHA-1. *)
From Coq Require Import List ZArith Bool.
From TD Require Import Lib.RunLib Lib.GoSem Impl.Sha1.
From TD Require Export Gen.SessionGuard Model.Session.
Import ListNotations.
Open Scope Z_scope.

Definition kzero (k : Z) : bool := k =? 0.
Definition kvalid (k : Z) : bool := (1 <=? k) && (k <=? 4).
Definition z3 := (Z * Z * Z)%type.
Definition of_sess (s : @sess Z) : z3 := (s_dc s, s_key s, s_salt s).
Definition obs := (bool * z3 * option z3)%type.

(* corruption of a stored record: 0 xor key byte, 1 xor id byte, 2 truncate key to pos bytes,
   3 append byte to key, 4 truncate id to pos bytes, 5 append byte to id, 6 none *)
Definition mut := (Z * nat * Z)%type.

Inductive case :=
| CHist (init_dc : Z) (evs : list (@event Z)) (o : list obs) (regs cdns : list (Z * z3))
| CRestore (prev_dc dc : Z) (key id : list Z) (salt : Z) (ms : list (mut * (bool * Z * Z * bool))).
(* per corruption: error?, DC of the primary session afterwards, its salt, and whether the key
   installed is the stored one (copied into [256]byte / [8]byte) *)

Fixpoint xor_at (l : list Z) (i : nat) (v : Z) : list Z :=
  match l, i with
  | [], _ => []
  | x :: t, O => Z.lxor x v :: t
  | x :: t, S j => x :: xor_at t j v
  end.
Definition apply_mut (key id : list Z) (m : mut) : list Z * list Z :=
  let '(k, pos, v) := m in
  if k =? 0 then (xor_at key pos v, id)
  else if k =? 1 then (key, xor_at id pos v)
  else if k =? 2 then (firstn pos key, id)
  else if k =? 3 then (key ++ [v], id)
  else if k =? 4 then (key, firstn pos id)
  else if k =? 5 then (key, id ++ [v])
  else (key, id).

Definition key_id (kv : list Z) : list Z := firstn 8 (skipn 12 (sha1 kv)).

Fixpoint hist_ok (st : @state Z) (evs : list (@event Z)) (o : list obs) : option (@state Z) :=
  match evs, o with
  | [], [] => Some st
  | e :: et, (err, c, s) :: ot =>
      let '(st', _, err') := step kzero kvalid 0 st e in
      if Bool.eqb err err' && z3_eqb (of_sess (cur st')) c && option_eqb z3_eqb (option_map of_sess (stored st')) s
      then hist_ok st' et ot else None
  | _, _ => None
  end.

(* maps are compared as sets of (dc, session) sorted by the harness by DC; the model keeps
   insertion order, so compare membership both ways *)
Definition e_eqb (a b : Z * z3) : bool := (fst a =? fst b) && z3_eqb (snd a) (snd b).
Definition sub (a b : list (Z * z3)) : bool := forallb (fun x => existsb (e_eqb x) b) a.
Definition map_eqb (m : list (Z * @sess Z)) (o : list (Z * z3)) : bool :=
  let m' := map (fun e => (fst e, of_sess (snd e))) m in
  sub m' o && sub o m' && Nat.eqb (length m') (length o).

Definition ok (c : case) : bool :=
  match c with
  | CHist d evs o rg cd =>
      match hist_ok (init 0 d) evs o with
      | Some st => map_eqb (Session.regs st) rg && map_eqb (Session.cdns st) cd
      | None => false
      end
  | CRestore prev dc key id salt ms =>
      forallb (fun e : mut * (bool * Z * Z * bool) =>
                 let '(m, (err, odc, osalt, okey)) := e in
                 let '(k', i') := apply_mut key id m in
                 match restore_bytes key_id prev (mkStored dc k' i' salt) with
                 | Ok (dc', _, _, salt') => negb err && (dc' =? odc) && (salt' =? osalt) && okey
                 | _ => err
                 end) ms
  end.
Definition mismatches (cs : list case) : list nat := mismatch_idx ok cs.
