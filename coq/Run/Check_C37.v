(* Correspondence checker for C37.  Cases:
   CHtml: (DisableTelegramEscape, URL oracle table, builder ops performed before html.HTML, token
           stream of x/net/html, observation of html.HTML + Builder.Complete)
   CUnesc: telegramUnescape input / output (byte-exact).
   CMd: (utf8.Valid(source), goldmark AST projected to the renderer's node kinds, observation of
        markdown.Markdown + Builder.Complete).
   Observation: None = panic, Some None = error, Some (Some (text, entities)).  Entity order is
   compared exactly up to 12 entities (see Check_C35). *)
From Coq Require Import List ZArith Bool.
From TD Require Import Lib.RunLib Lib.GoSem Lib.Utf Lib.Bytes Run.Check_C35.
From TD Require Export Model.EntitySort Model.Entity Model.Html Model.Markdown.
Import ListNotations.
Open Scope Z_scope.

Definition B := Check_C35.B.
Definition hobs := option (option (list Z * list (Z * Z * Z))).
Inductive case :=
| CHtml (disable : bool) (utab : list (list Z * Z)) (pre : list op) (toks : list htok) (o : hobs)
| CUnesc (inp outp : list Z)
| CMd (src_valid : bool) (doc : mdbs) (o : hobs).

Definition hres_eqb (m : res unit (list Z * list ent)) (o : hobs) : bool :=
  match m, o with
  | Panic, None => true
  | Err _, Some None => true
  | Ok (t, es), Some (Some (t', es')) => zlist_eqb t t' && ents_eqb (map of_ent es) es'
  | _, _ => false
  end.

Definition ok (c : case) : bool :=
  match c with
  | CHtml disable utab pre toks o =>
    let '(m, _) := exec m_init pre in hres_eqb (html_complete disable utab (m_b m) toks) o
  | CUnesc i o => zlist_eqb (telegram_unescape i) o
  | CMd v doc o => hres_eqb (markdown_complete v b_init doc) o
  end.
Definition mismatches (cs : list case) : list nat := mismatch_idx ok cs.
