(* Correspondence checker for C01: the recorded behaviour of the real sequenceBox (through
   telegram/updates/export_verif.go) on an operation list must equal the model's, operation
   by operation: panic flag, State(), apply-callback invocations (new state, update ids),
   the pending buffer (ids, slice order) and the gap list (slice order). *)
From Coq Require Import List ZArith Bool.
From Coq Require Export Uint63.
From TD Require Import Lib.RunLib Gen.GapCheck Model.SeqBox.
Import ListNotations.
Open Scope Z_scope.

(* Flat encoding (a cases file is parsed much faster as plain lists of Z):
   ops  = 4 numbers per op: (0, id, state, count) = Handle; (1, z, 0, 0) = SetState z; (2,0,0,0) = ClearGaps
   obs  = per op: panic, State(), #apply calls, {new state, #ids, ids...}, #pending, ids..., #gaps, {from, to}...
   Numbers are written as primitive 63-bit integer literals v + 2^40 (one AST node each). *)
Definition case := (list int * list int)%type.     (* (init :: ops, obs) *)
Definition dec (l : list int) : list Z := map (fun i => Uint63.to_Z i - 1099511627776) l.

Fixpoint to_ops (fuel : nat) (l : list Z) : list op :=
  match fuel, l with
  | S f, k :: a :: s :: n :: t =>
    (if k =? 0 then Handle {| uid := a; ust := s; ucnt := n |}
     else if k =? 1 then SetState a else ClearGaps) :: to_ops f t
  | _, _ => []
  end.

Definition is_pnc (e : bev) : bool := match e with Pnc => true | _ => false end.
Definition zlen {A} (l : list A) : Z := Z.of_nat (length l).
Definition enc_dlvs (evs : list bev) : list Z :=
  let ds := flat_map (fun e => match e with Dlv s us => [(s, map uid us)] | Pnc => [] end) evs in
  zlen ds :: flat_map (fun d => fst d :: zlen (snd d) :: snd d) ds.
Definition enc_gaps (gs : list (Z * Z)) : list Z :=
  zlen gs :: flat_map (fun g => [fst g; snd g]) gs.

Fixpoint sim (b : box) (ops : list op) : list Z :=
  match ops with
  | [] => []
  | o :: t =>
    let '(b', evs) := step b o in
    let pn := existsb is_pnc evs in
    ((if pn then 1 else 0) :: bstate b' :: enc_dlvs evs)
      ++ (zlen (bpending b') :: map uid (bpending b')) ++ enc_gaps (bgaps b')
      ++ (if pn then [] else sim b' t)
  end.

Definition ok (c : case) : bool :=
  match dec (fst c) with
  | init :: ops => zlist_eqb (sim (box_init init) (to_ops (length ops) ops)) (dec (snd c))
  | [] => false
  end.
Definition mismatches (cs : list case) : list nat := mismatch_idx ok cs.
