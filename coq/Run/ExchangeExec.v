(* Executable instantiation of the abstract cryptography of Model/Exchange.v for the
   correspondence runs of C09 / C10: "encryption" is tagging (a ciphertext decrypts exactly
   under the keys it was made for -- or to what the harness observed the real code decrypt),
   exponentiation / primality / hashes are oracle tables computed by the harness with the
   libraries the code itself uses (math/big, crypto/sha1). *)
From Coq Require Import List ZArith Bool.
From TD Require Import Lib.GoSem Lib.RunLib Model.Exchange.
Import ListNotations.
Open Scope Z_scope.

Definition be (l : list Z) : Z := fold_left (fun a b => a * 256 + b) l 0.

Definition x_cipher1 := (Z * pq_inner)%type.
Definition x_cipher2 := (nonce * nonce * option sdh_inner)%type.
Definition x_cipher3 := (nonce * nonce * option cdh_inner)%type.
Definition x_rsa_enc (k : Z) (x : pq_inner) : x_cipher1 := (k, x).
Definition x_rsa_dec (sk : Z) (c : x_cipher1) : option pq_inner := if fst c =? sk then Some (snd c) else None.
Definition x_ans_enc (nn sn : nonce) (x : sdh_inner) : x_cipher2 := (nn, sn, Some x).
Definition x_ans_dec (nn sn : nonce) (c : x_cipher2) : option sdh_inner :=
  let '(nn', sn', r) := c in if zlist_eqb nn nn' && zlist_eqb sn sn' then r else None.
Definition x_cin_enc (nn sn : nonce) (x : cdh_inner) : x_cipher3 := (nn, sn, Some x).
Definition x_cin_dec (nn sn : nonce) (c : x_cipher3) : option cdh_inner :=
  let '(nn', sn', r) := c in if zlist_eqb nn nn' && zlist_eqb sn sn' then r else None.

Definition pow_tab := list (Z * Z * Z * Z).
Definition x_powmod (t : pow_tab) (g e p : Z) : Z :=
  match find (fun r => let '(g', e', p', _) := r in (g =? g') && (e =? e') && (p =? p')) t with
  | Some (_, _, _, v) => v
  | None => 0
  end.
Definition x_prime (t : list (Z * bool)) (n : Z) : bool :=
  match find (fun r => n =? fst r) t with Some r => snd r | None => false end.

Definition kres_eqb (r : kex_result) (key id : list Z) (salt : Z) : bool :=
  zlist_eqb (kr_key r) key && zlist_eqb (kr_id r) id && (kr_salt r =? salt).

Definition cerr_code (e : cerr) : Z :=
  match e with
  | ENonce2 => 1 | EFingerprint => 2 | EBadPQ => 3 | EFactor => 4
  | ENonce5 => 5 | ESNonce5 => 6 | EAnswer => 7 | EInnerNonce => 9 | EInnerSNonce => 10
  | ECheckDH c => 100 + c | EDHParams c => 100 + c
  | ENonce7 => 13 | ESNonce7 => 14 | EHash => 15 | ERetry => 16 | EGenFail => 17
  | EDHFail => 18 | EUnexpected => 19
  end.
