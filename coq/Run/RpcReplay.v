(* Trace replay shared by Check_C24 / Check_C25 / Check_C26: the implementation's event
   trace (harness/rpcsim) must be a run of Model/Rpc.v -- every event enabled, every
   observable carried by an event reproduced (return class, retryability verdict of both
   classification functions, lookup results, CAS outcomes, poll outcomes, decoded value,
   ids closed by NotifyAcks, identity of every transmission) -- and the final per-call
   observables (Output value, number of Output writes, transmissions, drop requests)
   must be those of the model's final state. *)
From Coq Require Import List ZArith Bool.
From TD Require Import Lib.RunLib Model.Rpc.
Import ListNotations.
Open Scope Z_scope.

Definition final := (Z * Z * Z * Z * Z)%type.   (* call, output, writes, sends, drops *)
Definition case := (Z * list ev * list final)%type.

Definition final_ok (s : state) (f : final) : bool :=
  let '(c, o, w, n, d) := f in
  let k := calls s c in
  Z.eqb (out k) o && Z.eqb (nwrites k) w && Z.eqb (nsends k) n && Z.eqb (ndrops k) d.

Definition replay_ok (extra : state -> Z -> bool) (cs : case) : bool :=
  let '(mx, tr, fin) := cs in
  match run (init mx) tr with
  | Some s => forallb (final_ok s) fin && forallb (fun f => let '(c, _, _, _, _) := f in extra s c) fin
  | None => false
  end.
