(* Correspondence checker for C05: the verdict (and, when accepted, the decoded message) of
   crypto.Cipher.DecryptFromBuffer on valid and mutated ciphertexts must equal the model's. *)
From Coq Require Import List ZArith Bool.
From TD Require Import Lib.GoSem Lib.RunLib Model.MsgCrypto Run.MsgCryptoInst.
Import ListNotations.
Open Scope Z_scope.

(* (receiver side, key value, key id, ciphertext, observed result) *)
Definition case := (Z * packed * packed * packed * obs_dec_p)%type.
Definition ok (c : case) : bool :=
  let '(sd, kv, kid, ct, o) := c in
  obs_dec_eqb (obs_dec (x_decrypt (side_of sd) {| ak_value := unpack kv; ak_id := unpack kid |} (unpack ct))) (unpack_obs_dec o).
Definition mismatches (cs : list case) : list nat := mismatch_idx ok cs.
