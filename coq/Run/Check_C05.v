(* Correspondence checker for C05: the verdict (and, when accepted, the decoded message) of
   crypto.Cipher.DecryptFromBuffer on valid and mutated ciphertexts must equal the model's. *)
From Coq Require Import List ZArith Bool.
From TD Require Import Lib.GoSem Lib.RunLib Model.MsgCrypto Run.MsgCryptoInst.
Import ListNotations.
Open Scope Z_scope.

(* (receiver side, key value, key id, ciphertext, observed result) *)
Definition case := (Z * list Z * list Z * list Z * obs_dec_t)%type.
Definition ok (c : case) : bool :=
  let '(sd, kv, kid, ct, o) := c in
  obs_dec_eqb (obs_dec (x_decrypt (side_of sd) {| ak_value := kv; ak_id := kid |} ct)) o.
Definition mismatches (cs : list case) : list nat := mismatch_idx ok cs.
