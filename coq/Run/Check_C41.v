(* Correspondence checker for C41: operation streams on salts.Salts and on a real
   mtproto.Conn (future_salts / new_session_created / bad_server_salt messages, written
   frames' salt field, Invoke with a scripted peer) must produce the model's observations. *)
From Coq Require Import List ZArith Bool.
From TD Require Import Lib.RunLib Gen.SaltConsts Model.Salts.
Import ListNotations.
Open Scope Z_scope.

(* encoded operation (kind, salts/results, argument):
     0 Store salts | 1 Get date | 2 Reset | 3 Told salt | 4 Attach now_ns
     5 Invoke now_ns with Do results [(code, new salt)] (code 0 = ok, -1 = other error)
     6 updateSalt at now_ns run by the read path, salt not observed *)
Definition eop := (Z * list (Z * Z) * Z)%type.
(* observation stream: (0,0) Get/none, (1,s) Get or attach returned s, (2,s) Invoke sent with
   salt s, (3,c) Invoke returned c (0 ok, code of the bad message error, -1 other error) *)
Definition case := (Z * list eop * list (Z * Z))%type.

Definition res_of (p : Z * Z) : do_res :=
  let '(c, ns) := p in if c =? 0 then DoOk else if c =? -1 then DoErr else DoBad c ns.
Definition out_code (o : outcome) : Z := match o with RetOk => 0 | RetBad c => c | RetErr => -1 end.

Fixpoint erun (st : cstate) (ops : list eop) : list (Z * Z) :=
  match ops with
  | [] => []
  | (k, l, a) :: t =>
      if k =? 0 then erun (fst (step st (OStore l))) t
      else if k =? 1 then
        match get (salts st) a with
        | Some (Some s, l') => (1, s) :: erun {| cur := cur st; cur_src := cur_src st; salts := l' |} t
        | Some (None, l') => (0, 0) :: erun {| cur := cur st; cur_src := cur_src st; salts := l' |} t
        | None => [(-99, -99)]
        end
      else if k =? 2 then erun (fst (step st OReset)) t
      else if k =? 3 then erun (fst (step st (OTold a))) t
      else if k =? 4 then let st' := fst (step st (OAttach a)) in (1, cur st') :: erun st' t
      else if k =? 6 then erun (fst (step st (OAttach a))) t
      else
        let r1 := res_of (nth 0 l (0, 0)) in
        let r2 := res_of (nth 1 l (0, 0)) in
        let '(sends, out, st') := invoke st a a r1 r2 in
        map (fun s => (2, s)) sends ++ (3, out_code out) :: erun st' t
  end.

Definition z2_eqb (a b : Z * Z) : bool := Z.eqb (fst a) (fst b) && Z.eqb (snd a) (snd b).
Definition ok (c : case) : bool :=
  let '(s0, ops, obs) := c in list_eqb z2_eqb (erun (init s0) ops) obs.
Definition mismatches (cs : list case) : list nat := mismatch_idx ok cs.
