(* Correspondence checker for C35: operation lists through the public entity.Builder API.
   A case = (ops, observed outputs of every Complete/Raw in order); an observed output is
   None for a panic, else (text bytes, [(offset, length, tag)]).  Up to 12 entities the order
   must be exactly the model's (go_isort with the generated Less); beyond that Go's pdqsort
   order under the non-transitive Less is not modelled and the lists are compared as multisets. *)
From Coq Require Import List ZArith Bool.
From TD Require Import Lib.RunLib Lib.GoSem Lib.Utf Lib.Bytes.
From TD Require Export Model.EntitySort Model.Entity.
Import ListNotations.
Open Scope Z_scope.

(* compact byte-string literal: n bytes, little-endian value v (cheap to parse in cases files) *)
Definition B (n : nat) (v : Z) : list Z := le_enc n v.

Definition obs := option (list Z * list (Z * Z * Z)).
Definition case := (list op * list obs)%type.

Definition of_ent (e : ent) : Z * Z * Z := (e_off e, e_len e, e_tag e).
Definition z3_leb (a b : Z * Z * Z) : bool :=
  let '(a1, a2, a3) := a in let '(b1, b2, b3) := b in
  (a1 <? b1) || ((a1 =? b1) && ((a2 <? b2) || ((a2 =? b2) && (a3 <=? b3)))).
Fixpoint ins3 (x : Z * Z * Z) (l : list (Z * Z * Z)) : list (Z * Z * Z) :=
  match l with [] => [x] | y :: t => if z3_leb x y then x :: l else y :: ins3 x t end.
Definition canon (l : list (Z * Z * Z)) : list (Z * Z * Z) := fold_right ins3 [] l.

Definition ents_eqb (m o : list (Z * Z * Z)) : bool :=
  if (length m <=? 12)%nat then list_eqb z3_eqb m o else list_eqb z3_eqb (canon m) (canon o).

Definition out_eqb (m : out) (o : obs) : bool :=
  match m, o with
  | Panic, None => true
  | Ok (t, es), Some (t', es') => zlist_eqb t t' && ents_eqb (map of_ent es) es'
  | _, _ => false
  end.

Fixpoint all2 {A B} (f : A -> B -> bool) (a : list A) (b : list B) : bool :=
  match a, b with
  | [], [] => true
  | x :: a', y :: b' => f x y && all2 f a' b'
  | _, _ => false
  end.

Definition ok (c : case) : bool :=
  let '(ops, observed) := c in
  all2 out_eqb (snd (exec m_init ops)) observed.
Definition mismatches (cs : list case) : list nat := mismatch_idx ok cs.
