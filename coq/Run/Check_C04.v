(* Correspondence checker for C04: crypto.Cipher.Encrypt (with the recorded random stream)
   must produce exactly the model's bytes, and crypto.Cipher.DecryptFromBuffer on the other
   side must return exactly the model's result. *)
From Coq Require Import List ZArith Bool.
From TD Require Import Lib.GoSem Lib.RunLib Model.MsgCrypto Run.MsgCryptoInst.
Import ListNotations.
Open Scope Z_scope.

(* (mode, side, key value, key id, (salt, session, msg_id, seq_no), mlen, payload, random bytes,
    observed Encrypt, observed DecryptFromBuffer of that output on the other side)
   mode 0: EncryptedMessageData{Message: payload} (mlen ignored); mode 1: explicit MessageDataLen = mlen,
   MessageDataWithPadding = payload; mode 3: a real mtproto.Conn (client) sent [payload] with
   compressThreshold = mlen, [aux] = encoding of proto.GZIP{payload} computed by Go.
   Last component: aux byte string. *)
Definition case := (Z * Z * packed * packed * (Z * Z * Z * Z) * Z * packed * packed * (Z * packed) * obs_dec_p * packed)%type.

Definition ok (c : case) : bool :=
  let '(mode, sd, kv, kid, (salt, sess, mid, seq), mlen, payload, rnd, oenc, odec, aux) := c in
  let kv := unpack kv in let kid := unpack kid in let payload := unpack payload in let rnd := unpack rnd in
  let oenc := (fst oenc, unpack (snd oenc)) in let odec := unpack_obs_dec odec in
  let s := side_of sd in
  let k := {| ak_value := kv; ak_id := kid |} in
  let h := {| h_salt := salt; h_session := sess; h_msg_id := mid; h_seq_no := seq |} in
  let r := if mode =? 0 then x_encrypt s k h payload rnd
           else if mode =? 3 then x_conn_encrypt mlen k salt sess mid seq payload (unpack aux) rnd
           else x_encrypt_data s k h mlen payload rnd in
  obs_bytes_eqb (obs_bytes r) oenc &&
  match r with
  | Ok ct => obs_dec_eqb (obs_dec (x_decrypt (other s) k ct)) odec
  | _ => true
  end.
Definition mismatches (cs : list case) : list nat := mismatch_idx ok cs.
