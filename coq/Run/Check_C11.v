(* Correspondence checker for C11: the Go observation of crypto.DecryptExchangeAnswer must
   equal the model.  Abstract crypto is instantiated with oracle inputs computed by the
   harness with the libraries the code itself uses: [plain] = AES-IGE decryption
   (github.com/gotd/ige), [tab] = SHA-1 of the candidate plain[20:len-i] at position i
   (i = 0.. up to the first match, at most 16 entries; a missing entry reads as [] and can
   only cause a false mismatch).  The model only sees the lengths of data / key / iv. *)
From Coq Require Import List ZArith Bool.
From TD Require Import Lib.GoSem Lib.RunLib Model.ExchangeAnswer.
Import ListNotations.
Open Scope Z_scope.

(* ((key_len, iv_len, data_len), plain, tab, (kind, nil, out)) ;
   kind: 0 ok, 1 err-key, 2 err-len, 3 err-guess, 4 unknown error, 5 panic *)
Definition case := ((Z * Z * Z) * list Z * list (list Z) * (Z * bool * list Z))%type.

(* SHA-1 restricted to the candidates of [plain]: d must BE the candidate at the position its
   length determines; anything else hashes to [] (never equal to a 20-byte prefix). *)
Definition sha_tab (plain : list Z) (tab : list (list Z)) (d : list Z) : list Z :=
  let k := (length plain - sha1_size - length d)%nat in
  if zlist_eqb d (cand plain k) && (sha1_size + length d + k =? length plain)%nat then nth k tab [] else [].

Definition model (c : case) : Z * bool * list Z :=
  let '(lens, plain, tab, _) := c in
  let '(kl, il, dl) := lens in
  let z n := repeat 0 (Z.to_nat n) in
  match decrypt_answer (sha_tab plain tab) (fun _ _ _ => plain) (z dl) (z kl) (z il) with
  | Ok d => (0, false, d)
  | Err EKey => (1, true, [])
  | Err ELen => (2, true, [])
  | Err EGuess => (3, true, [])
  | Panic => (5, true, [])
  end.

Definition ok (c : case) : bool :=
  let '(_, _, _, obs) := c in
  let '(k, n, o) := obs in
  let '(mk, mn, mo) := model c in
  Z.eqb k mk && Bool.eqb n mn && zlist_eqb o mo.
Definition mismatches (cs : list case) : list nat := mismatch_idx ok cs.
