(* Correspondence checker for C20: the Go observations of bin.Buffer Put*/decode methods
   must equal the TL primitive model.
   case = (mode, kinds, bytes, status, values, restlen)
     mode 0 (decode): decode [bytes] as the sequence [kinds]; the implementation reported
        [status] (0 ok, 1 io.ErrUnexpectedEOF, 2 InvalidLengthError, 3 UnexpectedIDErr,
        9 panic) and, when ok, the decoded [values] and the length of the unread rest.
     mode 1 (encode): Put* of [values] in order produced exactly [bytes].
     mode 2 (large string): kinds = [fill; n]; PutBytes of n bytes [fill] produced the byte
        string whose run-length form (byte, count, byte, count, ...) is [bytes]; the model
        must produce the same encoding and decode it (followed by a 2-byte trailer) back.
   A value is (kind, z, bytes): kinds 0 int, 1 long, 2 double (z = bit pattern),
   3 bool (z = 0/1), 4 int128, 5 int256, 6 string/bytes, 7 vector header (z = length). *)
From Coq Require Import List ZArith Bool.
From TD Require Import Lib.RunLib Lib.Bytes Lib.GoSem Lib.GoSlice Model.TlPrim.
Import ListNotations.
Open Scope Z_scope.

Definition pobs := (Z * Z * list Z)%type.
Definition case := (Z * list Z * list Z * Z * list pobs * Z)%type.

Definition kind_of_z (z : Z) : option pkind :=
  if z =? 0 then Some KInt else if z =? 1 then Some KLong else if z =? 2 then Some KDouble
  else if z =? 3 then Some KBool else if z =? 4 then Some KInt128 else if z =? 5 then Some KInt256
  else if z =? 6 then Some KBytes else if z =? 7 then Some KVector else None.
Fixpoint kinds_of (l : list Z) : option (list pkind) :=
  match l with
  | [] => Some []
  | z :: t => match kind_of_z z, kinds_of t with Some k, Some ks => Some (k :: ks) | _, _ => None end
  end.
Definition to_pobs (p : prim) : pobs :=
  match p with
  | PInt v => (0, v, []) | PLong v => (1, v, []) | PDouble v => (2, v, [])
  | PBool v => (3, if v then 1 else 0, []) | PInt128 v => (4, 0, v) | PInt256 v => (5, 0, v)
  | PBytes v => (6, 0, v) | PVector n => (7, n, [])
  end.
Definition of_pobs (o : pobs) : option prim :=
  let '(k, z, b) := o in
  if k =? 0 then Some (PInt z) else if k =? 1 then Some (PLong z) else if k =? 2 then Some (PDouble z)
  else if k =? 3 then Some (PBool (negb (z =? 0))) else if k =? 4 then Some (PInt128 b)
  else if k =? 5 then Some (PInt256 b) else if k =? 6 then Some (PBytes b)
  else if k =? 7 then Some (PVector z) else None.
Fixpoint prims_of (l : list pobs) : option (list prim) :=
  match l with
  | [] => Some []
  | o :: t => match of_pobs o, prims_of t with Some p, Some ps => Some (p :: ps) | _, _ => None end
  end.
Definition pobs_eqb (a b : pobs) : bool :=
  let '(k1, z1, b1) := a in let '(k2, z2, b2) := b in (k1 =? k2) && (z1 =? z2) && zlist_eqb b1 b2.
Definition err_code (e : tl_err) : Z :=
  match e with EEOF => 1 | EInvalidLength => 2 | EUnexpectedID => 3 end.

Fixpoint expand (l : list Z) : list Z :=
  match l with
  | b :: c :: t => repeat b (Z.to_nat c) ++ expand t
  | _ => []
  end.

Definition ok (c : case) : bool :=
  let '(mode, kinds, bytes, status, vals, restlen) := c in
  if mode =? 0 then
    match kinds_of kinds with
    | Some ks =>
      match decode_all ks bytes with
      | Ok (ps, r) => (status =? 0) && list_eqb pobs_eqb (map to_pobs ps) vals && (len r =? restlen)
      | Err e => status =? err_code e
      | Panic => status =? 9
      end
    | None => false
    end
  else if mode =? 1 then
    match prims_of vals with
    | Some ps => zlist_eqb (encode_all ps) bytes
    | None => false
    end
  else
    match kinds with
    | [fill; n] =>
      let v := repeat fill (Z.to_nat n) in
      let e := expand bytes in
      zlist_eqb (encode_bytes v) e &&
      match decode_bytes (e ++ [1; 2]) with
      | Ok (v', r) => zlist_eqb v' v && zlist_eqb r [1; 2]
      | _ => false
      end
    | _ => false
    end.
Definition mismatches (cs : list case) : list nat := mismatch_idx ok cs.
