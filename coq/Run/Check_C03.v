(* Correspondence checker for C03: same replay and projection as C02 (Run/Check_C02.v); the
   C03 harness additionally emits the restarted runs (initial positions = the storage content
   at the crash point) as cases. *)
From Coq Require Import List ZArith Bool.
From Coq Require Export Uint63.
From TD Require Import Run.Check_C02.
Definition case := Check_C02.case.
Definition mismatches (cs : list case) : list nat := Check_C02.mismatches cs.
