(* Correspondence checker for C40.
   case = (mode, msg, ty, arg)
     mode 0: tgerr.New(code, msg) gave Type = ty, Argument = arg (arg = -1, ty = [] encodes a panic).
     mode 1: tgerr.FloodWait on tgerr.New(420, msg) with a recording clock:
             arg = duration in ns handed to clock.Timer, or -1 when no timer was created;
             ty unused.
     mode 2: tgerr.FloodWait on a fake clock driven by a script. ty = timer :: idx :: code :: steps
             where steps are clock advances in ns (>= 0) or -1 for "cancel the context";
             timer = duration handed to clock.Timer (-1: none), idx = index of the step after
             which FloodWait returned (-1: before any step, -2: still blocked at the end),
             code = 1 retry (true, err), 2 context error, 3 not a flood wait (false, err), 0 blocked. *)
From Coq Require Import List ZArith Bool.
From TD Require Import Lib.RunLib Model.TgErr.
Import ListNotations.
Open Scope Z_scope.

Definition case := (Z * list Z * list Z * Z)%type.
Definition ok (c : case) : bool :=
  let '(mode, msg, ty, arg) := c in
  if mode =? 0 then
    let '(t, a) := parse msg in zlist_eqb t ty && (a =? arg)
  else if mode =? 1 then
    match flood_timer msg with
    | Some d => d =? arg
    | None => arg =? -1
    end
  else
    match ty with
    | timer :: idx :: code :: steps =>
      let script := map (fun z => if z <? 0 then FwCancel else FwAdvance z) steps in
      let '(t, r) := flood_wait_run msg script in
      (match t with Some d => d =? timer | None => timer =? -1 end) &&
      (match r with
       | Some (i, FwRetry) => (idx =? i) && (code =? 1)
       | Some (i, FwCtxErr) => (idx =? i) && (code =? 2)
       | Some (i, FwNotFlood) => (idx =? i) && (code =? 3)
       | None => (idx =? -2) && (code =? 0)
       end)
    | _ => false
    end.
Definition mismatches (cs : list case) : list nat := mismatch_idx ok cs.
