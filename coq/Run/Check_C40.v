(* Correspondence checker for C40.
   case = (mode, msg, ty, arg)
     mode 0: tgerr.New(code, msg) gave Type = ty, Argument = arg (arg = -1, ty = [] encodes a panic).
     mode 1: tgerr.FloodWait on tgerr.New(420, msg) with a recording clock:
             arg = duration in ns handed to clock.Timer, or -1 when no timer was created;
             ty unused. *)
From Coq Require Import List ZArith Bool.
From TD Require Import Lib.RunLib Model.TgErr.
Import ListNotations.
Open Scope Z_scope.

Definition case := (Z * list Z * list Z * Z)%type.
Definition ok (c : case) : bool :=
  let '(mode, msg, ty, arg) := c in
  if mode =? 0 then
    let '(t, a) := parse msg in zlist_eqb t ty && (a =? arg)
  else
    match flood_timer msg with
    | Some d => d =? arg
    | None => arg =? -1
    end.
Definition mismatches (cs : list case) : list nat := mismatch_idx ok cs.
