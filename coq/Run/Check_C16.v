(* Correspondence checker for C16.
   CStream: the implementation wrote payloads [ps] with one codec value (frame numbers from
     [seq]; [rnds] = the padding bytes found on the wire, 4 per frame) producing [wire], and a
     second codec value read [wire] through a random-chunk reader until the first error:
     the model must produce the same wire bytes, the same frames and the same final error.
   CAccept: a client stream [wire] (tag + frames, or arbitrary bytes) was accepted by
     transport.Listen(...).Accept() and read with Conn.Recv until the first error, then the
     accepted connection sent [sent] back producing [out]: the model is detect followed by
     read_stream / write with the detected codec.
   CWrite: one codec.Write call (kind, arg, bytes written).
   CListenCodec: a client stream accepted by transport.ListenCodec(codec) (tag read with
     Codec.ReadHeader) and read until the first error.
   CPrefix: the frames sent before a failed conn.Write are the head of the recorded wire. *)
From Coq Require Import List ZArith Bool.
From TD Require Export Lib.HexBytes.
From TD Require Import Lib.GoSem Lib.RunLib Impl.Crc32 Model.Codec Run.Check_C17.
From TD Require Model.Obfs2 Model.FakeTls Proof.Obfs2Listen Run.Check_C18 Run.Check_C19.
Import ListNotations.
Open Scope Z_scope.

Inductive case :=
| CStream (codec seq : Z) (rnds ps : list (list Z)) (wire : list Z) (frames : list (list Z)) (stop : Z * Z)
| CAccept (wire : list Z) (frames : list (list Z)) (stop : Z * Z) (sent rnds : list (list Z)) (out : list Z)
| CWrite (codec seq : Z) (rnd p : list Z) (res : Z * Z * list Z)
| CListenCodec (codec : Z) (wire : list Z) (frames : list (list Z)) (stop : Z * Z)
| CPrefix (codec seq : Z) (rnds ps : list (list Z)) (wire : list Z)
(* the whole stack: codec over obfuscated2 over FakeTLS over a chunking connection, server side
   transport.Listen(transport.ObfuscatedListener(..)) reading through FakeTLS.Read *)
| CStack (codec : Z) (rnds ps : list (list Z)) (orand : list Z) (dc : Z) (o : Check_C18.oracle)
         (ws xs : list (list Z)) (wire_len wire_adler : Z) (reads : list Z)
         (frames : list (list Z)) (stop : Z * Z).
Definition mk_oracle ke ive kd ivd kse ksd : Check_C18.oracle :=
  Check_C18.Build_oracle ke ive kd ivd [] [] kse ksd.

Definition stop_of (s : stop) : Z * Z :=
  match s with StopErr e => kind_of e | StopPanic => (9, 0) | StopFuel => (11, 0) end.
Definition zz_eqb (a b : Z * Z) : bool := (fst a =? fst b) && (snd a =? snd b).

Fixpoint write_seq (c : codec) (seq : Z) (rnds ps : list (list Z)) : res cerr (list Z) :=
  match ps with
  | [] => Ok []
  | p :: t =>
    do f <- write_c crc32 c seq (hd [0; 0; 0; 0] rnds) p;
    do r <- write_seq c (seq + 1) (tl rnds) t; Ok (f ++ r)
  end.

Definition ok (c : case) : bool :=
  match c with
  | CStream ci seq rnds ps wire frames stop =>
    let cd := codec_of ci in
    match write_seq cd seq rnds ps with
    | Ok w =>
      zlist_eqb w wire &&
      (let '(fs, st) := read_stream crc32 cd seq (S (S (length ps))) wire in
       list_eqb zlist_eqb fs frames && zz_eqb (stop_of st) stop)
    | _ => false
    end
  | CAccept wire frames stop sent rnds out =>
    match detect wire with
    | Ok (cd, s) =>
      let '(fs, st) := read_stream crc32 cd 0 (S (length wire)) s in
      list_eqb zlist_eqb fs frames && zz_eqb (stop_of st) stop &&
      (* frames the accepted connection sent back: written with the detected codec *)
      match write_seq cd 0 rnds sent with Ok w => zlist_eqb w out | _ => false end
    | Err e => match frames, sent with [], [] => zz_eqb (kind_of e) stop | _, _ => false end
    | Panic => false
    end
  | CWrite ci seq rnd p (k, arg, out) =>
    match write_c crc32 (codec_of ci) seq rnd p with
    | Ok f => (k =? 0) && zlist_eqb f out
    | Err e => zz_eqb (kind_of e) (k, arg)
    | Panic => k =? 9
    end
  | CListenCodec ci wire frames stop =>
    (* transport.ListenCodec: Codec.ReadHeader, then Recv until the first error *)
    let cd := codec_of ci in
    match read_header cd wire with
    | Ok s =>
      let '(fs, st) := read_stream crc32 cd 0 (S (length wire)) s in
      list_eqb zlist_eqb fs frames && zz_eqb (stop_of st) stop
    | Err e => match frames with [] => zz_eqb (kind_of e) stop | _ => false end
    | Panic => false
    end
  | CPrefix ci seq rnds ps wire =>
    (* a connection on which a later conn.Write failed: the frames sent before are at the head of the wire *)
    match write_seq (codec_of ci) seq rnds ps with
    | Ok w => zlist_eqb w (firstn (length w) wire)
    | _ => false
    end
  | CStack ci rnds ps orand dc o ws xs wl wa reads frames stop =>
    let cd := codec_of ci in
    let ks := Check_C18.ks_of o in
    let sha := Check_C18.sha_of o in
    match write_seq cd 0 rnds ps,
          Obfs2.client_handshake ks sha (S (length orand)) orand (Obfs2Listen.obf_tag cd) dc [] with
    | Ok W, Ok (hdr, cep, _) =>
      let X := Obfs2.send_on ks (Obfs2.enc cep) ws in
      zlist_eqb (concat ws) W && zlist_eqb (concat xs) (hdr ++ X) &&
      match FakeTls.ftls_write_all false xs with
      | Ok T =>
        (zlen T =? wl) && (Check_C19.adler32 T =? wa) &&
        (* the far end: FakeTLS.Read calls with the recorded buffer sizes deliver header + ciphertext *)
        (let '(got, st) := FakeTls.drain (S (length reads)) (Check_C19.ks_fun reads) 0 ([], T) in
         zlist_eqb got (hdr ++ X) && (Check_C19.kind_of st =? 1)) &&
        match Obfs2.server_accept ks sha (hdr ++ X) [] with
        | Ok ((p, _), sep, rest) =>
          let plain := Obfs2.recv_on ks (Obfs2.dec sep) [(rest, false)] in
          match detect (Obfs2.replay_tag p ++ plain) with
          | Ok (cd', s) =>
            let '(fs, st) := read_stream crc32 cd' 0 (S (S (length ps))) s in
            list_eqb zlist_eqb fs frames && zz_eqb (stop_of st) stop
          | _ => false
          end
        | _ => false
        end
      | _ => false
      end
    | _, _ => false
    end
  end.
Definition mismatches (cs : list case) : list nat := mismatch_idx ok cs.
