(* Correspondence checker for C28: see Run/Check_Pool.v. *)
From TD Require Export Model.Pool.
From TD Require Import Run.Check_Pool.
Definition case := Check_Pool.case.
Definition mismatches := Check_Pool.mismatches.
