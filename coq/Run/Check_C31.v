(* Correspondence checker for C31.  One case = one observed FileStorage.StoreSession:
   old file content (if any), new content, the system-call sequence seen by strace
   (abstracted by the harness: names 0 = session file, 1 = temporary file; descriptors
   numbered in order of opening), the table of distinct file contents the harness
   materialised with what Loader.Load made of each, and for every crash point and crash
   model the table indices of the contents the harness derived.

   Checked: (1) the observed sequence is [store_ops] of the model; (2) the crash points
   are exactly the model's (every boundary, every selected partial write); (3) at every
   point the harness's contents are the model's crash set; (4) Load classified every
   content as the model's [classify]; (5) what was really left on disk when the child was
   killed on entry of the k-th call is the model's process-crash state after k calls. *)
From Coq Require Import List ZArith Bool Arith.
From TD Require Import Lib.RunLib.
From TD Require Export Lib.CrashFS Model.SessionFile.
Import ListNotations.

Definition point := (Z * nat * Z * list nat)%type.   (* model (0 process, 1 power), ops completed, partial bytes or -1, table indices *)
(* Compact references (Coq elaborates long [list Z] literals slowly, so every byte string
   appears once): a write's data is a slice of the new content (the harness emits [CWrite]
   only when the traced buffer equals that slice, [COp (OWrite ..)] otherwise); a content
   is absent, the old content, a prefix of the new content, or given literally. *)
Inductive cop := COp (o : op) | CWrite (fd : fdn) (off len : nat).
Inductive cref := RNone | ROld | RNewPrefix (n : nat) | RRaw (b : bytes).
Definition op_of (new : bytes) (c : cop) : op :=
  match c with COp o => o | CWrite fd off len => OWrite fd (firstn len (skipn off new)) end.
Definition content_of (old : option bytes) (new : bytes) (r : cref) : option bytes :=
  match r with
  | RNone => None
  | ROld => match old with Some o => Some o | None => Some [(-1)%Z] end
  | RNewPrefix n => Some (firstn n new)
  | RRaw b => Some b
  end.
(* last component: (k, table index) = content really found on disk after the child was killed
   with SIGKILL on entry of the k-th observed system call *)
(* 7th component: the contents of the leftover files (names 1..k) in the directory the save
   starts from -- what earlier interrupted saves left behind; [] for a clean directory *)
Definition case := (option bytes * bytes * list cop * list (cref * Z) * list point * list (nat * nat) * list bytes)%type.

(* selection of partial-write lengths and of unsynced prefixes explored by the run *)
Fixpoint dedup (l : list nat) : list nat :=
  match l with
  | [] => []
  | x :: t => if existsb (Nat.eqb x) t then dedup t else x :: dedup t
  end.
Definition sel_nums (n : nat) : list nat := dedup [0; 1; Nat.div n 2; n - 1]%nat.
Definition sel_lens (d : bytes) : list nat := filter (fun p => Nat.ltb p (length d)) (sel_nums (length d)).
Definition sel_prefixes (v : bytes) : list bytes :=
  map (fun p => firstn p v) (dedup (filter (fun p => Nat.leb p (length v)) (sel_nums (length v) ++ [length v]))).

Definition op_eqb (a b : op) : bool :=
  match a, b with
  | OOpen f n c e t, OOpen f' n' c' e' t' => Nat.eqb f f' && Nat.eqb n n' && Bool.eqb c c' && Bool.eqb e e' && Bool.eqb t t'
  | OOpenDir f, OOpenDir f' => Nat.eqb f f'
  | OWrite f d, OWrite f' d' => Nat.eqb f f' && bytes_eqb d d'
  | OWriteAt f o d, OWriteAt f' o' d' => Nat.eqb f f' && Nat.eqb o o' && bytes_eqb d d'
  | OFsync f, OFsync f' => Nat.eqb f f'
  | OClose f, OClose f' => Nat.eqb f f'
  | ORename s t, ORename s' t' => Nat.eqb s s' && Nat.eqb t t'
  | OUnlink n, OUnlink n' => Nat.eqb n n'
  | _, _ => false
  end.
Definition chunks_of (ops : list op) : list bytes :=
  flat_map (fun o => match o with OWrite _ d | OWriteAt _ _ d => [d] | _ => [] end) ops.
Definition has_dirsync (ops : list op) : bool :=
  existsb (fun o => match o with OOpenDir _ => true | _ => false end) ops.

Definition obytes_eqb (a b : option bytes) : bool := option_eqb bytes_eqb a b.
Definition mem (x : option bytes) (l : list (option bytes)) : bool := existsb (obytes_eqb x) l.
Definition set_eqb (a b : list (option bytes)) : bool := forallb (fun x => mem x b) a && forallb (fun x => mem x a) b.

(* expected crash points, in order *)
Fixpoint points_from (k : nat) (ops : list op) : list (nat * Z) :=
  match ops with
  | [] => [(k, (-1)%Z)]
  | o :: t => (k, (-1)%Z) ::
              match o with
              | OWrite _ d | OWriteAt _ _ d => map (fun p => (k, Z.of_nat p)) (sel_lens d)
              | _ => []
              end
              ++ points_from (S k) t
  end.
Definition model_of (m : Z) : crash_model := if (m =? 0)%Z then Process else Power.

Definition point_ok_from (st0 : fs) (table : list (option bytes * Z)) (pre : list op) (pt : point) : bool :=
  let '(m, k, p, idxs) := pt in
  match run st0 pre with
  | None => false
  | Some st =>
      let model_set := crash_gen sel_prefixes (model_of m) tgt st in
      let seen := map (fun i => match nth_error table i with Some (c, _) => c | None => Some [(-1)%Z] end) idxs in
      set_eqb model_set seen
  end.
Fixpoint zip_ok (f : list op -> point -> bool) (prefs : list (list op)) (pts : list point) : bool :=
  match prefs, pts with
  | [], [] => true
  | p :: ps, t :: ts => f p t && zip_ok f ps ts
  | _, _ => false
  end.
Definition of_model (m : Z) (pts : list point) : list point :=
  filter (fun pt : point => let '(m', _, _, _) := pt in (m' =? m)%Z) pts.
Definition kp (pt : point) : nat * Z := let '(_, k, p, _) := pt in (k, p).

Definition pk_eqb (a b : nat * Z) : bool := Nat.eqb (fst a) (fst b) && Z.eqb (snd a) (snd b).

Definition ok (c : case) : bool :=
  let '(old, new, cops, ctable, pts, reals, lft) := c in
  let point_ok := point_ok_from (init_left old lft) in
  let ops := map (op_of new) cops in
  let table := map (fun e : cref * Z => (content_of old new (fst e), snd e)) ctable in
  let chunks := chunks_of ops in
  let prefs := crash_prefixes_gen sel_lens ops in
  list_eqb op_eqb ops (store_ops_named (S (length lft)) chunks (has_dirsync ops))
  && bytes_eqb (concat chunks) new
  && Nat.eqb (length (of_model 0 pts) + length (of_model 1 pts)) (length pts)
  && list_eqb pk_eqb (map kp (of_model 0 pts)) (points_from 0 ops)
  && list_eqb pk_eqb (map kp (of_model 1 pts)) (points_from 0 ops)
  && zip_ok (point_ok table) prefs (of_model 0 pts)
  && zip_ok (point_ok table) prefs (of_model 1 pts)
  && forallb (fun r : nat * nat => point_ok table (firstn (fst r) ops) (0%Z, fst r, (-1)%Z, [snd r])) reals
  && forallb (fun e : option bytes * Z => Z.eqb (classify old new (fst e)) (snd e)) table.

(* what the check explores, as a set of states (Proof/SessionFile.v: a subset of the
   states the theorem C31_atomic quantifies over) *)
Definition checked_states := crash_states_gen sel_lens sel_prefixes.

Definition mismatches (cs : list case) : list nat := mismatch_idx ok cs.
