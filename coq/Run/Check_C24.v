(* Correspondence checker for C24: trace replay + the C24 ghosts of the final state
   (returned at most once, no late write, no foreign write). *)
From Coq Require Import List ZArith Bool.
From TD Require Import Lib.RunLib Run.RpcReplay.
From TD Require Export Model.Rpc.
Import ListNotations.
Open Scope Z_scope.

Definition case := RpcReplay.case.
Definition extra (s : state) (c : Z) : bool :=
  let k := calls s c in Z.leb (nret k) 1 && negb (late k) && negb (isobad k).
Definition ok (cs : case) : bool := replay_ok extra cs.
Definition mismatches (cs : list case) : list nat := mismatch_idx ok cs.
