(* Correspondence checker for C23: Conn.handleMessage on a bare connection with a real
   rpc.Engine (harness/cmd/c23) against Model/HandleMsg.v.

   A case carries the payload, the DEFLATE oracle as a finite table (packed bytes -> result of
   proto.GZIP.Decode, found by the harness by scanning the payload and the expansions for
   gzip_packed ids), the pending request ids and registered pings, and the observation:
   status (0 nil, 1 error, 2 panic), the ordered notification events (payload / code only for
   requests that are pending: the engine reveals nothing else), the closed pings and whether
   handleFutureSalts stored salts (its log record; the final content of the store is not used:
   a later new_session_created runs updateSalt, which drops expired salts).  The model's effects are projected to the same observables. *)
From Coq Require Import List ZArith Bool.
From TD Require Import Lib.RunLib Lib.GoSem Lib.GoSlice Model.TlPrim.
From TD Require Export Model.HandleMsg.
Import ListNotations.
Open Scope Z_scope.

Inductive oev : Type :=
| ONotifyResult (id : Z) (p : option (list Z))
| ONotifyError (id : Z) (code : option Z)
| OAcks (ids : list Z)
| OOnMessage (p : list Z)
| OSession.

Record case : Type := mk_case {
  k_msg_id : Z; k_data : list Z; k_gz : list (list Z * option (list Z));
  k_pending : list Z; k_pings : list Z; k_sess_err : bool;
  k_status : Z; k_events : list oev; k_closed : list Z; k_salts : bool }.

Definition zmem (x : Z) (l : list Z) : bool := existsb (Z.eqb x) l.
Fixpoint gz_lookup (t : list (list Z * option (list Z))) (z : list Z) : option (list Z) :=
  match t with
  | [] => None
  | (k, v) :: t' => if zlist_eqb k z then v else gz_lookup t' z
  end.

(* the harness's Output.Decode / Handler.OnMessage rules *)
Definition out_ok (p : list Z) : bool := negb (len p mod 3 =? 0).
Definition msg_ok (p : list Z) : bool := negb (len p mod 5 =? 0).

Definition oev_eqb (a b : oev) : bool :=
  match a, b with
  | ONotifyResult i p, ONotifyResult j q => (i =? j) && option_eqb zlist_eqb p q
  | ONotifyError i c, ONotifyError j d => (i =? j) && option_eqb Z.eqb c d
  | OAcks x, OAcks y => zlist_eqb x y
  | OOnMessage p, OOnMessage q => zlist_eqb p q
  | OSession, OSession => true
  | _, _ => false
  end.

Definition project (pending : list Z) (e : effect) : list oev :=
  match e with
  | ENotifyResult id p => [ONotifyResult id (if zmem id pending then Some p else None)]
  | ENotifyError id c => [ONotifyError id (if zmem id pending then Some c else None)]
  | ENotifyAcks ids => [OAcks ids]
  | EOnMessage p => [OOnMessage p]
  | ESessionCreated _ _ _ => [OSession]
  | EPong _ | EStoreSalts _ => []
  end.
Definition pongs (es : list effect) : list Z :=
  flat_map (fun e => match e with EPong p => [p] | _ => [] end) es.
Definition stored (es : list effect) : bool :=
  existsb (fun e => match e with EStoreSalts _ => true | _ => false end) es.
Definition status_code (s : status) : Z :=
  match s with SOk => 0 | SErr _ => 1 | SPanic => 2 end.

Definition run (c : case) : hres :=
  fst (handle_message (gz_lookup (k_gz c))
         (fun id p => if zmem id (k_pending c) then out_ok p else true)
         msg_ok (fun _ => negb (k_sess_err c))
         (k_msg_id c) (k_data c)).

Definition ok (c : case) : bool :=
  let '(es, st) := run c in
  (status_code st =? k_status c) &&
  list_eqb oev_eqb (flat_map (project (k_pending c)) es) (k_events c) &&
  zlist_eqb (filter (fun p => zmem p (pongs es)) (k_pings c)) (k_closed c) &&
  Bool.eqb (stored es) (k_salts c).
Definition mismatches (cs : list case) : list nat := mismatch_idx ok cs.
