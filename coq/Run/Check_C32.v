(* Correspondence checker for C32.
   CPure: exact differential of computeParts / checkPartSize / computePartSize.
   CUp: one real Uploader.Upload run against a recording mock client: the plan
   (part size, big flag, error class), and the request log.  Small loop: the log must be
   EQUAL to the model's log for the same answer sequence.  Big loop: the log must be a log of
   the event system [b_step]: it is replayed with a lazy and with an eager reader schedule
   (every request needs its part in a worker's hand; totals must be those of one of the two
   schedules; at the end the state is terminal with sentParts = reported parts). *)
From Coq Require Import List ZArith Bool.
From TD Require Import Lib.RunLib Gen.UploadPart Model.Upload.
Import ListNotations.
Open Scope Z_scope.

Inductive case :=
| CPure (partSize total parts code autoSize : Z)
| CUp (auto : bool) (cfg declared size threads : Z)
      (status obsPs : Z) (obsBig : bool)          (* 0 ok, 1-3 checkPartSize, 4 too many parts *)
      (log : list (Z * Z * Z * Z * Z))            (* part, len, file_total_parts (0 for small), answer,
                                                     late: the answer was returned after a request with a known total had arrived *)
      (kind parts : Z).                           (* 0 error, 1 InputFile, 2 InputFileBig *)

Definition resp_of (z : Z) : resp := if z =? 0 then RTrue else if z =? 1 then RFalse else if z =? 2 then RFlood else RErr.
Definition resp_code (r : resp) : Z := match r with RTrue => 0 | RFalse => 1 | RFlood => 2 | RErr => 3 end.

Definition idz (x : Z) : Z := x.

(* --- big loop replay --- *)
Definition zstate := bstate Z.
Definition can_take (threads : Z) (s : zstate) : bool :=
  match b_queue s with [] => false | _ => zlen (b_hold s) <? threads end.
Definition can_queue (threads : Z) (s : zstate) : bool :=
  match b_pending s with Some _ => zlen (b_queue s) <? threads | None => false end.
Definition can_read (s : zstate) : bool :=
  match b_pending s with Some _ => false | None => negb (b_closed s) end.

Fixpoint find_held (id : Z) (i : nat) (hold : list (Z * Z)) : option nat :=
  match hold with
  | [] => None
  | (j, _) :: t => if j =? id then Some i else find_held id (S i) t
  end.

Fixpoint saturate (fuel : nat) (p threads : Z) (s : zstate) : zstate :=
  match fuel with
  | O => s
  | S f => if can_take threads s then saturate f p threads (b_step idz p threads s ETake)
           else if can_queue threads s then saturate f p threads (b_step idz p threads s EQueue)
           else if can_read s then saturate f p threads (b_step idz p threads s ERead)
           else s
  end.

(* the fewest reader/worker steps that bring part [id] into a worker's hand *)
Fixpoint advance (fuel : nat) (p threads : Z) (id : Z) (s : zstate) : option (zstate * nat) :=
  match find_held id 0 (b_hold s) with
  | Some i => Some (s, i)
  | None =>
      match fuel with
      | O => None
      | S f => if can_take threads s then advance f p threads id (b_step idz p threads s ETake)
               else if can_queue threads s then advance f p threads id (b_step idz p threads s EQueue)
               else if can_read s then advance f p threads id (b_step idz p threads s ERead)
               else None
      end
  end.

Definition fuel_of (threads : Z) : nat := Z.to_nat (8 * threads + 16).

(* [lastSeen]: a request of the last part has been logged; [after]: parts with a request logged
   after that.  A request is built (reads upload.totalParts) some time before the mock logs it,
   so a value older than both schedules' current one is tolerated once per part: only for a
   part other than the last one and only if none of its earlier requests was logged after the
   last part's (a retry is built after the previous answer, hence after the count was known). *)
Fixpoint replay (p threads tp lastId : Z) (log : list (Z * Z * Z * Z * Z)) (lastSeen : bool) (after : list Z)
                (prevLate : list Z)   (* parts whose latest answer was returned after the count was known *)
                (sl se : zstate) : bool * zstate * zstate :=
  match log with
  | [] => (true, sl, se)
  | (id, len, tot, r, late) :: rest =>
      if b_failed sl then (true, sl, se) (* requests already in flight when the group was cancelled *)
      else
      let se0 := saturate (fuel_of threads) p threads se in
      match advance (fuel_of threads) p threads id sl, advance (fuel_of threads) p threads id se0 with
      | Some (sl1, il), Some (se1, ie) =>
          let okLen := match nth_error (b_hold sl1) il with Some (_, l) => l =? len | None => false end in
          let stale := negb (id =? lastId) && negb (existsb (Z.eqb id) after) && (tot =? tp) in
          (* a retry is built after the previous answer returned: if the count was known by then (both
             schedules agree it is never forgotten) the retry carries it *)
          let mustKnow := existsb (Z.eqb id) prevLate in
          let okTot := ((tot =? b_total sl1) || (tot =? b_total se1) || stale) && (negb mustKnow || negb (tot =? -1)) in
          if okLen && okTot then
            replay p threads tp lastId rest (lastSeen || (id =? lastId))
                   (if lastSeen || (id =? lastId) then id :: after else after)
                   (if late =? 1 then id :: prevLate else filter (fun x => negb (x =? id)) prevLate)
                   (b_step idz p threads sl1 (ESend il (resp_of r)))
                   (b_step idz p threads se1 (ESend ie (resp_of r)))
          else (false, sl1, se1)
      | _, _ => (false, sl, se)
      end
  end.

Definition check_big (ps threads tp size : Z) (log : list (Z * Z * Z * Z * Z)) (kind parts : Z) : bool :=
  let cs := chunk_lens ps size in
  let s0 := b_init cs tp in
  let '(ok, sl, se) := replay ps threads tp (zlen cs - 1) log false [] [] s0 s0 in
  ok &&
  (if b_failed sl then kind =? 0
   else let sf := saturate (fuel_of threads) ps threads sl in
        b_terminal sf && (kind =? 2) && (parts =? b_sent sf) && (parts =? zlen cs)).

Definition check_small (ps size : Z) (log : list (Z * Z * Z * Z * Z)) (kind parts : Z) : bool :=
  let cs := chunk_lens ps size in
  let env := map (fun e => resp_of (snd (fst e))) log in
  let '(l, n, o) := small_loop cs 0 env in
  list_eqb (fun a b => z3_eqb a b)
           (map (fun q => (sq_part q, sq_data q, resp_code (sq_resp q))) l)
           (map (fun e => let '(id, len, _, r, _) := e in (id, len, r)) log) &&
  match o with
  | Done => (kind =? 1) && (parts =? n)
  | Failed => kind =? 0
  | EnvExhausted => false
  end.

Definition ok (c : case) : bool :=
  match c with
  | CPure partSize total parts code autoSize =>
      (if partSize =? 0 then true else compute_parts_go partSize total =? parts) &&
      (check_part_size_go partSize =? code) &&
      option_eqb Z.eqb (compute_part_size total) (Some autoSize)
  | CUp auto cfg declared size threads status obsPs obsBig log kind parts =>
      match upload_plan auto cfg declared with
      | PlanErrPartSize code => (status =? code) && (kind =? 0) && match log with [] => true | _ => false end
      | PlanErrTooManyParts => (status =? 4) && (kind =? 0) && match log with [] => true | _ => false end
      | PlanErrFuel => false
      | Plan ps big tp =>
          (status =? 0) && (obsPs =? ps) && Bool.eqb obsBig big &&
          (if big then check_big ps threads tp size log kind parts else check_small ps size log kind parts)
      end
  end.
Definition mismatches (cs : list case) : list nat := mismatch_idx ok cs.
