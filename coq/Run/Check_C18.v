(* Correspondence checker for C18: one obfuscated2 session of the implementation
   (NewObfuscated2(rand, conn).Handshake / Accept / Write / Read in both directions) against
   Model/Obfs2.v.  Oracle inputs computed by the harness with Go's crypto libraries: the four
   key/iv values, the two SHA-256 inputs (when a secret is used) and the first bytes of the
   two AES-CTR keystreams. *)
From Coq Require Import List ZArith Bool.
From TD Require Export Lib.HexBytes.
From TD Require Import Lib.GoSem Lib.RunLib Model.Obfs2.
From TD Require Model.Codec Proof.Obfs2Listen Run.Check_C17.
Import ListNotations.
Open Scope Z_scope.

Record oracle := { o_ke : list Z; o_ive : list Z; o_kd : list Z; o_ivd : list Z;
                   o_sha_e : list Z; o_sha_d : list Z; o_kse : list Z; o_ksd : list Z }.

Inductive case :=
| CSession (rnd protocol : list Z) (dc : Z) (secret : list Z) (o : oracle)
           (res consumed : Z) (header : list Z) (meta_p : list Z) (meta_dc : Z)
           (c2s_writes : list (list Z)) (c2s_wire : list Z) (srv_chunks : list (list Z * bool)) (srv_data : list Z)
           (s2c_writes : list (list Z)) (s2c_wire : list Z) (cli_chunks : list (list Z * bool)) (cli_data : list Z)
| CAcceptErr (stream secret : list Z) (res : Z)
(* TaggedCodec.ObfuscatedTag() of the implementation against the tag the listener theorems use *)
| CTag (codec : Z) (tag : list Z).

Definition ks_of (o : oracle) (key iv : list Z) (pos : Z) : Z :=
  if zlist_eqb key (o_ke o) && zlist_eqb iv (o_ive o) then nth (Z.to_nat pos) (o_kse o) 0
  else if zlist_eqb key (o_kd o) && zlist_eqb iv (o_ivd o) then nth (Z.to_nat pos) (o_ksd o) 0
  else 0.
Definition sha_of (o : oracle) (m : list Z) : list Z :=
  if zlist_eqb m (o_sha_e o) then o_ke o else if zlist_eqb m (o_sha_d o) then o_kd o else [].

Definition kind_of (e : oerr) : Z :=
  match e with OEof => 1 | OUnexpEof => 2 | OSecretSize => 3 | OOutOfFuel => 7 end.

Definition ok (c : case) : bool :=
  match c with
  | CSession rnd protocol dc secret o res consumed header mp mdc cw cwire schunks sdata sw swire cchunks cdata =>
    let ks := ks_of o in
    match client_handshake ks (sha_of o) (S (length rnd)) rnd protocol dc secret with
    | Ok (hdr, cep, rest) =>
      (res =? 0) && zlist_eqb hdr header && (consumed =? zlen rnd - zlen rest) &&
      zlist_eqb (s_key (enc cep)) (o_ke o) && zlist_eqb (s_iv (enc cep)) (o_ive o) &&
      zlist_eqb (s_key (dec cep)) (o_kd o) && zlist_eqb (s_iv (dec cep)) (o_ivd o) &&
      match server_accept ks (sha_of o) (header ++ cwire) secret with
      | Ok ((p, d), sep, rest') =>
        zlist_eqb p mp && (d =? mdc) && zlist_eqb rest' cwire &&
        (* every stream state used below is the one the model's handshake / accept returned *)
        zlist_eqb (send_on ks (enc cep) cw) cwire &&
        zlist_eqb (recv_on ks (dec sep) schunks) sdata &&
        zlist_eqb (send_on ks (enc sep) sw) swire &&
        zlist_eqb (recv_on ks (dec cep) cchunks) cdata
      | _ => false
      end
    | Err e => (kind_of e =? res)
    | Panic => res =? 9
    end
  | CAcceptErr stream secret res =>
    match server_accept (fun _ _ _ => 0) (fun _ => []) stream secret with
    | Ok _ => res =? 0
    | Err e => kind_of e =? res
    | Panic => res =? 9
    end
  | CTag ci tag => zlist_eqb (Obfs2Listen.obf_tag (Check_C17.codec_of ci)) tag
  end.
Definition mismatches (cs : list case) : list nat := mismatch_idx ok cs.
