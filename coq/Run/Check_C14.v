(* Correspondence checker for C14: the observations of crypto.RSAPad / DecodeRSAPad /
   RSAEncryptHashed / RSADecryptHashed recorded by harness/cmd/c14 must equal the model's results.
   SHA-256, SHA-1 and AES-256 are the executable Gallina instances of coq/Impl.  big.Int.Exp is
   either evaluated by square-and-multiply in the VM (public exponent, flag [real]) or taken from a
   table of (base, result) pairs computed by the harness with math/big (private exponent: 2048
   modular squarings are out of the VM budget) -- math/big is modelled, not verified. *)
From Coq Require Import List ZArith Bool.
From TD Require Import Lib.GoSem Lib.BeBytes Lib.RunLib Impl.Sha256 Impl.Sha1 Impl.Aes256 Model.RsaPad.
Import ListNotations.
Open Scope Z_scope.

Definition obs_t := (Z * list Z)%type.   (* code, bytes: 0 ok | 1 too big | 2 random source | 3 invalid | 4 hash mismatch | 5 panic *)
Inductive case : Type :=
| CPadEnc (N e : Z) (real : bool) (tab : list (Z * Z)) (data r : list Z) (o : obs_t)
| CPadDec (N : Z) (tab : list (Z * Z)) (c : list Z) (o : obs_t)
| CHashEnc (N e : Z) (real : bool) (tab : list (Z * Z)) (data r : list Z) (o : obs_t)
| CHashDec (N : Z) (tab : list (Z * Z)) (c : list Z) (o : obs_t).

Fixpoint lookup (tab : list (Z * Z)) (b : Z) : option Z :=
  match tab with
  | [] => None
  | (k, v) :: t => if k =? b then Some v else lookup t b
  end.
Definition tab_exp (real : bool) (tab : list (Z * Z)) (b x m : Z) : Z :=
  if real then modexp_sm b x m else match lookup tab b with Some v => v | None => -1 end.

Definition proj (r : rres) : obs_t :=
  match r with
  | Ok b => (0, b)
  | Err ETooBig => (1, [])
  | Err ERand => (2, [])
  | Err EInvalid => (3, [])
  | Err EHashMismatch => (4, [])
  | Err EOutOfFuel => (7, [])
  | Panic => (5, [])
  end.
Definition obs_eqb (a b : obs_t) : bool := (fst a =? fst b) && zlist_eqb (snd a) (snd b).

Definition ok (c : case) : bool :=
  match c with
  | CPadEnc N e real tab data r o =>
      obs_eqb (proj (rsa_pad sha256 aes_enc (tab_exp real tab) N e data r)) o
  | CPadDec N tab c o =>
      match lookup tab (be_dec c) with
      | None => false
      | Some _ => obs_eqb (proj (decode_rsa_pad sha256 aes_dec (tab_exp false tab) N 0 c)) o
      end
  | CHashEnc N e real tab data r o =>
      obs_eqb (proj (rsa_encrypt_hashed sha1 (tab_exp real tab) N e data r)) o
  | CHashDec N tab c o =>
      match lookup tab (be_dec c) with
      | None => false
      | Some _ => obs_eqb (proj (rsa_decrypt_hashed sha1 (tab_exp false tab) N 0 c)) o
      end
  end.
Definition mismatches (cs : list case) : list nat := mismatch_idx ok cs.
