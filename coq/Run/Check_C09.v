(* Correspondence checker for C09: one real exchange (ClientExchange.Run against
   ServerExchange.Run over the in-memory transport) with recorded random streams; the model's
   honest run on the same random values must give the same key / id / salt on both sides. *)
From Coq Require Import List ZArith Bool.
From TD Require Import Lib.GoSem Lib.RunLib Gen.DhCheck Model.TlSchema Gen.SchemaMt Model.Exchange Model.ExchangeWire Run.ExchangeExec.
Import ListNotations.
Open Scope Z_scope.

(* ((dc_c, dc_s, expires (0 = permanent)), (nonce, new_nonce, server_nonce), (pq, fp, fq),
    (p, prime p, prime (p-1)/2), g^a for each candidate a the server drew,
    (g^b, g_a^b, g_b^a) [math/big], (nonce_hash1, key id) [gotd crypto on the client's key],
    observed client (kind, key, id, salt), observed server (kind, key, id, salt)) ; kind 0 = ok *)
Definition obs := (Z * list Z * list Z * Z)%type.
Definition run_case := ((Z * Z * Z) * (list Z * list Z * list Z) * (Z * Z * Z) * (Z * bool * bool) *
                    list Z * (Z * Z * Z) * (list Z * list Z) * obs * obs)%type.

Definition be := ExchangeExec.be.   (* visible to the generated cases files *)
Definition b_name : Z := 1000.
Definition rsa_name : Z := 7.

Fixpoint ga_rows (p : Z) (i : Z) (gas : list Z) : pow_tab :=
  match gas with [] => [] | ga :: t => (server_g, i, p, ga) :: ga_rows p (i + 1) t end.
Fixpoint names (i : Z) (gas : list Z) : list Z :=
  match gas with [] => [] | _ :: t => i :: names (i + 1) t end.

Definition run_ok (c : run_case) : bool :=
  let '(cfg, nonces, pqs, ps, gas, pows, hashes, oc, os) := c in
  let '(dc_c, dc_s, expires) := cfg in
  let '(n, nn, sn) := nonces in
  let '(pq, fp_, fq) := pqs in
  let '(p, pp, ppq) := ps in
  let '(gb, kc, ks) := pows in
  let '(h1, kid) := hashes in
  let ga_last := last gas 0 in
  let a_last := Z.of_nat (length gas) in
  let tab := ga_rows p 1 gas ++ [(server_g, b_name, p, gb); (ga_last, b_name, p, kc); (gb, a_last, p, ks)] in
  let out := honest_run Z Z x_cipher1 x_cipher2 x_cipher3 (fun k => k) (fun k => k)
               x_rsa_enc x_rsa_dec x_ans_enc x_ans_dec x_cin_enc x_cin_dec
               (x_powmod tab) (x_prime [(p, pp); ((p - 1) / 2, ppq)]) (fun _ => Some (fp_, fq))
               (fun _ _ => h1) (fun _ => kid)
               {| cc_keys := [3; rsa_name]; cc_dc := dc_c; cc_expires := if expires =? 0 then None else Some expires |}
               {| cr_nonce := n; cr_new_nonce := nn; cr_b := b_name |}
               {| sc_key := rsa_name; sc_dc := dc_s |}
               {| sr_server_nonce := sn; sr_pq := pq; sr_p := p; sr_as := names 1 gas; sr_time := 0 |} in
  let '(ck, ckey, cid, csalt) := oc in
  let '(sk, skey, sid, ssalt) := os in
  match out with
  | Done cres sres => (ck =? 0) && (sk =? 0) && kres_eqb cres ckey cid csalt && kres_eqb sres skey sid ssalt
  | ClientErr e => (ck =? cerr_code e)
  | ServerErr _ => negb (sk =? 0)
  | ClientPanic => ck =? 99
  end.
(* Wire cases: a plaintext exchange message of a real run, as the fields gotd's own mt decoder
   extracted from it (byte-string fields, then integer fields) and its real TL body.  The model
   (generated mt schema + generic TL interpreter) must ENCODE the fields to exactly those bytes and
   DECODE the bytes back to the same value.
   kind 1 req_pq_multi [nonce] | 2 resPQ [nonce; server_nonce; pq] fps | 3 req_DH_params [nonce; server_nonce; p; q; enc] [fp]
      | 4 server_DH_params_ok [nonce; server_nonce; enc] | 5 set_client_DH_params [nonce; server_nonce; enc] | 6 dh_gen_ok [nonce; server_nonce; hash] *)
Inductive case :=
| CRun (c : run_case)
| CWire (kind : Z) (bs : list (list Z)) (zs : list Z) (body : list Z).

Definition wire_value (kind : Z) (bs : list (list Z)) (zs : list Z) : option (ty * value) :=
  match kind, bs with
  | 1, [n] => Some (TBoxed ci_req_pq_multi, v_req_pq n)
  | 2, [n; sn; pq] => Some (TBoxed ci_respq, v_respq {| rp_nonce := n; rp_server_nonce := sn; rp_pq := be_val pq; rp_fps := zs |})
  | 3, [n; sn; p; q; enc] =>
      Some (TBoxed ci_req_dh, v_req_dh {| rd_nonce := n; rd_server_nonce := sn; rd_p := be_val p; rd_q := be_val q; rd_fp := hd 0 zs; rd_enc := enc |})
  | 4, [n; sn; enc] => Some (TClass (cls_of ci_sdh_ok), v_sdh_ok n sn enc)
  | 5, [n; sn; enc] => Some (TBoxed ci_set_dh, v_set_dh {| sd_nonce := n; sd_server_nonce := sn; sd_enc := enc |})
  | 6, [n; sn; h] => Some (TClass (cls_of ci_gen_ok), v_gen_ok n sn h)
  | _, _ => None
  end.
Definition wire_ok (kind : Z) (bs : list (list Z)) (zs : list Z) (body : list Z) : bool :=
  match wire_value kind bs zs with
  | None => false
  | Some (t, v) =>
      match body_of t v with
      | Ok b => zlist_eqb b body &&
                match value_of_body t body with Some v' => value_eqb v v' | None => false end
      | _ => false
      end
  end.
Definition ok (c : case) : bool :=
  match c with CRun r => run_ok r | CWire k bs zs body => wire_ok k bs zs body end.
Definition mismatches (cs : list case) : list nat := mismatch_idx ok cs.
