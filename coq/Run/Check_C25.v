(* Correspondence checker for C25: trace replay + the C25 ghosts of the final state
   (transmission bound, no retransmission after a delivered ack/result, none after the
   call left the retry loop). *)
From Coq Require Import List ZArith Bool.
From TD Require Import Lib.RunLib Run.RpcReplay.
From TD Require Export Model.Rpc.
Import ListNotations.
Open Scope Z_scope.

Definition case := RpcReplay.case.
Definition extra (s : state) (c : Z) : bool :=
  let k := calls s c in Z.leb (nsends k) (1 + maxr s) && negb (viol25 k) && negb (violleft k).
Definition ok (cs : case) : bool := replay_ok extra cs.
Definition mismatches (cs : list case) : list nat := mismatch_idx ok cs.
