(* Correspondence checker for C06: crypto.MessageKey / Keys / MessageKeyV1 / KeysV1 / OldKeys /
   Key.ID / EncryptBindMessage outputs must equal BOTH the Go-shaped model (Model/MsgCrypto.v)
   and the specification transcription (Model/MTProtoSpec.v), with the executable hashes. *)
From Coq Require Import List ZArith Bool.
From TD Require Import Lib.GoSem Lib.RunLib Impl.Sha256 Impl.Sha1 Impl.Aes256 Model.MsgCrypto Model.MTProtoSpec Run.MsgCryptoInst.
Import ListNotations.
Open Scope Z_scope.

(* (kind, byte-string arguments, integer arguments, observed code, observed byte strings) *)
Definition case := (Z * list packed * list Z * Z * list packed)%type.

Definition lists_eqb (a b : list (list Z)) : bool := list_eqb zlist_eqb a b.
Definition xn (sd : Z) : nat := if sd =? 0 then 0%nat else 8%nat.
Definition pair_list (p : list Z * list Z) : list (list Z) := [fst p; snd p].

Definition ok (c : case) : bool :=
  let '(kind, bs, zs, code, outs) := c in
  let bs := map unpack bs in let outs := map unpack outs in
  match kind, bs, zs with
  | 0, [key; pt], [sd] =>                                   (* MessageKey *)
      (code =? 0) && lists_eqb [x_message_key key pt (side_of sd)] outs
                  && lists_eqb [Spec.msg_key sha256 key pt (xn sd)] outs
  | 1, [key; mk], [sd] =>                                   (* Keys *)
      (code =? 0) && lists_eqb (pair_list (x_keys key mk (side_of sd))) outs
                  && lists_eqb [Spec.aes_key sha256 key mk (xn sd); Spec.aes_iv sha256 key mk (xn sd)] outs
  | 2, [pt], [] =>                                          (* MessageKeyV1 *)
      (code =? 0) && lists_eqb [x_message_key_v1 pt] outs && lists_eqb [Spec.msg_key_v1 sha1 pt] outs
  | 3, [key; mk], [] =>                                     (* KeysV1 *)
      (code =? 0) && lists_eqb (pair_list (x_keys_v1 key mk)) outs
                  && lists_eqb [Spec.aes_key_v1 sha1 key mk 0; Spec.aes_iv_v1 sha1 key mk 0] outs
  | 4, [key; mk], [sd] =>                                   (* OldKeys *)
      (code =? 0) && lists_eqb (pair_list (x_old_keys key mk (side_of sd))) outs
                  && lists_eqb [Spec.aes_key_v1 sha1 key mk (xn sd); Spec.aes_iv_v1 sha1 key mk (xn sd)] outs
  | 5, [key], [] =>                                         (* Key.ID *)
      (code =? 0) && lists_eqb [Spec.auth_key_id sha1 key] outs
  | 6, [rnd; key; kid], [msg_id; nonce; tk; pk; ts; ex] =>  (* EncryptBindMessage *)
      let k := {| ak_value := key; ak_id := kid |} in
      let b := {| b_nonce := nonce; b_temp_key_id := tk; b_perm_key_id := pk; b_temp_session := ts; b_expires := ex |} in
      let r := x_encrypt_bind rnd k msg_id b in
      obs_bytes_eqb (obs_bytes r) (code, match outs with [ct] => ct | _ => [] end) &&
      match outs with
      | [ct] =>
        (* the specification-side receiver recovers the bound fields from Go's bytes;
           expires_at is an int32 on the wire *)
        match Spec.open_bind sha1 aes_dec key kid ct with
        | Ok bd => (Spec.bd_msg_id bd =? msg_id) && (Spec.bd_seq_no bd =? 0) && (Spec.bd_nonce bd =? nonce) &&
                   (Spec.bd_temp_key_id bd =? tk) && (Spec.bd_perm_key_id bd =? pk) &&
                   (Spec.bd_temp_session bd =? ts) && (Spec.bd_expires bd =? Lib.Bytes.to_signed 32 (ex mod 2 ^ 32))
        | _ => false
        end
      | _ => negb (code =? 0)
      end
  | _, _, _ => false
  end.
Definition mismatches (cs : list case) : list nat := mismatch_idx ok cs.
