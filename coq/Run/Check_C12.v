(* Correspondence checker for C12: for a configuration and a stalled operation the model
   predicts whether the operation's effective deadline lies within start + bound; the harness
   observed whether the real call returned within that bound.  Times are milliseconds relative
   to the start of the run; caller deadlines used by the harness are either far beyond the
   bound or attached to a step that starts immediately, so start = 0 is exact enough. *)
From Coq Require Import List ZArith Bool.
From TD Require Import Lib.RunLib Gen.ExchangeSteps Model.ExchangeTimeout.
Import ListNotations.
Open Scope Z_scope.

(* (level 0 exchange / 1 mtproto, pfs, dir, k, caller_ms (0 = none), dial_ms, T, bound, observed within) *)
Definition case := (Z * bool * Z * Z * Z * Z * Z * Z * bool)%type.

Definition ok (c : case) : bool :=
  let '(level, pfs, dir, k, caller, dial, T, bound, obs) := c in
  let cfg := {| cfg_pfs := if level =? 0 then true else pfs;   (* exchange level: Run gets the caller's ctx as is *)
                cfg_regen := false;
                cfg_caller := if caller =? 0 then Inf else Fin caller;
                cfg_connect_start := 0;
                cfg_dial_timeout := dial |} in
  match nth_dir client_steps dir (Z.to_nat k) with
  | None => false
  | Some op => Bool.eqb (withinb (op_deadline (run_ctx cfg) T 0 (snd op)) bound) obs
  end.
Definition mismatches (cs : list case) : list nat := mismatch_idx ok cs.
