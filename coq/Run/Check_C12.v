(* Correspondence checker for C12: for a configuration and a stalled operation the model
   predicts whether the operation's effective deadline lies within start + bound; the harness
   observed whether the real call returned within that bound.  Times are milliseconds relative
   to the start of the run; caller deadlines used by the harness are either far beyond the
   bound or attached to a step that starts immediately, so start = 0 is exact enough. *)
From Coq Require Import List ZArith Bool.
From TD Require Import Lib.RunLib Gen.ExchangeSteps Model.ExchangeTimeout.
Import ListNotations.
Open Scope Z_scope.

(* ((level 0 exchange / 1 mtproto, pfs, dir, k, caller_ms (0 = none), dial_ms),
    (skipped -404 frames, gap between them in ms), (T, bound),
    (observed: returned within bound, observed: returned clearly before T)) *)
Definition case := ((Z * bool * Z * Z * Z * Z) * (Z * Z) * (Z * Z) * (bool * bool))%type.

Definition ok (c : case) : bool :=
  let '(conf, frames, times, obs) := c in
  let '(level, pfs, dir, k, caller, dial) := conf in
  let '(n, gap) := frames in
  let '(T, bound) := times in
  let '(obs_within, obs_early) := obs in
  let cfg := {| cfg_pfs := if level =? 0 then true else pfs;   (* exchange level: Run gets the caller's ctx as is *)
                cfg_regen := false;
                cfg_caller := if caller =? 0 then Inf else Fin caller;
                cfg_connect_start := 0;
                cfg_dial_timeout := dial |} in
  (* the PFS connect runs two exchanges on one connection: receive / send number k belongs to
     operation ((k-1) mod 3) + 1 of the flow *)
  let k' := (k - 1) mod 3 + 1 in
  match nth_dir client_steps dir (Z.to_nat k') with
  | None => false
  | Some o =>
      let d := step_deadline (run_ctx cfg) T 0 n gap o in
      Bool.eqb (withinb d bound) obs_within &&
      (* a timer never fires early: if the model's deadline is not below T, the call cannot have
         returned clearly before T (lower bound; the short-caller cases exercise the other side) *)
      (if withinb d (T * 8 / 10) then true else negb obs_early)
  end.
Definition mismatches (cs : list case) : list nat := mismatch_idx ok cs.
