(* Correspondence checker for C02 (and, through Run/Check_C03.v, C03): the model replays the
   operation list the harness executed against the real updates.Manager (pushes, recoveries,
   observed timer firings, startup) over the same server log and configuration, and must
   reproduce the projected observation: per sequence (and for plain updates) the ORDERED
   string of its events: handler deliveries (ids), storage writes (values) and too-long
   callbacks (skipped range).  Numbers are primitive-integer literals offset by 2^40. *)
From Coq Require Import List ZArith Bool.
From Coq Require Export Uint63.
From TD Require Import Lib.RunLib Gen.GapCheck Model.SeqBox Model.UpdMgr.
Import ListNotations.
Open Scope Z_scope.

Definition case := (list int * list int)%type.
Definition dec (l : list int) : list Z := map (fun i => Uint63.to_Z i - 1099511627776) l.

Definition take (n : Z) (l : list Z) : list Z * list Z := (firstn (Z.to_nat n) l, skipn (Z.to_nat n) l).
Definition nthz (l : list Z) (i : Z) : Z := nth (Z.to_nat i) l 0.

Fixpoint parse_log (n : nat) (l : list Z) : list entry * list Z :=
  match n, l with
  | S k, i :: kd :: s :: p :: ct :: t =>
    let '(es, rest) := parse_log k t in
    ({| eid := i; ekind := kd; eseq := s; epos := p; ecnt := ct |} :: es, rest)
  | _, _ => ([], l)
  end.

(* op: kind, seq, vis_0 .. vis_n (n = nseq: the last one is the server's seq horizon), then
   container id, container seq number, ptsChanged flag, #items, items *)
Fixpoint parse_ops (n : nat) (ns : Z) (l : list Z) : list mop :=
  match n, l with
  | S k, kind :: s :: t =>
    let '(visl, t1) := take (ns + 1) t in
    match t1 with
    | cid :: sq :: p :: ni :: t2 =>
      let '(items, t3) := take ni t2 in
      let vis := nthz visl in
      (if kind =? 0 then MPushC vis cid sq items (negb (p =? 0))
       else if kind =? 1 then MTooLong vis
       else if kind =? 2 then MChanTooLong vis s
       else if kind =? 3 then MTimerCommon vis
       else if kind =? 4 then MTimerChan vis s
       else if kind =? 5 then MStartup vis
       else if kind =? 7 then MFailCommon vis
       else if kind =? 8 then MFailChan vis s
       else MAffected vis (nth 0 items 0)) :: parse_ops k ns t3
    | _ => []
    end
  | _, _ => []
  end.

(* the projection of the trace on sequence s, IN ORDER (each sequence has one owner goroutine,
   so this order is deterministic in the implementation): Deliver id -> 0 id;
   Persist v -> 1 v; TooLong from to -> 2 from to *)
Definition seq_events (s : Z) (tr : list tev) : list Z :=
  flat_map (fun ev => match ev with
                      | Deliver s' id => if s' =? s then [0; id] else []
                      | Persist s' v => if s' =? s then [1; v] else []
                      | TooLong s' f t => if s' =? s then [2; f; t] else []
                      | Skip _ _ => []        (* an affected marker is not observable at the handler *)
                      end) tr.
Definition zlen {A} (l : list A) : Z := Z.of_nat (length l).

Definition observe (c : config) (m : mgr) : list Z :=
  let seqs := map Z.of_nat (seq 0 (Z.to_nat (nseq c))) in
  flat_map (fun s => let l := seq_events s (mtr m) in zlen l :: l) (seqs ++ [-1]).

Definition run_case (inp : list Z) : option (config * mgr) :=
  match inp with
  | n :: t =>
    let '(bases, t0) := take n t in
    let '(trk, t1) := take n t0 in
    match t1 with
    | sl :: tl :: csl :: ctl :: nlog :: t2 =>
      let '(log, t3) := parse_log (Z.to_nat nlog) t2 in
      match t3 with
      | nops :: t4 =>
        let c := std_config n (nthz bases) (fun s => nthz trk s =? 1) (fun s => nthz trk s =? 2) sl tl csl ctl in
        Some (c, mrun c log (parse_ops (Z.to_nat nops) n t4))
      | [] => None
      end
    | _ => None
    end
  | [] => None
  end.

Definition ok (cs : case) : bool :=
  match run_case (dec (fst cs)) with
  | Some (c, m) => zlist_eqb (observe c m) (dec (snd cs)) && negb (moof m)
  | None => false
  end.
Definition mismatches (cs : list case) : list nat := mismatch_idx ok cs.
