(* Correspondence checker for C34: request plans, CTR decryption (with the Gallina AES-256) and
   verifyChunk (with the Gallina SHA-256, tiny hash windows) against the real functions. *)
From Coq Require Import List ZArith Bool.
From TD Require Import Lib.RunLib Impl.Aes256 Impl.Sha256 Gen.CdnPlan Model.Cdn.
Import ListNotations.
Open Scope Z_scope.

Inductive case :=
| CPlan (offset limit : Z) (ok : bool) (steps : list (Z * Z))
| CCtr (key iv : list Z) (offset : Z) (src got : list Z)
| CVerify (wins : list (Z * Z * list Z * list Z))      (* offset, limit, hash, what a whole-window fetch returns *)
          (offset limit : Z) (data : list Z) (ok : bool) (out : list Z)
| CWalk (p : Z) (requests : list (Z * Z)) (lens : list Z)
    (* a single-threaded streaming download through the CDN: every getCdnFile request (offset, limit) in
       order and the length of every answer: the requests must be those of walking the plans of the chunks
       0, p, 2p, ... (stop a chunk at the first short answer, stop everything at an over-long answer or a
       short chunk) *)
| CTrunc (size window p covered : Z)   (* an accepted incomplete download: length of the gap-free genuine prefix *)
| CVq (hash : list Z) (limit : Z) (data : list Z) (accepted : bool)    (* verifier.verify *)
| CQueue (pre : list (Z * Z))                           (* hashes given to newVerifier: offset, limit *)
         (srv : list (Z * list (Z * Z)))                (* what the hash server answered: asked offset, batch *)
         (served : list (Z * Z)) (finished : bool).     (* windows returned by pop/update in order; queue reported the end *)

Definition z2_eqb (a b : Z * Z) : bool := (fst a =? fst b) && (snd a =? snd b).

Fixpoint be_to_Z (bs : list Z) (acc : Z) : Z :=
  match bs with [] => acc | b :: t => be_to_Z t (acc * 256 + b) end.
Fixpoint Z_to_be (n : nat) (v : Z) (acc : list Z) : list Z :=
  match n with O => acc | S k => Z_to_be k (v / 256) (v mod 256 :: acc) end.

Definition check_ctr (key iv : list Z) (offset : Z) (src got : list Z) : bool :=
  let enc := aes_enc key in
  zlist_eqb (decrypt (fun z => enc (Z_to_be 16 z [])) (be_to_Z iv 0) offset src) got.

(* the client's hash cache: exact offset, else the window containing the offset (c.hash) *)
Definition lookup (wins : list hwin) (o : Z) : option hwin :=
  find (fun w => (w_off w <=? o) && (o <? w_off w + w_limit w) && (0 <? w_limit w)) wins.

Definition check_verify (wins : list (Z * Z * list Z * list Z)) (offset limit : Z) (data : list Z) (ok : bool) (out : list Z) : bool :=
  let hw := map (fun t => let '(o, l, h, _) := t in {| w_off := o; w_limit := l; w_hash := h |}) wins in
  let fetch := fun w => match find (fun t => let '(o, _, _, _) := t in o =? w_off w) wins with
                        | Some (_, _, _, s) => s | None => [] end in
  match verify_chunk sha256 (lookup hw) fetch offset limit data with
  | Some d => ok && zlist_eqb d out
  | None => negb ok
  end.

Definition mkw (t : Z * Z) : hwin := {| w_off := fst t; w_limit := snd t; w_hash := [] |}.
Definition check_queue (pre : list (Z * Z)) (srv : list (Z * list (Z * Z))) (served : list (Z * Z)) (finished : bool) : bool :=
  let server := fun o => match find (fun e => fst e =? o) srv with Some (_, b) => map mkw b | None => [] end in
  let '(l, fin) := v_drain server (S (length served)) (new_verifier (map mkw pre)) in
  list_eqb z2_eqb (map (fun w => (w_off w, w_limit w)) l) served && Bool.eqb fin finished.

Definition ok (c : case) : bool :=
  match c with
  | CPlan offset limit okp steps =>
      match build_plan offset limit with
      | PlanOk s => okp && list_eqb z2_eqb s steps
      | PlanErr _ => negb okp
      | PlanFuel => false
      end
  | CCtr key iv offset src got => check_ctr key iv offset src got
  | CVerify wins offset limit data okv out => check_verify wins offset limit data okv out
  | CWalk p requests lens =>
      list_eqb z2_eqb (walk_download (S (length lens)) p 0 lens) requests
  | CTrunc size window p covered =>
      (* C34_complete_partial + C34_empty_accepted: an accepted short chunk ends at the nominal end of a
         hash window, an accepted empty chunk at a part boundary; nowhere else *)
      (0 <=? covered) && (covered <? size) && ((covered mod window =? 0) || (covered mod p =? 0))
  | CVq hash limit data accepted =>
      Bool.eqb (vq_verify sha256 {| w_off := 0; w_limit := limit; w_hash := hash |} data) accepted
  | CQueue pre srv served finished => check_queue pre srv served finished
  end.
Definition mismatches (cs : list case) : list nat := mismatch_idx ok cs.
