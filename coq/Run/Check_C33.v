(* Correspondence checker for C33.
   CStream: the request sequence (retries included) and the Write calls of a real streaming
   download must EQUAL those of [stream_loop] for the same retry pattern.
   CPar: the interleaved log of Chunk requests and WriteAt calls of a real parallel download
   must be a log of the event system [p_step]: it is replayed (workers are freed in the order of
   the coming writes; stops are taken at the end, which is always a possible schedule) and the
   final state must be terminal with the observed writes and type. *)
From Coq Require Import List ZArith Bool Arith.
From TD Require Import Lib.RunLib Model.Download.
Import ListNotations.
Open Scope Z_scope.

Inductive case :=
| CStream (size p : Z) (env : list bool) (writes : list Z) (requests : list Z) (typ : Z) (finished : bool)
| CPar (size p threads : Z) (log : list (Z * Z * Z))   (* (0, offset, limit) request | (1, offset, len) WriteAt *)
       (typ : Z) (finished : bool).
(* typ: the returned file type: 1 = the type the fake DC attaches to non-empty chunks, 2 = to empty
   chunks, 0 = nil / anything else *)

(* chunk lengths *)
Definition clen (size p : Z) (i : nat) : Z := Z.max 0 (Z.min p (size - Z.of_nat i * p)).

Definition tagz (size p : Z) (i : nat) : Z := if clen size p i =? 0 then 2 else 1.

Definition check_stream (size p : Z) (env : list bool) (writes requests : list Z) (typ : Z) (finished : bool) : bool :=
  match stream_loop (clen size p) (fun c => c =? 0) (fun c => c <? p) (tagz size p) (S (length env)) 0 env with
  | SDone w t offs reqs =>
      finished && zlist_eqb w writes && zlist_eqb (map (fun i => Z.of_nat i * p) reqs) requests && (t =? typ)
  | SEnv _ => negb finished
  end.

(* --- parallel replay --- *)
Section Replay.
Variables size p : Z.
Variable threads : nat.
Definition bempty (i : nat) : bool := clen size p i =? 0.
Definition blast (i : nat) : bool := clen size p i <? p.
(* the write loop dequeues before it calls WriteAt: one more block fits between the two *)
Definition step := @p_step Z bempty blast (tagz size p) (S threads).

Fixpoint find_w (f : wstate -> bool) (i : nat) (ws : list wstate) : option nat :=
  match ws with [] => None | w :: t => if f w then Some i else find_w f (S i) t end.
Definition is_idle (w : wstate) : bool := match w with WIdle => true | _ => false end.
Definition holds (i : nat) (w : wstate) : bool := match w with WHold j => Nat.eqb i j | _ => false end.

(* position of the first WriteAt of block i in the remaining log (for choosing whom to free) *)
Fixpoint write_pos (i : nat) (n : nat) (log : list (Z * Z * Z)) : nat :=
  match log with
  | [] => n
  | (k, off, _) :: t => if (k =? 1) && (off =? Z.of_nat i * p) then n else write_pos i (S n) t
  end.

(* the worker holding a non-empty block whose write comes first *)
Fixpoint best_held (rest : list (Z * Z * Z)) (ws : list wstate) (w : nat) (best : option (nat * nat)) : option (nat * nat) :=
  match ws with
  | [] => best
  | WHold i :: t =>
      let pos := write_pos i 0 rest in
      let best' := if bempty i then best else
                   match best with Some (_, bp) => if Nat.ltb pos bp then Some (w, pos) else best | None => Some (w, pos) end in
      best_held rest t (S w) best'
  | _ :: t => best_held rest t (S w) best
  end.

(* make a worker idle: send the held block that is written first; its worker continues unless the
   block is the last one *)
Definition free_one (rest : list (Z * Z * Z)) (s : pstate Z) : option (pstate Z) :=
  match best_held rest (p_workers s) 0 None with
  | Some (w, _) =>
      let s1 := step s (PSend w) in
      match nth_error (p_workers s1) w with
      | Some (WSent i) => if blast i then Some s1 else Some (step s1 (PAfter w))
      | _ => None
      end
  | None => None
  end.

Fixpoint alloc_upto (fuel : nat) (i : nat) (rest : list (Z * Z * Z)) (s : pstate Z) : option (pstate Z) :=
  if Nat.ltb i (p_next s) then Some s else
  match fuel with
  | O => None
  | S f =>
      match find_w is_idle 0 (p_workers s) with
      | Some w => alloc_upto f i rest (step (step s (PCheck w)) (PAlloc w))
      | None => match free_one rest s with Some s' => alloc_upto f i rest s' | None => None end
      end
  end.

Fixpoint replay (log : list (Z * Z * Z)) (s : pstate Z) : option (pstate Z) :=
  match log with
  | [] => Some s
  | (k, off, len) :: rest =>
      if negb (off mod p =? 0) then None else
      let i := Z.to_nat (off / p) in
      if k =? 0 then
        if negb (len =? p) then None else
        match alloc_upto (4 * threads + 8) i rest s with
        | Some s' => (* the block must be in a worker's hand: first request, late arrival or retry *)
            match find_w (holds i) 0 (p_workers s') with Some _ => replay rest s' | None => None end
        | None => None
        end
      else
        if negb (len =? clen size p i) then None else
        let s1 := match p_queue s with
                  | j :: _ => if Nat.eqb i j then s else s
                  | [] => match find_w (holds i) 0 (p_workers s) with
                          | Some w => let s' := step s (PSend w) in
                                      if blast i then s' else step s' (PAfter w)
                          | None => s
                          end
                  end in
        match p_queue s1 with
        | j :: _ => if Nat.eqb i j then replay rest (step s1 PWrite) else None
        | [] => None
        end
  end.

Definition finish (s : pstate Z) : pstate Z :=
  let ws := seq 0 threads in
  let s1 := fold_left (fun s w => step s (PSend w)) ws s in     (* empty blocks stop *)
  let s2 := fold_left (fun s w => step s (PAfter w)) ws s1 in   (* last blocks stop *)
  fold_left (fun s w => step s (PCheck w)) ws s2.               (* everybody else sees ready *)

Definition check_par (log : list (Z * Z * Z)) (typ : Z) (finished : bool) : bool :=
  match replay log (p_init Z threads) with
  | None => false
  | Some s =>
      let sf := finish s in
      if finished then
        (* every block written was requested, every non-empty block requested was written *)
        forallb (fun e => if fst (fst e) =? 1
                          then existsb (fun r => (fst (fst r) =? 0) && (snd (fst r) =? snd (fst e))) log
                          else true) log &&
        p_terminal sf &&
        list_eqb Z.eqb (map (fun i => Z.of_nat i * p) (p_written sf))
                 (map (fun e => snd (fst e)) (filter (fun e => fst (fst e) =? 1) log)) &&
        (* which of the stopping chunks calls stop first is up to the scheduler: the observed type must be
           the type of SOME requested block that is short or empty, and the model's run must have one *)
        (match p_typ sf with Some _ => true | None => false end) &&
        existsb (fun e => (fst (fst e) =? 0) &&
                          (let i := Z.to_nat (snd (fst e) / p) in blast i && (tagz size p i =? typ))) log
      else true
  end.
End Replay.

Definition ok (c : case) : bool :=
  match c with
  | CStream size p env writes requests typ finished => check_stream size p env writes requests typ finished
  | CPar size p threads log typ finished => check_par size p (Z.to_nat threads) log typ finished
  end.
Definition mismatches (cs : list case) : list nat := mismatch_idx ok cs.
