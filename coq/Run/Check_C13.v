(* Correspondence checker for C13: observations of crypto.CheckGP, CheckDH, CheckDHParams,
   InRange and DecomposePQ against the generated functions / the DecomposePQ model. *)
From Coq Require Import List ZArith Bool.
From TD Require Import Lib.GoSem Lib.RunLib Lib.BigIntSem Gen.DhCheck Model.DhCheck.
Import ListNotations.
Open Scope Z_scope.

(* big-endian bytes -> Z (2048-bit values are printed as byte lists: cheaper to parse) *)
Definition be (l : list Z) : Z := fold_left (fun a b => a * 256 + b) l 0.

(* values of a CheckDHParams batch are written relative to the batch prime:
   base 0 -> 0, 1 -> p, 2 -> 2^1984, 3 -> p - 2^1984, 4 -> p / 2, 5 -> p / 3 *)
Definition rel (p : Z) (v : Z * Z) : Z :=
  let '(b, d) := v in
  (if b =? 0 then 0 else if b =? 1 then p else if b =? 2 then 2 ^ 1984
   else if b =? 3 then p - 2 ^ 1984 else if b =? 4 then p / 2 else p / 3) + d.

Inductive case :=
| CGP (p : Z) (obs : list Z)                        (* CheckGP(g, p) for g = 0..9: codes *)
| CGPx (g p : Z) (obs : Z)
| CDH (g p : Z) (pp pq : bool) (obs : Z)            (* pp = ProbablyPrime(p), pq = ProbablyPrime((p-1)/2) *)
| CDP (p : Z) (items : list ((Z * Z) * (Z * Z) * (Z * Z) * Z))   (* g, g_a, g_b, code *)
| CIR (x lo hi : Z) (obs : bool)
| CPQ (pq : Z) (isp : bool) (rnd : list Z) (obs : Z * Z * Z).   (* isp = pq.ProbablyPrime(0); (0,p,q) | (1,0,0) error | (2,0,0) panic *)

Definition pq_rounds : nat := 40.
Definition pq_fuel : nat := Z.to_nat 300000.

Definition ok (c : case) : bool :=
  match c with
  | CGP p obs => zlist_eqb (map (fun g => check_gp g p) [0; 1; 2; 3; 4; 5; 6; 7; 8; 9]) obs
  | CGPx g p obs => check_gp g p =? obs
  | CDH g p pp pq obs =>
      let prime n := if n =? p then pp else if n =? (p - 1) / 2 then pq else false in
      check_dh prime g p =? obs
  | CDP p items =>
      forallb (fun it => let '(g, ga, gb, obs) := it in
                         check_dh_params p (rel p g) (rel p ga) (rel p gb) =? obs) items
  | CIR x lo hi obs => Bool.eqb (in_range x lo hi) obs
  | CPQ pq isp rnd obs =>
      let '(k, p, q) := obs in
      match decompose_pq isp pq_rounds pq_fuel pq rnd with
      | Ok (p', q') => (k =? 0) && (p =? p') && (q =? q')
      | Err ERand => k =? 1
      | Err EReject => k =? 1
      | Err EFuel => false
      | Panic => k =? 2
      end
  end.
Definition mismatches (cs : list case) : list nat := mismatch_idx ok cs.
