(* Correspondence for C42: a script (dial completions in order, possibly a caller cancellation) is run on
   the real dcs.Plain resolver with fake dials; between actions the harness lets the goroutines settle, so
   the model's deterministic scheduler `play` predicts the outcome: result kind (0 conn i / 1 error naming
   the failed dials / 2 context error), the closed and the open connections at quiescence. *)
From Coq Require Import List Arith Bool ZArith.
From TD Require Export Model.Dial.
From TD Require Import Lib.RunLib.
Import ListNotations.

(* case = (n, script run with settling, dials released together, caller cancels together with them,
           late failures of dials that only return on ctx.Done, observation).  For a racy release the
           implementation's selects may commit to any ready case: the observation must be the outcome of SOME
           fair completion (Model.Dial.explore) of the state in which the released dials are all pending. *)
Definition case := (nat * list action * list (nat * bool) * bool * list action * (nat * list nat * list nat * list nat))%type.
Definition natlist_eqb := list_eqb Nat.eqb.
Fixpoint mem (x : nat) (l : list nat) : bool := match l with [] => false | a :: t => Nat.eqb a x || mem x t end.
Definition sel (n : nat) (p : nat -> bool) : list nat := filter p (seq 0 n).
Definition is_closed (s : state) (i : nat) : bool := match d_st s i with Left true => true | _ => false end.
Definition is_open (s : state) (i : nat) : bool := match d_st s i with Done true | Delivered true => true | _ => false end.
Definition matches (n : nat) (obs : nat * list nat * list nat * list nat) (s : state) : bool :=
  let '(kind, arg, closed, opened) := obs in
  (match d_main s with
   | RetConn i => Nat.eqb kind 0 && natlist_eqb arg [i]
   | RetErr e => Nat.eqb kind 1 && natlist_eqb arg (sel n (fun i => mem i e))
   | RetCtx => Nat.eqb kind 2
   | Running _ => Nat.eqb kind 3
   end) && natlist_eqb closed (sel n (is_closed s)) && natlist_eqb opened (sel n (is_open s)).
Definition ok (c : case) : bool :=
  let '(n, script, race, rcancel, tail, obs) := c in
  let s0 := dial_all (play n script) race in
  let s1 := if rcancel then match step s0 ECallerCancel with Some s' => s' | None => s0 end else s0 in
  existsb (fun s => matches n obs (fold_left act tail s)) (explore (2 * n + 3) s1).
Definition mismatches (cs : list case) : list nat := mismatch_idx ok cs.
(* typed constructor for the generated case files (elaborating large nested tuple literals is slow) *)
Definition mk (n : nat) (script : list action) (race : list (nat * bool)) (rcancel : bool) (tail : list action)
              (kind : nat) (arg closed opened : list nat) : case :=
  (n, script, race, rcancel, tail, (kind, arg, closed, opened)).
