(* Correspondence for C42: a script (dial completions in order, possibly a caller cancellation) is run on
   the real dcs.Plain resolver with fake dials; between actions the harness lets the goroutines settle, so
   the model's deterministic scheduler `play` predicts the outcome: result kind (0 conn i / 1 error naming
   the failed dials / 2 context error), the closed and the open connections at quiescence. *)
From Coq Require Import List Arith Bool ZArith.
From TD Require Export Model.Dial.
From TD Require Import Lib.RunLib.
Import ListNotations.

Definition case := (nat * list action * (nat * list nat * list nat * list nat))%type.
Definition natlist_eqb := list_eqb Nat.eqb.
Fixpoint mem (x : nat) (l : list nat) : bool := match l with [] => false | a :: t => Nat.eqb a x || mem x t end.
Definition sel (n : nat) (p : nat -> bool) : list nat := filter p (seq 0 n).
Definition is_closed (s : state) (i : nat) : bool := match d_st s i with Left true => true | _ => false end.
Definition is_open (s : state) (i : nat) : bool := match d_st s i with Done true | Delivered true => true | _ => false end.
Definition ok (c : case) : bool :=
  let '(n, script, (kind, arg, closed, opened)) := c in
  let s := play n script in
  (match d_main s with
   | RetConn i => Nat.eqb kind 0 && natlist_eqb arg [i]
   | RetErr e => Nat.eqb kind 1 && natlist_eqb arg (sel n (fun i => mem i e))
   | RetCtx => Nat.eqb kind 2
   | Running _ => Nat.eqb kind 3
   end) && natlist_eqb closed (sel n (is_closed s)) && natlist_eqb opened (sel n (is_open s)).
Definition mismatches (cs : list case) : list nat := mismatch_idx ok cs.
