(* Correspondence checker for C26: trace replay + the C26 ghosts of the final state
   (classification, at most one drop). *)
From Coq Require Import List ZArith Bool.
From TD Require Import Lib.RunLib Run.RpcReplay.
From TD Require Export Model.Rpc.
Import ListNotations.
Open Scope Z_scope.

Definition case := RpcReplay.case.
Definition extra (s : state) (c : Z) : bool :=
  let k := calls s c in negb (viol26 k) && Z.leb (ndrops k) 1.
Definition ok (cs : case) : bool := replay_ok extra cs.
Definition mismatches (cs : list case) : list nat := mismatch_idx ok cs.
