(* Correspondence checker for C29.  One case = one invocation of one scenario run with a
   real telegram.Client against the in-process server: the event list the harness
   reconstructed from what it observed (server-side execution log, acks seen processed by
   the client through the rpc hook points, kill points, connection replacements, client
   close), and the projected outcome: result class of Invoke (0 result, 1 error after an
   acknowledged request lost its connection, 2 error because the client was closed,
   3 caller context, 9 did not return) and how many times the server executed the body.
   The model must find every event enabled and reproduce class and execution count. *)
From Coq Require Import List ZArith Bool Arith.
From TD Require Import Lib.RunLib.
From TD Require Export Model.ClientRetry Model.ClientRetryN.
Import ListNotations.

(* CSingle: one invocation.  CMulti: a whole scenario, all its requests in flight as one joint
   event list (own events tagged with the request index, environment events shared), with the
   projected outcome of every request. *)
Inductive case :=
| CSingle (es : list event) (cls : Z) (execs : nat)
| CMulti (n : nat) (mes : list mevent) (obs : list (Z * nat)).

Definition class_of (st : state) : Z :=
  match ph st with
  | Returned (RRes _) => 0
  | Returned RErrAcked => 1
  | Returned RClosed => 2
  | Returned RCtx => 3
  | _ => 9
  end%Z.

Definition obs_eqb (a b : Z * nat) : bool := Z.eqb (fst a) (fst b) && Nat.eqb (snd a) (snd b).
Definition ok (c : case) : bool :=
  match c with
  | CSingle es cls execs =>
      match run init es with
      | Some st => Z.eqb (class_of st) cls && Nat.eqb (nsends st) execs
      | None => false
      end
  | CMulti n mes obs =>
      match mrun (minit n) mes with
      | Some ms => list_eqb obs_eqb (map (fun st => (class_of st, nsends st)) ms) obs
      | None => false
      end
  end.
Definition mismatches (cs : list case) : list nat := mismatch_idx ok cs.
