(* Correspondence checker for C36: the Go observation (output of entity.SortEntities /
   Builder.Complete on a list of at most 12 entities) must equal go_isort with the
   generated comparison function. *)
From Coq Require Import List ZArith Bool.
From TD Require Import Lib.RunLib Gen.EntityLess Model.EntitySort.
Import ListNotations.

Definition case := (list (Z * Z * Z) * list (Z * Z * Z))%type.
Definition to_ent (t : Z * Z * Z) : ent := let '(o, l, g) := t in {| e_off := o; e_len := l; e_tag := g |}.
Definition of_ent (e : ent) : Z * Z * Z := (e_off e, e_len e, e_tag e).
Definition ok (c : case) : bool :=
  let '(inp, obs) := c in
  list_eqb z3_eqb (map of_ent (go_isort less_go (map to_ent inp))) obs.
Definition mismatches (cs : list case) : list nat := mismatch_idx ok cs.
