(* Correspondence checker for C10: the real ClientExchange.Run against a man-in-the-middle;
   the model's client, fed the messages exactly as the real client received them (as records;
   for the encrypted answer: what it decrypts to under the client's temporary keys), must
   predict the same accept / reject decision and the same error class. *)
From Coq Require Import List ZArith Bool.
From TD Require Import Lib.GoSem Lib.RunLib Gen.DhCheck Model.Exchange Run.ExchangeExec.
Import ListNotations.
Open Scope Z_scope.

(* m5: (tag, n, sn, (decrypts, (nonce, server_nonce, g, p, g_a)))  tag 0 absent 1 ok 2 fail 3 other
   m7: (tag, n, sn, hash1)                                       tag 0 absent 1 ok 2 retry 3 fail 4 other *)
Definition m5t := (Z * list Z * list Z * (bool * (list Z * list Z * Z * Z * Z)))%type.
Definition m7t := (Z * list Z * list Z * list Z)%type.
(* ((client key fingerprints, dc, expires), (nonce, new_nonce), m2 = (nonce, server_nonce, pq, fps),
    factor = (ok, p, q), m5, m7, primes, (g^b, g_a^b), (hash1, key id), observed (code, key, id, salt)) *)
Definition case := ((list Z * Z * Z) * (list Z * list Z) * (list Z * list Z * Z * list Z) * (bool * Z * Z) *
                    m5t * m7t * list (Z * bool) * (Z * Z) * (list Z * list Z) * (Z * list Z * list Z * Z))%type.

Definition be := ExchangeExec.be.   (* visible to the generated cases files *)
Definition b_name : Z := 1000.

Definition ok (c : case) : bool :=
  let '(cfg, rnd, m2, fac, m5, m7, primes, pows, hashes, obs) := c in
  let '(keys, dc, expires) := cfg in
  let '(n, nn) := rnd in
  let '(n2, sn2, pq, fps) := m2 in
  let '(fok, fp_, fq) := fac in
  let '(t5, n5, sn5, dec5) := m5 in
  let '(dok, inner5) := dec5 in
  let '(in5, isn5, g5, p5, ga5) := inner5 in
  let '(t7, n7, sn7, h7) := m7 in
  let '(gb, kc) := pows in
  let '(h1, kid) := hashes in
  let '(code, okey, oid, osalt) := obs in
  let tab := [(g5, b_name, p5, gb); (ga5, b_name, p5, kc)] in
  let cf := {| cc_keys := keys; cc_dc := dc; cc_expires := if expires =? 0 then None else Some expires |} in
  let cr := {| cr_nonce := n; cr_new_nonce := nn; cr_b := b_name |} in
  let step3 := client_step3 Z x_cipher1 (fun k => k) x_rsa_enc (fun _ => if fok then Some (fp_, fq) else None) in
  let step6 := client_step6 Z x_cipher2 x_cipher3 x_ans_dec x_cin_enc (x_powmod tab) (x_prime primes) in
  let step8 := client_step8 (x_powmod tab) (fun _ _ => h1) (fun _ => kid) in
  let inner := {| si_nonce := in5; si_server_nonce := isn5; si_g := g5; si_p := p5; si_ga := ga5; si_time := 0 |} in
  (* the ciphertext is tagged with the keys the CLIENT derives (its new_nonce and the server_nonce
     it saw in ResPQ); [dok] says whether the real bytes decrypt and decode under those keys *)
  let enc5 : x_cipher2 := (nn, sn2, if dok then Some inner else None) in
  let predicted : Z * option kex_result :=
    match step3 cf cr {| rp_nonce := n2; rp_server_nonce := sn2; rp_pq := pq; rp_fps := fps |} with
    | Err e => (cerr_code e, None)
    | Panic => (99, None)
    | Ok (_, st3) =>
        if t5 =? 0 then (90, None) else
        let msg5 := if t5 =? 1 then SdhOk x_cipher2 n5 sn5 enc5 else if t5 =? 2 then SdhFail x_cipher2 else SdhOther x_cipher2 in
        match step6 cr st3 msg5 with
        | Err e => (cerr_code e, None)
        | Panic => (99, None)
        | Ok (_, st6) =>
            if t7 =? 0 then (90, None) else
            let msg7 := if t7 =? 1 then GenOk n7 sn7 h7 else if t7 =? 2 then GenRetry else if t7 =? 3 then GenFail else GenOther in
            match step8 cr st6 msg7 with
            | Err e => (cerr_code e, None)
            | Panic => (99, None)
            | Ok r => (0, Some r)
            end
        end
    end in
  match predicted with
  | (pc, None) => (pc =? code) && negb (code =? 0)
  | (_, Some r) => (code =? 0) && kres_eqb r okey oid osalt
  end.
Definition mismatches (cs : list case) : list nat := mismatch_idx ok cs.
