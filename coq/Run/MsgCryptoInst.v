(* The model of package crypto instantiated with the executable Gallina SHA-256 / SHA-1 /
   AES-256 of coq/Impl (used only by the correspondence checkers Check_C04/C05/C06). *)
From Coq Require Import List ZArith Bool.
From TD Require Import Lib.Bytes Lib.GoSem Lib.RunLib Impl.Sha256 Impl.Sha1 Impl.Aes256 Model.MsgCrypto.
Import ListNotations.
Open Scope Z_scope.

(* byte strings arrive packed as (length, little-endian number): see hx.PackedBytes *)
Definition packed := (Z * Z)%type.
Fixpoint unpack_n (n : nat) (v : Z) : list Z :=
  match n with O => [] | S k => Z.land v 255 :: unpack_n k (Z.shiftr v 8) end.
Definition unpack (p : packed) : list Z := unpack_n (Z.to_nat (fst p)) (snd p).

Definition x_message_key := message_key sha256.
Definition x_keys := keys sha256.
Definition x_message_key_v1 := message_key_v1 sha1.
Definition x_keys_v1 := keys_v1 sha1.
Definition x_old_keys := old_keys sha1.
Definition x_encrypt := encrypt sha256 aes_enc.
Definition x_encrypt_data := encrypt_data sha256 aes_enc.
Definition x_decrypt := decrypt sha256 aes_dec.
Definition x_conn_encrypt := conn_encrypt sha256 aes_enc.
Definition x_encrypt_bind := encrypt_bind sha1 aes_enc.

Definition err_code (e : err) : Z :=
  match e with
  | ERand => 1 | EShort => 2 | EKeyId => 3 | EAlign => 4 | EMsgKey => 5 | ELenBig => 6
  | ELenNeg => 7 | ELenMod4 => 8 | EPadBig => 9 | EZeroKey => 10 | EBind => 11 | EPadSmall => 12
  end.
Definition side_of (z : Z) : side := if z =? 0 then Client else Server.

(* observation of a call returning bytes: (code, bytes); code 0 = ok, 99 = panic *)
Definition obs_bytes (r : res err (list Z)) : Z * list Z :=
  match r with Ok b => (0, b) | Err e => (err_code e, []) | Panic => (99, []) end.
Definition obs_bytes_eqb (a b : Z * list Z) : bool :=
  (fst a =? fst b) && zlist_eqb (snd a) (snd b).

(* observation of a decryption: (code, (salt, session, msg_id, seq_no), MessageDataLen, MessageDataWithPadding) *)
Definition obs_dec_t := (Z * (Z * Z * Z * Z) * Z * list Z)%type.
Definition obs_dec_p := (Z * (Z * Z * Z * Z) * Z * packed)%type.
Definition unpack_obs_dec (o : obs_dec_p) : obs_dec_t :=
  let '(c, h, l, b) := o in (c, h, l, unpack b).
Definition obs_dec (r : res err dec) : obs_dec_t :=
  match r with
  | Ok d => (0, (h_salt (d_hdr d), h_session (d_hdr d), h_msg_id (d_hdr d), h_seq_no (d_hdr d)), d_len d, d_body d)
  | Err e => (err_code e, (0, 0, 0, 0), 0, [])
  | Panic => (99, (0, 0, 0, 0), 0, [])
  end.
Definition obs_dec_eqb (a b : obs_dec_t) : bool :=
  let '(ca, (a1, a2, a3, a4), la, ba) := a in
  let '(cb, (b1, b2, b3, b4), lb, bb) := b in
  (ca =? cb) && (a1 =? b1) && (a2 =? b2) && (a3 =? b3) && (a4 =? b4) && (la =? lb) && zlist_eqb ba bb.
