(* Correspondence checker for C17 (and the single-read part of C16): one Codec.Read call of
   the implementation on a byte stream (served in random chunks) against [read_c].
   case = (codec, seq, stream, (kind, arg, payload, consumed, heap bytes allocated)). *)
From Coq Require Import List ZArith Bool.
From TD Require Export Lib.HexBytes.
From TD Require Import Lib.GoSem Lib.RunLib Impl.Crc32 Model.Codec.
Import ListNotations.
Open Scope Z_scope.

Definition case := (Z * Z * list Z * (Z * Z * list Z * Z * Z))%type.

Definition codec_of (i : Z) : codec :=
  if i =? 0 then Abridged else if i =? 1 then Intermediate else if i =? 2 then Padded else Full.
Definition kind_of (e : cerr) : Z * Z :=
  match e with
  | EEof => (1, 0) | EUnexpEof => (2, 0) | EInvalidLen n => (3, n) | EAlign => (4, 0)
  | ESeq => (5, 0) | ECrc => (6, 0) | EProto c => (7, c) | EHeader => (8, 0)
  end.
(* The implementation observable is the number of heap bytes allocated during the call
   (runtime.MemStats.TotalAlloc): the receive buffer rounded up to a size class / page, plus
   the 8-byte first buffer, error values and reader state. *)
Definition alloc_ok (a obs : Z) : bool := (a - 64 <=? obs) && (obs <=? a + a / 4 + 16384).

Definition ok (c : case) : bool :=
  let '(ci, seq, s, (k, arg, pay, consumed, alloc)) := c in
  let '(a, r) := read_c crc32 (codec_of ci) seq s in
  match r with
  | Ok (p, rest) => (k =? 0) && zlist_eqb p pay && (consumed =? zlen s - zlen rest) && alloc_ok a alloc
  | Err e => let '(k', a') := kind_of e in (k =? k') && (arg =? a') && alloc_ok a alloc
  | Panic => k =? 9
  end.
Definition mismatches (cs : list case) : list nat := mismatch_idx ok cs.
