(* Trace replay for C27/C28: the event list recorded from a real pool.DC must be enabled step by step
   in Model/Pool.v (every event carries what the implementation observed: which connection was
   popped, the pool's counter after total++, the request key, the outcome of each Dead() read, the
   branch taken after Invoke, the target of a transfer), and the model's final total / free list /
   pending requests must equal the pool's own (VerifSnapshot). *)
From Coq Require Import List ZArith Bool.
From TD Require Import Lib.RunLib Model.Pool.
Import ListNotations.

Definition case := (Z * list event * (Z * list Z * list Z))%type.
Definition ok (c : case) : bool :=
  let '(max, evs, (total, free, reqs)) := c in
  match run (init max) evs with
  | Some st => Z.eqb (s_total st) total && zlist_eqb (rev (s_free st)) free && zlist_eqb (rev (s_reqs st)) reqs
  | None => false
  end.
Definition mismatches (cs : list case) : list nat := mismatch_idx ok cs.
(* diagnostic: how many events of a case replay *)
Definition prefix_len (c : case) : nat := let '(max, evs, _) := c in run_prefix (init max) evs 0.
