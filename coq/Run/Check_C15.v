(* Correspondence checker for C15: observations of srp.SRP.Hash / NewHash recorded by
   harness/cmd/c15 must equal the model's results.  SHA-256 is the Gallina instance of coq/Impl.
   Oracle inputs computed by the harness with the Go libraries the code uses (modelled, not
   verified): the values of big.Int.Exp (table (base, exponent) -> result for the case's modulus;
   2048-bit exponents are out of the VM budget), of PBKDF2-HMAC-SHA512 x 100000 (table
   (ph1, salt1) -> 64 bytes) and of crypto.CheckDH (boolean). *)
From Coq Require Import List ZArith Bool.
From TD Require Import Lib.GoSem Lib.BeBytes Lib.RunLib Impl.Sha256 Model.Srp.
Import ListNotations.
Open Scope Z_scope.

Definition obs_t := (Z * list Z * list Z)%type.
(* code: 0 ok | 1 refused | 2 g_a too big | 3 s_a too big | 4 random source | 5 panic | 7 p too big *)
Definition exps_t := list (Z * Z * Z).
Definition pb_t := list (list Z * list Z * list Z).
Inductive case : Type :=
| CHash (chk : bool) (exps : exps_t) (pb : pb_t)
        (password srpB random salt1 salt2 : list Z) (g : Z) (P : list Z) (o : obs_t)
| CNew (chk : bool) (exps : exps_t) (pb : pb_t)
       (password salt1 salt2 : list Z) (g : Z) (P rnd : list Z) (o : obs_t).

Fixpoint exp_lookup (t : exps_t) (b e : Z) : Z :=
  match t with
  | [] => -1
  | (b', e', r) :: t' => if (b' =? b) && (e' =? e) then r else exp_lookup t' b e
  end.
Fixpoint pb_lookup (t : pb_t) (ph1 salt : list Z) : list Z :=
  match t with
  | [] => []
  | (a, s, r) :: t' => if zlist_eqb a ph1 && zlist_eqb s salt then r else pb_lookup t' ph1 salt
  end.

Definition proj (r : res srp_err (list Z * list Z)) : obs_t :=
  match r with
  | Ok (a, b) => (0, a, b)
  | Err ERefuse => (1, [], [])
  | Err EGaTooBig => (2, [], [])
  | Err ESaTooBig => (3, [], [])
  | Err ERandom => (4, [], [])
  | Err EPTooBig => (7, [], [])
  | Panic => (5, [], [])
  end.
Definition obs_eqb (a b : obs_t) : bool :=
  let '(c1, x1, y1) := a in let '(c2, x2, y2) := b in
  (c1 =? c2) && zlist_eqb x1 x2 && zlist_eqb y1 y2.

Definition ok (c : case) : bool :=
  match c with
  | CHash chk exps pb password srpB random salt1 salt2 g P o =>
      obs_eqb (proj (srp_hash sha256 (pb_lookup pb) (fun b e _ => exp_lookup exps b e) (fun _ _ => chk)
                              password srpB random salt1 salt2 g P)) o
  | CNew chk exps pb password salt1 salt2 g P rnd o =>
      obs_eqb (proj (srp_new_hash sha256 (pb_lookup pb) (fun b e _ => exp_lookup exps b e) (fun _ _ => chk)
                                  password salt1 salt2 g P rnd)) o
  end.
Definition mismatches (cs : list case) : list nat := mismatch_idx ok cs.
