(* Correspondence checker for C21: the generated Go code (tg, mt, tg/e2e) against the schema
   interpreter Model/TlSchema.v instantiated on the schemas translated from _schema/*.tl.

   CEnc: a Go value (projected by reflection to a [value]) and what x.Encode / x.EncodeBare
         produced: the model's [encode] must give the same bytes / error class / panic.  When
         the value is canonical ([wt]) the instance of C21_roundtrip is evaluated as well:
         decoding the bytes with [std_fuel] must return exactly the value.
   CDec: arbitrary bytes and what x.Decode / x.DecodeBare / Decode<Class> did with them: same
         outcome class; on success the same number of unread bytes, the model's re-encoding of the
         model's decoded value equals Go's re-encoding of Go's decoded value, and (when the
         harness supplies it) the decoded values themselves are equal. *)
From Coq Require Import List ZArith Bool.
From TD Require Import Lib.RunLib Lib.GoSem Lib.GoSlice Model.TlPrim Gen.SchemaTg Gen.SchemaMt Gen.SchemaE2e.
From TD Require Export Model.TlSchema.
Import ListNotations.
Open Scope Z_scope.

Inductive eobs : Type := EBytes (b : list Z) | EErr (cls : Z) | EPanic.
Inductive dobs : Type := DOk (reenc : list Z) (unread : Z) (v : option value) | DErr (cls : Z) | DPanic.
(* sch: 0 tg, 1 mt, 2 e2e.  kind: 0 boxed constructor, 1 bare constructor, 2 the class of the
   constructor.  id: constructor id. *)
Inductive case : Type :=
| CEnc (sch kind id : Z) (v : value) (o : eobs)
| CDec (sch kind id : Z) (b : list Z) (o : dobs)
(* x.Decode(b) on a receiver that holds [old] (boxed constructor id) *)
| CInto (sch id : Z) (old : value) (b : list Z) (o : dobs).

Definition schema_of (sch : Z) : schema :=
  if sch =? 0 then tg_schema else if sch =? 1 then mt_schema else e2e_schema.

(* error classes shared with the harness: 1 unexpected EOF, 2 invalid length, 3 unexpected id,
   4 nil field, 9 anything else *)
Definition err_class (e : serr) : Z :=
  match e with
  | EPrim EEOF => 1
  | EPrim EInvalidLength => 2
  | EPrim EUnexpectedID => 3
  | ENilField => 4
  | _ => 9
  end.

(* Decoding into a reused receiver can leave a stale struct whose fields are all zero in an
   optional position whose bit is clear; the harness projects that Go value as VNil (zero struct in
   an unset optional), the model keeps the old VObj.  Both denote the same Go value. *)
Fixpoint zeroish (v : value) : bool :=
  match v with
  | VZ z => z =? 0
  | VBy l => forallb (Z.eqb 0) l
  | VBool b => negb b
  | VNil => true
  | VVec _ => false
  | VObj _ fs => (fix go (l : list value) : bool := match l with [] => true | x :: t => zeroish x && go t end) fs
  end.
Fixpoint value_eqz (a b : value) : bool :=
  match a, b with
  | VObj i x, VObj j y =>
      (i =? j) &&
      (fix go (x y : list value) : bool :=
         match x, y with
         | [], [] => true
         | p :: x', q :: y' => value_eqz p q && go x' y'
         | _, _ => false
         end) x y
  | VObj _ _, VNil => zeroish a
  | VVec x, VVec y =>
      (fix go (x y : list value) : bool :=
         match x, y with
         | [], [] => true
         | p :: x', q :: y' => value_eqz p q && go x' y'
         | _, _ => false
         end) x y
  | _, _ => value_eqb a b
  end.

Definition ok (c : case) : bool :=
  match c with
  | CEnc sch kind id v o =>
      let s := schema_of sch in
      match ty_of s kind id with
      | None => false
      | Some t =>
          match encode s t v, o with
          | Ok b, EBytes b' =>
              zlist_eqb b b' &&
              (if wt s (depth v) t v
               then match decode s t (std_fuel b) b with
                    | Ok (v', []) => value_eqb v v'
                    | _ => false
                    end
               else true)
          | Err e, EErr cls => err_class e =? cls
          | Panic, EPanic => true
          | _, _ => false
          end
      end
  | CDec sch kind id b o =>
      let s := schema_of sch in
      match ty_of s kind id with
      | None => false
      | Some t =>
          match decode s t (std_fuel b) b, o with
          | Ok (v, rest), DOk reenc unread gv =>
              (len rest =? unread) &&
              match encode s t v with Ok b' => zlist_eqb b' reenc | _ => false end &&
              match gv with Some g => value_eqb v g | None => true end
          | Err e, DErr cls => err_class e =? cls
          | Panic, DPanic => true
          | _, _ => false
          end
      end
  | CInto sch id old b o =>
      let s := schema_of sch in
      match ty_of s 0 id with
      | Some (TBoxed ci) =>
          match decode_into s ci (std_fuel b) old b, o with
          | Ok (v, rest), DOk reenc unread gv =>
              (len rest =? unread) &&
              match encode s (TBoxed ci) v with Ok b' => zlist_eqb b' reenc | _ => false end &&
              match gv with Some g => value_eqz v g | None => true end
          | Err e, DErr cls => err_class e =? cls
          | Panic, DPanic => true
          | _, _ => false
          end
      | _ => false
      end
  end.
Definition mismatches (cs : list case) : list nat := mismatch_idx ok cs.

(* how many of the cases exercise the round-trip theorem's domain (reported by Print in tests) *)
Definition canonical (c : case) : bool :=
  match c with
  | CEnc sch kind id v _ =>
      let s := schema_of sch in
      match ty_of s kind id with Some t => wt s (depth v) t v | None => false end
  | _ => false
  end.
