(* Correspondence checker for C43 (trace replay): the event trace of a scripted run on a real
   mtproto.Conn must be executable on the model -- every event enabled -- and after every
   event the set of registered ping ids (Conn.ping keys) and, at the end, the fate of the
   keep-alive loop must coincide. *)
From Coq Require Import List ZArith Bool.
From TD Require Import Lib.RunLib Model.Ping.
Import ListNotations.
Open Scope Z_scope.

(* (kind, a, b): 0 Start id=a byloop=b | 1 Write k=a ok=b | 2 Pong id=a | 3 Ctx k=a | 4 Ret k=a nil=b *)
Definition eev := (Z * Z * Z)%type.
Definition dec (e : eev) : ev :=
  let '(k, a, b) := e in
  if k =? 0 then EStart a (b =? 1)
  else if k =? 1 then EWrite (Z.to_nat a) (b =? 1)
  else if k =? 2 then EPong a
  else if k =? 3 then ECtx (Z.to_nat a)
  else ERet (Z.to_nat a) (b =? 1).

Fixpoint zins (x : Z) (l : list Z) : list Z :=
  match l with [] => [x] | y :: t => if x <=? y then x :: l else y :: zins x t end.
Definition keys (s : pstate) : list Z := fold_right zins [] (map fst (pmap s)).

(* (events, registered ids observed after each event (ascending), loop: -1 not run / 0 alive / 1 dead) *)
Definition case := (list eev * list (list Z) * Z)%type.

Fixpoint replay (s : pstate) (es : list eev) (obs : list (list Z)) : option pstate :=
  match es, obs with
  | [], [] => Some s
  | e :: et, o :: ot =>
      match pstep s (dec e) with
      | Some s' => if zlist_eqb (keys s') o then replay s' et ot else None
      | None => None
      end
  | _, _ => None
  end.

Definition ok (c : case) : bool :=
  let '(es, obs, lp) := c in
  match replay pinit es obs with
  | Some s => if lp =? -1 then true else Bool.eqb (loop_dead s) (lp =? 1)
  | None => false
  end.
Definition mismatches (cs : list case) : list nat := mismatch_idx ok cs.
