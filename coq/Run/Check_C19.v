(* Correspondence checker for C19.
   CStream: writes (patterned payloads (n, a, b): byte j = (a + b*j) mod 256) through
     FakeTLS.Write, the wire observed as (length, adler32, list of (record type, data length)),
     then FakeTLS.Read with buffer sizes [ks] until the first error; [data_ok] = the
     implementation's reads concatenated equal the writes concatenated.
   CRead: arbitrary wire bytes read with FakeTLS.Read (sizes ks): data and final error.
   CHello: readServerHello (through FakeTLS.Handshake) on a scripted server answer; the
     harness passes the HMAC-SHA256 value of the message it expects the code to authenticate
     (oracle input, computed with crypto/hmac) and that message; after a successful handshake
     the client keeps reading (buffer sizes ks): the data already sent behind the hello. *)
From Coq Require Import List ZArith Bool.
From TD Require Export Lib.HexBytes.
From TD Require Import Lib.GoSem Lib.RunLib Model.FakeTls.
Import ListNotations.
Open Scope Z_scope.

Inductive case :=
| CStream (ws : list (Z * Z * Z)) (wire_len wire_adler : Z) (recs : list (Z * Z)) (ks : list Z)
          (data_ok : bool) (stop : Z)
| CRead (wire : list Z) (ks : list Z) (data : list Z) (stop : Z)
| CHello (client_random secret stream msg hm : list Z) (res : Z) (rest_len : Z)
         (ks : list Z) (data : list Z) (stop : Z).

Fixpoint pat (n : nat) (a b : Z) : list Z :=
  match n with O => [] | S k => (a mod 256) :: pat k (a + b) b end.
Definition payload (w : Z * Z * Z) : list Z := let '(n, a, b) := w in pat (Z.to_nat n) a b.

Definition adler32 (l : list Z) : Z :=
  let '(s1, s2) := fold_left (fun '(s1, s2) b => let s1' := (s1 + b) mod 65521 in (s1', (s2 + s1') mod 65521)) l (1, 0) in
  s2 * 65536 + s1.

Definition kind_of (e : terr) : Z :=
  match e with
  | TEof => 1 | TUnexpEof => 2 | TVersion => 3 | TRecordType => 4 | TTooShort => 5
  | TDigest => 6 | TOutOfFuel => 7
  end.
Definition zz_eqb (a b : Z * Z) : bool := (fst a =? fst b) && (snd a =? snd b).
Definition ks_fun (ks : list Z) (i : nat) : Z := nth i ks 1.

Definition ok (c : case) : bool :=
  match c with
  | CStream ws wl wa recs ks data_ok stop =>
    let pls := map payload ws in
    match ftls_write_all false pls with
    | Ok wire =>
      let '(rs, e) := parse_records (S (length wire)) wire in
      let '(data, st) := drain (S (length ks)) (ks_fun ks) 0 ([], wire) in
      (zlen wire =? wl) && (adler32 wire =? wa) &&
      list_eqb zz_eqb (map (fun r => (fst r, zlen (snd r))) rs) recs &&
      match e with None => true | Some _ => false end &&
      Bool.eqb (zlist_eqb data (concat pls)) data_ok && (kind_of st =? stop)
    | _ => false
    end
  | CRead wire ks data stop =>
    let '(d, st) := drain (S (length ks)) (ks_fun ks) 0 ([], wire) in
    zlist_eqb d data && (kind_of st =? stop)
  | CHello cr secret stream msg hm res rest_len ks data stop =>
    let hmac := fun key m => if zlist_eqb key secret && zlist_eqb m msg then hm else [] in
    match read_server_hello hmac cr secret stream with
    | Ok rest =>
      (* the handshake consumed exactly the hello; the connection then reads what follows it *)
      let '(d, st) := drain (S (length ks)) (ks_fun ks) 0 ([], rest) in
      (res =? 0) && (zlen rest =? rest_len) && zlist_eqb d data && (kind_of st =? stop)
    | Err e => kind_of e =? res
    | Panic => res =? 9
    end
  end.
Definition mismatches (cs : list case) : list nat := mismatch_idx ok cs.
