(* Model of proto.MessageContainer / proto.Message (proto/container.go), proto.Result
   (proto/rpc_result.go), proto.UnencryptedMessage (proto/unencrypted_message.go) and
   proto.GZIP (proto/gzip.go) over the TL primitives of Model/TlPrim.v. Definitions only.

   gzip/DEFLATE is NOT modelled: inside Section Gzip the compressor and the decompressor
   are variables. [gz_head buf] says whether gzip.NewReader accepts the header;
   [gz_stream buf] is the byte sequence the decompressor delivers before it stops and
   whether it stops with an error (true) or a clean end of stream (false).
   io.LimitReader(r, maxUncompressedSize) is modelled as firstn. Type ids, the limit and
   the length / bomb conditions are generated from /repo/proto (Gen/ProtoConsts.v). *)
From Coq Require Import ZArith List Bool.
From TD Require Import Lib.Bytes Lib.GoSem Lib.GoSlice Gen.ProtoConsts Model.TlPrim.
Import ListNotations.
Open Scope Z_scope.

Inductive p_err : Type :=
| PTl (e : tl_err)     (* error of a bin.Buffer primitive *)
| PMsgLen              (* container message length negative or above 1 MiB *)
| PAuthKey             (* non-zero auth_key_id in a plaintext message *)
| PGzipHeader          (* "gzip error": reader rejected the header *)
| PDecompress          (* "decompress": decompressor failed before the limit *)
| PBomb                (* DecompressionBombErr *)
| POutOfFuel.          (* model artefact, proved unreachable *)

Definition wrapT {A} (r : res tl_err A) : res p_err A := map_err PTl r.

(* ---------- container ---------- *)
Record msg : Type := mkMsg { m_id : Z; m_seqno : Z; m_bytes : Z; m_body : list Z }.

Definition encode_message (m : msg) : res p_err (list Z) :=
  if msg_len_bad_enc_go (m_bytes m) then Err PMsgLen
  else Ok (encode_long (m_id m) ++ encode_int (m_seqno m) ++ encode_int (m_bytes m) ++ m_body m).
Fixpoint encode_messages (ms : list msg) : res p_err (list Z) :=
  match ms with
  | [] => Ok []
  | m :: t => do e <- encode_message m; do r <- encode_messages t; Ok (e ++ r)
  end.
Definition encode_container (ms : list msg) : res p_err (list Z) :=
  do body <- encode_messages ms;
  Ok (encode_uint32 c_MessageContainerTypeID ++ encode_int (len ms) ++ body).

Definition decode_message (b : list Z) : res p_err (msg * list Z) :=
  do (id, b) <- wrapT (decode_long b);
  do (seq, b) <- wrapT (decode_int b);
  do (n, b) <- wrapT (decode_int b);
  if msg_len_bad_dec_go n then Err PMsgLen else
  if n <? 0 then Panic else                       (* make([]byte, n) *)
  do (body, b) <- wrapT (take n b);               (* ConsumeN *)
  Ok (mkMsg id seq n body, b).

(* for i := 0; i < n; i++ : k = n - i messages still to read *)
Fixpoint dec_msgs (fuel : nat) (k : Z) (b : list Z) : res p_err (list msg * list Z) :=
  if k <=? 0 then Ok ([], b) else
  match fuel with
  | O => Err POutOfFuel
  | S f => do (m, b1) <- decode_message b; do (ms, b2) <- dec_msgs f (k - 1) b1; Ok (m :: ms, b2)
  end.
Definition decode_container (b : list Z) : res p_err (list msg * list Z) :=
  do b1 <- wrapT (consume_id c_MessageContainerTypeID b);
  do (n, b2) <- wrapT (decode_int b1);
  if container_count_bad_go n then Err (PTl EInvalidLength) else   (* negative count *)
  dec_msgs (S (length b2)) n b2.

(* ---------- rpc_result ---------- *)
Definition encode_result (id : Z) (body : list Z) : list Z :=
  encode_uint32 c_ResultTypeID ++ encode_long id ++ body.
(* Result takes everything that is left; the buffer ends up empty *)
Definition decode_result (b : list Z) : res p_err (Z * list Z * list Z) :=
  do b1 <- wrapT (consume_id c_ResultTypeID b);
  do (id, b2) <- wrapT (decode_long b1);
  do rest <- go_slice b2 (len b2) (len b2);      (* b.Skip(len(b.Buf)) *)
  Ok (id, b2, rest).

(* ---------- unencrypted message ---------- *)
Definition encode_unencrypted (id : Z) (data : list Z) : list Z :=
  encode_long 0 ++ encode_long id ++ encode_int32 (len data) ++ data.
Definition decode_unencrypted (b : list Z) : res p_err (Z * list Z * list Z) :=
  do (ak, b) <- wrapT (decode_long b);
  if negb (ak =? 0) then Err PAuthKey else
  do (id, b) <- wrapT (decode_long b);
  do (dl, b) <- wrapT (decode_int32 b);
  if dl <? 0 then Err (PTl EInvalidLength) else
  if dl >? len b then Err (PTl EEOF) else
  do (data, b) <- wrapT (take dl b);
  Ok (id, data, b).

(* ---------- gzip ---------- *)
(* firstn with a Z count (structural on the list: the limit is never turned into a unary number) *)
Fixpoint take_z (n : Z) (l : list Z) : list Z :=
  match l with
  | [] => []
  | x :: t => if n <=? 0 then [] else x :: take_z (n - 1) t
  end.

Section Gzip.
  Variable gzip : list Z -> list Z.
  Variable gz_head : list Z -> bool.
  Variable gz_stream : list Z -> list Z * bool.

  Definition encode_gzip (data : list Z) : list Z :=
    encode_uint32 c_GZIPTypeID ++ encode_bytes (gzip data).

  (* the LimitReader argument is generated from the source (limit_reader_arg_go).
     what io.ReadAll(countReader(LimitReader(r, max))) returns: data and whether a
     decompression error was seen (it is not seen once the limit cut the stream) *)
  Definition gzip_read (buf : list Z) : list Z * bool :=
    let '(stream, serr) := gz_stream buf in
    (take_z limit_reader_arg_go stream, serr && (len stream <? limit_reader_arg_go)).

  Definition gzip_outcome (head_ok : bool) (data : list Z) (err_seen : bool) : res p_err (list Z) :=
    if negb head_ok then Err PGzipHeader
    else if err_seen then Err PDecompress
    else if gzip_bomb_go (len data) then Err PBomb
    else Ok data.

  Definition decode_gzip (b : list Z) : res p_err (list Z * list Z) :=
    do b1 <- wrapT (consume_id c_GZIPTypeID b);
    do (buf, b2) <- wrapT (decode_bytes b1);
    let '(data, err_seen) := gzip_read buf in
    do d <- gzip_outcome (gz_head buf) data err_seen; Ok (d, b2).
End Gzip.

(* status codes shared with the checker: outcome as a function of the lengths only *)
Definition p_err_code (e : p_err) : Z :=
  match e with
  | PTl EEOF => 1 | PTl EInvalidLength => 2 | PTl EUnexpectedID => 3
  | PMsgLen => 4 | PAuthKey => 5 | PGzipHeader => 6 | PDecompress => 7 | PBomb => 8 | POutOfFuel => 99
  end.
Definition res_code {A} (r : res p_err A) : Z :=
  match r with Ok _ => 0 | Err e => p_err_code e | Panic => 9 end.
Definition gzip_status (head_ok : bool) (data_len : Z) (err_seen : bool) : Z :=
  if negb head_ok then 6 else if err_seen then 7 else if gzip_bomb_go data_len then 8 else 0.

(* GZIP.Decode status as a function of what the decompressor reports, lengths only (used by
   the checker for payloads too large to be written out; Proof.ProtoMsg.decode_gzip_code_agrees
   shows it equals the status of decode_gzip) *)
Definition decode_gzip_code (head_ok : bool) (stream_len : Z) (serr : bool) (b : list Z) : Z :=
  match wrapT (consume_id c_GZIPTypeID b) with
  | Ok b1 =>
    match wrapT (decode_bytes b1) with
    | Ok (_, _) => gzip_status head_ok (Z.min c_maxUncompressedSize stream_len) (serr && (stream_len <? c_maxUncompressedSize))
    | Err e => p_err_code e
    | Panic => 9
    end
  | Err e => p_err_code e
  | Panic => 9
  end.

(* ---------- decoding into a previously used (dirty) value ----------
   The receivers of Decode are long-lived in read loops. [old] is what the receiver held
   before the call. append(old[:0], x...) keeps nothing of old; copy(target, src) overwrites
   only the first min(len target, len src) elements of target. *)
Definition go_reset_append {A} (old x : list A) : list A := firstn 0 old ++ x.
Definition go_copy (target src : list Z) : list Z :=
  firstn (length target) src ++ skipn (length src) target.

(* UnencryptedMessage.Decode: u.MessageData = append(u.MessageData[:0], make([]byte, dataLen)...);
   b.ConsumeN(u.MessageData, dataLen) *)
Definition decode_unencrypted_into (old : list Z) (b : list Z) : res p_err (Z * list Z * list Z) :=
  do (ak, b) <- wrapT (decode_long b);
  if negb (ak =? 0) then Err PAuthKey else
  do (id, b) <- wrapT (decode_long b);
  do (dl, b) <- wrapT (decode_int32 b);
  if dl <? 0 then Err (PTl EInvalidLength) else
  if dl >? len b then Err (PTl EEOF) else
  let target := go_reset_append old (zeros dl) in
  do (p, b) <- wrapT (take dl b);
  Ok (id, go_copy target p, b).

(* Result.Decode: r.Result = append(r.Result[:0], b.Buf...) *)
Definition decode_result_into (old : list Z) (b : list Z) : res p_err (Z * list Z * list Z) :=
  do b1 <- wrapT (consume_id c_ResultTypeID b);
  do (id, b2) <- wrapT (decode_long b1);
  do rest <- go_slice b2 (len b2) (len b2);
  Ok (id, go_reset_append old b2, rest).

(* MessageContainer.Decode: m.Messages = m.Messages[:0]; ... m.Messages = append(m.Messages, msg) *)
Definition decode_container_into (old : list msg) (b : list Z) : res p_err (list msg * list Z) :=
  do b1 <- wrapT (consume_id c_MessageContainerTypeID b);
  do (n, b2) <- wrapT (decode_int b1);
  if container_count_bad_go n then Err (PTl EInvalidLength) else
  do (ms, b3) <- dec_msgs (S (length b2)) n b2;
  Ok (go_reset_append old [] ++ ms, b3).
