(* Model of telegram/downloader: reader.nextPlain, stream, parallel (C33).  Definitions only.

   The remote file is a byte list; an honest schema answers Chunk(offset, limit) with
   file[offset : min(offset+limit, size)] and a type tag.  Retries (FLOOD_WAIT, retryable
   timeouts) re-issue the same request, so in the model a fetch is a function of the offset;
   the retry pattern is an input of the stream model and a stuttering event of the parallel
   model. *)
From Coq Require Import Arith List Bool.
Import ListNotations.

Definition serve {B} (file : list B) (off limit : nat) : list B := firstn limit (skipn off file).

(* block.last(): len(data) < partSize *)
Definition is_last {B} (p : nat) (data : list B) : bool := Nat.ltb (length data) p.

(* ---------- reader.next with retries ---------- *)
(* answers of the schema to one Chunk call: true = FLOOD_WAIT / retryable timeout (retry),
   false = success.  [None] = the environment ran out (not a behaviour of the code). *)
Fixpoint fetch_retry (env : list bool) : option (list bool * nat) :=
  match env with
  | [] => None
  | false :: e => Some (e, O)
  | true :: e => match fetch_retry e with Some (e', n) => Some (e', S n) | None => None end
  end.

(* Chunks are abstract: [C] with "is empty" and "is shorter than the part size" (block.last()).
   The theorems use C = byte lists cut from the file; the differential run uses lengths. *)
Definition blk {B} (file : list B) (p : nat) (i : nat) : list B := serve file (i * p) p.
Definition lempty {B} (c : list B) : bool := match c with [] => true | _ => false end.

(* ---------- stream ---------- *)
Inductive stream_result (C T : Type) :=
| SDone (written : list C) (typ : T)
        (offsets : list nat)     (* block indices (offset / partSize) handed out by nextPlain, in order *)
        (requests : list nat)    (* block indices of the Chunk calls, retries included *)
| SEnv (written : list C).
Arguments SDone {C T}. Arguments SEnv {C T}.

(* the download loop of stream(): Next, stop on an empty chunk, write, stop on a short chunk *)
(* [tag i]: the type the schema attaches to its answer for block i (an honest server uses one type) *)
Fixpoint stream_loop {C T} (get : nat -> C) (cempty clast : C -> bool) (tag : nat -> T)
         (fuel : nat) (i : nat) (env : list bool) : stream_result C T :=
  match fuel with
  | O => SEnv []
  | S f =>
      match fetch_retry env with
      | None => SEnv []
      | Some (env', retries) =>
          let reqs := repeat i (S retries) in
          let data := get i in
          if cempty data then SDone [] (tag i) [i] reqs
          else if clast data then SDone [data] (tag i) [i] reqs
          else match stream_loop get cempty clast tag f (S i) env' with
               | SDone w t o r => SDone (data :: w) t (i :: o) (reqs ++ r)
               | SEnv w => SEnv (data :: w)
               end
      end
  end.

(* ---------- parallel ---------- *)
(* Blocks are identified by their index i (offset i*p). *)
(* a download goroutine: at the top of its loop / passed the ready check / has fetched block i /
   has put block i into toWrite / returned *)
Inductive wstate := WIdle | WGo | WHold (i : nat) | WSent (i : nat) | WExit.

Inductive pevent :=
| PCheck (w : nat)    (* select on ready at the top of the loop: leave if signalled *)
| PAlloc (w : nat)    (* r.Next: nextPlain hands out the next offset (and the chunk is fetched) *)
| PRetry (w : nat)    (* a FLOOD_WAIT / timeout inside the fetch: same request again *)
| PSend (w : nat)     (* worker w looks at its block: empty -> stop, return; else toWrite <- b *)
| PAfter (w : nat)    (* after the send: b.last() -> stop, return; else next iteration *)
| PWrite.             (* the write loop takes one block and calls WriteAt *)

Record pstate (T : Type) := {
  p_next : nat;                 (* reader.offset / partSize *)
  p_workers : list wstate;
  p_ready : bool;               (* tdsync.Ready signalled *)
  p_typ : option T;             (* typ, set once *)
  p_queue : list nat;           (* toWrite *)
  p_written : list nat          (* WriteAt calls, in order *)
}.
Arguments p_next {T}. Arguments p_workers {T}. Arguments p_ready {T}. Arguments p_typ {T}.
Arguments p_queue {T}. Arguments p_written {T}.

Definition p_init (T : Type) (threads : nat) : pstate T :=
  {| p_next := 0; p_workers := repeat WIdle threads; p_ready := false; p_typ := None; p_queue := []; p_written := [] |}.

Fixpoint set_nth {B} (i : nat) (x : B) (l : list B) : list B :=
  match l, i with
  | [], _ => []
  | _ :: t, O => x :: t
  | y :: t, S j => y :: set_nth j x t
  end.

Section Par.
Context {T : Type}.
Variable bempty blast : nat -> bool.   (* block i is empty / shorter than the part size *)
Variable tag : nat -> T.               (* type attached to the answer for block i *)
Variable threads : nat.

(* stop(b.tag): typOnce keeps the FIRST type *)
Definition p_stop (i : nat) (s : pstate T) (ws : list wstate) (q : list nat) : pstate T :=
  {| p_next := p_next s; p_workers := ws; p_ready := true;
     p_typ := match p_typ s with Some t => Some t | None => Some (tag i) end;
     p_queue := q; p_written := p_written s |}.

Definition p_set (s : pstate T) (nx : nat) (ws : list wstate) (q : list nat) : pstate T :=
  {| p_next := nx; p_workers := ws; p_ready := p_ready s; p_typ := p_typ s; p_queue := q; p_written := p_written s |}.

Definition p_step (s : pstate T) (e : pevent) : pstate T :=
  match e with
  | PCheck w =>
      match nth_error (p_workers s) w with
      | Some WIdle =>
          if p_ready s then p_set s (p_next s) (set_nth w WExit (p_workers s)) (p_queue s)
          else p_set s (p_next s) (set_nth w WGo (p_workers s)) (p_queue s)
      | _ => s
      end
  | PAlloc w =>
      match nth_error (p_workers s) w with
      | Some WGo => p_set s (S (p_next s)) (set_nth w (WHold (p_next s)) (p_workers s)) (p_queue s)
      | _ => s
      end
  | PRetry _ => s
  | PSend w =>
      match nth_error (p_workers s) w with
      | Some (WHold i) =>
          if bempty i then p_stop i s (set_nth w WExit (p_workers s)) (p_queue s)
          else if Nat.ltb (length (p_queue s)) threads then
            p_set s (p_next s) (set_nth w (WSent i) (p_workers s)) (p_queue s ++ [i])
          else s
      | _ => s
      end
  | PAfter w =>
      match nth_error (p_workers s) w with
      | Some (WSent i) =>
          if blast i then p_stop i s (set_nth w WExit (p_workers s)) (p_queue s)
          else p_set s (p_next s) (set_nth w WIdle (p_workers s)) (p_queue s)
      | _ => s
      end
  | PWrite =>
      match p_queue s with
      | i :: q => {| p_next := p_next s; p_workers := p_workers s; p_ready := p_ready s; p_typ := p_typ s;
                     p_queue := q; p_written := p_written s ++ [i] |}
      | [] => s
      end
  end.

Definition p_run (s : pstate T) (evs : list pevent) : pstate T := fold_left p_step evs s.

(* g.Wait() returned nil: all download goroutines left, channel closed and drained *)
Definition p_terminal (s : pstate T) : bool :=
  forallb (fun w => match w with WExit => true | _ => false end) (p_workers s) &&
  match p_queue s with [] => true | _ => false end.
End Par.

(* ---------- the output: io.WriterAt as a sparse buffer ---------- *)
Definition wbuf (B : Type) := nat -> option B.
Definition wempty {B} : wbuf B := fun _ => None.
Definition write_at {B} (f : wbuf B) (off : nat) (data : list B) : wbuf B :=
  fun x => if Nat.leb off x && Nat.ltb x (off + length data) then nth_error data (x - off) else f x.
