(* Model of telegram/updates: sequenceBox (sequence_box.go), gapBuffer (gap_buffer.go),
   checkGap (gap_check.go, GENERATED: Gen/GapCheck.v).  Definitions only (C01; reused by
   Model/UpdMgr.v for C02/C03).

   A box is {state; gaps; pending}.  The gap timer object is not part of the model (its
   firing is an operation of the caller: ClearGaps + SetState = a fetched difference).
   The apply callback is assumed to return nil (the recording callback of the harness,
   applyPts, applyQts and channel applyPts always do); its invocation is the event
   [Dlv newstate updates]. *)
From Coq Require Import ZArith List Bool.
From TD Require Import Gen.GapCheck.
Import ListNotations.
Open Scope Z_scope.

Record upd := { uid : Z; ust : Z; ucnt : Z }.
Definition ustart (u : upd) : Z := ust u - ucnt u.      (* update.start() *)
Definition uend (u : upd) : Z := ust u.                 (* update.end()   *)

Record box := { bstate : Z; bgaps : list (Z * Z); bpending : list upd }.
Definition box_init (s : Z) : box := {| bstate := s; bgaps := []; bpending := [] |}.

(* events produced by a box operation *)
Inductive bev :=
| Dlv (st : Z) (us : list upd)      (* s.apply(ctx, st, us) *)
| Pnc.                              (* panic("unreachable") *)

(* ---- gapBuffer.Consume ----
   for i, g := range b.gaps { if g.from <= start && g.to >= end {
       if g.from < start { append {g.from,start} }; if g.to > end { append {end,g.to} }
       b.gaps = append(b.gaps[:i], b.gaps[i+1:]...); return true } }; return false *)
Definition gap_hit (g : Z * Z) (u : upd) : bool :=
  (fst g <=? ustart u) && (snd g >=? uend u).
Definition gap_split (g : Z * Z) (u : upd) : list (Z * Z) :=
  (if fst g <? ustart u then [(fst g, ustart u)] else []) ++
  (if snd g >? uend u then [(uend u, snd g)] else []).
Fixpoint find_gap (u : upd) (i : nat) (gs : list (Z * Z)) : option (nat * (Z * Z)) :=
  match gs with
  | [] => None
  | g :: t => if gap_hit g u then Some (i, g) else find_gap u (S i) t
  end.
Definition remove_at {A} (i : nat) (l : list A) : list A := firstn i l ++ skipn (S i) l.
Definition consume (gs : list (Z * Z)) (u : upd) : list (Z * Z) * bool :=
  match find_gap u 0%nat gs with
  | None => (gs, false)
  | Some (i, g) => (remove_at i (gs ++ gap_split g u), true)
  end.

(* ---- sort.SliceStable(pending, start(i) < start(j)) : stable insertion sort ---- *)
Fixpoint ins_by_start (u : upd) (l : list upd) : list upd :=
  match l with
  | [] => [u]
  | v :: t => if ustart u <? ustart v then u :: v :: t else v :: ins_by_start u t
  end.
Definition sort_by_start (l : list upd) : list upd :=
  fold_left (fun acc u => ins_by_start u acc) l [].

(* ---- the loop of applyPending ----
   returns (running state, accepted, cursor); cursor = (index of the last element that hit
   gapApply/gapIgnore) + 1, or 0.  A result outside the three constants falls through the
   Go switch: next iteration, cursor unchanged. *)
Fixpoint walk (st : Z) (l : list upd) : Z * list upd * nat :=
  match l with
  | [] => (st, [], 0%nat)
  | u :: t =>
    let r := check_gap_go st (ust u) (ucnt u) in
    if r =? c_gapApply then
      let '(s', acc, c) := walk (ust u) t in (s', u :: acc, S c)
    else if r =? c_gapIgnore then
      let '(s', acc, c) := walk st t in (s', acc, S c)
    else if r =? c_gapRefetch then (st, [], 0%nat)
    else
      let '(s', acc, c) := walk st t in (s', acc, match c with O => O | _ => S c end)
  end.

(* applyPending on (state, gaps, pending) *)
Definition apply_pending (b : box) : box * list bev :=
  let sorted := sort_by_start (bpending b) in
  let '(st', acc, cursor) := walk (bstate b) sorted in
  let rest := skipn cursor sorted in
  match acc with
  | [] => ({| bstate := bstate b; bgaps := bgaps b; bpending := rest |}, [])
  | _ => ({| bstate := st'; bgaps := bgaps b; bpending := rest |}, [Dlv st' acc])
  end.

Definition consume_all (gs : list (Z * Z)) (l : list upd) : list (Z * Z) :=
  fold_left (fun g u => fst (consume g u)) l gs.

(* sequenceBox.Handle *)
Definition handle (b : box) (u : upd) : box * list bev :=
  let r := check_gap_go (bstate b) (ust u) (ucnt u) in
  if r =? c_gapIgnore then (b, [])
  else
    match bgaps b with
    | _ :: _ =>
      let pend := bpending b ++ [u] in
      let '(gs, accepted) := consume (bgaps b) u in
      let b1 := {| bstate := bstate b; bgaps := gs; bpending := pend |} in
      if negb accepted then (b1, [])
      else match gs with
           | [] => apply_pending b1
           | _ => (b1, [])
           end
    | [] =>
      if r =? c_gapApply then
        match bpending b with
        | _ :: _ => apply_pending {| bstate := bstate b; bgaps := []; bpending := bpending b ++ [u] |}
        | [] => ({| bstate := ust u; bgaps := []; bpending := [] |}, [Dlv (ust u) [u]])
        end
      else if r =? c_gapRefetch then
        let pend := bpending b ++ [u] in
        let gs := consume_all [(bstate b, ustart u)] pend in
        let b1 := {| bstate := bstate b; bgaps := gs; bpending := pend |} in
        match gs with
        | [] => apply_pending b1
        | _ => (b1, [])
        end
      else (b, [Pnc])
    end.

(* operations the callers perform on a box *)
Inductive op :=
| Handle (u : upd)
| SetState (z : Z)       (* sequenceBox.SetState *)
| ClearGaps.             (* s.gaps.Clear() at the start of getDifference *)

Definition step (b : box) (o : op) : box * list bev :=
  match o with
  | Handle u => handle b u
  | SetState z => ({| bstate := z; bgaps := bgaps b; bpending := bpending b |}, [])
  | ClearGaps => ({| bstate := bstate b; bgaps := []; bpending := bpending b |}, [])
  end.

(* one record per operation: (box before, op, box after, events) *)
Fixpoint run (b : box) (ops : list op) : list (box * op * box * list bev) :=
  match ops with
  | [] => []
  | o :: t => let '(b', evs) := step b o in (b, o, b', evs) :: run b' t
  end.
Definition final (b : box) (ops : list op) : box :=
  fold_left (fun b o => fst (step b o)) ops b.

(* flat trace: every delivered update and every SetState in order *)
Inductive fev := FD (u : upd) | FS (z : Z).
Definition flat_evs (evs : list bev) : list fev :=
  flat_map (fun e => match e with Dlv _ us => map FD us | Pnc => [] end) evs.
Definition flat_step (o : op) (evs : list bev) : list fev :=
  match o with SetState z => [FS z] | _ => flat_evs evs end.
Definition flat_trace (b : box) (ops : list op) : list fev :=
  flat_map (fun r => let '(_, o, _, evs) := r in flat_step o evs) (run b ops).

(* a chain: consecutive updates from position s to position e *)
Fixpoint chain (s : Z) (us : list upd) (e : Z) : Prop :=
  match us with
  | [] => s = e
  | u :: t => ustart u = s /\ chain (uend u) t e
  end.
