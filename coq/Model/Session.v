(* C30 -- what telegram.Client persists on session notifications
   (/repo/telegram/session.go: onSession, onCDNSession, saveSession, dcSessionFromMTProto,
   restoreConnection; /repo/pool/session.go: SyncSession.Migrate).  Definitions only.

   The guards are not transcribed by hand: [ignore_non_primary], [save_uses_perm],
   [mem_uses_perm] and [restore_dc_missing] are regenerated from the source by xlate on
   every run (Gen/SessionGuard.v).

   A notification is what manager.Conn hands to the client handler: which handler
   (regular connections -- primary and non-primary DC share clientHandler -- or CDN),
   cfg.ThisDC (what the SERVER reported in help.getConfig; for CDN connections the
   connection's own DC), and the mtproto.Session (Key, PermKey -- non-zero only under
   PFS --, Salt).  Keys are abstract ([K] with a zero test and a validity test
   "ID = sha1(Value)[12..20]"); the byte-level key-id check is [restore_bytes] below. *)
From Coq Require Import List ZArith Bool.
From TD Require Import Lib.GoSem Gen.SessionGuard.
Import ListNotations.
Open Scope Z_scope.

Section Session.
  Context {K : Type}.
  Variable kzero : K -> bool.      (* crypto.AuthKey.Zero *)
  Variable kvalid : K -> bool.     (* key.Value.ID() == key.ID *)
  Variable k0 : K.                 (* crypto.AuthKey{} *)

  Inductive handler := HRegular | HCdn.
  (* [n_dc] is cfg.ThisDC as the SERVER reported it -- all the code sees.  [n_conn] (the DC of
     the connection the notification really came from) and [n_pfs] (the connection runs with
     PFS) are ghost fields: no definition below reads them; the theorems use them to say
     "a connection to that same DC" and "permanent key under PFS". *)
  Record notif := mkNotif { n_h : handler; n_dc : Z; n_conn : Z; n_key : K; n_perm : K; n_salt : Z; n_pfs : bool }.
  (* the server reports its own DC *)
  Definition honest (n : notif) : Prop := n_dc n = n_conn n.
  (* environment fact (mtproto/conn.go session(), options.go: PermKey := Key when PFS is enabled
     and only Key is given; the exchange fills permKey before the first notification): a PFS
     connection notifies with a non-zero PermKey *)
  Definition pfs_has_perm (n : notif) : Prop := n_pfs n = true -> kzero (n_perm n) = false.
  Record sess := mkSess { s_dc : Z; s_key : K; s_salt : Z }.

  Inductive event :=
  | ENotify (n : notif)       (* handler.OnSession(cfg, s) *)
  | ENotifyMig (n : notif) (dc : Z)
                              (* the same, with a concurrent c.session.Migrate(dc) (invokeMigrate / MigrateTo of
                                 another goroutine) landing inside it: after onSession stored the session under
                                 connMux and before saveSession has written the record *)
  | EMigrate (dc : Z)         (* c.session.Migrate(dc) of migrateToDc *)
  | ERestore.                 (* restoreConnection from the current storage content *)

  Record state := mkState {
    cur : sess;                       (* c.session: the primary session *)
    stored : option sess;             (* session.Storage: DC, AuthKey(+ID), Salt *)
    regs : list (Z * sess);           (* c.sessions *)
    cdns : list (Z * sess)            (* c.cdnSessions *)
  }.

  (* dcSessionFromMTProto / saveSession key choice *)
  Definition mem_key (n : notif) : K := if mem_uses_perm (kzero (n_perm n)) then n_perm n else n_key n.
  Definition save_key (n : notif) : K := if save_uses_perm (kzero (n_perm n)) then n_perm n else n_key n.

  Fixpoint put (dc : Z) (s : sess) (l : list (Z * sess)) : list (Z * sess) :=
    match l with
    | [] => [(dc, s)]
    | (d, x) :: t => if d =? dc then (d, s) :: t else (d, x) :: put dc s t
    end.

  (* onSession / onCDNSession: new state and what was written to the storage, if anything *)
  Definition on_session (st : state) (n : notif) : state * option sess :=
    let sd := mkSess (n_dc n) (mem_key n) (n_salt n) in
    match n_h n with
    | HCdn => (mkState (cur st) (stored st) (regs st) (put (n_dc n) sd (cdns st)), None)
    | HRegular =>
        let regs' := put (n_dc n) sd (regs st) in
        if ignore_non_primary (n_dc n) (s_dc (cur st))
        then (mkState (cur st) (stored st) regs' (cdns st), None)
        else let sv := mkSess (n_dc n) (save_key n) (n_salt n) in
             (mkState sd (Some sv) regs' (cdns st), Some sv)
    end.

  Definition migrate (st : state) (dc : Z) : state :=
    mkState (mkSess dc k0 0) (stored st) (regs st) (cdns st).

  (* restoreConnection at the key level: Err = "corrupted key" *)
  Definition restore (st : state) : res unit state :=
    match stored st with
    | None => Ok st                                  (* session.ErrNotFound: nothing to do *)
    | Some sv =>
        if kvalid (s_key sv)
        then let dc := if restore_dc_missing (s_dc sv) then s_dc (cur st) else s_dc sv in
             Ok (mkState (mkSess dc (s_key sv) (s_salt sv)) (stored st) (regs st) (cdns st))
        else Err tt
    end.

  (* one event: new state, what was saved, whether the call returned an error *)
  Definition step (st : state) (e : event) : state * option sess * bool :=
    match e with
    | ENotify n => let '(st', sv) := on_session st n in (st', sv, false)
    | ENotifyMig n dc =>
        (* saveSession takes DC, key and salt from what came with the notification (cfg, s), not from
           the in-memory primary session: the record is unaffected; only c.session moves on *)
        let '(st', sv) := on_session st n in
        match sv with
        | Some _ => (migrate st' dc, sv, false)
        | None => (st', None, false)           (* ignored notification: saveSession is not reached *)
        end
    | EMigrate dc => (migrate st dc, None, false)
    | ERestore => match restore st with Ok st' => (st', None, false) | _ => (st, None, true) end
    end.

  Fixpoint run (st : state) (h : list event) : state * list (option sess) :=
    match h with
    | [] => (st, [])
    | e :: t => let '(st', sv, _) := step st e in
                let '(st'', out) := run st' t in (st'', sv :: out)
    end.

  Definition ev_notif (e : event) : option notif :=
    match e with ENotify n | ENotifyMig n _ => Some n | _ => None end.

  Definition init (dc : Z) : state := mkState (mkSess dc k0 0) None [] [].
End Session.

Arguments mkNotif {K}.
Arguments mkSess {K}.
Arguments ENotify {K}.
Arguments ENotifyMig {K}.
Arguments EMigrate {K}.
Arguments ERestore {K}.
Arguments mkState {K}.

(* ---- restoreConnection at the byte level: copy into [256]byte / [8]byte, then compare
   the key id.  [key_id] = sha1(.)[12..20], abstract here. ---- *)
Section RestoreBytes.
  Variable key_id : list Z -> list Z.

  (* Go: var a [n]byte; copy(a[:], src) *)
  Definition copy_into (n : nat) (src : list Z) : list Z := firstn n (src ++ repeat 0 n).

  Fixpoint zlist_eqb (a b : list Z) : bool :=
    match a, b with
    | [], [] => true
    | x :: a', y :: b' => (x =? y) && zlist_eqb a' b'
    | _, _ => false
    end.

  Record stored_bytes := mkStored { b_dc : Z; b_key : list Z; b_id : list Z; b_salt : Z }.

  (* result: (DC, key value, key id, salt) of the session the client will use *)
  Definition restore_bytes (prev_dc : Z) (d : stored_bytes) : res unit (Z * list Z * list Z * Z) :=
    let dc := if restore_dc_missing (b_dc d) then prev_dc else b_dc d in
    let kv := copy_into 256 (b_key d) in
    let kid := copy_into 8 (b_id d) in
    if zlist_eqb (key_id kv) kid then Ok (dc, kv, kid, b_salt d) else Err tt.
End RestoreBytes.
