(* Model of telegram/query/messages/iter.go and telegram/query/dialogs/iter.go (C39).
   Definitions only.

   Server side (the "server history" of the property): a list of items in server order,
   strictly descending in the pagination key.  A query (offset, limit) returns the next
   [limit] items below the offset, wrapped in one of the paginated response kinds, with a
   [count] field the server is free to fill as it likes.

   Client side: the iterator state machine exactly as in the Go code: [apply] (offset
   update, lastBatch, buffer refill), [bufNext], [Next].  [Value] is the buffer element
   under the cursor.  Query errors / *NotModified answers are not modelled (they end the
   iteration with Err set; the property is about successful iteration). *)
From Coq Require Import ZArith List Bool.
Import ListNotations.
Open Scope Z_scope.

Definition zlen {A} (l : list A) : Z := Z.of_nat (length l).

(* ------------------------------------------------------------------------------ *)
(* Messages                                                                       *)
(* ------------------------------------------------------------------------------ *)

Inductive mkind := KMessages | KSlice | KChannel.

Record mresp := { mr_kind : mkind; mr_msgs : list Z; mr_count : Z }.

(* a server is any function from (offset_id, limit) to a response *)
Definition mserver := Z -> Z -> mresp.

Record mstate := {
  m_buf : list Z;       (* buffered message ids *)
  m_cur : Z;            (* bufCur *)
  m_last : bool;        (* lastBatch *)
  m_off : Z;            (* offsetID *)
  m_count : Z;          (* count *)
  m_got : bool          (* totalGot *)
}.

Definition m_init : mstate :=
  {| m_buf := []; m_cur := -1; m_last := false; m_off := 0; m_count := 0; m_got := false |}.

(* messages.SortStable(func(a, b) bool { return a.GetID() > b.GetID() }): stable insertion *)
Fixpoint ins_desc (x : Z) (l : list Z) : list Z :=
  match l with
  | [] => [x]
  | y :: t => if x >? y then x :: y :: t else y :: ins_desc x t
  end.
Definition sort_desc (l : list Z) : list Z := fold_right ins_desc [] l.

(* Iterator.apply *)
Definition m_apply (limit : Z) (r : mresp) (s : mstate) : mstate :=
  if m_last s then s else
  let msgs := mr_msgs r in
  let cnt := match mr_kind r with KMessages => zlen msgs | _ => mr_count r end in
  let lb := match mr_kind r with KMessages => true | _ => zlen msgs <? limit end in
  let sorted := sort_desc msgs in
  match sorted with
  | [] => (* messages.Last() failed: lastBatch = true, buffer and cursor untouched *)
      {| m_buf := m_buf s; m_cur := m_cur s; m_last := true; m_off := m_off s;
         m_count := cnt; m_got := true |}
  | _ :: _ =>
      {| m_buf := sorted; m_cur := -1; m_last := lb; m_off := last sorted 0;
         m_count := cnt; m_got := true |}
  end.

(* Iterator.bufNext *)
Definition m_bufnext (s : mstate) : option mstate :=
  if zlen (m_buf s) - 1 <=? m_cur s then None
  else Some {| m_buf := m_buf s; m_cur := m_cur s + 1; m_last := m_last s; m_off := m_off s;
               m_count := m_count s; m_got := m_got s |}.

(* Iterator.Next: result, new state, and the query issued (offset) if any *)
Definition m_next (srv : mserver) (limit : Z) (s : mstate) : bool * mstate * option Z :=
  match m_bufnext s with
  | Some s' => (true, s', None)
  | None =>
      let s1 := m_apply limit (srv (m_off s) limit) s in
      match m_bufnext s1 with
      | Some s2 => (true, s2, Some (m_off s))
      | None => (false, s1, Some (m_off s))
      end
  end.

(* Iterator.Value *)
Definition m_value (s : mstate) : Z := nth (Z.to_nat (m_cur s)) (m_buf s) 0.

(* for it.Next(ctx) { out = append(out, it.Value()) } with at most [fuel] calls of Next.
   Result: yielded ids, offsets of the queries issued, final state, finished flag
   (false = out of fuel). *)
Fixpoint m_iterate (srv : mserver) (limit : Z) (fuel : nat) (s : mstate)
  : list Z * list Z * mstate * bool :=
  match fuel with
  | O => ([], [], s, false)
  | S f =>
      let '(b, s', q) := m_next srv limit s in
      let qs := match q with Some o => [o] | None => [] end in
      if b then
        let '(ys, os, sf, fin) := m_iterate srv limit f s' in
        (m_value s' :: ys, qs ++ os, sf, fin)
      else ([], qs, s', true)
  end.

(* [n] further calls of Next on a state: are they all false? *)
Fixpoint m_all_false (srv : mserver) (limit : Z) (n : nat) (s : mstate) : bool :=
  match n with
  | O => true
  | S k => let '(b, s', _) := m_next srv limit s in negb b && m_all_false srv limit k s'
  end.

(* Iterator.FetchTotal: a probe query (offset 0, limit 1) whose answer only updates count/totalGot.
   Iterator.Total: the cached count once some answer was seen, else FetchTotal.
   Result: the count returned, the new state, the probe query (offset) if one was sent. *)
Definition m_fetch_total (srv : mserver) (s : mstate) : Z * mstate * option Z :=
  let r := srv 0 1 in
  let cnt := match mr_kind r with KMessages => zlen (mr_msgs r) | _ => mr_count r end in
  (cnt, {| m_buf := m_buf s; m_cur := m_cur s; m_last := m_last s; m_off := m_off s; m_count := cnt; m_got := true |}, Some 0).
Definition m_total (srv : mserver) (s : mstate) : Z * mstate * option Z :=
  if m_got s then (m_count s, s, None) else m_fetch_total srv s.

(* a loop "for it.Next()" in which Total (kind 0) / FetchTotal (kind 1) is called before the Next call
   number [pos] for every (pos, kind) of [calls] (and after the loop for pos = fuel of the last call).
   Result as m_iterate, plus the counts returned. *)
Definition m_do_calls (srv : mserver) (calls : list (nat * Z)) (n : nat) (s : mstate) : list Z * list Z * mstate :=
  fold_left (fun acc c =>
               let '(cs, qs, st) := acc in
               if Nat.eqb (fst c) n then
                 let '(cnt, st', q) := if snd c =? 0 then m_total srv st else m_fetch_total srv st in
                 (cs ++ [cnt], qs ++ match q with Some o => [o] | None => [] end, st')
               else acc) calls ([], [], s).

Fixpoint m_iterate_t (srv : mserver) (limit : Z) (calls : list (nat * Z)) (fuel : nat) (n : nat) (s : mstate)
  : list Z * list Z * list Z * mstate * bool :=   (* yielded, queries, counts, final state, finished *)
  let '(cs0, q0, s0) := m_do_calls srv calls n s in
  match fuel with
  | O => ([], q0, cs0, s0, false)
  | S f =>
      let '(b, s', q) := m_next srv limit s0 in
      let qs := q0 ++ match q with Some o => [o] | None => [] end in
      if b then
        let '(ys, os, cs, sf, fin) := m_iterate_t srv limit calls f (S n) s' in
        (m_value s' :: ys, qs ++ os, cs0 ++ cs, sf, fin)
      else
        (* calls scheduled "after the end" (position > number of Next calls made) happen now *)
        let '(cs1, q1, s1) := fold_left (fun acc c =>
               let '(cs, qs', st) := acc in
               if Nat.ltb n (fst c) then
                 let '(cnt, st', q') := if snd c =? 0 then m_total srv st else m_fetch_total srv st in
                 (cs ++ [cnt], qs' ++ match q' with Some o => [o] | None => [] end, st')
               else acc) calls ([], [], s') in
        ([], qs ++ q1, cs0 ++ cs1, s1, true)
  end.

(* The server of the property: history [h] (strictly descending positive ids); offset 0 =
   from the top, otherwise ids below the offset; at most [limit] items. *)
Definition m_below (off : Z) (h : list Z) : list Z :=
  if off =? 0 then h else filter (fun x => x <? off) h.
Definition m_page (h : list Z) (off limit : Z) : list Z := firstn (Z.to_nat limit) (m_below off h).
Definition m_complete (h : list Z) (off limit : Z) : bool := zlen (m_below off h) <=? limit.

(* Concrete server policies used by the differential run:
   0 slice always, 1 channelMessages always, 2 messages when the answer is the complete
   remainder else slice, 3 same with channelMessages, 4 messages ALWAYS (outside the
   contract: the iterator must treat messages.messages as the full list).
   [cnt] is the (possibly lying) count; [rv] = the server returns the page in ascending order. *)
Definition m_policy_server (h : list Z) (pol cnt : Z) (rv : bool) : mserver :=
  fun off limit =>
    let p := m_page h off limit in
    let full := m_complete h off limit in
    let k := if pol =? 0 then KSlice else if pol =? 1 then KChannel
             else if pol =? 2 then (if full then KMessages else KSlice)
             else if pol =? 3 then (if full then KMessages else KChannel)
             else KMessages in
    {| mr_kind := k; mr_msgs := if rv then rev p else p; mr_count := cnt |}.

(* ------------------------------------------------------------------------------ *)
(* Dialogs                                                                        *)
(* ------------------------------------------------------------------------------ *)

(* A dialog as the server orders it: by (date, top message id, peer) descending.  [d_has]
   says whether the response carries the dialog's top message as a non-empty message
   (otherwise the client cannot learn date/id of that dialog). *)
Record dlg := { d_date : Z; d_mid : Z; d_peer : Z; d_has : bool }.

Inductive dkind := DDialogs | DSlice.
Record dresp := { dr_kind : dkind; dr_dialogs : list dlg; dr_count : Z }.

(* (offset_date, offset_id, offset_peer, limit); peer 0 = inputPeerEmpty *)
Definition dserver := Z -> Z -> Z -> Z -> dresp.

Record dstate := {
  x_buf : list dlg; x_cur : Z; x_last : bool;
  x_od : Z; x_oi : Z; x_op : Z;
  x_count : Z
}.
Definition d_init : dstate :=
  {| x_buf := []; x_cur := -1; x_last := false; x_od := 0; x_oi := 0; x_op := 0; x_count := 0 |}.

Definition d_dummy : dlg := {| d_date := 0; d_mid := 0; d_peer := 0; d_has := false |}.

(* dialogs Iterator.apply.  len(messages) for the non-slice kind = number of dialogs that
   carry a message. *)
Definition d_apply (r : dresp) (s : dstate) : dstate :=
  if x_last s then s else
  let ds := dr_dialogs r in
  let lb := match dr_kind r with DDialogs => true | DSlice => zlen ds =? 0 end in
  let cnt := match dr_kind r with
             | DDialogs => zlen (filter d_has ds) | DSlice => dr_count r end in
  if negb lb && (0 <? zlen ds) then
    let l := last ds d_dummy in
    {| x_buf := ds; x_cur := -1; x_last := lb;
       x_od := if d_has l then d_date l else x_od s;
       x_oi := if d_has l then d_mid l else x_oi s;
       x_op := d_peer l; x_count := cnt |}
  else
    {| x_buf := ds; x_cur := -1; x_last := lb; x_od := x_od s; x_oi := x_oi s; x_op := x_op s;
       x_count := cnt |}.

Definition d_bufnext (s : dstate) : option dstate :=
  if zlen (x_buf s) - 1 <=? x_cur s then None
  else Some {| x_buf := x_buf s; x_cur := x_cur s + 1; x_last := x_last s;
               x_od := x_od s; x_oi := x_oi s; x_op := x_op s; x_count := x_count s |}.

Definition d_next (srv : dserver) (limit : Z) (s : dstate) : bool * dstate * option (Z * Z * Z) :=
  match d_bufnext s with
  | Some s' => (true, s', None)
  | None =>
      let q := (x_od s, x_oi s, x_op s) in
      let s1 := d_apply (srv (x_od s) (x_oi s) (x_op s) limit) s in
      match d_bufnext s1 with
      | Some s2 => (true, s2, Some q)
      | None => (false, s1, Some q)
      end
  end.

Definition d_value (s : dstate) : dlg := nth (Z.to_nat (x_cur s)) (x_buf s) d_dummy.

Fixpoint d_iterate (srv : dserver) (limit : Z) (fuel : nat) (s : dstate)
  : list dlg * list (Z * Z * Z) * dstate * bool :=
  match fuel with
  | O => ([], [], s, false)
  | S f =>
      let '(b, s', q) := d_next srv limit s in
      let qs := match q with Some o => [o] | None => [] end in
      if b then
        let '(ys, os, sf, fin) := d_iterate srv limit f s' in
        (d_value s' :: ys, qs ++ os, sf, fin)
      else ([], qs, s', true)
  end.

Fixpoint d_all_false (srv : dserver) (limit : Z) (n : nat) (s : dstate) : bool :=
  match n with
  | O => true
  | S k => let '(b, s', _) := d_next srv limit s in negb b && d_all_false srv limit k s'
  end.

(* server order: lexicographic on (date, id, peer) *)
Definition key_ltb (a : Z * Z * Z) (b : Z * Z * Z) : bool :=
  let '(ad, ai, ap) := a in let '(bd, bi, bp) := b in
  (ad <? bd) || ((ad =? bd) && ((ai <? bi) || ((ai =? bi) && (ap <? bp)))).
Definition d_key (d : dlg) : Z * Z * Z := (d_date d, d_mid d, d_peer d).

(* offset_date = 0 means "from the top" (dates of real dialogs are positive) *)
Definition d_below (od oi op : Z) (h : list dlg) : list dlg :=
  if od =? 0 then h else filter (fun d => key_ltb (d_key d) (od, oi, op)) h.
Definition d_page (h : list dlg) (od oi op limit : Z) : list dlg :=
  firstn (Z.to_nat limit) (d_below od oi op h).
Definition d_complete (h : list dlg) (od oi op limit : Z) : bool :=
  zlen (d_below od oi op h) <=? limit.

(* policies: 0 dialogsSlice always, 1 messages.dialogs when complete else slice,
   2 messages.dialogs always (outside the contract) *)
Definition d_policy_server (h : list dlg) (pol cnt : Z) : dserver :=
  fun od oi op limit =>
    let p := d_page h od oi op limit in
    let full := d_complete h od oi op limit in
    let k := if pol =? 0 then DSlice else if pol =? 1 then (if full then DDialogs else DSlice)
             else DDialogs in
    {| dr_kind := k; dr_dialogs := p; dr_count := cnt |}.
