(* Interleavings of the exchange over FIFO pipes (C09).  Client and server as sequential programs
   of sends and receives (contents abstracted), two unbounded FIFO queues; an event is one send
   or one receive of one side.  Definitions only. *)
From Coq Require Import List Bool Arith.
Import ListNotations.

Inductive ev := CSend | CRecv | SSend | SRecv.
(* client: send m1, recv m2, send m4, recv m5, send m6, recv m7   (even pc = send)
   server: recv m1, send m2, recv m4, send m5, recv m6, send m7   (even pc = recv) *)
Record ast := { cpc : nat; spc : nat; qcs : nat; qsc : nat }.
Definition prog_len : nat := 6.
Definition ainit : ast := {| cpc := 0; spc := 0; qcs := 0; qsc := 0 |}.

Definition enabled (s : ast) (e : ev) : bool :=
  match e with
  | CSend => (cpc s <? prog_len) && Nat.even (cpc s)
  | CRecv => (cpc s <? prog_len) && Nat.odd (cpc s) && (0 <? qsc s)
  | SRecv => (spc s <? prog_len) && Nat.even (spc s) && (0 <? qcs s)
  | SSend => (spc s <? prog_len) && Nat.odd (spc s)
  end.
Definition anext (s : ast) (e : ev) : ast :=
  match e with
  | CSend => {| cpc := S (cpc s); spc := spc s; qcs := S (qcs s); qsc := qsc s |}
  | CRecv => {| cpc := S (cpc s); spc := spc s; qcs := qcs s; qsc := pred (qsc s) |}
  | SRecv => {| cpc := cpc s; spc := S (spc s); qcs := pred (qcs s); qsc := qsc s |}
  | SSend => {| cpc := cpc s; spc := S (spc s); qcs := qcs s; qsc := S (qsc s) |}
  end.
Definition all_ev : list ev := [CSend; CRecv; SSend; SRecv].
Definition enabled_events (s : ast) : list ev := filter (enabled s) all_ev.

(* a schedule = any sequence of events, each enabled when taken *)
Fixpoint arun (s : ast) (tr : list ev) : option ast :=
  match tr with
  | [] => Some s
  | e :: t => if enabled s e then arun (anext s e) t else None
  end.

Definition ast_eqb (a b : ast) : bool :=
  (cpc a =? cpc b) && (spc a =? spc b) && (qcs a =? qcs b) && (qsc a =? qsc b).
(* the one schedule: strict alternation *)
Definition the_schedule : list ev :=
  [CSend; SRecv; SSend; CRecv; CSend; SRecv; SSend; CRecv; CSend; SRecv; SSend; CRecv].
Fixpoint states_along (s : ast) (tr : list ev) : list ast :=
  match tr with [] => [s] | e :: t => s :: states_along (anext s e) t end.
Definition reach_set : list ast := states_along ainit the_schedule.
Definition in_set (s : ast) : bool := existsb (ast_eqb s) reach_set.
