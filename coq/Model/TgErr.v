(* Model of tgerr.New / Error.extractArgument (tgerr/error.go) and of the duration
   tgerr.FloodWait waits (tgerr/flood_wait.go). Definitions only. Strings are lists of
   bytes; `for _, r := range part` + ascii.IsDigit is modelled bytewise (a byte that is
   not an ASCII digit can only be part of a rune that is not an ASCII digit).
   strings.Split(s, "_"), strings.Join(_, "_") and strconv.Atoi are written out.
   The flood-wait type names come from Gen/TgErrConsts.v (regenerated from /repo). *)
From Coq Require Import ZArith List Bool.
From TD Require Import Lib.RunLib Gen.TgErrConsts.
Import ListNotations.
Open Scope Z_scope.

Definition underscore : Z := 95.
Definition is_digit (c : Z) : bool := (48 <=? c) && (c <=? 57).        (* ascii.IsDigit *)
Definition all_digits (p : list Z) : bool := forallb is_digit p.        (* true for "" (loop body never runs) *)

(* strings.Split(s, "_"): always at least one part *)
Fixpoint split (s : list Z) : list (list Z) :=
  match s with
  | [] => [[]]
  | c :: t =>
    if c =? underscore then [] :: split t
    else match split t with
         | p :: ps => (c :: p) :: ps
         | [] => [[c]]
         end
  end.
(* strings.Join(parts, "_") *)
Fixpoint join (ps : list (list Z)) : list Z :=
  match ps with
  | [] => []
  | [p] => p
  | p :: t => p ++ underscore :: join t
  end.

(* strconv.Atoi on a string of ASCII digits: error on "" and when the value exceeds MaxInt64 *)
Definition max_int : Z := 9223372036854775807.
Definition dec_value (p : list Z) : Z := fold_left (fun a d => a * 10 + (d - 48)) p 0.
Definition atoi (p : list Z) : option Z :=
  match p with
  | [] => None
  | _ => let v := dec_value p in if v <=? max_int then Some v else None
  end.

(* the Parts loop: None = early `return` (Atoi failed: Type stays Message) *)
Fixpoint scan (parts : list (list Z)) (non_digit : list (list Z)) (arg : Z) : option (list (list Z)) * Z :=
  match parts with
  | [] => (Some non_digit, arg)
  | p :: t =>
    if all_digits p then
      match atoi p with
      | Some n => scan t non_digit n
      | None => (None, arg)
      end
    else scan t (non_digit ++ [p]) arg
  end.

(* tgerr.New(code, msg): (Type, Argument) *)
Definition parse (msg : list Z) : list Z * Z :=
  match msg with
  | [] => ([], 0)
  | _ =>
    let parts := split msg in
    if (Z.of_nat (length parts) <? 2) then (msg, 0)
    else match scan parts [] 0 with
         | (Some nd, a) => (join nd, a)
         | (None, a) => (msg, a)
         end
  end.

(* AsFloodWait + FloodWait: the duration (ns, int64 arithmetic) handed to clock.Timer, or
   None when the error is not a flood wait (no timer is created) *)
Definition wrap64 (x : Z) : Z := ((x + 2 ^ 63) mod 2 ^ 64) - 2 ^ 63.
Definition second_ns : Z := 1000000000.
Definition is_flood_type (ty : list Z) : bool := zlist_eqb ty c_ErrFloodWait || zlist_eqb ty c_ErrPremiumFloodWait.
Definition flood_timer (msg : list Z) : option Z :=
  let '(ty, arg) := parse msg in
  if is_flood_type ty then Some (wrap64 (wrap64 (second_ns * arg) + 1 * second_ns)) else None.
