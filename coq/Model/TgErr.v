(* Model of tgerr.New / Error.extractArgument (tgerr/error.go) and of the duration
   tgerr.FloodWait waits (tgerr/flood_wait.go). Definitions only. Strings are lists of
   bytes; `for _, r := range part` + ascii.IsDigit is modelled bytewise (a byte that is
   not an ASCII digit can only be part of a rune that is not an ASCII digit).
   strings.Split(s, "_"), strings.Join(_, "_") and strconv.Atoi are written out.
   The flood-wait type names come from Gen/TgErrConsts.v (regenerated from /repo). *)
From Coq Require Import ZArith List Bool.
From TD Require Import Lib.RunLib Gen.TgErrConsts.
Import ListNotations.
Open Scope Z_scope.

Definition underscore : Z := 95.
Definition is_digit (c : Z) : bool := (48 <=? c) && (c <=? 57).        (* ascii.IsDigit *)
Definition all_digits (p : list Z) : bool := forallb is_digit p.        (* true for "" (loop body never runs) *)

(* strings.Split(s, "_"): always at least one part *)
Fixpoint split (s : list Z) : list (list Z) :=
  match s with
  | [] => [[]]
  | c :: t =>
    if c =? underscore then [] :: split t
    else match split t with
         | p :: ps => (c :: p) :: ps
         | [] => [[c]]
         end
  end.
(* strings.Join(parts, "_") *)
Fixpoint join (ps : list (list Z)) : list Z :=
  match ps with
  | [] => []
  | [p] => p
  | p :: t => p ++ underscore :: join t
  end.

(* strconv.Atoi on a string of ASCII digits: error on "" and when the value exceeds MaxInt64 *)
Definition max_int : Z := 9223372036854775807.
Definition dec_value (p : list Z) : Z := fold_left (fun a d => a * 10 + (d - 48)) p 0.
Definition atoi (p : list Z) : option Z :=
  match p with
  | [] => None
  | _ => let v := dec_value p in if v <=? max_int then Some v else None
  end.

(* the Parts loop: None = early `return` (Atoi failed: Type stays Message) *)
Fixpoint scan (parts : list (list Z)) (non_digit : list (list Z)) (arg : Z) : option (list (list Z)) * Z :=
  match parts with
  | [] => (Some non_digit, arg)
  | p :: t =>
    if all_digits p then
      match atoi p with
      | Some n => scan t non_digit n
      | None => (None, arg)
      end
    else scan t (non_digit ++ [p]) arg
  end.

(* tgerr.New(code, msg): (Type, Argument) *)
Definition parse (msg : list Z) : list Z * Z :=
  match msg with
  | [] => ([], 0)
  | _ =>
    let parts := split msg in
    if (Z.of_nat (length parts) <? 2) then (msg, 0)
    else match scan parts [] 0 with
         | (Some nd, a) => (join nd, a)
         | (None, a) => (msg, a)
         end
  end.

(* AsFloodWait + FloodWait: the duration (ns, int64 arithmetic) handed to clock.Timer, or
   None when the error is not a flood wait (no timer is created) *)
Definition wrap64 (x : Z) : Z := ((x + 2 ^ 63) mod 2 ^ 64) - 2 ^ 63.
Definition second_ns : Z := 1000000000.
Definition is_flood_type (ty : list Z) : bool := zlist_eqb ty c_ErrFloodWait || zlist_eqb ty c_ErrPremiumFloodWait.
Definition flood_timer (msg : list Z) : option Z :=
  let '(ty, arg) := parse msg in
  if is_flood_type ty then Some (wrap64 (wrap64 (second_ns * arg) + 1 * second_ns)) else None.

(* ---------- FloodWait control flow ----------
   FloodWait(ctx, err): if err is not a flood wait it returns (false, err) at once and arms
   no timer. Otherwise it arms clock.Timer(d + 1s) and blocks in
     select { case <-timer.C(): return true, err; case <-ctx.Done(): return false, ctx.Err() }.
   The environment is a list of steps: the (fake) clock advances by dt nanoseconds, or the
   context is cancelled. The timer fires as soon as the time elapsed since it was armed
   reaches its duration (neo: a moment is due when it is not after now). The result is the
   index of the step after which FloodWait returned (-1: before any step) and what it
   returned; None = still blocked after all steps. *)
Inductive fw_step : Type := FwAdvance (dt : Z) | FwCancel.
Inductive fw_result : Type :=
| FwRetry       (* (true, err): the caller retries *)
| FwCtxErr      (* (false, ctx.Err()) *)
| FwNotFlood.   (* (false, err), no timer *)

Fixpoint fw_wait (d elapsed : Z) (steps : list fw_step) (i : Z) : option (Z * fw_result) :=
  match steps with
  | [] => None
  | FwCancel :: _ => Some (i, FwCtxErr)
  | FwAdvance dt :: t =>
    let e := elapsed + dt in
    if d <=? e then Some (i, FwRetry) else fw_wait d e t (i + 1)
  end.

Definition flood_wait_run (msg : list Z) (steps : list fw_step) : option Z * option (Z * fw_result) :=
  match flood_timer msg with
  | None => (None, Some (-1, FwNotFlood))
  | Some d => (Some d, fw_wait d 0 steps 0)
  end.
