(* Model of mtproto/salts/salts.go (Store / Get / Reset), mtproto/salt.go (updateSalt,
   storeSalt) and the bad-salt retry of mtproto/rpc.go:Invoke (C41).

   Comparisons, the lookahead and the retry condition are regenerated from the source
   (Gen/SaltConsts.v): salt_last_valid_go / salt_keep_go (`salt.ValidUntil > date`),
   salt_less_go (saltSlice.Less), update_deadline_ns_go (now + 5 min),
   invoke_retries_go (bad message error with code 48).
   Definitions only. *)
From Coq Require Import ZArith List Bool.
From TD Require Import Gen.SaltConsts.
Import ListNotations.
Open Scope Z_scope.

(* mt.FutureSalt: (valid_until [unix seconds], salt).  valid_since is never read by the code. *)
Definition fsalt := (Z * Z)%type.
Definition vu (s : fsalt) : Z := fst s.
Definition sv (s : fsalt) : Z := snd s.

(* ---------- Salts.Get ----------
   check: if len < 1 -> (0,false); if last.ValidUntil > date -> (last.Salt,true);
          filter in place; goto check.
   The goto is fuelled recursion; None = out of fuel (proved unreachable for fuel = 2 + len). *)
Definition last_opt (l : list fsalt) : option fsalt :=
  match rev l with [] => None | x :: _ => Some x end.

Fixpoint get_loop (fuel : nat) (l : list fsalt) (date : Z) : option (option Z * list fsalt) :=
  match fuel with
  | O => None
  | S f =>
      match last_opt l with
      | None => Some (None, l)
      | Some s =>
          if salt_last_valid_go (vu s) date then Some (Some (sv s), l)
          else get_loop f (filter (fun x => salt_keep_go (vu x) date) l) date
      end
  end.
Definition get (l : list fsalt) (date : Z) : option (option Z * list fsalt) :=
  get_loop (2 + length l) l date.

(* ---------- Salts.Store ----------
   append; drop every entry whose Salt value was already seen (first occurrence wins);
   sort.Sort by ValidUntil descending.  sort.Sort is not stable: ties may come out in any
   order.  The executable model uses Go's insertion sort (what sort.Sort runs for <= 12
   elements); no theorem depends on the order of ties (or on sortedness at all). *)
Fixpoint dedup (seen : list Z) (l : list fsalt) : list fsalt :=
  match l with
  | [] => []
  | s :: t => if existsb (Z.eqb (sv s)) seen then dedup seen t else s :: dedup (sv s :: seen) t
  end.
(* insert x into l (sorted by Less): x stays behind every y unless Less(x, y) *)
Fixpoint ins (x : fsalt) (l : list fsalt) : list fsalt :=
  match l with
  | [] => [x]
  | y :: t => if salt_less_go (vu x) (vu y) then x :: y :: t else y :: ins x t
  end.
Definition sort_desc (l : list fsalt) : list fsalt := fold_left (fun acc x => ins x acc) l [].
Definition store (l new : list fsalt) : list fsalt := sort_desc (dedup [] (l ++ new)).

(* ---------- the connection's salt state ----------
   Atomic steps.  Since fix 710c66ebc updateSalt (salts.Get, then storeSalt) and resetSalt
   (storeSalt of the server-told salt, then salts.Reset) run under one mutex (Conn.saltMux), so
   each is ONE step of the transition system below, whichever goroutine performs it (the read
   path runs updateSalt once per incoming message, writers once per outgoing message).  All
   interleavings of those goroutines are therefore exactly the op sequences quantified over.
   Before the fix a read-path updateSalt could be split around Invoke's bad-salt handling and
   put a stale future salt back (forced on the real Conn by the harness scenario
   "race-updateSalt-vs-bad-salt"). *)
(* where the currently held salt came from (ghost field, not in the code) *)
Inductive src :=
| Initial                 (* Options.Salt / restored session *)
| Told                    (* storeSalt with a salt the server sent: bad_server_salt, new_session_created *)
| Future (until : Z).     (* chosen by updateSalt from the future-salt store *)

Record cstate := { cur : Z; cur_src : src; salts : list fsalt }.

Definition deadline (now_ns : Z) : Z := update_deadline_ns_go now_ns / 1000000000.  (* deadline.Unix() *)

(* updateSalt at clock reading now_ns *)
Definition find_vu (l : list fsalt) (s : Z) : Z :=
  match find (fun x => sv x =? s) (rev l) with Some x => vu x | None => 0 end.
Definition update_salt (now_ns : Z) (st : cstate) : cstate :=
  match get (salts st) (deadline now_ns) with
  | Some (Some s, l') => {| cur := s; cur_src := Future (find_vu l' s); salts := l' |}
  | Some (None, l') => {| cur := cur st; cur_src := cur_src st; salts := l' |}
  | None => st
  end.

(* operations on a connection, as the environment drives them *)
Inductive op :=
| OStore (new : list fsalt)      (* future_salts answer: handleFutureSalts -> Salts.Store *)
| OTold (s : Z)                  (* storeSalt(s) with a server-told salt *)
| OReset                         (* Salts.Reset *)
| OAttach (now_ns : Z).          (* session(): updateSalt, then the salt put into an outgoing message *)

Definition step (st : cstate) (o : op) : cstate * option Z :=
  match o with
  | OStore new => ({| cur := cur st; cur_src := cur_src st; salts := store (salts st) new |}, None)
  | OTold s => ({| cur := s; cur_src := Told; salts := salts st |}, None)
  | OReset => ({| cur := cur st; cur_src := cur_src st; salts := [] |}, None)
  | OAttach now => let st' := update_salt now st in (st', Some (cur st'))
  end.

Fixpoint run (st : cstate) (ops : list op) : list (option Z) :=
  match ops with
  | [] => []
  | o :: t => let '(st', obs) := step st o in obs :: run st' t
  end.
Fixpoint run_state (st : cstate) (ops : list op) : cstate :=
  match ops with
  | [] => st
  | o :: t => run_state (fst (step st o)) t
  end.
Definition init (salt : Z) : cstate := {| cur := salt; cur_src := Initial; salts := [] |}.

(* ---------- Salts used directly (the harness also drives salts.Salts alone) ---------- *)
Inductive sop := SStore (new : list fsalt) | SGet (date : Z) | SReset.
(* observation of a Get: (ok, salt) *)
Fixpoint srun (l : list fsalt) (ops : list sop) : list (option (option Z)) :=
  match ops with
  | [] => []
  | SStore new :: t => None :: srun (store l new) t
  | SReset :: t => None :: srun [] t
  | SGet d :: t =>
      match get l d with
      | Some (r, l') => Some r :: srun l' t
      | None => None :: srun l t
      end
  end.

(* ---------- Invoke's bad-salt retry ----------
   The rpc engine is abstracted to the result of each Do call (retransmissions inside Do are
   C25): DoOk, a bad-message error with (code, new salt), or any other error. Each Do sends
   the request with the salt attached at that moment. *)
Inductive do_res := DoOk | DoBad (code new_salt : Z) | DoErr.
Inductive outcome := RetOk | RetBad (code : Z) | RetErr.
Definition ret_of (r : do_res) : outcome :=
  match r with DoOk => RetOk | DoBad c _ => RetBad c | DoErr => RetErr end.

(* (salts attached to the sends, result returned to the caller, state afterwards);
   r1, r2 = results of the first and (if it happens) second Do; now1, now2 the clock readings *)
Definition invoke (st : cstate) (now1 now2 : Z) (r1 r2 : do_res) : list Z * outcome * cstate :=
  let st1 := update_salt now1 st in
  match r1 with
  | DoBad code ns =>
      if invoke_retries_go true code then
        let st2 := {| cur := ns; cur_src := Told; salts := [] |} in   (* storeSalt; salts.Reset *)
        let st3 := update_salt now2 st2 in
        ([cur st1; cur st3], ret_of r2, st3)
      else ([cur st1], ret_of r1, st1)
  | _ => ([cur st1], ret_of r1, st1)
  end.

(* Invoke with an arbitrary environment between the bad-salt handling and the second send:
   env = what other goroutines do in between (read-path updateSalt calls = OAttach at any clock
   readings, future_salts answers = OStore, further told salts, resets). *)
Definition invoke_env (st : cstate) (now1 : Z) (r1 : do_res) (env : list op) (now2 : Z) (r2 : do_res)
  : list Z * outcome * cstate :=
  let st1 := update_salt now1 st in
  match r1 with
  | DoBad code ns =>
      if invoke_retries_go true code then
        let st2 := {| cur := ns; cur_src := Told; salts := [] |} in   (* resetSalt: one step *)
        let st3 := update_salt now2 (run_state st2 env) in
        ([cur st1; cur st3], ret_of r2, st3)
      else ([cur st1], ret_of r1, st1)
  | _ => ([cur st1], ret_of r1, st1)
  end.

Definition quiet (o : op) : bool :=   (* ops that cannot bring a salt: read-path updateSalt, Reset *)
  match o with OAttach _ | OReset => true | _ => false end.
