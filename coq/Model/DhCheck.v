(* Model for C13: specification side of CheckGP / CheckDH / CheckDHParams (the
   implementation side is GENERATED: Gen/DhCheck.v) and the executable model of
   crypto.DecomposePQ (crypto/pq.go).  Definitions only. *)
From Coq Require Import ZArith List Bool Lia.
From TD Require Import Lib.GoSem Lib.BigIntSem Gen.DhCheck.
Import ListNotations.
Open Scope Z_scope.

(* ---------- specification table (core.telegram.org/mtproto/auth_key) ---------- *)
Definition gp_table (g p : Z) : Prop :=
  (g = 2 /\ p mod 8 = 7) \/
  (g = 3 /\ p mod 3 = 2) \/
  (g = 4) \/
  (g = 5 /\ (p mod 5 = 1 \/ p mod 5 = 4)) \/
  (g = 6 /\ (p mod 24 = 19 \/ p mod 24 = 23)) \/
  (g = 7 /\ (p mod 7 = 3 \/ p mod 7 = 5 \/ p mod 7 = 6)).

Definition dh_params_spec (p g ga gb : Z) : Prop :=
  1 < g < p - 1 /\ 1 < ga < p - 1 /\ 1 < gb < p - 1 /\
  2 ^ 1984 < ga < p - 2 ^ 1984 /\ 2 ^ 1984 < gb < p - 2 ^ 1984.

(* ---------- executable primality / modular power for the bounded QR theorem ---------- *)
Fixpoint no_divisor_from (fuel : nat) (d n : Z) : bool :=
  match fuel with
  | O => true
  | S f => if n <? d * d then true else if n mod d =? 0 then false else no_divisor_from f (d + 1) n
  end.
Definition primeb (n : Z) : bool := (2 <=? n) && no_divisor_from (Z.to_nat n) 2 n.
Definition safe_primeb (p : Z) : bool := primeb p && primeb ((p - 1) / 2).

(* square-and-multiply on the binary representation of the exponent *)
Fixpoint modpow_pos (b : Z) (e : positive) (m : Z) : Z :=
  match e with
  | xH => b mod m
  | xO e' => let r := modpow_pos b e' m in (r * r) mod m
  | xI e' => let r := modpow_pos b e' m in (((r * r) mod m) * b) mod m
  end.
Definition modpow (b e m : Z) : Z :=
  match e with
  | Z0 => 1 mod m
  | Zpos e' => modpow_pos b e' m
  | Zneg _ => 0
  end.

Definition euler_qr (g p : Z) : bool := modpow g ((p - 1) / 2) p =? 1.
Definition qr_agrees (p : Z) : bool :=
  forallb (fun g => Bool.eqb (check_gp g p =? 0) (euler_qr g p)) [2; 3; 4; 5; 6; 7].
Definition qr_bound : Z := 8000.
Definition qr_n : nat := Nat.mul 80 100.
Definition qr_chk (p : Z) : bool := if (6 <? p) && safe_primeb p then qr_agrees p else true.
(* f s && f (s+1) && ... (n terms) *)
Fixpoint zall (f : Z -> bool) (n : nat) (s : Z) : bool :=
  match n with O => true | S k => f s && zall f k (s + 1) end.
Definition all_safe_primes_agree : bool := zall qr_chk qr_n 0.

(* residue classes modulo 840 = lcm(8,3,5,24,7) that a safe prime p > 11 can occupy:
   p = 2q+1 with q an odd prime > 5 forces p = 11 (mod 12), p mod 5 in {2,3,4}, p mod 7 in {2..6} *)
Definition admissible_class (r : Z) : bool :=
  (r mod 12 =? 11) && negb (r mod 5 =? 0) && negb (r mod 5 =? 1) && negb (r mod 7 =? 0) && negb (r mod 7 =? 1).
Fixpoint zlist (n : nat) (s : Z) : list Z := match n with O => [] | S k => s :: zlist k (s + 1) end.
Definition safe_primes_below_bound : list Z := filter (fun p => (11 <? p) && safe_primeb p) (zlist qr_n 0).
Definition classes_covered : bool :=
  forallb (fun r => negb (admissible_class r) || existsb (fun p => p mod 840 =? r) safe_primes_below_bound) (zlist 840 0)
  && forallb (fun p => admissible_class (p mod 840)) safe_primes_below_bound.

(* ---------- DecomposePQ ---------- *)
Inductive pqerr := ERand | EFuel | EReject.

(* c := c + a*b (mod what) by double-and-add over the bits of b (LSB first):
   for b > 0 { if b&1 == 1 { c += a; if c >= what { c -= what } }; a += a; if a >= what { a -= what }; b >>= 1 } *)
Fixpoint mul_add_pos (what a c : Z) (b : positive) : Z :=
  let c1 := match b with xO _ => c | _ => let c' := c + a in if c' >=? what then c' - what else c' end in
  let a1 := let a' := a + a in if a' >=? what then a' - what else a' in
  match b with
  | xH => c1
  | xO b' | xI b' => mul_add_pos what a1 c1 b'
  end.
Definition mul_add (what x v : Z) : Z :=
  match x with Zpos b => mul_add_pos what x v b | _ => v end.

(* lim := 1 << (uint(i) + 18) on a 64-bit int *)
Definition pq_lim (i : Z) : Z :=
  if i + 18 <? 63 then 2 ^ (i + 18) else if i + 18 =? 63 then - 2 ^ 63 else 0.

(* inner loop; returns the g with which it stops.  [g] is the value left by earlier rounds. *)
Fixpoint pq_inner (fuel : nat) (what v x y j lim g : Z) : option Z :=
  if negb (j <? lim) then Some g else
  match fuel with
  | O => None
  | S f =>
      let x' := mul_add what x v in
      let z := if x' <? y then what + x' - y else x' - y in
      let g' := Z.gcd z what in
      let y' := if Z.land j (j - 1) =? 0 then x' else y in
      if negb (g' =? 1) then Some g' else pq_inner f what v x' y' (j + 1) lim g'
  end.

(* outer loop: [rnd] is the stream of values returned by rand.Int(randSource, 2^64)
   (8 bytes each, big endian). *)
Fixpoint pq_outer (rounds fuel : nat) (what i g : Z) (rnd : list Z) : res pqerr Z :=
  if (1 <? g) && (g <? what) then Ok g else
  match rounds with
  | O => Err EFuel
  | S r =>
      match rnd with
      | r1 :: r2 :: rnd' =>
          if what =? 0 then Panic                                  (* v.Mod(v, 0) *)
          else if what - 1 =? 0 then Panic                         (* x.Mod(x, 0) *)
          else
            let v := (Z.land r1 15 + 17) mod what in
            let x := r2 mod (what - 1) + 1 in
            match pq_inner fuel what v x x 1 (pq_lim i) g with
            | None => Err EFuel
            | Some g' => pq_outer r fuel what (i + 1) g' rnd'
            end
      | _ => Err ERand
      end
  end.

(* [pq_is_prime] = pq.ProbablyPrime(0) (exact below 2^64): values without a non-trivial
   factorisation are rejected before the search (which would divide by zero for pq < 2 and never
   terminate for a prime) *)
Definition decompose_pq (pq_is_prime : bool) (rounds fuel : nat) (pq : Z) (rnd : list Z) : res pqerr (Z * Z) :=
  if (pq <? 4) || pq_is_prime then Err EReject else
  match pq_outer rounds fuel pq 0 0 rnd with
  | Ok g => let p := g in let q := pq / g in if p >? q then Ok (q, p) else Ok (p, q)
  | Err e => Err e
  | Panic => Panic
  end.
