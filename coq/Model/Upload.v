(* Model of telegram/uploader (C32): part arithmetic (generated, Gen/UploadPart.v), the
   decision part of Uploader.Upload/initUpload, the small loop and the big loop.
   Definitions only.

   The payload of a part is abstract ([A] with a length): the theorems instantiate it with
   byte lists cut from the source by [chunks] (= successive io.ReadFull calls), the
   differential run instantiates it with the length alone (sources of up to 4 GiB). *)
From Coq Require Import ZArith List Bool.
From TD Require Import Gen.UploadPart.
Import ListNotations.
Open Scope Z_scope.

(* ---------- computePartSize: the generated loop condition/body, iterated with fuel ---------- *)

Fixpoint cps_loop (fuel : nat) (partSize total : Z) : option Z :=
  match fuel with
  | O => None
  | S f => if compute_part_size_cond partSize total
           then cps_loop f (compute_part_size_step partSize total) total
           else Some partSize
  end.
(* 64 iterations can never be exhausted (Proof/Upload.v: cps_terminates) *)
Definition compute_part_size (total : Z) : option Z := cps_loop 64 compute_part_size_init total.

(* ---------- Uploader.Upload up to the choice of the loop ---------- *)

Inductive uplan :=
| PlanErrPartSize (code : Z)          (* checkPartSize failed: 1 zero, 2 not /1024, 3 does not divide 512 KiB *)
| PlanErrTooManyParts                 (* small file, totalParts > partsLimit *)
| PlanErrFuel                         (* never (cps_terminates) *)
| Plan (partSize : Z) (big : bool) (totalParts : Z).

(* auto = autoPartSize, cfg = Uploader.partSize, total = Upload.totalBytes (-1 = unknown) *)
Definition upload_plan (auto : bool) (cfg total : Z) : uplan :=
  let ps := if auto && (total >? 0) then compute_part_size total else Some cfg in
  match ps with
  | None => PlanErrFuel
  | Some partSize =>
      let code := check_part_size_go partSize in
      if negb (code =? 0) then PlanErrPartSize code else
      let big := init_upload_big total in
      let totalParts := compute_parts_go partSize total in
      if init_upload_too_many big totalParts then PlanErrTooManyParts else
      if total =? -1 then Plan partSize true (-1) else Plan partSize big totalParts
  end.

(* ---------- io.ReadFull on the source: successive parts ---------- *)

Fixpoint chunks_fuel {B} (fuel : nat) (p : nat) (src : list B) : list (list B) :=
  match fuel with
  | O => []
  | S f => match src with
           | [] => []
           | _ => firstn p src :: chunks_fuel f p (skipn p src)
           end
  end.
Definition chunks {B} (p : nat) (src : list B) : list (list B) := chunks_fuel (length src) p src.

(* the same on lengths only: size = k*p + r gives k times p and, if r > 0, r *)
Definition chunk_lens (p size : Z) : list Z :=
  repeat p (Z.to_nat (size / p)) ++ (if size mod p =? 0 then [] else [size mod p]).

(* answers of the server / transport to one request *)
Inductive resp := RTrue | RFalse | RFlood | RErr.

Inductive outcome := Done | Failed | EnvExhausted.

Section Loops.
Variable A : Type.
Variable alen : A -> Z.

(* ---------- smallLoop ---------- *)

Record sreq := { sq_part : Z; sq_data : A; sq_resp : resp }.

(* the inner "Upload loop" of one part: resend until true *)
Fixpoint small_part (id : Z) (c : A) (env : list resp) : list sreq * list resp * outcome :=
  match env with
  | [] => ([], [], EnvExhausted)
  | r :: env' =>
      let q := {| sq_part := Z.rem id c_partsLimit; sq_data := c; sq_resp := r |} in
      match r with
      | RTrue => ([q], env', Done)
      | RErr => ([q], env', Failed)
      | _ => let '(l, e, o) := small_part id c env' in (q :: l, e, o)
      end
  end.

(* outer loop over the parts read from the source; result: request log, sentParts, outcome *)
Fixpoint small_loop (cs : list A) (sent : Z) (env : list resp) : list sreq * Z * outcome :=
  match cs with
  | [] => ([], sent, Done)
  | c :: cs' =>
      let '(l, e, o) := small_part sent c env in
      match o with
      | Done => let '(l', s', o') := small_loop cs' (sent + 1) e in (l ++ l', s', o')
      | _ => (l, sent, o)
      end
  end.

(* ---------- bigLoop: reader goroutine + [threads] workers as an event system ---------- *)

Record breq := { bq_part : Z; bq_data : A; bq_total : Z; bq_resp : resp }.

Inductive bevent :=
| ERead                       (* reader: io.ReadFull returned (a part, or EOF) *)
| EQueue                      (* reader: toSend <- nextPart committed *)
| ETake                       (* some idle worker received a part from toSend *)
| ESend (i : nat) (r : resp)  (* the worker holding the i-th in-flight part sent it and got r *).

Record bstate := {
  b_src : list A;                       (* parts not yet read *)
  b_pending : option (Z * A * bool);    (* part read, not yet queued: id, data, last *)
  b_queue : list (Z * A);               (* channel toSend (capacity threads) *)
  b_closed : bool;                      (* close(toSend) happened *)
  b_sent : Z;                           (* upload.sentParts *)
  b_total : Z;                          (* upload.totalParts *)
  b_stream : Z;                         (* totalStreamSize *)
  b_hold : list (Z * A);                (* parts in the hands of workers *)
  b_acked : list (Z * A);               (* confirmed parts, in confirmation order *)
  b_log : list breq;                    (* every request sent, in order *)
  b_failed : bool                       (* a worker got a non-flood error: group cancelled *)
}.

Definition b_init (cs : list A) (totalParts : Z) : bstate :=
  {| b_src := cs; b_pending := None; b_queue := []; b_closed := false; b_sent := 0;
     b_total := totalParts; b_stream := 0; b_hold := []; b_acked := []; b_log := []; b_failed := false |}.

Fixpoint remove_nth {B} (i : nat) (l : list B) : list B :=
  match l, i with
  | [], _ => []
  | _ :: t, O => t
  | x :: t, S j => x :: remove_nth j t
  end.

Definition zlen {B} (l : list B) : Z := Z.of_nat (length l).

(* one event; a disabled event leaves the state unchanged *)
Definition b_step (p threads : Z) (s : bstate) (e : bevent) : bstate :=
  if b_failed s then s else
  match e with
  | ERead =>
      match b_pending s with
      | Some _ => s
      | None =>
          if b_closed s then s else
          match b_src s with
          | [] => (* io.EOF: close(toSend) *)
              {| b_src := []; b_pending := None; b_queue := b_queue s; b_closed := true; b_sent := b_sent s;
                 b_total := b_total s; b_stream := b_stream s; b_hold := b_hold s; b_acked := b_acked s;
                 b_log := b_log s; b_failed := false |}
          | c :: rest =>
              let n := alen c in
              let stream := b_stream s + n in
              let last := n <? p in
              let total := if last && (b_total s =? -1) then Z.quot (stream + p - 1) p else b_total s in
              {| b_src := rest; b_pending := Some (b_sent s, c, last); b_queue := b_queue s; b_closed := false;
                 b_sent := b_sent s; b_total := total; b_stream := stream; b_hold := b_hold s;
                 b_acked := b_acked s; b_log := b_log s; b_failed := false |}
          end
      end
  | EQueue =>
      match b_pending s with
      | Some (id, c, last) =>
          if zlen (b_queue s) <? threads then
            {| b_src := b_src s; b_pending := None; b_queue := b_queue s ++ [(id, c)]; b_closed := last;
               b_sent := b_sent s + 1; b_total := b_total s; b_stream := b_stream s; b_hold := b_hold s;
               b_acked := b_acked s; b_log := b_log s; b_failed := false |}
          else s
      | None => s
      end
  | ETake =>
      match b_queue s with
      | x :: q =>
          if zlen (b_hold s) <? threads then
            {| b_src := b_src s; b_pending := b_pending s; b_queue := q; b_closed := b_closed s;
               b_sent := b_sent s; b_total := b_total s; b_stream := b_stream s; b_hold := b_hold s ++ [x];
               b_acked := b_acked s; b_log := b_log s; b_failed := false |}
          else s
      | [] => s
      end
  | ESend i r =>
      match nth_error (b_hold s) i with
      | Some (id, c) =>
          let q := {| bq_part := id; bq_data := c; bq_total := b_total s; bq_resp := r |} in
          match r with
          | RTrue =>
              {| b_src := b_src s; b_pending := b_pending s; b_queue := b_queue s; b_closed := b_closed s;
                 b_sent := b_sent s; b_total := b_total s; b_stream := b_stream s;
                 b_hold := remove_nth i (b_hold s); b_acked := b_acked s ++ [(id, c)];
                 b_log := b_log s ++ [q]; b_failed := false |}
          | RErr =>
              {| b_src := b_src s; b_pending := b_pending s; b_queue := b_queue s; b_closed := b_closed s;
                 b_sent := b_sent s; b_total := b_total s; b_stream := b_stream s; b_hold := b_hold s;
                 b_acked := b_acked s; b_log := b_log s ++ [q]; b_failed := true |}
          | _ =>
              {| b_src := b_src s; b_pending := b_pending s; b_queue := b_queue s; b_closed := b_closed s;
                 b_sent := b_sent s; b_total := b_total s; b_stream := b_stream s; b_hold := b_hold s;
                 b_acked := b_acked s; b_log := b_log s ++ [q]; b_failed := false |}
          end
      | None => s
      end
  end.

Definition b_run (p threads : Z) (s : bstate) (evs : list bevent) : bstate := fold_left (b_step p threads) evs s.

(* g.Wait() returned nil: reader closed the channel and every worker saw it closed and empty *)
Definition b_terminal (s : bstate) : bool :=
  b_closed s && negb (b_failed s) &&
  match b_queue s, b_hold s, b_pending s with [], [], None => true | _, _, _ => false end.

(* parts with their numbers *)
Fixpoint index_from (i : Z) (cs : list A) : list (Z * A) :=
  match cs with
  | [] => []
  | c :: t => (i, c) :: index_from (i + 1) t
  end.

End Loops.

Arguments sq_part {A}. Arguments sq_data {A}. Arguments sq_resp {A}.
Arguments bq_part {A}. Arguments bq_data {A}. Arguments bq_total {A}. Arguments bq_resp {A}.
Arguments b_src {A}. Arguments b_pending {A}. Arguments b_queue {A}. Arguments b_closed {A}.
Arguments b_sent {A}. Arguments b_total {A}. Arguments b_stream {A}. Arguments b_hold {A}.
Arguments b_acked {A}. Arguments b_log {A}. Arguments b_failed {A}.
Arguments small_part {A}. Arguments small_loop {A}. Arguments b_init {A}. Arguments b_step {A}.
Arguments b_run {A}. Arguments b_terminal {A}. Arguments index_from {A}.

(* ---------- the returned descriptor ---------- *)

Inductive descriptor (H : Type) :=
| InputFile (parts : Z) (md5 : H)      (* tg.InputFile *)
| InputFileBig (parts : Z).            (* tg.InputFileBig *)
Arguments InputFile {H}. Arguments InputFileBig {H}.

(* ---------- uploadSmall / uploadBig: what Upload returns ---------- *)

Section Result.
Variable H : Type.
Variable md5 : list Z -> H.            (* abstract MD5 of the bytes that went through the tee *)

Definition blen (c : list Z) : Z := Z.of_nat (length c).

(* uploadSmall: smallLoop over the parts of [src]; the tee feeds every byte read to the hash *)
Definition upload_small (ps : Z) (src : list Z) (env : list resp) : list (sreq (list Z)) * option (descriptor H) :=
  let cs := chunks (Z.to_nat ps) src in
  let '(log, n, o) := small_loop cs 0 env in
  (log, match o with Done => Some (InputFile n (md5 (concat cs))) | _ => None end).

(* uploadBig: bigLoop under a schedule; nil error iff the final state is terminal *)
Definition upload_big (ps threads totalParts : Z) (src : list Z) (evs : list bevent) : bstate (list Z) * option (descriptor H) :=
  let s := b_run blen ps threads (b_init (chunks (Z.to_nat ps) src) totalParts) evs in
  (s, if b_terminal s then Some (InputFileBig (b_sent s)) else None).
End Result.
