(* Model of bin.Buffer's TL primitives (bin/encode.go, bin/decode.go, bin/string.go,
   bin/bytes.go). Definitions only. A buffer is the list of its remaining bytes; every
   decoder has the shape  list Z -> res tl_err (value * rest).  Go slice / index
   expressions go through go_slice / go_index so that a missing length check in the
   source shows up as Panic in the model.

   Constants (Word, TypeTrue/False/Vector, maxSmallStringLength, firstLongStringByte) and
   nearestPaddedValueLength are generated from /repo/bin on every run (Gen/TlConsts.v). *)
From Coq Require Import ZArith List Bool.
From TD Require Import Lib.Bytes Lib.GoSem Lib.GoSlice Gen.TlConsts.
Import ListNotations.
Open Scope Z_scope.

Inductive tl_err : Type :=
| EEOF              (* io.ErrUnexpectedEOF *)
| EInvalidLength    (* *bin.InvalidLengthError *)
| EUnexpectedID.    (* *bin.UnexpectedIDErr *)

Definition tl_err_eqb (a b : tl_err) : bool :=
  match a, b with
  | EEOF, EEOF | EInvalidLength, EInvalidLength | EUnexpectedID, EUnexpectedID => true
  | _, _ => false
  end.

Definition dres (A : Type) : Type := res tl_err (A * list Z).

(* ---- fixed-width little-endian words ---- *)

(* PeekN-style guard followed by b.Buf[:n] and b.Buf = b.Buf[n:] *)
Definition take (n : Z) (b : list Z) : dres (list Z) :=
  if len b <? n then Err EEOF
  else do p <- go_slice b 0 n; do r <- go_slice b n (len b); Ok (p, r).

Definition encode_uint32 (v : Z) : list Z := le_enc 4 v.        (* PutUint32 / PutID *)
Definition encode_int32 (v : Z) : list Z := le_enc 4 v.         (* PutInt32: uint32(v) *)
Definition encode_int (v : Z) : list Z := encode_int32 v.       (* PutInt: int32(v) *)
Definition encode_uint64 (v : Z) : list Z := le_enc 8 v.        (* PutUint64 *)
Definition encode_long (v : Z) : list Z := le_enc 8 v.          (* PutLong: uint64(v) *)
Definition encode_double (bits : Z) : list Z := encode_uint64 bits.  (* PutDouble: Float64bits *)
Definition encode_int128 (v : list Z) : list Z := v.            (* PutInt128: v[:] *)
Definition encode_int256 (v : list Z) : list Z := v.

(* PeekID: len check, LittleEndian.Uint32(b.Buf) *)
Definition peek_id (b : list Z) : res tl_err Z :=
  if len b <? c_Word then Err EEOF else do p <- go_slice b 0 c_Word; Ok (le_dec p).

Definition decode_uint32 (b : list Z) : dres Z :=
  do v <- peek_id b; do r <- go_slice b c_Word (len b); Ok (v, r).
Definition decode_int32 (b : list Z) : dres Z :=
  do (v, r) <- decode_uint32 b; Ok (to_signed 32 v, r).
Definition decode_int (b : list Z) : dres Z := decode_int32 b.
Definition decode_uint64 (b : list Z) : dres Z :=
  do (p, r) <- take (c_Word * 2) b; Ok (le_dec p, r).
Definition decode_long (b : list Z) : dres Z :=
  do (v, r) <- decode_uint64 b; Ok (to_signed 64 v, r).
(* Double(): Long() then Float64frombits(uint64(v)) -- the bit pattern *)
Definition decode_double (b : list Z) : dres Z :=
  do (v, r) <- decode_long b; Ok (of_signed 64 v, r).
Definition decode_int128 (b : list Z) : dres (list Z) := take 16 b.
Definition decode_int256 (b : list Z) : dres (list Z) := take 32 b.

(* ---- bool ---- *)
Definition encode_bool (v : bool) : list Z := encode_uint32 (if v then c_TypeTrue else c_TypeFalse).
Definition decode_bool (b : list Z) : dres bool :=
  do v <- peek_id b;
  if v =? c_TypeTrue then do r <- go_slice b c_Word (len b); Ok (true, r)
  else if v =? c_TypeFalse then do r <- go_slice b c_Word (len b); Ok (false, r)
  else Err EUnexpectedID.

(* ---- ConsumeID / vector header ---- *)
Definition consume_id (id : Z) (b : list Z) : res tl_err (list Z) :=
  do v <- peek_id b;
  if negb (v =? id) then Err EUnexpectedID else go_slice b c_Word (len b).

Definition encode_vector_header (n : Z) : list Z := encode_uint32 c_TypeVector ++ encode_int32 n.
Definition decode_vector_header (b : list Z) : dres Z :=
  do b1 <- consume_id c_TypeVector b;
  do (n, r) <- decode_int b1;
  if n <? 0 then Err EInvalidLength else Ok (n, r).

(* ---- string / bytes (encodeString = encodeBytes, decodeString = decodeBytes up to the
        Where field of the error) ---- *)
Definition encode_bytes (v : list Z) : list Z :=
  let l := len v in
  if l <=? c_maxSmallStringLength then
    let currentLen := l + 1 in
    le_enc 1 l ++ v ++ zeros (nearest_padded_go currentLen - currentLen)
  else
    let currentLen := l + 4 in
    [c_firstLongStringByte] ++ le_enc 3 l ++ v ++ zeros (nearest_padded_go currentLen - currentLen).
Definition encode_string := encode_bytes.

(* decodeBytes: (n, v, err). The four length conditions are generated from the source
   (Gen/TlConsts.v: *_bytes_go; Proof.TlPrim.string_conditions_agree ties decodeString's to them). *)
Definition decode_bytes_raw (b : list Z) : res tl_err (Z * list Z) :=
  if len b =? 0 then Err EEOF else
  do b0 <- go_index b 0;
  if b0 =? c_firstLongStringByte then
    if long_header_short_bytes_go (len b) then Err EEOF else
    do b1 <- go_index b 1; do b2 <- go_index b 2; do b3 <- go_index b 3;
    let strLen := le_dec [b1; b2; b3] in      (* uint32(b[1]) | uint32(b[2])<<8 | uint32(b[3])<<16 *)
    if long_payload_short_bytes_go (len b) strLen then Err EEOF else
    do v <- go_slice b 4 (strLen + 4);
    Ok (nearest_padded_go (strLen + 4), v)
  else
    let strLen := b0 in
    if short_payload_short_bytes_go (len b) strLen then Err EEOF else
    if short_len_invalid_bytes_go strLen then Err EInvalidLength else
    do v <- go_slice b 1 (strLen + 1);
    Ok (nearest_padded_go (strLen + 1), v).

(* Buffer.Bytes / Buffer.String *)
Definition decode_bytes (b : list Z) : dres (list Z) :=
  do (n, v) <- decode_bytes_raw b;
  if len b <? n then Err EEOF else
  do r <- go_slice b n (len b); Ok (v, r).
Definition decode_string := decode_bytes.

(* error mapping for models that embed these decoders in a larger error type *)
Definition map_err {E F A} (f : E -> F) (r : res E A) : res F A :=
  match r with Ok a => Ok a | Err e => Err (f e) | Panic => Panic end.

(* ---- heterogeneous sequences of primitives (concatenated values) ---- *)
Inductive pkind : Type := KInt | KLong | KDouble | KBool | KInt128 | KInt256 | KBytes | KVector.
Inductive prim : Type :=
| PInt (v : Z) | PLong (v : Z) | PDouble (bits : Z) | PBool (v : bool)
| PInt128 (v : list Z) | PInt256 (v : list Z) | PBytes (v : list Z) | PVector (n : Z).

Definition kind_of (p : prim) : pkind :=
  match p with
  | PInt _ => KInt | PLong _ => KLong | PDouble _ => KDouble | PBool _ => KBool
  | PInt128 _ => KInt128 | PInt256 _ => KInt256 | PBytes _ => KBytes | PVector _ => KVector
  end.
Definition encode_prim (p : prim) : list Z :=
  match p with
  | PInt v => encode_int v | PLong v => encode_long v | PDouble v => encode_double v
  | PBool v => encode_bool v | PInt128 v => encode_int128 v | PInt256 v => encode_int256 v
  | PBytes v => encode_bytes v | PVector n => encode_vector_header n
  end.
Definition lift {A} (f : A -> prim) (r : dres A) : dres prim :=
  do (v, rest) <- r; Ok (f v, rest).
Definition decode_prim (k : pkind) (b : list Z) : dres prim :=
  match k with
  | KInt => lift PInt (decode_int b) | KLong => lift PLong (decode_long b)
  | KDouble => lift PDouble (decode_double b) | KBool => lift PBool (decode_bool b)
  | KInt128 => lift PInt128 (decode_int128 b) | KInt256 => lift PInt256 (decode_int256 b)
  | KBytes => lift PBytes (decode_bytes b) | KVector => lift PVector (decode_vector_header b)
  end.
Definition encode_all (ps : list prim) : list Z := flat_map encode_prim ps.
Fixpoint decode_all (ks : list pkind) (b : list Z) : dres (list prim) :=
  match ks with
  | [] => Ok ([], b)
  | k :: ks' => do (p, r) <- decode_prim k b; do (ps, r') <- decode_all ks' r; Ok (p :: ps, r')
  end.
