(* Independent transcription of https://core.telegram.org/api/srp ("Checking the password with SRP",
   "Setting a new 2FA password"), no reference to Model/Srp.v.  Numbers are integers; whenever a
   number is hashed or sent it is written big-endian, padded to 2048 bits (256 bytes):

     H(data) := sha256(data)          SH(data, salt) := H(salt | data | salt)
     PH1(password, salt1, salt2) := SH(SH(password, salt1), salt2)
     PH2(password, salt1, salt2) := SH(pbkdf2(sha512, PH1(password, salt1, salt2), salt1, 100000), salt2)

     g := algo.g,  p := algo.p,  g_b := srp_B,  a random 2048-bit number a
     k := H(p | g)
     g_a := pow(g, a) mod p
     u := H(g_a | g_b)
     x := PH2(password, salt1, salt2)
     v := pow(g, x) mod p
     k_v := (k * v) mod p
     t := (g_b - k_v) mod p        (positive modulo: if the result is negative, increment by p)
     s_a := pow(t, a + u * x) mod p
     k_a := H(s_a)
     M1 := H(H(p) xor H(g) | H(salt1) | H(salt2) | g_a | g_b | k_a)
     answer: inputCheckPasswordSRP { A = g_a, M1 }

   New password: new_password_hash := v = pow(g, PH2(password, salt1 | 32 random bytes, salt2)) mod p,
   padded to 2048 bits. *)
From Coq Require Import ZArith List Bool Lia.
Import ListNotations.
Open Scope Z_scope.

Section SrpSpec.
  Variable sha256 : list Z -> list Z.
  Variable pbkdf2_sha512_100000 : list Z -> list Z -> list Z.   (* password, salt -> 64 bytes *)

  (* big-endian, exactly 256 bytes *)
  Definition num2048 (v : Z) : list Z :=
    map (fun i => (v / 256 ^ Z.of_nat (255 - i)) mod 256) (seq 0 256).
  (* the number denoted by a byte string *)
  Definition to_num (s : list Z) : Z := fold_left (fun acc b => acc * 256 + b) s 0.
  Definition XOR (a b : list Z) : list Z := map (fun q => Z.lxor (fst q) (snd q)) (combine a b).

  Definition SH (data salt : list Z) : list Z := sha256 (salt ++ data ++ salt).
  Definition PH1 (password salt1 salt2 : list Z) : list Z := SH (SH password salt1) salt2.
  Definition PH2 (password salt1 salt2 : list Z) : list Z :=
    SH (pbkdf2_sha512_100000 (PH1 password salt1 salt2) salt1) salt2.

  Definition spec_k (p g : Z) : Z := to_num (sha256 (num2048 p ++ num2048 g)).
  Definition spec_x (password salt1 salt2 : list Z) : Z := to_num (PH2 password salt1 salt2).
  Definition spec_v (p g x : Z) : Z := g ^ x mod p.
  Definition spec_g_a (p g a : Z) : Z := g ^ a mod p.
  Definition spec_u (g_a g_b : Z) : Z := to_num (sha256 (num2048 g_a ++ num2048 g_b)).
  Definition spec_s_a (p g g_b a u x : Z) : Z :=
    let k_v := (spec_k p g * spec_v p g x) mod p in
    let t := (g_b - k_v) mod p in
    t ^ (a + u * x) mod p.
  Definition spec_M1 (p g : Z) (salt1 salt2 : list Z) (g_a g_b s_a : Z) : list Z :=
    let k_a := sha256 (num2048 s_a) in
    sha256 (XOR (sha256 (num2048 p)) (sha256 (num2048 g)) ++ sha256 salt1 ++ sha256 salt2 ++
            num2048 g_a ++ num2048 g_b ++ k_a).

  (* g_b must be a group element: 0 < g_b < p.  Classic SRP-6a obliges the client to abort when
     B mod p = 0, and TDLib (PasswordManager) refuses srp_B unless 0 < B < p; the formulas below
     are meant for such B only. *)
  Definition spec_valid_B (p g_b : Z) : Prop := 0 < g_b < p.

  (* the answer (A, M1) *)
  Definition spec_answer (password salt1 salt2 : list Z) (p g g_b a : Z) : list Z * list Z :=
    let g_a := spec_g_a p g a in
    let x := spec_x password salt1 salt2 in
    let u := spec_u g_a g_b in
    let s_a := spec_s_a p g g_b a u x in
    (num2048 g_a, spec_M1 p g salt1 salt2 g_a g_b s_a).

  (* server side (classic SRP-6a as used by Telegram): the server holds v, picks b, sends
     g_b = (k*v + g^b) mod p, computes s_b = (g_a * v^u)^b mod p and accepts iff M1 matches *)
  Definition spec_server_B (p g v b : Z) : Z := (spec_k p g * v + g ^ b) mod p.
  Definition spec_s_b (p v g_a u b : Z) : Z := (g_a * v ^ u) ^ b mod p.
  Definition spec_server_accepts (p g : Z) (salt1 salt2 : list Z) (v b : Z) (A M1 : list Z) : Prop :=
    let g_a := to_num A in
    let g_b := spec_server_B p g v b in
    let u := spec_u g_a g_b in
    M1 = spec_M1 p g salt1 salt2 g_a g_b (spec_s_b p v g_a u b).

  Definition spec_new_password_hash (password salt1 random32 salt2 : list Z) (p g : Z) : list Z :=
    num2048 (spec_v p g (spec_x password (salt1 ++ random32) salt2)).
End SrpSpec.
