(* Model of rpc.Engine (rpc/engine.go, rpc/ack.go) as a labelled transition system.

   One event = one atomic action of one goroutine: the code between two consecutive
   scheduling points (the verifhook.At("rpc.*") lines, the entry of the injected send /
   drop functions, the entry of the Output decoder). Each such segment touches shared
   state at most once: one region of Engine.mux, one channel operation / select commit,
   one CAS on handlerCalled, one context cancellation, one call of an injected dependency.
   "select" with several ready cases = several enabled events.

   Actors: callers c (goroutines running Do), deliveries d (goroutines running
   NotifyResult / NotifyError), the environment (NotifyAcks, cancellation of a caller's
   context, a retry timer firing, ForceClose = reqCancel then Close).

   The state carries ghost fields that are functions of the event history only (they
   never influence enabledness): nret, late, isobad, deliv, snap25, viol25, snap26,
   viol26, everreg, selfclaim, sendcanc, leftloop, violleft. The property theorems are
   statements about them.

   The model mirrors the code after the fix commits 8d7dbf1e8 (claim-or-await on return),
   5a883bad7 (timer branch polls ack/ctx), df56df347 (close branch polls ctx) and 459a12526
   (after waiting for a handler that had claimed the call, Do returns its outcome instead of
   the retryable engine-closed error).

   Explicit environment assumptions, visible as guards: the msg ids of all calls that enter
   Do are pairwise distinct (CEntered, ghost [used]); an injected send reports
   context.Canceled only if the retry context is cancelled (CSend with outcome 2). *)
From Coq Require Import ZArith List Bool.
From TD Require Import Gen.RpcClass.
Import ListNotations.
Open Scope Z_scope.

(* projection of the error returned by Do *)
Inductive retv :=
| RNil | RDecodeErr | RRpc (code : Z) | RCtx | RClosedRetryable | RClosedAcked
| RRejected | RSendErr | RSendCanc | RLimit.

(* how retryUntilAck ended *)
Inductive lres := LNil | LCtx | LClosedUnacked | LSendFail1 | LSendCanc1 | LSendFail | LLimit.

(* program counter of a caller = the last scheduling point it reached *)
Inductive cpc :=
| PIdle | PEntered | PRegistered | PAckWait | PSentGo | PSelect | PSelClosed | PSelTimer | PTimerGo
| PExit (l : lres) | PRetried (l : lres) | PWait | PWaitCtx | PNop | PDropped | PWaitClosed
| PFinal (r : retv) | PUnreg (r : retv) | PAwait (r : retv) | PSettled (r : retv) | PReturned (r : retv).

Inductive hnd := HReal (c : Z) | HNop.
Inductive payload := PRes (v : Z) | PBad | PErr (code : Z).

Inductive dpc :=
| DIdle | DLooked (h : option hnd) | DUnknown | DEntered (c : Z) | DDup (c : Z) | DClaimed (c : Z)
| DDecoded (c : Z) (ok : bool) | DDoneClosed (c : Z) (fin : Z) | DRetryClosed (c : Z) (fin : Z) | DFinished.

Record del := mkDel { dpcv : dpc; dpay : payload; dmid : Z }.

Record call := mkCall {
  pc : cpc;
  mid : Z;
  seq : Z;
  body : Z;
  ucancel : bool;
  rcancel : bool;
  ackclosed : bool;
  tmade : bool;
  armed : bool;
  tval : bool;
  retries : Z;
  sent : bool;
  hc : bool;
  writer : option Z;
  done : bool;
  res : retv;
  out : Z;
  nwrites : Z;
  nsends : Z;
  ndrops : Z;
  nret : Z;
  late : bool;
  isobad : bool;
  deliv : bool;
  snap25 : bool;
  viol25 : bool;
  snap26 : bool;
  viol26 : bool;
  everreg : bool;
  selfclaim : bool;
  sendcanc : bool;
  leftloop : bool;
  violleft : bool;
  entered : bool
}.

Definition set_pc (k : call) (v : cpc) : call := mkCall v (mid k) (seq k) (body k) (ucancel k) (rcancel k) (ackclosed k) (tmade k) (armed k) (tval k) (retries k) (sent k) (hc k) (writer k) (done k) (res k) (out k) (nwrites k) (nsends k) (ndrops k) (nret k) (late k) (isobad k) (deliv k) (snap25 k) (viol25 k) (snap26 k) (viol26 k) (everreg k) (selfclaim k) (sendcanc k) (leftloop k) (violleft k) (entered k).
Definition set_mid (k : call) (v : Z) : call := mkCall (pc k) v (seq k) (body k) (ucancel k) (rcancel k) (ackclosed k) (tmade k) (armed k) (tval k) (retries k) (sent k) (hc k) (writer k) (done k) (res k) (out k) (nwrites k) (nsends k) (ndrops k) (nret k) (late k) (isobad k) (deliv k) (snap25 k) (viol25 k) (snap26 k) (viol26 k) (everreg k) (selfclaim k) (sendcanc k) (leftloop k) (violleft k) (entered k).
Definition set_seq (k : call) (v : Z) : call := mkCall (pc k) (mid k) v (body k) (ucancel k) (rcancel k) (ackclosed k) (tmade k) (armed k) (tval k) (retries k) (sent k) (hc k) (writer k) (done k) (res k) (out k) (nwrites k) (nsends k) (ndrops k) (nret k) (late k) (isobad k) (deliv k) (snap25 k) (viol25 k) (snap26 k) (viol26 k) (everreg k) (selfclaim k) (sendcanc k) (leftloop k) (violleft k) (entered k).
Definition set_body (k : call) (v : Z) : call := mkCall (pc k) (mid k) (seq k) v (ucancel k) (rcancel k) (ackclosed k) (tmade k) (armed k) (tval k) (retries k) (sent k) (hc k) (writer k) (done k) (res k) (out k) (nwrites k) (nsends k) (ndrops k) (nret k) (late k) (isobad k) (deliv k) (snap25 k) (viol25 k) (snap26 k) (viol26 k) (everreg k) (selfclaim k) (sendcanc k) (leftloop k) (violleft k) (entered k).
Definition set_ucancel (k : call) (v : bool) : call := mkCall (pc k) (mid k) (seq k) (body k) v (rcancel k) (ackclosed k) (tmade k) (armed k) (tval k) (retries k) (sent k) (hc k) (writer k) (done k) (res k) (out k) (nwrites k) (nsends k) (ndrops k) (nret k) (late k) (isobad k) (deliv k) (snap25 k) (viol25 k) (snap26 k) (viol26 k) (everreg k) (selfclaim k) (sendcanc k) (leftloop k) (violleft k) (entered k).
Definition set_rcancel (k : call) (v : bool) : call := mkCall (pc k) (mid k) (seq k) (body k) (ucancel k) v (ackclosed k) (tmade k) (armed k) (tval k) (retries k) (sent k) (hc k) (writer k) (done k) (res k) (out k) (nwrites k) (nsends k) (ndrops k) (nret k) (late k) (isobad k) (deliv k) (snap25 k) (viol25 k) (snap26 k) (viol26 k) (everreg k) (selfclaim k) (sendcanc k) (leftloop k) (violleft k) (entered k).
Definition set_ackclosed (k : call) (v : bool) : call := mkCall (pc k) (mid k) (seq k) (body k) (ucancel k) (rcancel k) v (tmade k) (armed k) (tval k) (retries k) (sent k) (hc k) (writer k) (done k) (res k) (out k) (nwrites k) (nsends k) (ndrops k) (nret k) (late k) (isobad k) (deliv k) (snap25 k) (viol25 k) (snap26 k) (viol26 k) (everreg k) (selfclaim k) (sendcanc k) (leftloop k) (violleft k) (entered k).
Definition set_tmade (k : call) (v : bool) : call := mkCall (pc k) (mid k) (seq k) (body k) (ucancel k) (rcancel k) (ackclosed k) v (armed k) (tval k) (retries k) (sent k) (hc k) (writer k) (done k) (res k) (out k) (nwrites k) (nsends k) (ndrops k) (nret k) (late k) (isobad k) (deliv k) (snap25 k) (viol25 k) (snap26 k) (viol26 k) (everreg k) (selfclaim k) (sendcanc k) (leftloop k) (violleft k) (entered k).
Definition set_armed (k : call) (v : bool) : call := mkCall (pc k) (mid k) (seq k) (body k) (ucancel k) (rcancel k) (ackclosed k) (tmade k) v (tval k) (retries k) (sent k) (hc k) (writer k) (done k) (res k) (out k) (nwrites k) (nsends k) (ndrops k) (nret k) (late k) (isobad k) (deliv k) (snap25 k) (viol25 k) (snap26 k) (viol26 k) (everreg k) (selfclaim k) (sendcanc k) (leftloop k) (violleft k) (entered k).
Definition set_tval (k : call) (v : bool) : call := mkCall (pc k) (mid k) (seq k) (body k) (ucancel k) (rcancel k) (ackclosed k) (tmade k) (armed k) v (retries k) (sent k) (hc k) (writer k) (done k) (res k) (out k) (nwrites k) (nsends k) (ndrops k) (nret k) (late k) (isobad k) (deliv k) (snap25 k) (viol25 k) (snap26 k) (viol26 k) (everreg k) (selfclaim k) (sendcanc k) (leftloop k) (violleft k) (entered k).
Definition set_retries (k : call) (v : Z) : call := mkCall (pc k) (mid k) (seq k) (body k) (ucancel k) (rcancel k) (ackclosed k) (tmade k) (armed k) (tval k) v (sent k) (hc k) (writer k) (done k) (res k) (out k) (nwrites k) (nsends k) (ndrops k) (nret k) (late k) (isobad k) (deliv k) (snap25 k) (viol25 k) (snap26 k) (viol26 k) (everreg k) (selfclaim k) (sendcanc k) (leftloop k) (violleft k) (entered k).
Definition set_sent (k : call) (v : bool) : call := mkCall (pc k) (mid k) (seq k) (body k) (ucancel k) (rcancel k) (ackclosed k) (tmade k) (armed k) (tval k) (retries k) v (hc k) (writer k) (done k) (res k) (out k) (nwrites k) (nsends k) (ndrops k) (nret k) (late k) (isobad k) (deliv k) (snap25 k) (viol25 k) (snap26 k) (viol26 k) (everreg k) (selfclaim k) (sendcanc k) (leftloop k) (violleft k) (entered k).
Definition set_hc (k : call) (v : bool) : call := mkCall (pc k) (mid k) (seq k) (body k) (ucancel k) (rcancel k) (ackclosed k) (tmade k) (armed k) (tval k) (retries k) (sent k) v (writer k) (done k) (res k) (out k) (nwrites k) (nsends k) (ndrops k) (nret k) (late k) (isobad k) (deliv k) (snap25 k) (viol25 k) (snap26 k) (viol26 k) (everreg k) (selfclaim k) (sendcanc k) (leftloop k) (violleft k) (entered k).
Definition set_writer (k : call) (v : option Z) : call := mkCall (pc k) (mid k) (seq k) (body k) (ucancel k) (rcancel k) (ackclosed k) (tmade k) (armed k) (tval k) (retries k) (sent k) (hc k) v (done k) (res k) (out k) (nwrites k) (nsends k) (ndrops k) (nret k) (late k) (isobad k) (deliv k) (snap25 k) (viol25 k) (snap26 k) (viol26 k) (everreg k) (selfclaim k) (sendcanc k) (leftloop k) (violleft k) (entered k).
Definition set_done (k : call) (v : bool) : call := mkCall (pc k) (mid k) (seq k) (body k) (ucancel k) (rcancel k) (ackclosed k) (tmade k) (armed k) (tval k) (retries k) (sent k) (hc k) (writer k) v (res k) (out k) (nwrites k) (nsends k) (ndrops k) (nret k) (late k) (isobad k) (deliv k) (snap25 k) (viol25 k) (snap26 k) (viol26 k) (everreg k) (selfclaim k) (sendcanc k) (leftloop k) (violleft k) (entered k).
Definition set_res (k : call) (v : retv) : call := mkCall (pc k) (mid k) (seq k) (body k) (ucancel k) (rcancel k) (ackclosed k) (tmade k) (armed k) (tval k) (retries k) (sent k) (hc k) (writer k) (done k) v (out k) (nwrites k) (nsends k) (ndrops k) (nret k) (late k) (isobad k) (deliv k) (snap25 k) (viol25 k) (snap26 k) (viol26 k) (everreg k) (selfclaim k) (sendcanc k) (leftloop k) (violleft k) (entered k).
Definition set_out (k : call) (v : Z) : call := mkCall (pc k) (mid k) (seq k) (body k) (ucancel k) (rcancel k) (ackclosed k) (tmade k) (armed k) (tval k) (retries k) (sent k) (hc k) (writer k) (done k) (res k) v (nwrites k) (nsends k) (ndrops k) (nret k) (late k) (isobad k) (deliv k) (snap25 k) (viol25 k) (snap26 k) (viol26 k) (everreg k) (selfclaim k) (sendcanc k) (leftloop k) (violleft k) (entered k).
Definition set_nwrites (k : call) (v : Z) : call := mkCall (pc k) (mid k) (seq k) (body k) (ucancel k) (rcancel k) (ackclosed k) (tmade k) (armed k) (tval k) (retries k) (sent k) (hc k) (writer k) (done k) (res k) (out k) v (nsends k) (ndrops k) (nret k) (late k) (isobad k) (deliv k) (snap25 k) (viol25 k) (snap26 k) (viol26 k) (everreg k) (selfclaim k) (sendcanc k) (leftloop k) (violleft k) (entered k).
Definition set_nsends (k : call) (v : Z) : call := mkCall (pc k) (mid k) (seq k) (body k) (ucancel k) (rcancel k) (ackclosed k) (tmade k) (armed k) (tval k) (retries k) (sent k) (hc k) (writer k) (done k) (res k) (out k) (nwrites k) v (ndrops k) (nret k) (late k) (isobad k) (deliv k) (snap25 k) (viol25 k) (snap26 k) (viol26 k) (everreg k) (selfclaim k) (sendcanc k) (leftloop k) (violleft k) (entered k).
Definition set_ndrops (k : call) (v : Z) : call := mkCall (pc k) (mid k) (seq k) (body k) (ucancel k) (rcancel k) (ackclosed k) (tmade k) (armed k) (tval k) (retries k) (sent k) (hc k) (writer k) (done k) (res k) (out k) (nwrites k) (nsends k) v (nret k) (late k) (isobad k) (deliv k) (snap25 k) (viol25 k) (snap26 k) (viol26 k) (everreg k) (selfclaim k) (sendcanc k) (leftloop k) (violleft k) (entered k).
Definition set_nret (k : call) (v : Z) : call := mkCall (pc k) (mid k) (seq k) (body k) (ucancel k) (rcancel k) (ackclosed k) (tmade k) (armed k) (tval k) (retries k) (sent k) (hc k) (writer k) (done k) (res k) (out k) (nwrites k) (nsends k) (ndrops k) v (late k) (isobad k) (deliv k) (snap25 k) (viol25 k) (snap26 k) (viol26 k) (everreg k) (selfclaim k) (sendcanc k) (leftloop k) (violleft k) (entered k).
Definition set_late (k : call) (v : bool) : call := mkCall (pc k) (mid k) (seq k) (body k) (ucancel k) (rcancel k) (ackclosed k) (tmade k) (armed k) (tval k) (retries k) (sent k) (hc k) (writer k) (done k) (res k) (out k) (nwrites k) (nsends k) (ndrops k) (nret k) v (isobad k) (deliv k) (snap25 k) (viol25 k) (snap26 k) (viol26 k) (everreg k) (selfclaim k) (sendcanc k) (leftloop k) (violleft k) (entered k).
Definition set_isobad (k : call) (v : bool) : call := mkCall (pc k) (mid k) (seq k) (body k) (ucancel k) (rcancel k) (ackclosed k) (tmade k) (armed k) (tval k) (retries k) (sent k) (hc k) (writer k) (done k) (res k) (out k) (nwrites k) (nsends k) (ndrops k) (nret k) (late k) v (deliv k) (snap25 k) (viol25 k) (snap26 k) (viol26 k) (everreg k) (selfclaim k) (sendcanc k) (leftloop k) (violleft k) (entered k).
Definition set_deliv (k : call) (v : bool) : call := mkCall (pc k) (mid k) (seq k) (body k) (ucancel k) (rcancel k) (ackclosed k) (tmade k) (armed k) (tval k) (retries k) (sent k) (hc k) (writer k) (done k) (res k) (out k) (nwrites k) (nsends k) (ndrops k) (nret k) (late k) (isobad k) v (snap25 k) (viol25 k) (snap26 k) (viol26 k) (everreg k) (selfclaim k) (sendcanc k) (leftloop k) (violleft k) (entered k).
Definition set_snap25 (k : call) (v : bool) : call := mkCall (pc k) (mid k) (seq k) (body k) (ucancel k) (rcancel k) (ackclosed k) (tmade k) (armed k) (tval k) (retries k) (sent k) (hc k) (writer k) (done k) (res k) (out k) (nwrites k) (nsends k) (ndrops k) (nret k) (late k) (isobad k) (deliv k) v (viol25 k) (snap26 k) (viol26 k) (everreg k) (selfclaim k) (sendcanc k) (leftloop k) (violleft k) (entered k).
Definition set_viol25 (k : call) (v : bool) : call := mkCall (pc k) (mid k) (seq k) (body k) (ucancel k) (rcancel k) (ackclosed k) (tmade k) (armed k) (tval k) (retries k) (sent k) (hc k) (writer k) (done k) (res k) (out k) (nwrites k) (nsends k) (ndrops k) (nret k) (late k) (isobad k) (deliv k) (snap25 k) v (snap26 k) (viol26 k) (everreg k) (selfclaim k) (sendcanc k) (leftloop k) (violleft k) (entered k).
Definition set_snap26 (k : call) (v : bool) : call := mkCall (pc k) (mid k) (seq k) (body k) (ucancel k) (rcancel k) (ackclosed k) (tmade k) (armed k) (tval k) (retries k) (sent k) (hc k) (writer k) (done k) (res k) (out k) (nwrites k) (nsends k) (ndrops k) (nret k) (late k) (isobad k) (deliv k) (snap25 k) (viol25 k) v (viol26 k) (everreg k) (selfclaim k) (sendcanc k) (leftloop k) (violleft k) (entered k).
Definition set_viol26 (k : call) (v : bool) : call := mkCall (pc k) (mid k) (seq k) (body k) (ucancel k) (rcancel k) (ackclosed k) (tmade k) (armed k) (tval k) (retries k) (sent k) (hc k) (writer k) (done k) (res k) (out k) (nwrites k) (nsends k) (ndrops k) (nret k) (late k) (isobad k) (deliv k) (snap25 k) (viol25 k) (snap26 k) v (everreg k) (selfclaim k) (sendcanc k) (leftloop k) (violleft k) (entered k).
Definition set_everreg (k : call) (v : bool) : call := mkCall (pc k) (mid k) (seq k) (body k) (ucancel k) (rcancel k) (ackclosed k) (tmade k) (armed k) (tval k) (retries k) (sent k) (hc k) (writer k) (done k) (res k) (out k) (nwrites k) (nsends k) (ndrops k) (nret k) (late k) (isobad k) (deliv k) (snap25 k) (viol25 k) (snap26 k) (viol26 k) v (selfclaim k) (sendcanc k) (leftloop k) (violleft k) (entered k).
Definition set_selfclaim (k : call) (v : bool) : call := mkCall (pc k) (mid k) (seq k) (body k) (ucancel k) (rcancel k) (ackclosed k) (tmade k) (armed k) (tval k) (retries k) (sent k) (hc k) (writer k) (done k) (res k) (out k) (nwrites k) (nsends k) (ndrops k) (nret k) (late k) (isobad k) (deliv k) (snap25 k) (viol25 k) (snap26 k) (viol26 k) (everreg k) v (sendcanc k) (leftloop k) (violleft k) (entered k).
Definition set_sendcanc (k : call) (v : bool) : call := mkCall (pc k) (mid k) (seq k) (body k) (ucancel k) (rcancel k) (ackclosed k) (tmade k) (armed k) (tval k) (retries k) (sent k) (hc k) (writer k) (done k) (res k) (out k) (nwrites k) (nsends k) (ndrops k) (nret k) (late k) (isobad k) (deliv k) (snap25 k) (viol25 k) (snap26 k) (viol26 k) (everreg k) (selfclaim k) v (leftloop k) (violleft k) (entered k).
Definition set_leftloop (k : call) (v : bool) : call := mkCall (pc k) (mid k) (seq k) (body k) (ucancel k) (rcancel k) (ackclosed k) (tmade k) (armed k) (tval k) (retries k) (sent k) (hc k) (writer k) (done k) (res k) (out k) (nwrites k) (nsends k) (ndrops k) (nret k) (late k) (isobad k) (deliv k) (snap25 k) (viol25 k) (snap26 k) (viol26 k) (everreg k) (selfclaim k) (sendcanc k) v (violleft k) (entered k).
Definition set_violleft (k : call) (v : bool) : call := mkCall (pc k) (mid k) (seq k) (body k) (ucancel k) (rcancel k) (ackclosed k) (tmade k) (armed k) (tval k) (retries k) (sent k) (hc k) (writer k) (done k) (res k) (out k) (nwrites k) (nsends k) (ndrops k) (nret k) (late k) (isobad k) (deliv k) (snap25 k) (viol25 k) (snap26 k) (viol26 k) (everreg k) (selfclaim k) (sendcanc k) (leftloop k) v (entered k).
Definition set_entered (k : call) (v : bool) : call := mkCall (pc k) (mid k) (seq k) (body k) (ucancel k) (rcancel k) (ackclosed k) (tmade k) (armed k) (tval k) (retries k) (sent k) (hc k) (writer k) (done k) (res k) (out k) (nwrites k) (nsends k) (ndrops k) (nret k) (late k) (isobad k) (deliv k) (snap25 k) (viol25 k) (snap26 k) (viol26 k) (everreg k) (selfclaim k) (sendcanc k) (leftloop k) (violleft k) v.

Definition call0 : call :=
  mkCall PIdle 0 0 0 false false false false false false 0 false false None false RNil 0 0 0 0
         0 false false false false false false false false false false false false false.
Definition del0 : del := mkDel DIdle PBad 0.

Inductive ev :=
(* caller c *)
| CEntered (c m q b : Z) | CRegistered (c : Z) | CAckWait (c : Z) | CSend (c m q b o : Z)
| CSelect (c : Z) | CSelCtx (c : Z) | CSelClosed (c : Z) | CSelAck (c : Z) | CSelTimer (c : Z)
| CTimerAcked (c : Z) | CTimerCtx (c : Z) | CTimerGo (c : Z)
| CClosedAcked (c : Z) | CClosedCtx (c : Z) | CClosedUnacked (c : Z)
| CRetried (c : Z) | CRetryErr (c : Z) | CWait (c : Z) | CWaitCtx (c : Z) | CNop (c : Z) | CDrop (c m o : Z)
| CWaitClosed (c : Z) | CWaitClosedDone (c : Z) | CWaitClosedNoDone (c : Z) | CWaitDone (c : Z)
| CUnregistered (c : Z) | CAwait (c : Z) | CSettled (c : Z) | CReturn (c rc rd : Z) (rtp rtt : bool)
(* delivery d *)
| NLookup (d m k v : Z) | NUnknown (d : Z) | NEnter (d c : Z) | NDup (d c : Z) | NClaimed (d c : Z)
| NDecode (d c : Z) (ok : bool) (v : Z) | NDoneClosed (d c : Z) | NRetryClosed (d c : Z) | NFinish (d r : Z)
(* environment *)
| XAcks (l l2 : list Z) | XCancel (c : Z) | XTimerFire (c : Z) | XForceCancel | XCloseMark
(* Close / ForceClose returns: wg.Wait found the wait group empty *)
| XCloseReturned.

Record state := mkState {
  calls : Z -> call;
  dels : Z -> del;
  rpcm : Z -> option hnd;      (* Engine.rpc *)
  ackm : Z -> option Z;        (* Engine.ack: msg id -> call owning the channel *)
  fclosed : bool;              (* reqCtx cancelled *)
  eclosed : bool;              (* Engine.closed *)
  maxr : Z;                    (* Engine.maxRetries *)
  used : Z -> bool;            (* ghost: msg ids of the calls that have entered Do *)
  wgl : list Z;                (* Engine.wg: the calls between wg.Add (in Do's entry region) and wg.Done *)
  closeret : bool              (* ghost: a Close / ForceClose call has returned (wg.Wait came back) *)
}.

Definition upd {A} (f : Z -> A) (k : Z) (v : A) : Z -> A := fun x => if Z.eqb x k then v else f x.

Definition init (mx : Z) : state :=
  mkState (fun _ => call0) (fun _ => del0) (fun _ => None) (fun _ => None) false false mx (fun _ => false) [] false.

Definition ret_code (r : retv) : Z * Z :=
  match r with
  | RNil => (0, 0) | RDecodeErr => (1, 0) | RRpc c => (2, c) | RCtx => (3, 0)
  | RClosedRetryable => (4, 0) | RClosedAcked => (5, 0) | RRejected => (6, 0)
  | RSendErr => (7, 0) | RSendCanc => (8, 0) | RLimit => (9, 0)
  end.
Definition ret_matches (r : retv) (rc rd : Z) : bool :=
  let '(a, b) := ret_code r in Z.eqb a rc && Z.eqb b rd.

(* errors.Is(err, rpc.ErrEngineClosed) on the error value behind each class *)
Definition is_engine_closed (r : retv) : bool :=
  match r with RClosedRetryable | RRejected => true | _ => false end.
(* errors.Is(err, S) for the error value behind each class and the sentinels of the translator's
   table (xlate/specs/C26.json): 1 ErrConnDead, 2 rpc.ErrEngineClosed, 3 context.Canceled,
   4 net.ErrClosed, 5 EPIPE, 6 ECONNRESET, 7 context.DeadlineExceeded, 8 io.EOF,
   9 io.ErrUnexpectedEOF; ids >= 1000 are sentinels the table does not know. The engine's errors
   wrap only ErrEngineClosed, context.Canceled (ctx.Err(), reqCtx.Err(), a Canceled send) and
   the decoder's io.ErrUnexpectedEOF; RSendErr stands for a transmission error that is none of
   the sentinels. *)
Definition is_canceled (r : retv) : bool :=
  match r with RCtx | RClosedAcked | RSendCanc => true | _ => false end.
Definition err_is (r : retv) (s : Z) : bool :=
  if Z.eqb s 2 then is_engine_closed r
  else if Z.eqb s 3 then is_canceled r
  else if Z.eqb s 9 then (match r with RDecodeErr => true | _ => false end)
  else false.
(* both classification functions of the code base (generated from the source) *)
Definition retryable (r : retv) : bool := retryable_pool_go (err_is r).
Definition retryable_tg (r : retv) : bool := retryable_telegram_go (err_is r).

Definition is_returned (p : cpc) : bool := match p with PReturned _ => true | _ => false end.
Definition is_closed_retryable (r : retv) : bool := match r with RClosedRetryable => true | _ => false end.

(* effect of a caller step on the engine's maps *)
Inductive geff := GNone | GRpc (m : Z) (h : option hnd) | GAck (m : Z) (o : option Z).

Definition leave (k : call) (l : lres) : call := set_leftloop (set_pc k (PExit l)) true.

(* One step of caller c on its own record. fc = reqCtx cancelled, ec = Engine.closed,
   ackfree = no ack channel registered under the call's msg id. *)
Definition caller (mx : Z) (fc ec ackfree : bool) (c : Z) (k : call) (e : ev) : option (call * geff) :=
  match e with
  | CEntered _ m q b =>
      match pc k with
      | PIdle => if ec then None else Some (set_entered (set_body (set_seq (set_mid (set_pc k PEntered) m) q) b) true, GNone)
      | _ => None
      end
  | CRegistered _ =>
      match pc k with
      | PEntered => Some (set_everreg (set_pc k PRegistered) true, GRpc (mid k) (Some (HReal c)))
      | _ => None
      end
  | CAckWait _ =>
      match pc k with
      | PRegistered => if ackfree then Some (set_pc k PAckWait, GAck (mid k) (Some c)) else None
      | _ => None
      end
  | CSend _ m q b o =>
      if Z.eqb m (mid k) && Z.eqb q (seq k) && Z.eqb b (body k) then
        let k1 := set_violleft (set_nsends k (nsends k + 1)) (violleft k || leftloop k) in
        match pc k with
        | PAckWait =>
            if Z.eqb o 0 then Some (set_pc k1 PSentGo, GNone)
            else if Z.eqb o 1 then Some (set_pc k1 (PExit LSendFail1), GNone)
            else if Z.eqb o 2 && rcancel k then Some (set_sendcanc (set_pc k1 (PExit LSendCanc1)) true, GNone)
            else None
        | PTimerGo =>
            (* timer.Reset, then the retransmission *)
            let k2 := set_viol25 (set_armed k1 true) (viol25 k || snap25 k) in
            if Z.eqb o 0 then
              let k3 := set_retries k2 (retries k + 1) in
              if Z.geb (retries k + 1) mx then Some (set_pc k3 (PExit LLimit), GNone)
              else Some (set_pc k3 PSentGo, GNone)
            else if Z.eqb o 1 then Some (set_pc k2 (PExit LSendFail), GNone)
            else if Z.eqb o 2 && rcancel k then Some (set_sendcanc (leave k2 LNil) true, GNone)
            else None
        | _ => None
        end
      else None
  | CSelect _ =>
      match pc k with
      | PSentGo =>
          if tmade k then Some (set_pc k PSelect, GNone)
          else Some (set_armed (set_tmade (set_pc k PSelect) true) true, GNone)
      | _ => None
      end
  | CSelCtx _ => match pc k with PSelect => if rcancel k then Some (leave k LCtx, GNone) else None | _ => None end
  | CSelClosed _ => match pc k with PSelect => if fc then Some (set_pc k PSelClosed, GNone) else None | _ => None end
  | CSelAck _ => match pc k with PSelect => if ackclosed k then Some (leave k LNil, GNone) else None | _ => None end
  | CSelTimer _ =>
      match pc k with
      | PSelect => if tval k then Some (set_snap25 (set_tval (set_pc k PSelTimer) false) (deliv k), GNone) else None
      | _ => None
      end
  | CTimerAcked _ => match pc k with PSelTimer => if ackclosed k then Some (leave k LNil, GNone) else None | _ => None end
  | CTimerCtx _ => match pc k with PSelTimer => if rcancel k then Some (leave k LCtx, GNone) else None | _ => None end
  | CTimerGo _ =>
      match pc k with
      | PSelTimer => if ackclosed k || rcancel k then None else Some (set_pc k PTimerGo, GNone)
      | _ => None
      end
  | CClosedAcked _ => match pc k with PSelClosed => if ackclosed k then Some (leave k LNil, GNone) else None | _ => None end
  | CClosedCtx _ => match pc k with PSelClosed => if rcancel k then Some (leave k LCtx, GNone) else None | _ => None end
  | CClosedUnacked _ =>
      match pc k with
      | PSelClosed => if ackclosed k || rcancel k then None
                      else Some (set_snap26 (leave k LClosedUnacked) (deliv k), GNone)
      | _ => None
      end
  | CRetried _ =>
      (* deferred StopTimer, removeAck *)
      match pc k with
      | PExit l => Some (set_tval (set_armed (set_pc k (PRetried l)) false) false, GAck (mid k) None)
      | _ => None
      end
  | CRetryErr _ =>
      match pc k with
      | PRetried LClosedUnacked => Some (set_pc k (PFinal RClosedRetryable), GNone)
      | PRetried LSendFail1 | PRetried LSendFail => Some (set_pc k (PFinal RSendErr), GNone)
      | PRetried LLimit => Some (set_pc k (PFinal RLimit), GNone)
      | PRetried LSendCanc1 => if rcancel k then None else Some (set_pc k (PFinal RSendCanc), GNone)
      | _ => None
      end
  | CWait _ =>
      match pc k with
      | PRetried LNil | PRetried LCtx => Some (set_sent (set_pc k PWait) true, GNone)
      | PRetried LSendCanc1 => if rcancel k then Some (set_sent (set_pc k PWait) false, GNone) else None
      | _ => None
      end
  | CWaitCtx _ => match pc k with PWait => if ucancel k then Some (set_pc k PWaitCtx, GNone) else None | _ => None end
  | CNop _ => match pc k with PWaitCtx => if sent k then Some (set_pc k PNop, GRpc (mid k) (Some HNop)) else None | _ => None end
  | CDrop _ m o =>
      match pc k with
      | PNop => if Z.eqb m (mid k) then Some (set_ndrops (set_pc k PDropped) (ndrops k + 1), GNone) else None
      | _ => None
      end
  | CWaitClosed _ => match pc k with PWait => if fc then Some (set_pc k PWaitClosed, GNone) else None | _ => None end
  | CWaitClosedDone _ => match pc k with PWaitClosed => if done k then Some (set_pc k (PFinal (res k)), GNone) else None | _ => None end
  | CWaitClosedNoDone _ => match pc k with PWaitClosed => if done k then None else Some (set_pc k (PFinal RClosedAcked), GNone) | _ => None end
  | CWaitDone _ => match pc k with PWait => if done k then Some (set_pc k (PFinal (res k)), GNone) else None | _ => None end
  | CUnregistered _ =>
      match pc k with
      | PFinal r => Some (set_pc k (PUnreg r), GRpc (mid k) None)
      | PWaitCtx => if sent k then None else Some (set_pc k (PUnreg RCtx), GRpc (mid k) None)
      | PDropped => Some (set_pc k (PUnreg RCtx), GRpc (mid k) None)
      | _ => None
      end
  | CAwait _ => match pc k with PUnreg r => if hc k then Some (set_pc k (PAwait r), GNone) else None | _ => None end
  | CSettled _ =>
      match pc k with
      | PUnreg r => if hc k then None else Some (set_selfclaim (set_hc (set_pc k (PSettled r)) true) true, GNone)
      | PAwait r =>
          (* /repo 459a12526: the answer was being handled while the engine closed: prefer it *)
          if done k then Some (set_pc k (PSettled (if is_closed_retryable r then res k else r)), GNone) else None
      | _ => None
      end
  | CReturn _ rc rd rtp rtt =>
      match pc k with
      | PSettled r =>
          if ret_matches r rc rd && Bool.eqb rtp (retryable r) && Bool.eqb rtt (retryable_tg r) then
            Some (set_viol26 (set_nret (set_pc k (PReturned r)) (nret k + 1))
                             (viol26 k || (is_closed_retryable r && snap26 k)), GNone)
          else None
      | PIdle =>
          if ec && ret_matches RRejected rc rd && Bool.eqb rtp (retryable RRejected) && Bool.eqb rtt (retryable_tg RRejected)
          then Some (set_nret (set_pc k (PReturned RRejected)) (nret k + 1), GNone) else None
      | _ => None
      end
  | _ => None
  end.

Definition ev_caller (e : ev) : option Z :=
  match e with
  | CEntered c _ _ _ | CRegistered c | CAckWait c | CSend c _ _ _ _ | CSelect c | CSelCtx c | CSelClosed c
  | CSelAck c | CSelTimer c | CTimerAcked c | CTimerCtx c | CTimerGo c | CClosedAcked c | CClosedCtx c
  | CClosedUnacked c | CRetried c | CRetryErr c | CWait c | CWaitCtx c | CNop c | CDrop c _ _ | CWaitClosed c
  | CWaitClosedDone c | CWaitClosedNoDone c | CWaitDone c | CUnregistered c | CAwait c | CSettled c
  | CReturn c _ _ _ _ => Some c
  | _ => None
  end.

Definition apply_geff (s : state) (c : Z) (k : call) (g : geff) : state :=
  match g with
  | GNone => mkState (upd (calls s) c k) (dels s) (rpcm s) (ackm s) (fclosed s) (eclosed s) (maxr s) (used s) (wgl s) (closeret s)
  | GRpc m h => mkState (upd (calls s) c k) (dels s) (upd (rpcm s) m h) (ackm s) (fclosed s) (eclosed s) (maxr s) (used s) (wgl s) (closeret s)
  | GAck m o => mkState (upd (calls s) c k) (dels s) (rpcm s) (upd (ackm s) m o) (fclosed s) (eclosed s) (maxr s) (used s) (wgl s) (closeret s)
  end.

Definition set_call (s : state) (c : Z) (k : call) : state := apply_geff s c k GNone.
Definition mark_used (s : state) (m : Z) : state :=
  mkState (calls s) (dels s) (rpcm s) (ackm s) (fclosed s) (eclosed s) (maxr s) (upd (used s) m true) (wgl s) (closeret s).
Fixpoint zremove (c : Z) (l : list Z) : list Z :=
  match l with [] => [] | x :: t => if Z.eqb x c then zremove c t else x :: zremove c t end.
Definition set_wgl (s : state) (l : list Z) : state :=
  mkState (calls s) (dels s) (rpcm s) (ackm s) (fclosed s) (eclosed s) (maxr s) (used s) l (closeret s).
Definition set_del (s : state) (d : Z) (x : del) : state :=
  mkState (calls s) (upd (dels s) d x) (rpcm s) (ackm s) (fclosed s) (eclosed s) (maxr s) (used s) (wgl s) (closeret s).
Definition set_dpc (x : del) (p : dpc) : del := mkDel p (dpay x) (dmid x).

Definition payload_of (k v : Z) : option payload :=
  if Z.eqb k 0 then Some (PRes v) else if Z.eqb k 1 then Some PBad else if Z.eqb k 2 then Some (PErr v) else None.

Definition isNone {A} (o : option A) : bool := match o with None => true | Some _ => false end.

(* NotifyAcks: one mutex region over the whole id list *)
Fixpoint do_acks (cs : Z -> call) (am : Z -> option Z) (l : list Z) : (Z -> call) * (Z -> option Z) * list Z :=
  match l with
  | [] => (cs, am, [])
  | m :: t =>
      match am m with
      | Some c =>
          let '(cs', am', cl) := do_acks (upd cs c (set_deliv (set_ackclosed (cs c) true) true)) (upd am m None) t in
          (cs', am', m :: cl)
      | None => do_acks cs am t
      end
  end.

Fixpoint zlist_eqb (a b : list Z) : bool :=
  match a, b with
  | [], [] => true
  | x :: a', y :: b' => Z.eqb x y && zlist_eqb a' b'
  | _, _ => false
  end.

Definition step (s : state) (e : ev) : option state :=
  match ev_caller e with
  | Some c =>
      let k := calls s c in
      match caller (maxr s) (fclosed s) (eclosed s) (isNone (ackm s (mid k))) c k e with
      | Some (k', g) =>
          match e with
          | CEntered _ m _ _ =>
              (* environment assumption, explicit: the msg ids of all calls are pairwise distinct
                 (C08: outgoing ids are unique on a connection); a second Do with an id that was
                 already used is not part of the modelled histories *)
              (* the entry region of Do: closed check and wg.Add under Engine.mux *)
              if used s m then None
              else let s1 := mark_used (apply_geff s c k' g) m in Some (set_wgl s1 (c :: wgl s1))
          | CReturn _ _ _ _ _ =>
              (* the last deferred call of Do is wg.Done (a no-op for a rejected call, which never did wg.Add) *)
              let s1 := apply_geff s c k' g in Some (set_wgl s1 (zremove c (wgl s1)))
          | _ => Some (apply_geff s c k' g)
          end
      | None => None
      end
  | None =>
  match e with
  | NLookup d m kd v =>
      let x := dels s d in
      match dpcv x, payload_of kd v with
      | DIdle, Some p => Some (set_del s d (mkDel (DLooked (rpcm s m)) p m))
      | _, _ => None
      end
  | NUnknown d =>
      let x := dels s d in
      match dpcv x with DLooked None => Some (set_del s d (set_dpc x DUnknown)) | _ => None end
  | NEnter d c =>
      let x := dels s d in
      match dpcv x with
      | DLooked (Some (HReal c')) => if Z.eqb c c' then Some (set_del s d (set_dpc x (DEntered c))) else None
      | _ => None
      end
  | NDup d c =>
      let x := dels s d in
      match dpcv x with
      | DEntered c' => if Z.eqb c c' && hc (calls s c) then Some (set_del s d (set_dpc x (DDup c))) else None
      | _ => None
      end
  | NClaimed d c =>
      let x := dels s d in let k := calls s c in
      match dpcv x with
      | DEntered c' =>
          if Z.eqb c c' && negb (hc k)
          then Some (set_del (set_call s c (set_writer (set_hc k true) (Some d))) d (set_dpc x (DClaimed c)))
          else None
      | _ => None
      end
  | NDecode d c ok v =>
      let x := dels s d in let k := calls s c in
      match dpcv x, dpay x with
      | DClaimed c', PRes v' =>
          if Z.eqb c c' && ok && Z.eqb v v' then
            let k' := set_isobad (set_late (set_nwrites (set_out k v) (nwrites k + 1))
                                           (late k || is_returned (pc k)))
                                 (isobad k || negb (Z.eqb (dmid x) (mid k))) in
            Some (set_del (set_call s c k') d (set_dpc x (DDecoded c true)))
          else None
      | DClaimed c', PBad =>
          (* a failing Decode may have written part of the Output: same ghosts, no value *)
          if Z.eqb c c' && negb ok then
            let k' := set_isobad (set_late k (late k || is_returned (pc k)))
                                 (isobad k || negb (Z.eqb (dmid x) (mid k))) in
            Some (set_del (set_call s c k') d (set_dpc x (DDecoded c false)))
          else None
      | _, _ => None
      end
  | NDoneClosed d c =>
      let x := dels s d in let k := calls s c in
      match dpcv x, dpay x with
      | DDecoded c' true, _ =>
          if Z.eqb c c' then Some (set_del (set_call s c (set_done (set_res k RNil) true)) d (set_dpc x (DDoneClosed c 0))) else None
      | DDecoded c' false, _ =>
          if Z.eqb c c' then Some (set_del (set_call s c (set_done (set_res k RDecodeErr) true)) d (set_dpc x (DDoneClosed c 2))) else None
      | DClaimed c', PErr code =>
          if Z.eqb c c' then Some (set_del (set_call s c (set_done (set_res k (RRpc code)) true)) d (set_dpc x (DDoneClosed c 0))) else None
      | _, _ => None
      end
  | NRetryClosed d c =>
      let x := dels s d in let k := calls s c in
      match dpcv x with
      | DDoneClosed c' f =>
          if Z.eqb c c' then Some (set_del (set_call s c (set_deliv (set_rcancel k true) true)) d (set_dpc x (DRetryClosed c f))) else None
      | _ => None
      end
  | NFinish d r =>
      let x := dels s d in
      match dpcv x with
      | DUnknown | DLooked (Some HNop) => if Z.eqb r 0 then Some (set_del s d (set_dpc x DFinished)) else None
      | DDup _ =>
          (* NotifyResult returns the handler's "already called" error, NotifyError drops it *)
          if Z.eqb r (match dpay x with PErr _ => 0 | _ => 1 end) then Some (set_del s d (set_dpc x DFinished)) else None
      | DRetryClosed _ f => if Z.eqb r f then Some (set_del s d (set_dpc x DFinished)) else None
      | _ => None
      end
  | XAcks l l2 =>
      let '(cs, am, cl) := do_acks (calls s) (ackm s) l in
      if zlist_eqb cl l2 then Some (mkState cs (dels s) (rpcm s) am (fclosed s) (eclosed s) (maxr s) (used s) (wgl s) (closeret s)) else None
  | XCancel c =>
      let k := calls s c in
      Some (set_call s c (set_deliv (set_rcancel (set_ucancel k true) true) true))
  | XTimerFire c =>
      let k := calls s c in
      if armed k then Some (set_call s c (set_tval (set_armed k false) true)) else None
  | XForceCancel => Some (mkState (calls s) (dels s) (rpcm s) (ackm s) true (eclosed s) (maxr s) (used s) (wgl s) (closeret s))
  | XCloseMark => Some (mkState (calls s) (dels s) (rpcm s) (ackm s) (fclosed s) true (maxr s) (used s) (wgl s) (closeret s))
  | XCloseReturned =>
      (* Close: closed = true was set (XCloseMark), then wg.Wait returns only on an empty wait group *)
      if eclosed s && (match wgl s with [] => true | _ => false end)
      then Some (mkState (calls s) (dels s) (rpcm s) (ackm s) (fclosed s) (eclosed s) (maxr s) (used s) (wgl s) true)
      else None
  | _ => None
  end
  end.

Fixpoint run (s : state) (tr : list ev) : option state :=
  match tr with
  | [] => Some s
  | e :: t => match step s e with Some s' => run s' t | None => None end
  end.

(* index of the first event that is not enabled (for diagnostics) *)
Fixpoint first_disabled (s : state) (tr : list ev) (i : nat) : option nat :=
  match tr with
  | [] => None
  | e :: t => match step s e with Some s' => first_disabled s' t (S i) | None => Some i end
  end.

Definition is_env (e : ev) : bool :=
  match e with XAcks _ _ | XCancel _ | XTimerFire _ | XForceCancel | XCloseMark | NLookup _ _ _ _ | CEntered _ _ _ _ => true | _ => false end.
