(* Model of proto.MessageIDBuf.Consume (replay window) and of the acceptance pipeline of
   mtproto/read.go:decryptMessage + crypto/cipher_decrypt.go:Decrypt (C07).

   Constants come from the source on every run (Gen/RecvConsts.v): the window size N is the
   argument of the NewMessageIDBuf call in mtproto/conn.go, the initial values of the
   minimum search in Consume (minIDx, minID), minPadding/maxPadding in Decrypt, maxPast and
   maxFuture in read.go; MessageID.Type is translated (Gen/MsgIdGen.v).
   Definitions only. *)
From Coq Require Import ZArith List Bool.
From TD Require Import Gen.MsgIdGen Gen.RecvConsts Model.MsgId.
Import ListNotations.
Open Scope Z_scope.

(* ---------- MessageIDBuf.Consume ---------- *)
(* the `for i, id := range b.buf` loop: None = "equal to stored value" (return false),
   otherwise the final (minIDx, minID) *)
Fixpoint scan (buf : list Z) (i : nat) (newID : Z) (minIdx : nat) (minID : Z) : option (nat * Z) :=
  match buf with
  | [] => Some (minIdx, minID)
  | id :: t =>
      if id =? newID then None
      else if id <? minID then scan t (S i) newID i id
      else scan t (S i) newID minIdx minID
  end.

Fixpoint upd (l : list Z) (i : nat) (v : Z) : list Z :=
  match l, i with
  | [], _ => []            (* b.buf[i] = v out of range panics in Go: only for N = 0, excluded *)
  | _ :: t, O => v :: t
  | x :: t, S j => x :: upd t j v
  end.

(* Consume: (accepted?, buffer afterwards). The buffer starts as N zeros (NewMessageIDBuf). *)
Definition consume (buf : list Z) (newID : Z) : bool * list Z :=
  match scan buf 0 newID (Z.to_nat c_minIDx_init) c_minID_init with
  | None => (false, buf)
  | Some (mi, mv) => if newID <? mv then (false, buf) else (true, upd buf mi newID)
  end.

Definition buf_init (n : nat) : list Z := repeat 0 n.

Fixpoint consume_run (buf : list Z) (ids : list Z) : list bool :=
  match ids with
  | [] => []
  | id :: t => let '(b, buf') := consume buf id in b :: consume_run buf' t
  end.

(* ---------- specification of the replay window (the property's wording) ----------
   S = the stored ids (kept ascending); a new id is rejected if it equals a stored one, or
   if N ids are stored and it is lower than all of them; otherwise it is stored and, if more
   than N are now stored, the lowest is discarded. *)
Fixpoint insert (x : Z) (l : list Z) : list Z :=
  match l with
  | [] => [x]
  | y :: t => if x <=? y then x :: l else y :: insert x t
  end.

Definition spec_consume (N : nat) (S : list Z) (id : Z) : bool * list Z :=
  if existsb (Z.eqb id) S then (false, S)
  else if (N <=? length S)%nat && forallb (Z.ltb id) S then (false, S)
  else let S' := insert id S in (true, if (N <? length S')%nat then tl S' else S').

Fixpoint spec_run (N : nat) (S : list Z) (ids : list Z) : list bool :=
  match ids with
  | [] => []
  | id :: t => let '(b, S') := spec_consume N S id in b :: spec_run N S' t
  end.

(* ---------- the acceptance pipeline ---------- *)
(* What the cipher hands over for one incoming frame.  d_auth abstracts "decrypts under the
   session key": auth_key_id matches, ciphertext length is a multiple of 16 and the msg_key
   recomputed from the plaintext matches (C04/C05 are about that part). *)
Record dmsg := {
  d_auth : bool;
  d_session : Z;     (* session_id field *)
  d_id : Z;          (* msg_id field *)
  d_len : Z;         (* message_data_length field (int32) *)
  d_total : Z        (* len(MessageDataWithPadding): bytes after the 32-byte header *)
}.

(* crypto.Cipher.Decrypt after the msg_key check: DecodeWithoutCopy's length check, then
   the switch on n / paddingLen *)
Definition decrypt_ok (m : dmsg) : bool :=
  let n := d_len m in
  let pad := d_total m - n in
  d_auth m && negb (n >? d_total m) &&
  negb (n <? 0) && (Z.rem n 4 =? 0) && negb (pad <? c_minPadding) && negb (pad >? c_maxPadding).

(* mtproto.checkMessageID *)
Definition check_message_id (now id : Z) : bool :=
  let ty := message_type_go id in
  let created := id_time_lib id in
  ((ty =? c_MessageFromServer) || (ty =? c_MessageServerResponse)) &&
  negb ((created <? now) && (now - created >? c_maxPast)) &&
  negb (created - now >? c_maxFuture).

(* decryptMessage: accepted (handed to handleMessage) or not, and the buffer afterwards *)
Definition accept (session : Z) (buf : list Z) (now : Z) (m : dmsg) : bool * list Z :=
  if decrypt_ok m && (d_session m =? session) && check_message_id now (d_id m)
  then consume buf (d_id m) else (false, buf).

Fixpoint accept_run (session : Z) (buf : list Z) (h : list (Z * dmsg)) : list bool :=
  match h with
  | [] => []
  | (now, m) :: t => let '(b, buf') := accept session buf now m in b :: accept_run session buf' t
  end.

(* ---------- the property's statement of the pipeline ---------- *)
Definition conds (session now : Z) (m : dmsg) : Prop :=
  d_auth m = true /\                                     (* decrypts under the session key *)
  d_session m = session /\                               (* current session id *)
  (Z.rem (d_id m) 4 = 1 \/ Z.rem (d_id m) 4 = 3) /\      (* server-typed message id (Go's %: implies id > 0) *)
  now - 300 * 1000000000 <= id_time_lib (d_id m) <= now + 30 * 1000000000 /\
  12 <= d_total m - d_len m <= 1024 /\                   (* padding *)
  0 <= d_len m /\ d_len m mod 4 = 0.                     (* payload length *)
Definition condsb (session now : Z) (m : dmsg) : bool :=
  d_auth m && (d_session m =? session) &&
  ((Z.rem (d_id m) 4 =? 1) || (Z.rem (d_id m) 4 =? 3)) &&
  (now - 300 * 1000000000 <=? id_time_lib (d_id m)) && (id_time_lib (d_id m) <=? now + 30 * 1000000000) &&
  (12 <=? d_total m - d_len m) && (d_total m - d_len m <=? 1024) &&
  (0 <=? d_len m) && (d_len m mod 4 =? 0).

Definition spec_accept (N : nat) (session : Z) (S : list Z) (now : Z) (m : dmsg) : bool * list Z :=
  if condsb session now m then spec_consume N S (d_id m) else (false, S).
Fixpoint spec_accept_run (N : nat) (session : Z) (S : list Z) (h : list (Z * dmsg)) : list bool :=
  match h with
  | [] => []
  | (now, m) :: t => let '(b, S') := spec_accept N session S now m in b :: spec_accept_run N session S' t
  end.
