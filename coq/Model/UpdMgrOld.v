(* The routing of getDifference / channel getDifference BEFORE the repairs 6065f08e5,
   1f8c800bf, 3ce78403e, kept only so that the findings can be stated as machine-checked
   witnesses (Prop/C02.v, Prop/C03.v: *_before_repair).  Nothing else depends on this file.
     - other_updates of a common difference went through handleUpdates -> applyCombined ->
       the pts / qts boxes while the boxes still held the pre-difference positions;
     - other_updates of a channel difference were re-routed through the main loop and
       reached the channel's box only after SetChannelPts / SetState(diff.Pts);
     - too long: the new pts was persisted before the callback ran. *)
From Coq Require Import ZArith List Bool.
From TD Require Import Gen.GapCheck Model.SeqBox Model.UpdMgr.
Import ListNotations.
Open Scope Z_scope.

Fixpoint get_diff_old (fuel : nat) (c : config) (log : list entry) (vis : Z -> Z) (m : mgr) : mgr :=
  match fuel with
  | O => set_oof m
  | S f =>
    let m := clear_gaps (clear_gaps (clear_gaps m 0) 1) SEQ in
    let reqp := bstate (mbox m 0) in
    let reqq := bstate (mbox m 1) in
    let pp := pend log 0 reqp (vis 0) in
    let qq := pend log 1 reqq (vis 1) in
    match pp ++ qq with
    | [] => set_state m SEQ (vis (nseq c))
    | _ :: _ =>
      if tlf c vis reqp then
        let m := emit m [Persist 0 (vis 0); TooLong 0 reqp (vis 0)] in
        get_diff_old f c log vis (set_state m 0 (vis 0))
      else
        let '(cut, cutq, sliced) := cutf c log vis reqp reqq in
        let pp' := pend log 0 reqp cut in
        let qq' := pend log 1 reqq cutq in
        let others := filter (fun e => negb (is_msg e)) pp' ++ filter (fun e => negb (is_msg e)) qq' in
        let msgs := filter is_msg pp' ++ filter is_msg qq' in
        let m := fold_left (push_item c log vis) (isort route_key others) m in     (* through the boxes *)
        let m := emit m (delivers msgs ++ [Persist 0 cut; Persist 1 cutq]) in
        let m := set_state (set_state (set_state m 0 cut) 1 cutq) SEQ (vis (nseq c)) in
        if sliced then get_diff_old f c log vis m else m
    end
  end.

Fixpoint chan_diff_old (fuel : nat) (c : config) (log : list entry) (vis : Z -> Z) (s : Z) (m : mgr) : mgr :=
  match fuel with
  | O => set_oof m
  | S f =>
    let m := clear_gaps m s in
    let req := bstate (mbox m s) in
    let pp := pend log s req (vis s) in
    match pp with
    | [] => set_state (emit m [Persist s (vis s)]) s (vis s)
    | _ :: _ =>
      if ctlf c s (vis s) req then
        set_state (emit m [Persist s (vis s); TooLong s req (vis s)]) s (vis s)
      else
        let '(cut, sliced) := ccutf c s pp (vis s) in
        let pp' := pend log s req cut in
        let m := emit m (delivers (filter is_msg pp') ++ [Persist s cut]) in
        let m := set_state m s cut in
        let m := if sliced then chan_diff_old f c log vis s m else m in
        (* the re-routed other updates come back after the position moved *)
        fold_left (push_item c log vis) (filter (fun e => negb (is_msg e)) pp') m
    end
  end.

Definition mstep_old (c : config) (log : list entry) (m : mgr) (o : mop) : mgr :=
  match o with
  | MPushC vis cid sq ids p =>
    let '(m1, recover, sb) := pushc_apply c log vis m cid sq ids p in
    let m2 := if recover then get_diff_old (fuel_of log) c log vis m1 else m1 in
    match sb with Some b => set_box m2 SEQ b | None => m2 end
  | MTooLong vis | MTimerCommon vis => get_diff_old (fuel_of log) c log vis m
  | MChanTooLong vis s | MTimerChan vis s =>
    if (2 <=? s) && (s <? nseq c) && mtracked m s then chan_diff_old (fuel_of log) c log vis s m else m
  | MStartup vis =>
    fold_left (fun m s => chan_diff_old (fuel_of log) c log vis s m) (filter (tracked0 c) (chan_seqs c))
              (get_diff_old (fuel_of log) c log vis m)
  | MFailCommon _ => clear_gaps (clear_gaps (clear_gaps m 0) 1) SEQ
  | MFailChan _ s => if (2 <=? s) && (s <? nseq c) && mtracked m s then clear_gaps m s else m
  | MAffected _ id => fold_left (affected c) (find_entry log id) m
  end.
Definition mrun_old (c : config) (log : list entry) (ops : list mop) : mgr :=
  fold_left (mstep_old c log) ops (mgr_init c).

(* decidable versions of the specification predicates, for the witnesses *)
Definition deliveredb (s id : Z) (tr : list tev) : bool :=
  existsb (fun ev => match ev with Deliver s' i => (s' =? s) && (i =? id) | _ => false end) tr.
Definition toolongb (s p : Z) (tr : list tev) : bool :=
  existsb (fun ev => match ev with TooLong s' f t => (s' =? s) && (f <? p) && (p <=? t) | _ => false end) tr.
Definition count_delivered (s id : Z) (tr : list tev) : nat :=
  length (filter (fun ev => match ev with Deliver s' i => (s' =? s) && (i =? id) | _ => false end) tr).
(* some entry within the persisted range of its sequence is neither delivered nor reported *)
Definition unsafe_atb (c : config) (log : list entry) (tr : list tev) : bool :=
  existsb (fun e => (0 <=? eseq e) && (base c (eseq e) <? epos e) && (epos e <=? persisted c (eseq e) tr)
                    && negb (deliveredb (eseq e) (eid e) tr) && negb (toolongb (eseq e) (epos e) tr)) log.
