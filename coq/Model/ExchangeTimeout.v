(* Model for C12: the client exchange flow as the list of its blocking transport operations
   (GENERATED from exchange/client_flow.go + exchange/proto.go: Gen/ExchangeSteps.v), each with
   the deadline under which it runs.  Definitions only.

   An operation started at time [start] under a context whose deadline is [ctx] runs with
   deadline  min(ctx, start + timeout)  when it goes through the timeout-applying helpers
   (writeUnencrypted / tryRead / readUnencrypted), and with [ctx] itself when it calls
   conn.Recv / conn.Send directly.  The transport maps the context deadline to
   SetReadDeadline/SetWriteDeadline (transport/connection.go), so a blocked operation fails at
   its deadline and never if there is none. *)
From Coq Require Import ZArith List Bool Lia.
From TD Require Import Gen.ExchangeSteps.
Import ListNotations.
Open Scope Z_scope.

Inductive dl := Fin (t : Z) | Inf.
Definition dmin (a b : dl) : dl :=
  match a, b with
  | Fin x, Fin y => Fin (Z.min x y)
  | Fin x, Inf => Fin x
  | Inf, y => y
  end.
Definition within (d : dl) (b : Z) : Prop := match d with Fin t => t <= b | Inf => False end.
Definition withinb (d : dl) (b : Z) : bool := match d with Fin t => t <=? b | Inf => false end.

(* Who calls ClientExchange.Run (mtproto/connect.go, mtproto/read.go):
   initial connect without PFS: ctx = WithTimeout(caller, dialTimeout);
   initial connect with PFS and key regeneration after -404: the caller's / read loop's ctx. *)
Record config := {
  cfg_pfs : bool;
  cfg_regen : bool;          (* key regeneration after auth_key_not_found *)
  cfg_caller : dl;           (* deadline of the caller's context *)
  cfg_connect_start : Z;
  cfg_dial_timeout : Z
}.
(* [c_ctx_*] are GENERATED from mtproto/connect.go and mtproto/read.go (which context each call site
   hands down): 0 = the function's own ctx, 1 = ctx wrapped with the dial timeout, 2 = wrapped
   only when not PFS. *)
Definition ctx_of (code : Z) (pfs : bool) (own dial : dl) : dl :=
  if code =? 1 then dmin own dial
  else if code =? 2 then (if pfs then own else dmin own dial)
  else own.
Definition run_ctx (c : config) : dl :=
  let dial := Fin (cfg_connect_start c + cfg_dial_timeout c) in
  if cfg_regen c then ctx_of c_ctx_regen (cfg_pfs c) (cfg_caller c) dial
  else if cfg_pfs c
       then ctx_of c_ctx_pfs_perm true (ctx_of c_ctx_connect_pfs true (cfg_caller c) dial) dial
       else ctx_of c_ctx_connect_nonpfs false (cfg_caller c) dial.

(* One table row = (direction, bounded, restart):
   bounded: the call reaches conn.Send/Recv only under context.WithTimeout(ctx, timeout);
   restart: the call sits in a loop that arms a FRESH timeout for every frame of peer input it
   skips (the -404 loop of readUnencrypted before its repair), so the step lives until
   timeout after the LAST skipped frame. *)
Definition op := (Z * bool * bool)%type.
Definition op_dir (o : op) : Z := fst (fst o).
Definition op_bounded (o : op) : bool := snd (fst o).
Definition op_restart (o : op) : bool := snd o.

(* deadline of a single call started at [start] *)
Definition op_deadline (ctx : dl) (timeout start : Z) (bounded : bool) : dl :=
  if bounded then dmin ctx (Fin (start + timeout)) else ctx.

(* deadline of the whole STEP that starts at [start] when the peer delivers [n] frames the step
   skips, [gap] apart (0 <= gap <= timeout: each arrives before the running timeout) *)
Definition step_deadline (ctx : dl) (timeout start n gap : Z) (o : op) : dl :=
  op_deadline ctx timeout (if op_restart o then start + n * gap else start) (op_bounded o).

(* "the exchange fails no later than the exchange timeout after the step started" *)
Definition step_bounded (c : config) (timeout start n gap : Z) (o : op) : Prop :=
  within (step_deadline (run_ctx c) timeout start n gap o) (start + timeout).

Definition all_ops_bounded (ops : list op) : bool :=
  forallb (fun o => op_bounded o && negb (op_restart o)) ops.

(* n-th (1-based) operation of direction [dir] *)
Fixpoint nth_dir (ops : list op) (dir : Z) (n : nat) : option op :=
  match ops with
  | [] => None
  | o :: t => if op_dir o =? dir then match n with
                                     | O => None
                                     | S O => Some o
                                     | S k => nth_dir t dir k
                                     end
               else nth_dir t dir n
  end.
