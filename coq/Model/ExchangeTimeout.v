(* Model for C12: the client exchange flow as the list of its blocking transport operations
   (GENERATED from exchange/client_flow.go + exchange/proto.go: Gen/ExchangeSteps.v), each with
   the deadline under which it runs.  Definitions only.

   An operation started at time [start] under a context whose deadline is [ctx] runs with
   deadline  min(ctx, start + timeout)  when it goes through the timeout-applying helpers
   (writeUnencrypted / tryRead / readUnencrypted), and with [ctx] itself when it calls
   conn.Recv / conn.Send directly.  The transport maps the context deadline to
   SetReadDeadline/SetWriteDeadline (transport/connection.go), so a blocked operation fails at
   its deadline and never if there is none. *)
From Coq Require Import ZArith List Bool Lia.
From TD Require Import Gen.ExchangeSteps.
Import ListNotations.
Open Scope Z_scope.

Inductive dl := Fin (t : Z) | Inf.
Definition dmin (a b : dl) : dl :=
  match a, b with
  | Fin x, Fin y => Fin (Z.min x y)
  | Fin x, Inf => Fin x
  | Inf, y => y
  end.
Definition within (d : dl) (b : Z) : Prop := match d with Fin t => t <= b | Inf => False end.
Definition withinb (d : dl) (b : Z) : bool := match d with Fin t => t <=? b | Inf => false end.

(* Who calls ClientExchange.Run (mtproto/connect.go, mtproto/read.go):
   initial connect without PFS: ctx = WithTimeout(caller, dialTimeout);
   initial connect with PFS and key regeneration after -404: the caller's / read loop's ctx. *)
Record config := {
  cfg_pfs : bool;
  cfg_regen : bool;          (* key regeneration after auth_key_not_found *)
  cfg_caller : dl;           (* deadline of the caller's context *)
  cfg_connect_start : Z;
  cfg_dial_timeout : Z
}.
Definition run_ctx (c : config) : dl :=
  if negb (cfg_pfs c) && negb (cfg_regen c)
  then dmin (cfg_caller c) (Fin (cfg_connect_start c + cfg_dial_timeout c))
  else cfg_caller c.

Definition op_deadline (ctx : dl) (timeout start : Z) (bounded : bool) : dl :=
  if bounded then dmin ctx (Fin (start + timeout)) else ctx.

(* "the exchange fails no later than the exchange timeout after the step started" *)
Definition step_bounded (c : config) (timeout start : Z) (op : Z * bool) : Prop :=
  within (op_deadline (run_ctx c) timeout start (snd op)) (start + timeout).

Definition all_ops_bounded (ops : list (Z * bool)) : bool := forallb (fun op => snd op) ops.

(* n-th (1-based) operation of direction [dir] *)
Fixpoint nth_dir (ops : list (Z * bool)) (dir : Z) (n : nat) : option (Z * bool) :=
  match ops with
  | [] => None
  | op :: t => if fst op =? dir then match n with
                                     | O => None
                                     | S O => Some op
                                     | S k => nth_dir t dir k
                                     end
               else nth_dir t dir n
  end.
