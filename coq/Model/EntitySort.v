(* Model of telegram/message/entity: SortEntities (C36).
   Go's sort.Sort (pdqsort) uses plain insertion sort for slices of at most 12
   elements; that loop is modelled exactly (go_isort), parametrised by the
   comparison function, which is *generated* from entitySorter.Less
   (Gen/EntityLess.v).  Definitions only. *)
From Coq Require Import ZArith List Bool.
Import ListNotations.
Open Scope Z_scope.

Record ent := { e_off : Z; e_len : Z; e_tag : Z }.

Definition less_t := Z -> Z -> Z -> Z -> bool.
Definition lessb (less : less_t) (a b : ent) : bool :=
  less (e_off a) (e_len a) (e_off b) (e_len b).

(* inner loop of insertionSort: data[j] bubbles left while Less(j, j-1).
   [rev_left] is data[a..j-1] reversed (nearest element first). *)
Fixpoint bubble (less : less_t) (x : ent) (rev_left : list ent) : list ent :=
  match rev_left with
  | [] => [x]
  | y :: ys => if lessb less x y then y :: bubble less x ys else x :: y :: ys
  end.
(* bubble returns the new left part, again reversed. *)

Definition go_isort_rev (less : less_t) (l : list ent) : list ent :=
  fold_left (fun acc x => bubble less x acc) l [].
Definition go_isort (less : less_t) (l : list ent) : list ent := rev (go_isort_rev less l).

(* Specification order (TDLib): offset ascending, then length descending. *)
Definition lt_spec (ao al bo bl : Z) : Prop := ao < bo \/ (ao = bo /\ al > bl).
Definition le_key (a b : ent) : Prop :=
  e_off a < e_off b \/ (e_off a = e_off b /\ e_len a >= e_len b).
Definition le_keyb (a b : ent) : bool :=
  (e_off a <? e_off b) || ((e_off a =? e_off b) && (e_len a >=? e_len b)).
Fixpoint sortedb (l : list ent) : bool :=
  match l with
  | a :: (b :: _) as t => le_keyb a b && sortedb t
  | _ => true
  end.
Definition keys (l : list ent) : list (Z * Z) := map (fun e => (e_off e, e_len e)) l.
