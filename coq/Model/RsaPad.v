(* Model of crypto/rsa_pad.go (RSAPad / DecodeRSAPad), crypto/rsa_hashed.go (RSAEncryptHashed /
   RSADecryptHashed) and the helpers rsaEncrypt / rsaDecrypt / FillBytes of crypto/rsa.go,
   crypto/fill_bytes.go, as the code is.  Definitions only.

   Abstract primitives (Section variables): SHA-256, SHA-1, the AES-256 block functions (IGE mode
   is defined here, following github.com/gotd/ige) and big.Int.Exp.  The random source is a
   recorded byte stream consumed by io.ReadFull.  Size limits come from Gen/RsaConsts.v
   (regenerated from the source on every run). *)
From Coq Require Import ZArith List Bool Lia.
From TD Require Import Lib.Bytes Lib.GoSem Lib.BeBytes Gen.RsaConsts.
Import ListNotations.
Open Scope Z_scope.

Inductive rsa_err : Type :=
| ETooBig          (* "data length is bigger ..." *)
| ERand            (* io.ReadFull on the random source failed *)
| EInvalid         (* rsaDecrypt: plaintext does not fit the destination *)
| EHashMismatch
| EOutOfFuel.      (* model artefact; proved unreachable *)

Definition rres := res rsa_err (list Z).

Section RsaModel.
  Variable sha256 : list Z -> list Z.
  Variable sha1 : list Z -> list Z.
  Variable aes_enc : list Z -> list Z -> list Z.   (* key, 16-byte block *)
  Variable aes_dec : list Z -> list Z -> list Z.
  Variable modexp : Z -> Z -> Z -> Z.              (* big.Int.Exp(b, e, m) *)
  Variable N : Z.                                  (* key.N *)
  Variable e : Z.                                  (* key.E *)
  Variable d : Z.                                  (* key.D *)

  (* ---- github.com/gotd/ige EncryptBlocks / DecryptBlocks, iv = c0 || m0 ---- *)
  Fixpoint ige_enc (k c m : list Z) (nblk : nat) (src : list Z) : list Z :=
    match nblk with
    | O => []
    | S n =>
      let p := firstn 16 src in
      let o := xor_bytes (aes_enc k (xor_bytes p c)) m in
      o ++ ige_enc k o p n (skipn 16 src)
    end.
  Fixpoint ige_dec (k c m : list Z) (nblk : nat) (src : list Z) : list Z :=
    match nblk with
    | O => []
    | S n =>
      let t := firstn 16 src in
      let o := xor_bytes (aes_dec k (xor_bytes t m)) c in
      o ++ ige_dec k t o n (skipn 16 src)
    end.
  Definition ige_encrypt (k iv src : list Z) : rres :=
    if Z.of_nat (length src) mod 16 =? 0
    then Ok (ige_enc k (firstn 16 iv) (skipn 16 iv) (length src / 16) src)
    else Panic.                                   (* "src not full blocks" *)
  Definition ige_decrypt (k iv src : list Z) : rres :=
    if Z.of_nat (length src) mod 16 =? 0
    then Ok (ige_dec k (firstn 16 iv) (skipn 16 iv) (length src / 16) src)
    else Panic.
  Definition zero_iv : list Z := repeat 0 32.     (* bin.Int256{} *)

  (* ---- crypto/rsa.go ---- *)
  (* rsaEncrypt: z^E mod N, FillBytes into rsaLen bytes (panics when it does not fit) *)
  Definition rsa_encrypt (data : list Z) : rres :=
    let c := modexp (be_dec data) e N in
    if c <? 256 ^ c_rsaLen then Ok (be_enc (Z.to_nat c_rsaLen) c) else Panic.
  (* rsaDecrypt: the ciphertext must be exactly rsaLen bytes and below the modulus (otherwise
     c + k*N and zero-prefixed forms would be aliases of c); then crypto.FillBytes: false when
     (bitlen+7)/8 > len(to) *)
  Definition rsa_decrypt (data : list Z) (n : nat) : option (list Z) :=
    if negb (Z.of_nat (length data) =? c_rsaLen) then None else
    let c := be_dec data in
    if N <=? c then None else
    let m := modexp c d N in
    if m <? 256 ^ Z.of_nat n then Some (be_enc n m) else None.

  (* ---- RSAPad ---- *)
  (* steps 2, 4-7 for one temp key *)
  Definition pad_key_aes_encrypted (tk dwp : list Z) : rres :=
    let dpr := rev dwp in
    let dwh := firstn (Z.to_nat c_dataWithHashLength) (dpr ++ sha256 (tk ++ dwp)) in
    do ae <- ige_encrypt tk zero_iv dwh;
    let tkx := xor_bytes tk (sha256 ae) in
    Ok (tkx ++ ae).

  Fixpoint rsa_pad_loop (fuel : nat) (dwp r : list Z) : rres :=
    match fuel with
    | O => Err EOutOfFuel
    | S f =>
      match read_full (Z.to_nat c_tempKeySize) r with
      | None => Err ERand                           (* "generate temp_key" *)
      | Some (tk, r') =>
        do kae <- pad_key_aes_encrypted tk dwp;
        if N <=? be_dec kae then rsa_pad_loop f dwp r'   (* step 8: retry *)
        else rsa_encrypt kae                             (* step 9 *)
      end
    end.

  Definition rsa_pad (data r : list Z) : rres :=
    if c_rsaPadDataLimit <? Z.of_nat (length data) then Err ETooBig else
    match read_full (Z.to_nat c_dataWithPaddingLength - length data) r with
    | None => Err ERand                               (* "pad data with random" *)
    | Some (pad, r') => rsa_pad_loop (S (length r')) (data ++ pad) r'
    end.

  (* ---- DecodeRSAPad ---- *)
  Definition decode_rsa_pad (data : list Z) : rres :=
    match rsa_decrypt data 256 with
    | None => Err EInvalid
    | Some ed =>
      let tkx := firstn (Z.to_nat c_tempKeySize) ed in
      let ae := skipn (Z.to_nat c_tempKeySize) ed in
      let tk := xor_bytes tkx (sha256 ae) in
      do dwh <- ige_decrypt tk zero_iv ae;
      let dwp := rev (firstn (Z.to_nat c_dataWithPaddingLength) dwh) in
      let hash := skipn (Z.to_nat c_dataWithPaddingLength) dwh in
      if beqb hash (sha256 (tk ++ dwp)) then Ok dwp else Err EHashMismatch
    end.

  (* ---- RSAEncryptHashed ---- *)
  Definition rsa_encrypt_hashed (data r : list Z) : rres :=
    if c_rsaDataLen <? Z.of_nat (length data) then Err ETooBig else
    match read_full (Z.to_nat c_rsaWithHashLen) r with
    | None => Err ERand
    | Some (rnd, _) =>
      let h := firstn 20 (sha1 data) in
      let dwh := h ++ data ++ skipn (20 + length data) rnd in
      rsa_encrypt dwh
    end.

  (* ---- RSADecryptHashed: longest prefix of the 235 data bytes whose SHA-1 is the hash ---- *)
  Fixpoint guess_data (hash padded : list Z) (n : nat) : option (list Z) :=
    let cand := firstn n padded in
    if beqb (sha1 cand) hash then Some cand else
    match n with
    | O => None
    | S k => guess_data hash padded k
    end.
  Definition rsa_decrypt_hashed (data : list Z) : rres :=
    match rsa_decrypt data (Z.to_nat c_rsaWithHashLen) with
    | None => Err EInvalid
    | Some dwh =>
      let hash := firstn 20 dwh in
      let padded := skipn 20 dwh in
      match guess_data hash padded (length padded) with
      | Some x => Ok x
      | None => Err EHashMismatch
      end
    end.
End RsaModel.

(* ---- assumptions about the abstract primitives; they appear as explicit hypotheses of the
        C14 theorems (Prop/C14.v).  Block-cipher statements are restricted to 16-byte blocks. ---- *)
Definition sha256_wf (sha256 : list Z -> list Z) : Prop :=
  forall x, length (sha256 x) = 32%nat /\ bytes_ok (sha256 x).
Definition sha1_wf (sha1 : list Z -> list Z) : Prop :=
  forall x, length (sha1 x) = 20%nat /\ bytes_ok (sha1 x).
Definition aes_wf (aes_enc : list Z -> list Z -> list Z) : Prop :=
  forall k b, length b = 16%nat -> bytes_ok b -> length (aes_enc k b) = 16%nat /\ bytes_ok (aes_enc k b).
Definition aes_inverse (aes_enc aes_dec : list Z -> list Z -> list Z) : Prop :=
  forall k b, length b = 16%nat -> bytes_ok b -> aes_dec k (aes_enc k b) = b.
(* the reverse direction is needed only for the acceptance characterisation *)
Definition aes_dec_wf (aes_dec : list Z -> list Z -> list Z) : Prop :=
  forall k b, length b = 16%nat -> bytes_ok b -> length (aes_dec k b) = 16%nat /\ bytes_ok (aes_dec k b).
Definition aes_inverse_r (aes_enc aes_dec : list Z -> list Z -> list Z) : Prop :=
  forall k b, length b = 16%nat -> bytes_ok b -> aes_enc k (aes_dec k b) = b.
(* big.Int.Exp for a non-negative exponent and the modulus N *)
Definition modexp_is_pow (modexp : Z -> Z -> Z -> Z) (N : Z) : Prop :=
  forall b x, 0 <= x -> modexp b x N = b ^ x mod N.
(* matching key pair: decryption undoes encryption below the modulus *)
Definition rsa_key_pair (N e d : Z) : Prop :=
  0 <= e /\ 0 <= d /\ forall m, 0 <= m < N -> (m ^ e mod N) ^ d mod N = m.
(* the reverse direction (encryption undoes decryption below the modulus) is used only for the
   statement that distinct ciphertexts have distinct plaintext blocks *)
Definition rsa_key_pair_r (N e d : Z) : Prop :=
  forall c, 0 <= c < N -> (c ^ d mod N) ^ e mod N = c.
