(* Model of telegram/message/markdown: renderer (parser.go: renderBlocks / renderBlock /
   renderInlines / renderInline / styled / renderLink / writeRaw) and Markdown() (markdown.go) after
   fix 670da85fb (the source must be valid UTF-8).  Definitions only.

   goldmark is NOT modelled: the model consumes the AST goldmark produced, projected by the harness
   to the node kinds the renderer distinguishes.  Per node the harness supplies the bytes the renderer
   reads from goldmark (segment values, util.UnescapePunctuations of them, fenced code lines) and the
   outcome of renderer.urlFormatter (net/url): f < 0 error, f = 0 nil formatter, f = tag+1. *)
From Coq Require Import ZArith List Bool.
From TD Require Import Lib.GoSem Lib.Utf Model.EntitySort Model.Entity Model.Html.
Import ListNotations.
Open Scope Z_scope.

Inductive mdi :=                                   (* inline nodes *)
| MText (raw unesc : list Z) (brk : bool)          (* ast.Text: Segment.Value, UnescapePunctuations of it, soft/hard break *)
| MString (bs : list Z)                            (* ast.String *)
| MCode (kids : mdis)                              (* ast.CodeSpan *)
| MStyled (tag : Z) (kids : mdis)                  (* Emphasis (bold / italic), Strikethrough, spoiler *)
| MLink (kids : mdis) (f : Z)                      (* ast.Link / ast.Image with the urlFormatter outcome *)
| MInl (kids : mdis)                               (* any other inline node *)
with mdis := INil | ICons (h : mdi) (t : mdis).

Inductive mdb :=                                   (* block nodes *)
| MPara (kids : mdis)                              (* Paragraph, TextBlock *)
| MQuote (kids : mdbs)                             (* Blockquote *)
| MFenced (lines : list (list Z)) (lang : bool)    (* FencedCodeBlock: line segment values, Language != "" *)
| MBlock (kids : mdbs)                             (* any other block *)
with mdbs := BNil | BCons (h : mdb) (t : mdbs).

(* writeRaw *)
Fixpoint write_raw (b : bstate) (n : mdi) : bstate :=
  match n with
  | MText raw _ _ => b_write b raw
  | MString bs => b_write b bs
  | MCode k | MStyled _ k | MLink k _ | MInl k => write_raws b k
  end
with write_raws (b : bstate) (l : mdis) : bstate :=
  match l with
  | INil => b
  | ICons h t => write_raws (write_raw b h) t
  end.

(* if token.UTF16Length(builder) > 0 { token.Apply(builder, f) } *)
Definition apply_if (tk : tok) (b : bstate) (tag : Z) : bstate :=
  if b_u16 b - t_u16 tk >? 0 then b_apply b tk [tag] else b.

Fixpoint render_inl (b : bstate) (n : mdi) : res unit bstate :=
  match n with
  | MText _ unesc brk =>
    let b1 := b_write b unesc in Ok (if brk then b_write_byte b1 10 else b1)
  | MString bs => Ok (b_write b bs)
  | MCode kids => let tk := b_token b in Ok (apply_if tk (write_raws b kids) T_code)
  | MStyled tag kids =>
    let tk := b_token b in
    do b1 <- render_inls b kids; Ok (apply_if tk b1 tag)
  | MLink kids f =>
    let tk := b_token b in
    do b1 <- render_inls b kids;
    if b_u16 b1 - t_u16 tk =? 0 then Ok b1
    else if f <? 0 then Err tt
    else if f =? 0 then Ok b1
    else Ok (b_apply b1 tk [f - 1])
  | MInl kids => render_inls b kids
  end
with render_inls (b : bstate) (l : mdis) : res unit bstate :=
  match l with
  | INil => Ok b
  | ICons h t => do b1 <- render_inl b h; render_inls b1 t
  end.

(* bytes.TrimRight(code, "\n") *)
Fixpoint trim_nl_rev (r : list Z) : list Z :=
  match r with
  | 10 :: t => trim_nl_rev t
  | _ => r
  end.
Definition trim_nl (s : list Z) : list Z := rev (trim_nl_rev (rev s)).
Definition fenced_code (lines : list (list Z)) : list Z := trim_nl (concat lines).

Fixpoint render_block (b : bstate) (n : mdb) : res unit bstate :=
  match n with
  | MPara kids => render_inls b kids
  | MQuote kids =>
    let tk := b_token b in
    do b1 <- render_blocks b kids true; Ok (apply_if tk b1 T_blockquote)
  | MFenced lines lang =>
    let tk := b_token b in
    Ok (apply_if tk (b_write b (fenced_code lines)) (if lang then T_pre_lang else T_pre))
  | MBlock kids => render_blocks b kids true
  end
with render_blocks (b : bstate) (l : mdbs) (first : bool) : res unit bstate :=
  match l with
  | BNil => Ok b
  | BCons h t =>
    let b0 := if first then b else b_write b [10; 10] in
    do b1 <- render_block b0 h; render_blocks b1 t false
  end.

(* markdown.Markdown(r, b, opts) then the caller's b.Complete() *)
Definition markdown_complete (src_valid : bool) (b : bstate) (doc : mdbs) : res unit (list Z * list ent) :=
  if src_valid then
    do b1 <- render_blocks b doc true; snd (b_complete (b_shrink b1))
  else Err tt.

(* every byte string the renderer writes is valid UTF-8 (what goldmark yields for a valid source:
   its segments are cut at ASCII bytes only -- checked by the harness on every run, not proved) *)
Fixpoint mdi_ok (n : mdi) : Prop :=
  match n with
  | MText raw unesc _ => utf8_validb raw = true /\ utf8_validb unesc = true
  | MString bs => utf8_validb bs = true
  | MCode k | MStyled _ k | MLink k _ | MInl k => mdis_ok k
  end
with mdis_ok (l : mdis) : Prop :=
  match l with INil => True | ICons h t => mdi_ok h /\ mdis_ok t end.
Fixpoint mdb_ok (n : mdb) : Prop :=
  match n with
  | MPara k => mdis_ok k
  | MQuote k | MBlock k => mdbs_ok k
  | MFenced lines _ => utf8_validb (fenced_code lines) = true
  end
with mdbs_ok (l : mdbs) : Prop :=
  match l with BNil => True | BCons h t => mdb_ok h /\ mdbs_ok t end.
