(* Model of mtproto/ping.go (C43): the ping map, Ping / pingDelayDisconnect, handlePong and the
   keep-alive loop, as a labelled transition system.  One event = one atomic action:
   a pingMux-protected region (pong(), handlePong, removePong), the write of the request,
   a context ending, or the commit of the final select.  Theorems quantify over ALL event
   sequences (all schedules, all pong scripts).  Definitions only. *)
From Coq Require Import ZArith List Bool.
Import ListNotations.
Open Scope Z_scope.

Inductive stage :=
| Reg        (* channel registered in the map, request not yet written *)
| Sent       (* request written, waiting in `select { case <-pong: ...; case <-ctx.Done(): ... }` *)
| RetNil     (* returned nil *)
| RetErr.    (* returned an error (write error or ctx.Err()) *)

Record call := {
  cid : Z;          (* ping id *)
  cstage : stage;
  cclosed : bool;   (* its channel was closed by handlePong *)
  cctx : bool;      (* its context is done *)
  cown : nat;       (* ghost: pong events with its own id that closed ITS channel *)
  cloop : bool      (* started by pingLoop *)
}.

Record pstate := {
  pmap : list (Z * nat);   (* c.ping: ping id -> index of the call owning the channel *)
  calls : list call;
  loop_cur : option nat;   (* pingLoop is inside the ping call with that index *)
  loop_dead : bool         (* pingLoop returned "disconnect (pong missed)" *)
}.

Definition pinit : pstate := {| pmap := []; calls := []; loop_cur := None; loop_dead := false |}.

Definition pdel (id : Z) (m : list (Z * nat)) : list (Z * nat) := filter (fun p => negb (fst p =? id)) m.
Definition pget (id : Z) (m : list (Z * nat)) : option nat :=
  match find (fun p => fst p =? id) m with Some p => Some (snd p) | None => None end.

Fixpoint upd_call (l : list call) (k : nat) (f : call -> call) : list call :=
  match l, k with
  | [], _ => []
  | c :: t, O => f c :: t
  | c :: t, S j => c :: upd_call t j f
  end.

Inductive ev :=
| EStart (id : Z) (byloop : bool)   (* pong(id): c.ping[id] = new channel (overwrites an equal id) *)
| EWrite (k : nat) (ok : bool)      (* writeServiceMessage returned (nil / error) *)
| EPong (id : Z)                    (* handlePong for a pong carrying id *)
| ECtx (k : nat)                    (* the call's context ends: caller cancel or the loop's WithTimeout *)
| ERet (k : nat) (ok : bool).      (* the select commits: <-pong (ok = true, returns nil) or <-ctx.Done() (error) *)

Definition set_stage (s : stage) (c : call) : call :=
  {| cid := cid c; cstage := s; cclosed := cclosed c; cctx := cctx c; cown := cown c; cloop := cloop c |}.
Definition set_closed (c : call) : call :=
  {| cid := cid c; cstage := cstage c; cclosed := true; cctx := cctx c; cown := S (cown c); cloop := cloop c |}.
Definition set_ctx (c : call) : call :=
  {| cid := cid c; cstage := cstage c; cclosed := cclosed c; cctx := true; cown := cown c; cloop := cloop c |}.

Definition stage_eqb (a b : stage) : bool :=
  match a, b with Reg, Reg | Sent, Sent | RetNil, RetNil | RetErr, RetErr => true | _, _ => false end.

(* the loop's bookkeeping when call k returns *)
Definition loop_after (s : pstate) (k : nat) (ok : bool) : option nat * bool :=
  match loop_cur s with
  | Some j => if Nat.eqb j k then (None, if ok then loop_dead s else true) else (loop_cur s, loop_dead s)
  | None => (None, loop_dead s)
  end.

Definition pstep (s : pstate) (e : ev) : option pstate :=
  match e with
  | EStart id byloop =>
      if byloop && (match loop_cur s with Some _ => true | None => loop_dead s end) then None
      else
        let k := length (calls s) in
        Some {| pmap := (id, k) :: pdel id (pmap s);
                calls := calls s ++ [{| cid := id; cstage := Reg; cclosed := false; cctx := false; cown := O; cloop := byloop |}];
                loop_cur := if byloop then Some k else loop_cur s;
                loop_dead := loop_dead s |}
  | EWrite k ok =>
      match nth_error (calls s) k with
      | Some c =>
          if stage_eqb (cstage c) Reg then
            if ok then Some {| pmap := pmap s; calls := upd_call (calls s) k (set_stage Sent);
                               loop_cur := loop_cur s; loop_dead := loop_dead s |}
            else (* return errors.Wrap(err, "write"); deferred removePong *)
              let '(lc, ld) := loop_after s k false in
              Some {| pmap := pdel (cid c) (pmap s); calls := upd_call (calls s) k (set_stage RetErr);
                      loop_cur := lc; loop_dead := ld |}
          else None
      | None => None
      end
  | EPong id =>
      match pget id (pmap s) with
      | Some k => Some {| pmap := pdel id (pmap s); calls := upd_call (calls s) k set_closed;
                          loop_cur := loop_cur s; loop_dead := loop_dead s |}
      | None => Some s
      end
  | ECtx k =>
      match nth_error (calls s) k with
      | Some _ => Some {| pmap := pmap s; calls := upd_call (calls s) k set_ctx;
                          loop_cur := loop_cur s; loop_dead := loop_dead s |}
      | None => None
      end
  | ERet k ok =>
      match nth_error (calls s) k with
      | Some c =>
          if stage_eqb (cstage c) Sent && (if ok then cclosed c else cctx c) then
            let '(lc, ld) := loop_after s k ok in
            Some {| pmap := pdel (cid c) (pmap s);
                    calls := upd_call (calls s) k (set_stage (if ok then RetNil else RetErr));
                    loop_cur := lc; loop_dead := ld |}
          else None
      | None => None
      end
  end.

Fixpoint prun (s : pstate) (tr : list ev) : option pstate :=
  match tr with
  | [] => Some s
  | e :: t => match pstep s e with Some s' => prun s' t | None => None end
  end.
